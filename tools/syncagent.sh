#!/bin/bash
# bring a builder sandbox /root/w/<name> up to date with /verif main and /repo main
# (its branch must already be merged into main: the branch is fast-forwarded / merged with main,
#  the private clone of the library is reset to /repo's main)
n=$1
W=/root/w/$n
[ -d $W/verif ] || { echo "no $W"; exit 1; }
git -C $W/verif add -A; git -C $W/verif commit -q -m "work in progress before sync" 2>/dev/null
git -C $W/verif merge --no-edit main 2>&1 | tail -1
git -C $W/repo fetch -q /repo main && git -C $W/repo reset -q --hard FETCH_HEAD && git -C $W/repo clean -fdq
echo "$n: verif $(git -C $W/verif log --oneline -1 | cut -c1-60) | repo $(git -C $W/repo log --oneline -1 | cut -c1-50)"
