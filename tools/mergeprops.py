#!/usr/bin/env python3
"""Resolve a merge conflict in props/<Id>.json: union of list fields, concatenation of the text both
sides appended to the common base.  usage (during a conflicted merge): tools/mergeprops.py props/C01.json"""
import json, subprocess, sys
path = sys.argv[1]
def stage(n):
    return json.loads(subprocess.run(["git", "show", f":{n}:{path}"], capture_output=True, text=True, check=True).stdout)
base, ours, theirs = stage(1), stage(2), stage(3)
out = dict(ours)
for k, v in theirs.items():
    if k not in base and k not in ours:
        out[k] = v
    elif isinstance(v, list):
        for x in v:
            if x not in out.get(k, []):
                out.setdefault(k, []).append(x)
    elif isinstance(v, str) and v != base.get(k) and v != ours.get(k):
        b = base.get(k, "")
        if v.startswith(b) and ours.get(k, "").startswith(b):
            out[k] = ours[k] + v[len(b):]
        elif ours.get(k) == b:
            out[k] = v
        else:
            sys.exit(f"{path}: field {k} rewritten on both sides, resolve by hand")
with open(path, "w") as f:
    f.write("{\n" + ",\n".join(" " + json.dumps(k) + ": " + json.dumps(v, ensure_ascii=False) for k, v in out.items()) + "\n}\n")
print("resolved", path)
