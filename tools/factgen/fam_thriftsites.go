package main

// Family "writesites_thrift" (property C14): the error dispositions of the thrift encoder/decoder
// (encoding/thrift, non-test files) and of the read path of file.go.
//
// With `WriteBufferSize(0)` the thrift encoder of the footer and of the page index writes byte-wise
// straight to the destination: every `w.writeByte(…)`, `w.writeUvarint(…)`, `io.WriteString(…)` of
// compact.go / binary.go / encode.go is a write site of the byte path. The family lists every call
//   - of a function or method of the package all of whose declarations under that name return an
//     error last, or
//   - of a Write / WriteString / WriteByte / Flush / ReadFrom / Discard / ReadFull / Read* method or
//     io function (the leaves),
// with the same AST-level flag as family `writesites`: "the error result flows to the return of the
// enclosing function". For file.go only the discarded errors (kind `errdrop`: a call statement, or
// an assignment of the error to `_`) of the leaves on the page read path are listed.

import (
	"fmt"
	"go/ast"
	"go/parser"
	"go/token"
	"os"
	"path/filepath"
	"sort"
	"strings"
)

func init() { RegisterRaw("writesites_thrift", famThriftSites) }

var tsLeafMethods = map[string]bool{"Write": true, "WriteString": true, "WriteByte": true, "Flush": true,
	"ReadFrom": true, "Discard": true, "ReadByte": true, "Read": true, "Peek": true}
var tsReadLeafMethods = map[string]bool{"Discard": true, "ReadByte": true, "Read": true, "ReadAt": true, "Peek": true, "Seek": true}
var tsIoFuncs = map[string]bool{"WriteString": true, "ReadFull": true, "Copy": true, "CopyN": true, "ReadAtLeast": true}

func tsCollect(dir string, fileOK func(string) bool, funcOK func(string) bool, leaves map[string]bool, onlyDrops bool, leafOnly bool) ([]wsSite, error) {
	fset := token.NewFileSet()
	ents, err := os.ReadDir(dir)
	if err != nil {
		return nil, err
	}
	total := map[string]int{}
	witherr := map[string]int{}
	plainErr := map[string]bool{}
	declared := map[string]bool{}
	var files []*ast.File
	var names []string
	for _, e := range ents {
		n := e.Name()
		if e.IsDir() || !strings.HasSuffix(n, ".go") || strings.HasSuffix(n, "_test.go") {
			continue
		}
		f, err := parser.ParseFile(fset, filepath.Join(dir, n), nil, parser.SkipObjectResolution)
		if err != nil {
			return nil, err
		}
		for _, d := range f.Decls {
			if fd, ok := d.(*ast.FuncDecl); ok {
				declared[fd.Name.Name] = true
				if fd.Recv == nil {
					plainErr[fd.Name.Name] = lastResultIsError(fd.Type)
					continue
				}
				total[fd.Name.Name]++
				if lastResultIsError(fd.Type) {
					witherr[fd.Name.Name]++
				}
			}
		}
		if fileOK(n) {
			files = append(files, f)
			names = append(names, n)
		}
	}
	a := &wsAnalyzer{fset: fset, errFuncs: map[string]bool{}, errPlain: plainErr, declared: declared}
	for n, t := range total {
		a.errFuncs[n] = witherr[n] == t
	}
	var sites []wsSite
	for fi, f := range files {
		for _, d := range f.Decls {
			fd, ok := d.(*ast.FuncDecl)
			if !ok || fd.Body == nil {
				continue
			}
			fn := wsFuncName(fd)
			if !funcOK(fn) {
				continue
			}
			p := wsBuildParents(fd)
			a.tainted = map[string]int{}
			a.fnParams = map[string]bool{}
			var calls []*ast.CallExpr
			ast.Inspect(fd.Body, func(n ast.Node) bool {
				if c, ok := n.(*ast.CallExpr); ok {
					calls = append(calls, c)
				}
				return true
			})
			sort.SliceStable(calls, func(i, j int) bool { return calls[i].Pos() < calls[j].Pos() })
			count := map[string]int{}
			for _, c := range calls {
				kind := ""
				if s, ok := c.Fun.(*ast.SelectorExpr); ok {
					if id, ok := s.X.(*ast.Ident); ok && id.Name == "io" && tsIoFuncs[s.Sel.Name] {
						kind = "leaf"
					} else if leaves[s.Sel.Name] && a.localMethodCall(c) {
						kind = "leaf"
					}
				}
				if kind == "" && !leafOnly && a.isErrCall(c) {
					kind = "call"
				}
				if kind == "" {
					continue
				}
				text := exprText(fset, c.Fun)
				count[text]++
				ok, how := a.disposition(p, c)
				if onlyDrops {
					if ok || !(how == "unchecked" || how == "assigned-blank") {
						continue
					}
					kind = "errdrop"
				}
				sites = append(sites, wsSite{
					name:       fmt.Sprintf("%s:%s:%s#%d", names[fi], fn, text, count[text]),
					line:       fset.Position(c.Pos()).Line,
					kind:       kind,
					propagates: ok,
					how:        how,
				})
			}
		}
	}
	return sites, nil
}

func tsEmit(sb *strings.Builder, def string, sites []wsSite) {
	fmt.Fprintf(sb, "def %s : List WriteSite := [\n", def)
	for i, s := range sites {
		sep := ","
		if i == len(sites)-1 {
			sep = ""
		}
		fmt.Fprintf(sb, "  ⟨%s, %d, %s, %s, %s⟩%s\n", LeanString(s.name), s.line, LeanString(s.kind), LeanBool(s.propagates), LeanString(s.how), sep)
	}
	sb.WriteString("]\n")
}

// writer side of the thrift package: methods of the *Writer / Encoder types and the encode functions
func tsWriterSide(fn string) bool {
	recv, name := "", fn
	if i := strings.Index(fn, "."); i >= 0 {
		recv, name = fn[:i], fn[i+1:]
	}
	l := strings.ToLower(name)
	return strings.HasSuffix(recv, "Writer") || strings.HasSuffix(recv, "Encoder") ||
		strings.HasPrefix(l, "encode") || strings.HasPrefix(l, "write")
}

func famThriftSites(repo string) (string, error) {
	th, err := tsCollect(filepath.Join(repo, "encoding", "thrift"), func(n string) bool {
		return n == "compact.go" || n == "binary.go" || n == "encode.go" || n == "protocol.go"
	}, tsWriterSide, tsLeafMethods, false, false)
	if err != nil {
		return "", err
	}
	rd, err := tsCollect(repo, func(n string) bool { return n == "file.go" }, func(string) bool { return true }, tsReadLeafMethods, true, true)
	if err != nil {
		return "", err
	}
	var sb strings.Builder
	sb.WriteString("/-- encoding/thrift (compact.go, binary.go, encode.go, protocol.go), writer side (methods of the\n")
	sb.WriteString("    *Writer / Encoder types, encode*/write* functions): calls of error-returning functions of the\n")
	sb.WriteString("    package and of the io leaves; name = `<file>:<function>:<callee>#<occurrence>` -/\n")
	tsEmit(&sb, "thriftWriteSites", th)
	sb.WriteString("\n/-- file.go: io leaves of the read path (Read*/Discard/Seek/Peek and io.ReadFull/io.Copy) whose error\n    is discarded (call statement or `_`) -/\n")
	tsEmit(&sb, "fileReadDrops", rd)
	return sb.String(), nil
}
