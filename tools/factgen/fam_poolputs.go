package main

// Family poolputs (C15, round 7): every hand-back of an object to a pool in internal/memory, and
// whether the function goes on touching the object afterwards.
//
// Props/C15Grow proves that pooled storage is touched by one goroutine at a time exactly when the
// put is the owner's LAST touch (`disc`). This family reads that off the source:
//
//	memoryPutSites : (function, put call, touchedAfter, first statement that touches it or "")
//	                 for every call `putSliceToPool(x, ..)` or `<pool>.Put(x)` in a non-test file of
//	                 internal/memory (verif hooks excluded)
//
// `touchedAfter` comes from a small forward walk over the function body (go/ast, no types): paths
// (`x`, `x.f`, `x[i]`) are grouped into alias classes by plain assignments `a = b` / `a := b`; at
// a put of `x` every path in the class of `x`, and every path `y.f…` under a member `y` of that
// class together with ITS class, becomes stale; an assignment to a path un-stales it (and whatever
// lies under it); any other occurrence of a stale path in a statement executed later (branches of
// an `if`/`switch` are walked separately and merged, a branch that ends in `return` does not flow
// on, loop bodies are walked twice) is a touch. One invariant of the package is assumed and named:
// in the methods of SliceBuffer, `b.data` aliases `b.slice.data` on entry ("data: the active
// slice"). The walk is name-based and trusted; it does not follow calls.

import (
	"go/ast"
	"os"
	"path/filepath"
	"sort"
	"strings"
)

func init() { Register("poolputs", poolPuts) }

type ppState struct {
	class map[string]int // path -> class id
	stale map[string]bool
	next  int
}

func (s *ppState) clone() *ppState {
	c := &ppState{class: map[string]int{}, stale: map[string]bool{}, next: s.next}
	for k, v := range s.class {
		c.class[k] = v
	}
	for k := range s.stale {
		c.stale[k] = true
	}
	return c
}

func under(p, root string) bool {
	return p == root || strings.HasPrefix(p, root+".") || strings.HasPrefix(p, root+"[")
}

func (s *ppState) kill(p string) {
	for k := range s.class {
		if under(k, p) {
			delete(s.class, k)
		}
	}
	for k := range s.stale {
		if under(k, p) {
			delete(s.stale, k)
		}
	}
}

func (s *ppState) join(a, b string) {
	ia, oka := s.class[a]
	ib, okb := s.class[b]
	switch {
	case oka && okb:
		for k, v := range s.class {
			if v == ib {
				s.class[k] = ia
			}
		}
	case oka:
		s.class[b] = ia
	case okb:
		s.class[a] = ib
	default:
		s.next++
		s.class[a], s.class[b] = s.next, s.next
	}
}

func (s *ppState) members(p string) []string {
	out := []string{p}
	if id, ok := s.class[p]; ok {
		for k, v := range s.class {
			if v == id && k != p {
				out = append(out, k)
			}
		}
	}
	return out
}

func (s *ppState) put(x string) {
	for _, y := range s.members(x) {
		s.stale[y] = true
		for q := range s.class {
			if q != y && under(q, y) {
				for _, m := range s.members(q) {
					s.stale[m] = true
				}
			}
		}
	}
}

type ppSite struct {
	fn, call string
	line     int
	touched  bool
	by       string
	byLine   int
}

type ppWalker struct {
	r     *Repo
	fn    string
	sites []*ppSite
	live  []*ppSite // puts whose object may still be named by a stale path
}

func ppPath(r *Repo, e ast.Expr) string {
	switch x := e.(type) {
	case *ast.Ident:
		if x.Name == "nil" || x.Name == "_" {
			return ""
		}
		return x.Name
	case *ast.SelectorExpr:
		if p := ppPath(r, x.X); p != "" {
			return p + "." + x.Sel.Name
		}
	case *ast.IndexExpr:
		if p := ppPath(r, x.X); p != "" {
			return p + "[" + r.Text(x.Index) + "]"
		}
	case *ast.ParenExpr:
		return ppPath(r, x.X)
	}
	return ""
}

// reads reports every stale path that occurs in e
func (w *ppWalker) reads(s *ppState, e ast.Node, stmt ast.Node) {
	if e == nil {
		return
	}
	ast.Inspect(e, func(n ast.Node) bool {
		if fl, ok := n.(*ast.FuncLit); ok {
			_ = fl
			return false
		}
		x, ok := n.(ast.Expr)
		if !ok {
			return true
		}
		if p := ppPath(w.r, x); p != "" && s.stale[p] {
			for _, site := range w.live {
				if !site.touched {
					site.touched = true
					site.by, site.byLine = w.r.Text(stmt), w.r.Line(stmt)
				}
			}
		}
		return true
	})
}

func ppPutArg(r *Repo, c *ast.CallExpr) (ast.Expr, bool) {
	if len(c.Args) == 0 {
		return nil, false
	}
	fun := c.Fun
	if ix, ok := fun.(*ast.IndexExpr); ok {
		fun = ix.X
	}
	switch f := fun.(type) {
	case *ast.Ident:
		if f.Name == "putSliceToPool" {
			return c.Args[0], true
		}
	case *ast.SelectorExpr:
		if f.Sel.Name == "Put" {
			return c.Args[0], true
		}
	}
	return nil, false
}

func (w *ppWalker) call(s *ppState, c *ast.CallExpr, stmt ast.Node) {
	arg, isPut := ppPutArg(w.r, c)
	w.reads(s, c, stmt) // a stale path handed to any call (another put included) is a touch
	if !isPut {
		return
	}
	var site *ppSite
	for _, known := range w.sites { // a loop body is walked twice: one site per call
		if known.line == w.r.Line(c) && known.call == w.r.Text(c) {
			site = known
		}
	}
	if site == nil {
		site = &ppSite{fn: w.fn, call: w.r.Text(c), line: w.r.Line(c)}
		w.sites = append(w.sites, site)
	}
	if p := ppPath(w.r, arg); p != "" {
		s.put(p)
		w.live = append(w.live, site)
	}
}

func ppTerminates(b []ast.Stmt) bool {
	if len(b) == 0 {
		return false
	}
	switch x := b[len(b)-1].(type) {
	case *ast.ReturnStmt:
		return true
	case *ast.ExprStmt:
		if c, ok := x.X.(*ast.CallExpr); ok {
			if id, ok := c.Fun.(*ast.Ident); ok && id.Name == "panic" {
				return true
			}
		}
	}
	return false
}

func ppMerge(dst *ppState, branches []*ppState) {
	if len(branches) == 0 {
		return
	}
	*dst = *branches[0].clone()
	for _, b := range branches[1:] {
		for k := range b.stale {
			dst.stale[k] = true
		}
	}
}

func (w *ppWalker) block(s *ppState, list []ast.Stmt) {
	for _, st := range list {
		w.stmt(s, st)
	}
}

func (w *ppWalker) stmt(s *ppState, st ast.Stmt) {
	switch x := st.(type) {
	case *ast.AssignStmt:
		for _, rhs := range x.Rhs {
			if c, ok := rhs.(*ast.CallExpr); ok {
				w.call(s, c, st)
			} else {
				w.reads(s, rhs, st)
			}
		}
		for _, lhs := range x.Lhs {
			// what the left side dereferences on the way is read; the path itself is overwritten
			switch l := lhs.(type) {
			case *ast.SelectorExpr:
				w.reads(s, l.X, st)
			case *ast.IndexExpr:
				w.reads(s, l.X, st)
				w.reads(s, l.Index, st)
			case *ast.StarExpr:
				w.reads(s, l.X, st)
			}
		}
		for i, lhs := range x.Lhs {
			p := ppPath(w.r, lhs)
			if p == "" {
				continue
			}
			s.kill(p)
			if len(x.Lhs) == len(x.Rhs) {
				if q := ppPath(w.r, x.Rhs[i]); q != "" && q != p {
					s.join(p, q)
				}
			}
		}
	case *ast.ExprStmt:
		if c, ok := x.X.(*ast.CallExpr); ok {
			w.call(s, c, st)
		} else {
			w.reads(s, x.X, st)
		}
	case *ast.IfStmt:
		if x.Init != nil {
			w.stmt(s, x.Init)
		}
		w.reads(s, x.Cond, x.Cond)
		var out []*ppState
		// the puts made in a branch that leaves the function are not live after the statement
		liveBefore := append([]*ppSite(nil), w.live...)
		var liveAfter []*ppSite
		a := s.clone()
		w.block(a, x.Body.List)
		if !ppTerminates(x.Body.List) {
			out = append(out, a)
			liveAfter = append(liveAfter, w.live...)
		}
		w.live = append([]*ppSite(nil), liveBefore...)
		b := s.clone()
		switch e := x.Else.(type) {
		case *ast.BlockStmt:
			w.block(b, e.List)
			if !ppTerminates(e.List) {
				out = append(out, b)
				liveAfter = append(liveAfter, w.live...)
			}
		case *ast.IfStmt:
			w.stmt(b, e)
			out = append(out, b)
			liveAfter = append(liveAfter, w.live...)
		default:
			out = append(out, b)
			liveAfter = append(liveAfter, w.live...)
		}
		w.live = liveAfter
		if len(out) == 0 {
			// both branches leave the function: nothing after this statement runs
			s.stale = map[string]bool{}
			w.live = nil
			return
		}
		ppMerge(s, out)
	case *ast.ForStmt:
		if x.Init != nil {
			w.stmt(s, x.Init)
		}
		for k := 0; k < 2; k++ {
			w.reads(s, x.Cond, st)
			w.block(s, x.Body.List)
			if x.Post != nil {
				w.stmt(s, x.Post)
			}
		}
	case *ast.RangeStmt:
		w.reads(s, x.X, st)
		for k := 0; k < 2; k++ {
			w.block(s, x.Body.List)
		}
	case *ast.BlockStmt:
		w.block(s, x.List)
	case *ast.SwitchStmt:
		if x.Init != nil {
			w.stmt(s, x.Init)
		}
		w.reads(s, x.Tag, st)
		out := []*ppState{s.clone()}
		for _, cc := range x.Body.List {
			c := cc.(*ast.CaseClause)
			b := s.clone()
			for _, e := range c.List {
				w.reads(b, e, st)
			}
			w.block(b, c.Body)
			if !ppTerminates(c.Body) {
				out = append(out, b)
			}
		}
		ppMerge(s, out)
	case *ast.ReturnStmt:
		for _, e := range x.Results {
			w.reads(s, e, st)
		}
	case *ast.DeclStmt, *ast.EmptyStmt, *ast.BranchStmt:
	default:
		w.reads(s, st, st)
	}
}

func poolPuts(r *Repo, s *Section) error {
	dir := "internal/memory"
	ents, err := os.ReadDir(filepath.Join(r.Root, dir))
	if err != nil {
		return err
	}
	var files []string
	for _, e := range ents {
		n := e.Name()
		if e.IsDir() || !strings.HasSuffix(n, ".go") || strings.HasSuffix(n, "_test.go") || strings.HasPrefix(n, "hook_") {
			continue
		}
		files = append(files, n)
	}
	sort.Strings(files)
	var rows []string
	for _, file := range files {
		f, err := r.File(filepath.Join(dir, file))
		if err != nil {
			return err
		}
		for _, d := range f.Decls {
			fn, ok := d.(*ast.FuncDecl)
			if !ok || fn.Body == nil {
				continue
			}
			w := &ppWalker{r: r, fn: qualName(fn)}
			st := &ppState{class: map[string]int{}, stale: map[string]bool{}}
			if fn.Recv != nil && len(fn.Recv.List) == 1 && len(fn.Recv.List[0].Names) == 1 &&
				strings.Contains(r.Text(fn.Recv.List[0].Type), "SliceBuffer") {
				recv := fn.Recv.List[0].Names[0].Name
				st.join(recv+".data", recv+".slice.data") // the named invariant of SliceBuffer
			}
			w.block(st, fn.Body.List)
			for _, site := range w.sites {
				s.Comment("%s:%d %s: %s touchedAfter=%v", file, site.line, site.fn, site.call, site.touched)
				if site.touched {
					s.Comment("    touched at line %d: %s", site.byLine, site.by)
				}
				rows = append(rows, Tuple(Str(site.fn), Str(site.call), Bool(site.touched), Str(site.by)))
			}
		}
	}
	s.Def("memoryPutSites", "List (String × String × Bool × String)", List(rows))
	return nil
}
