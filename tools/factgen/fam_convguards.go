package main

// Family convguards (C12): which schema-comparison predicate decides, at every entry point that
// reads or copies rows through a target schema, whether a conversion is installed.
//
//	convSchemaGuards : (function, predicate) for every `if` condition in reader.go, row.go,
//	                   convert.go, merge.go that calls a schema comparison (a function named *Nodes)
//	convCalls        : (function, callee, predicates of the enclosing `if` conditions) for every call
//	                   of Convert / ConvertRowGroup / ConvertRowReader / convertRowGroupTo

import (
	"go/ast"
	"sort"
	"strings"
)

func init() { Register("convguards", convGuards) }

func convGuards(r *Repo, s *Section) error {
	files := []string{"reader.go", "row.go", "convert.go", "merge.go"}
	converters := map[string]bool{"Convert": true, "ConvertRowGroup": true, "ConvertRowReader": true, "convertRowGroupTo": true}
	predsOf := func(e ast.Node) []string {
		var out []string
		ast.Inspect(e, func(n ast.Node) bool {
			if c, ok := n.(*ast.CallExpr); ok {
				if id, ok := c.Fun.(*ast.Ident); ok && strings.HasSuffix(id.Name, "Nodes") {
					out = append(out, id.Name)
				}
			}
			return true
		})
		return out
	}
	var guards, calls []string
	for _, file := range files {
		f, err := r.File(file)
		if err != nil {
			return err
		}
		for _, d := range f.Decls {
			fn, ok := d.(*ast.FuncDecl)
			if !ok || fn.Body == nil {
				continue
			}
			name := qualName(fn)
			var walk func(n ast.Node, preds []string)
			walk = func(n ast.Node, preds []string) {
				ast.Inspect(n, func(m ast.Node) bool {
					switch x := m.(type) {
					case *ast.IfStmt:
						if x.Init != nil {
							walk(x.Init, preds)
						}
						ps := predsOf(x.Cond)
						for _, p := range ps {
							guards = append(guards, Tuple(Str(name), Str(p)))
							s.Comment("%s:%d %s: if %s", file, r.Line(x), name, r.Text(x.Cond))
						}
						inner := append(preds[:len(preds):len(preds)], ps...)
						walk(x.Body, inner)
						if x.Else != nil {
							walk(x.Else, inner)
						}
						return false
					case *ast.CallExpr:
						if id, ok := x.Fun.(*ast.Ident); ok && converters[id.Name] {
							calls = append(calls, Tuple(Str(name), Str(id.Name), strList(preds)))
						}
					}
					return true
				})
			}
			walk(fn.Body, nil)
		}
	}
	sort.Strings(guards)
	sort.Strings(calls)
	s.Comment("(function, predicate): every `if` condition of reader.go, row.go, convert.go, merge.go that compares two schemas")
	s.Def("convSchemaGuards", "List (String × String)", List(guards))
	s.Comment("(function, callee, schema predicates of the enclosing `if` conditions): where a conversion is installed")
	s.Def("convCalls", "List (String × String × List String)", List(calls))
	return nil
}
