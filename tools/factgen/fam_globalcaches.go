package main

// Family globalcaches (C17): the process-wide caches of the root package and the stores into them.
//
// "Output bytes are a function of input and options only" quantifies over the histories of the
// process: a package-level cache is state that an earlier, unrelated call with OTHER options may
// have written. Props/C17Cache proves that a keyed cache is invisible exactly when it is keyed by
// everything the stored value depends on; this family lists what the source stores under which key:
//
//	globalCaches          : (variable, type) for every package-level variable of the root package
//	                        (no test files, no verif hooks) whose type is a sync.Map, sync.Pool,
//	                        sync.Once or atomic.Value
//	globalCacheStores     : (variable, function, method, first argument = the key or the value,
//	                        conditions of the enclosing `if` statements) for every
//	                        Store / LoadOrStore / Swap / CompareAndSwap / Put / Do on one of them;
//	                        the init statement of an `if` is NOT under that statement's condition
//	schemaOfParams        : the parameter names of schemaOf (what a derived schema depends on)
//	schemaOfCacheableDefs : the right-hand sides assigned to `cacheable` in schemaOf

import (
	"go/ast"
	"os"
	"sort"
	"strings"
)

func init() { Register("globalcaches", globalCaches) }

func globalCaches(r *Repo, s *Section) error {
	ents, err := os.ReadDir(r.Root)
	if err != nil {
		return err
	}
	var files []string
	for _, e := range ents {
		n := e.Name()
		if e.IsDir() || !strings.HasSuffix(n, ".go") || strings.HasSuffix(n, "_test.go") ||
			strings.HasPrefix(n, "export_verif") || strings.HasPrefix(n, "hook_verif") {
			continue
		}
		files = append(files, n)
	}
	sort.Strings(files)
	cacheTypes := map[string]bool{"sync.Map": true, "sync.Pool": true, "sync.Once": true, "atomic.Value": true}
	caches := map[string]string{}
	var cacheRows []string
	for _, file := range files {
		f, err := r.File(file)
		if err != nil {
			return err
		}
		for _, d := range f.Decls {
			gd, ok := d.(*ast.GenDecl)
			if !ok {
				continue
			}
			for _, sp := range gd.Specs {
				vs, ok := sp.(*ast.ValueSpec)
				if !ok {
					continue
				}
				typ := ""
				if vs.Type != nil {
					typ = r.Text(vs.Type)
				} else if len(vs.Values) == 1 {
					if cl, ok := vs.Values[0].(*ast.CompositeLit); ok && cl.Type != nil {
						typ = r.Text(cl.Type)
					}
				}
				if !cacheTypes[typ] {
					continue
				}
				for _, n := range vs.Names {
					caches[n.Name] = typ
					cacheRows = append(cacheRows, Tuple(Str(n.Name), Str(typ)))
					s.Comment("%s:%d var %s %s", file, r.Line(vs), n.Name, typ)
				}
			}
		}
	}
	writes := map[string]bool{"Store": true, "LoadOrStore": true, "Swap": true, "CompareAndSwap": true, "Put": true, "Do": true}
	var stores, params, defs []string
	for _, file := range files {
		f, err := r.File(file)
		if err != nil {
			return err
		}
		for _, d := range f.Decls {
			fn, ok := d.(*ast.FuncDecl)
			if !ok || fn.Body == nil {
				continue
			}
			name := qualName(fn)
			if name == "schemaOf" {
				for _, p := range fn.Type.Params.List {
					for _, n := range p.Names {
						params = append(params, Str(n.Name))
					}
				}
			}
			var walk func(n ast.Node, guards []string)
			walk = func(n ast.Node, guards []string) {
				ast.Inspect(n, func(m ast.Node) bool {
					switch x := m.(type) {
					case *ast.IfStmt:
						if x.Init != nil {
							walk(x.Init, guards) // runs whatever the condition says
						}
						walk(x.Cond, guards)
						cond := r.Text(x.Cond)
						walk(x.Body, append(guards[:len(guards):len(guards)], cond))
						if x.Else != nil {
							walk(x.Else, append(guards[:len(guards):len(guards)], "!("+cond+")"))
						}
						return false
					case *ast.AssignStmt:
						if name == "schemaOf" && len(x.Lhs) == 1 && len(x.Rhs) == 1 {
							if id, ok := x.Lhs[0].(*ast.Ident); ok && id.Name == "cacheable" {
								defs = append(defs, Str(r.Text(x.Rhs[0])))
							}
						}
					case *ast.CallExpr:
						sel, ok := x.Fun.(*ast.SelectorExpr)
						if !ok || !writes[sel.Sel.Name] {
							return true
						}
						id, ok := sel.X.(*ast.Ident)
						if !ok || caches[id.Name] == "" {
							return true
						}
						arg := ""
						if len(x.Args) > 0 {
							arg = r.Text(x.Args[0])
							if _, ok := x.Args[0].(*ast.FuncLit); ok {
								arg = "func"
							}
							if len(arg) > 60 {
								arg = arg[:60]
							}
						}
						stores = append(stores, Tuple(Str(id.Name), Str(name), Str(sel.Sel.Name), Str(arg), strList(guards)))
						s.Comment("%s:%d %s: %s.%s(%s) under %v", file, r.Line(x), name, id.Name, sel.Sel.Name, arg, guards)
					}
					return true
				})
			}
			walk(fn.Body, nil)
		}
	}
	sort.Strings(cacheRows)
	sort.Strings(stores)
	s.Comment("(variable, type): package-level caches of the root package")
	s.Def("globalCaches", "List (String × String)", List(cacheRows))
	s.Comment("(variable, function, method, first argument, enclosing if-conditions): every store into one of them")
	s.Def("globalCacheStores", "List (String × String × String × String × List String)", List(stores))
	s.Comment("parameters of schemaOf and the definition(s) of its `cacheable` flag")
	s.Def("schemaOfParams", "List String", "["+strings.Join(params, ", ")+"]")
	s.Def("schemaOfCacheableDefs", "List String", "["+strings.Join(defs, ", ")+"]")
	return nil
}
