package main

// Family "entrychains" (property C13): the map from the exported read entry points of the library to
// the page-reading functions below them, DERIVED from the source instead of written by hand.
//
// A call graph of the root package (non-test files, default build: linux/amd64, no tags; the verif
// hook files are left out) is built with go/ast + go/types. The root package is type-checked in full, the
// other packages of the tree and the standard library by their declarations only (function bodies
// ignored); third-party imports are replaced by empty packages and type errors are ignored, so the
// module cache is never read, the run takes about 1.5 s and it still works on a tree that does not
// compile. What is lost is the type of expressions that come from third-party packages; a method call
// whose callee cannot be resolved for that reason falls back to "every method of the root package with
// that name that accepts that many arguments" (over-approximation).
//
// Edges (all over-approximations of the dynamic call relation inside the root package):
//   - call of a function / of a method on a concrete type: that function (generic types: the origin);
//   - call of a method through an interface value: every method of a named root type with the same
//     name and the same number of parameters and results (class hierarchy analysis; `x.ReadPage()` on
//     a `Pages` reaches FilePages.ReadPage, columnPages.ReadPage, multiPages.ReadPage, …);
//   - a function or method mentioned without being called (method value, function passed on): same
//     targets, and the targets become *address-taken*;
//   - function literals belong to the function they are written in (its callees are that function's),
//     and that function becomes address-taken with the literal's signature;
//   - call of a function VALUE (variable, field, result of a call): every address-taken function with
//     the same number of parameters and results.
//
// Not seen: calls made by other packages back into the root package through interfaces or function
// values handed to them (sort.Sort → Less, io.Copy → Read …): none of the page readers is reached
// that way (they take and return root-package types), stated as a trust item in props/C13.json.
//
// Emitted:
//
//	pageReadingFuncs   the functions of interest: those that contain a call to a page reader (the
//	                   criterion of family `pagereaders`: must equal the callers of `pageReaderCalls`),
//	                   and the functions of file.go that contain a read site (the loaders and the other
//	                   read sites of family `pageloaders`)
//	readerLayers       for each function that calls a page reader: the functions of interest directly
//	                   below it (reached without crossing another function of interest)
//	readEntryClasses   the exported read entry points — every function with an exported name (methods:
//	                   exported method name, whatever the receiver) from which a page loader (a function
//	                   of file.go that reads into a page buffer) is reachable — grouped by what they
//	                   reach: (functions of interest reachable, entry points with exactly that set)
//	callGraphSize      (functions, edges, calls through interfaces, calls of function values, calls
//	                   resolved by name only)

import (
	"fmt"
	"go/ast"
	"go/build"
	"go/importer"
	"go/token"
	"go/types"
	"os"
	"path/filepath"
	"sort"
	"strings"
)

func init() { Register("entrychains", entryChainsFamily) }

type fakeImporter struct {
	pkgs   map[string]*types.Package
	r      *Repo
	module string // module path of the tree: its own packages are type-checked (declarations only)
	bctx   *build.Context
	std    types.Importer
}

func (f *fakeImporter) Import(path string) (*types.Package, error) {
	if p, ok := f.pkgs[path]; ok && p != nil {
		return p, nil
	}
	if f.std != nil && !strings.Contains(strings.SplitN(path, "/", 2)[0], ".") && path != "simd/archsimd" {
		if p, err := f.std.Import(path); err == nil {
			f.pkgs[path] = p
			return p, nil
		}
	}
	if f.module != "" && strings.HasPrefix(path, f.module+"/") {
		rel := strings.TrimPrefix(path, f.module+"/")
		paths, _ := filepath.Glob(filepath.Join(f.r.Root, rel, "*.go"))
		sort.Strings(paths)
		var files []*ast.File
		for _, p := range paths {
			base := filepath.Base(p)
			if strings.HasSuffix(base, "_test.go") {
				continue
			}
			if ok, err := f.bctx.MatchFile(filepath.Join(f.r.Root, rel), base); err != nil || !ok {
				continue
			}
			if file, err := f.r.File(filepath.Join(rel, base)); err == nil {
				files = append(files, file)
			}
		}
		if len(files) > 0 {
			conf := types.Config{Importer: f, Error: func(error) {}, DisableUnusedImportCheck: true, FakeImportC: true, IgnoreFuncBodies: true}
			f.pkgs[path] = nil // import cycles cannot happen in a tree that compiles; do not loop on one that does not
			if p, _ := conf.Check(path, f.r.Fset, files, nil); p != nil {
				f.pkgs[path] = p
				return p, nil
			}
		}
	}
	name := path
	if i := strings.LastIndex(name, "/"); i >= 0 {
		name = name[i+1:]
	}
	name = strings.ReplaceAll(name, "-", "_")
	name = strings.TrimPrefix(name, "go_")
	p := types.NewPackage(path, name)
	p.MarkComplete()
	f.pkgs[path] = p
	return p, nil
}

type ecGraph struct {
	r                     *Repo
	info                  *types.Info
	pkg                   *types.Package
	nodeOf                map[*types.Func]string // declared function (origin) -> qualName
	nodes                 map[string]bool
	edges                 map[string]map[string]bool
	methods               map[string][]*types.Func   // method name -> methods of named root types (non-interface)
	addrTaken             map[sigKey]map[string]bool // signature -> functions
	dynCalls              map[string]map[sigKey]bool // function -> signatures of the function values it calls
	callsPR               map[string]bool            // functions that contain a call to a page reader
	nIface, nDyn, nByName int
}

// sigKey: number of parameters, and the full signature as text when every type in it is known (no
// type of a faked package, no type parameter); "" otherwise
type sigKey struct {
	arity int
	typed string
}

func (a sigKey) matches(b sigKey) bool {
	return a.arity == b.arity && (a.typed == "" || b.typed == "" || a.typed == b.typed)
}

func cleanType(t types.Type) bool {
	ok := true
	var visit func(t types.Type, depth int)
	visit = func(t types.Type, depth int) {
		if depth > 6 {
			ok = false
			return
		}
		switch x := t.(type) {
		case *types.Basic:
			if x.Kind() == types.Invalid {
				ok = false
			}
		case *types.Named:
			if x.TypeArgs() != nil {
				for i := 0; i < x.TypeArgs().Len(); i++ {
					visit(x.TypeArgs().At(i), depth+1)
				}
			}
		case *types.Alias:
			visit(types.Unalias(x), depth+1)
		case *types.Pointer:
			visit(x.Elem(), depth+1)
		case *types.Slice:
			visit(x.Elem(), depth+1)
		case *types.Array:
			visit(x.Elem(), depth+1)
		case *types.Map:
			visit(x.Key(), depth+1)
			visit(x.Elem(), depth+1)
		case *types.Chan:
			visit(x.Elem(), depth+1)
		case *types.Signature:
			for i := 0; i < x.Params().Len(); i++ {
				visit(x.Params().At(i).Type(), depth+1)
			}
			for i := 0; i < x.Results().Len(); i++ {
				visit(x.Results().At(i).Type(), depth+1)
			}
		case *types.Interface:
			if x.NumMethods() > 0 || x.NumEmbeddeds() > 0 {
				ok = false // literal interface types: not compared
			}
		default:
			ok = false // type parameters, structs, tuples, unions
		}
	}
	visit(t, 0)
	return ok
}

func keyOf(sig *types.Signature) sigKey {
	k := sigKey{arity: sig.Params().Len()}
	if !cleanType(sig) {
		return k
	}
	var parts []string
	q := func(p *types.Package) string { return p.Path() }
	for i := 0; i < sig.Params().Len(); i++ {
		parts = append(parts, types.TypeString(sig.Params().At(i).Type(), q))
	}
	parts = append(parts, fmt.Sprintf("->%v", sig.Variadic()))
	for i := 0; i < sig.Results().Len(); i++ {
		parts = append(parts, types.TypeString(sig.Results().At(i).Type(), q))
	}
	k.typed = strings.Join(parts, ";")
	return k
}

func (g *ecGraph) addEdge(from, to string) {
	if g.edges[from] == nil {
		g.edges[from] = map[string]bool{}
	}
	g.edges[from][to] = true
}

// targets of a use of the function object `fn` selected on a receiver of type `recv` (nil for a plain
// function or a method expression)
func (g *ecGraph) targets(fn *types.Func, recv types.Type) []string {
	fn = fn.Origin()
	if recv != nil {
		if _, isIface := recv.Underlying().(*types.Interface); isIface {
			g.nIface++
			return g.byNameArity(fn.Name(), fn.Type().(*types.Signature))
		}
		if _, isTP := recv.(*types.TypeParam); isTP {
			g.nIface++
			return g.byNameArity(fn.Name(), fn.Type().(*types.Signature))
		}
	}
	if n, ok := g.nodeOf[fn]; ok {
		return []string{n}
	}
	if fn.Pkg() == g.pkg {
		// a method of an interface declared in the package reached without a receiver type
		if sig, ok := fn.Type().(*types.Signature); ok && sig.Recv() != nil {
			return g.byNameArity(fn.Name(), sig)
		}
	}
	return nil
}

func (g *ecGraph) byNameArity(name string, sig *types.Signature) []string {
	var out []string
	for _, m := range g.methods[name] {
		ms := m.Type().(*types.Signature)
		if sig == nil || (ms.Params().Len() == sig.Params().Len() && ms.Results().Len() == sig.Results().Len()) {
			out = append(out, g.nodeOf[m])
		}
	}
	return out
}

// argsFit: the call can be a call of a function with this signature, judging by the number of arguments
func argsFit(c *ast.CallExpr, sig *types.Signature) bool {
	n := sig.Params().Len()
	if c.Ellipsis.IsValid() {
		return sig.Variadic() && len(c.Args) == n
	}
	if len(c.Args) == 1 {
		if _, isCall := c.Args[0].(*ast.CallExpr); isCall {
			return true // f(g()) with a multi-valued g
		}
	}
	if sig.Variadic() {
		return len(c.Args) >= n-1
	}
	return len(c.Args) == n
}

func unwrapFun(e ast.Expr) ast.Expr {
	for {
		switch x := e.(type) {
		case *ast.ParenExpr:
			e = x.X
		case *ast.IndexExpr:
			// generic instantiation f[T] (an index into a slice of functions is a function value: the
			// type of the whole expression decides, see walk)
			e = x.X
		case *ast.IndexListExpr:
			e = x.X
		default:
			return e
		}
	}
}

// walk one function body
func (g *ecGraph) walk(from string, body ast.Node) {
	callFun := map[ast.Expr]bool{}
	// local closures: variables of this function that only ever hold function literals written in it
	// (`reject := func(…) {…}`); calling one runs code that already belongs to this function
	litVar, otherVar := map[types.Object]bool{}, map[types.Object]bool{}
	ast.Inspect(body, func(n ast.Node) bool {
		note := func(lhs ast.Expr, rhs ast.Expr) {
			id, ok := lhs.(*ast.Ident)
			if !ok {
				return
			}
			obj := g.info.Defs[id]
			if obj == nil {
				obj = g.info.Uses[id]
			}
			if obj == nil {
				return
			}
			if _, isLit := rhs.(*ast.FuncLit); isLit && rhs != nil {
				litVar[obj] = true
			} else {
				otherVar[obj] = true
			}
		}
		switch x := n.(type) {
		case *ast.AssignStmt:
			for i, l := range x.Lhs {
				if len(x.Lhs) == len(x.Rhs) {
					note(l, x.Rhs[i])
				} else {
					note(l, nil)
				}
			}
		case *ast.ValueSpec:
			for i, id := range x.Names {
				if i < len(x.Values) {
					note(id, x.Values[i])
				}
			}
		case *ast.UnaryExpr:
			if x.Op == token.AND {
				if id, ok := x.X.(*ast.Ident); ok {
					if obj := g.info.Uses[id]; obj != nil {
						otherVar[obj] = true // &f: may be assigned through the pointer
					}
				}
			}
		}
		return true
	})
	ast.Inspect(body, func(n ast.Node) bool {
		switch x := n.(type) {
		case *ast.CallExpr:
			fun := unwrapFun(x.Fun)
			callFun[fun] = true
			if _, name := isReaderCall(x); name != "" && pageReaderCallees[name] {
				if !isHookCallExpr(x) {
					g.callsPR[from] = true
				}
			}
			resolved := false
			switch f := fun.(type) {
			case *ast.Ident:
				switch obj := g.info.Uses[f].(type) {
				case *types.Func, *types.TypeName, *types.Builtin, *types.Nil:
					resolved = true
				case *types.Var:
					if litVar[obj] && !otherVar[obj] {
						resolved = true
					}
				}
			case *ast.SelectorExpr:
				if sel := g.info.Selections[f]; sel != nil {
					if sel.Kind() != types.FieldVal {
						resolved = true
					}
				} else if id, ok := f.X.(*ast.Ident); ok {
					if _, isPkg := g.info.Uses[id].(*types.PkgName); isPkg {
						resolved = true // function of another package
					}
				}
				if !resolved {
					if _, ok := g.info.Uses[f.Sel].(*types.Func); ok {
						resolved = true
					} else if _, ok := g.info.Uses[f.Sel].(*types.TypeName); ok {
						resolved = true
					}
				}
				if !resolved {
					// the receiver's type is unknown (it comes from another package, or the selector is a
					// field of function type): by name for methods, by arity for function values
					if tv, ok := g.info.Types[f]; ok && tv.Type != nil {
						if _, isSig := tv.Type.Underlying().(*types.Signature); isSig {
							break
						}
					}
					g.nByName++
					for _, m := range g.methods[f.Sel.Name] {
						if argsFit(x, m.Type().(*types.Signature)) {
							g.addEdge(from, g.nodeOf[m])
						}
					}
					resolved = true
				}
			case *ast.FuncLit, *ast.ArrayType, *ast.MapType, *ast.ChanType, *ast.FuncType, *ast.InterfaceType, *ast.StarExpr, *ast.StructType:
				resolved = true // literal called on the spot (its body is walked), or a conversion
			}
			if !resolved {
				// a function value
				var sig *types.Signature
				if tv, ok := g.info.Types[x.Fun]; ok && tv.Type != nil {
					if tv.IsType() {
						return true // conversion
					}
					sig, _ = tv.Type.Underlying().(*types.Signature)
				}
				g.nDyn++
				key := sigKey{arity: len(x.Args)}
				if sig != nil {
					key = keyOf(sig)
				}
				if g.dynCalls[from] == nil {
					g.dynCalls[from] = map[sigKey]bool{}
				}
				g.dynCalls[from][key] = true
			}
		case *ast.FuncLit:
			if tv, ok := g.info.Types[x]; ok {
				if sig, ok := tv.Type.(*types.Signature); ok {
					g.take(from, sig)
				}
			}
		case *ast.SelectorExpr:
			if sel := g.info.Selections[x]; sel != nil {
				if fn, ok := sel.Obj().(*types.Func); ok {
					var recv types.Type
					if sel.Kind() == types.MethodVal {
						recv = sel.Recv()
						if p, ok := recv.(*types.Pointer); ok {
							recv = p.Elem()
						}
					}
					for _, t := range g.targets(fn, recv) {
						g.addEdge(from, t)
						if !callFun[x] {
							g.take(t, fn.Type().(*types.Signature))
						}
					}
				}
				return true
			}
			if fn, ok := g.info.Uses[x.Sel].(*types.Func); ok && fn.Pkg() == g.pkg {
				for _, t := range g.targets(fn, nil) {
					g.addEdge(from, t)
					if !callFun[x] {
						g.take(t, fn.Type().(*types.Signature))
					}
				}
			}
		case *ast.Ident:
			if fn, ok := g.info.Uses[x].(*types.Func); ok && fn.Pkg() == g.pkg {
				for _, t := range g.targets(fn, nil) {
					g.addEdge(from, t)
					if !callFun[x] {
						g.take(t, fn.Type().(*types.Signature))
					}
				}
			}
		}
		return true
	})
}

func (g *ecGraph) take(fn string, sig *types.Signature) {
	key := keyOf(sig)
	if g.addrTaken[key] == nil {
		g.addrTaken[key] = map[string]bool{}
	}
	g.addrTaken[key][fn] = true
}

func isHookCallExpr(c *ast.CallExpr) bool {
	name := bareCallee(c)
	return strings.HasPrefix(name, "verif") || strings.HasPrefix(name, "Verif")
}

// fileReadSiteFuncs: the functions of file.go with a read site, and which of them read into a page
// buffer (same criterion as family pageloaders)
func fileReadSiteFuncs(r *Repo) (sites map[string]bool, loaders map[string]bool, err error) {
	file, err := r.File("file.go")
	if err != nil {
		return nil, nil, err
	}
	sites, loaders = map[string]bool{}, map[string]bool{}
	for _, d := range file.Decls {
		fn, ok := d.(*ast.FuncDecl)
		if !ok || fn.Body == nil {
			continue
		}
		name := qualName(fn)
		asg := assignments(fn)
		ast.Inspect(fn.Body, func(n ast.Node) bool {
			c, ok := n.(*ast.CallExpr)
			if !ok {
				return true
			}
			var dest ast.Expr
			switch {
			case (isSel(c.Fun, "io", "ReadFull") || isSel(c.Fun, "io", "ReadAtLeast")) && len(c.Args) >= 2:
				dest = c.Args[1]
			default:
				if sel, ok := c.Fun.(*ast.SelectorExpr); ok && (sel.Sel.Name == "Read" || sel.Sel.Name == "ReadAt") && len(c.Args) >= 1 {
					dest = c.Args[0]
				}
			}
			if dest == nil {
				return true
			}
			sites[name] = true
			if id := rootIdent(dest); id != nil {
				for _, rhs := range asg[id.Name] {
					if mentions(r, rhs, "buffers.get(") || mentions(r, rhs, "CompressedPageSize") {
						loaders[name] = true
					}
				}
			}
			return true
		})
	}
	return sites, loaders, nil
}

func modulePath(root string) string {
	b, err := os.ReadFile(filepath.Join(root, "go.mod"))
	if err != nil {
		return ""
	}
	for _, l := range strings.Split(string(b), "\n") {
		if f := strings.Fields(l); len(f) == 2 && f[0] == "module" {
			return f[1]
		}
	}
	return ""
}

func sortedKeys(m map[string]bool) []string {
	out := make([]string, 0, len(m))
	for k := range m {
		out = append(out, k)
	}
	sort.Strings(out)
	return out
}

func entryChainsFamily(r *Repo, s *Section) error {
	paths, err := filepath.Glob(filepath.Join(r.Root, "*.go"))
	if err != nil {
		return err
	}
	sort.Strings(paths)
	bctx := build.Context{GOOS: "linux", GOARCH: "amd64", Compiler: "gc", CgoEnabled: false}
	for _, t := range []string{"go1.1", "go1.18", "go1.20", "go1.21", "go1.22", "go1.23", "go1.24"} {
		bctx.ReleaseTags = append(bctx.ReleaseTags, t)
	}
	var files []*ast.File
	for _, p := range paths {
		base := filepath.Base(p)
		if strings.HasSuffix(base, "_test.go") || strings.HasPrefix(base, "export_verif") || strings.HasSuffix(base, "_verif.go") {
			continue
		}
		if ok, err := bctx.MatchFile(r.Root, base); err != nil || !ok {
			continue
		}
		f, err := r.File(base)
		if err != nil {
			return err
		}
		files = append(files, f)
	}
	info := &types.Info{
		Types:      map[ast.Expr]types.TypeAndValue{},
		Defs:       map[*ast.Ident]types.Object{},
		Uses:       map[*ast.Ident]types.Object{},
		Selections: map[*ast.SelectorExpr]*types.Selection{},
	}
	// the standard library is type-checked from GOROOT/src (declarations only, about a second); where that
	// is not possible (no GOROOT sources) its packages are faked like the third-party ones and the graph
	// gets coarser (more calls resolved by name): `callGraphSize` shows which run it was
	var stdImp types.Importer
	if os.Getenv("FACTGEN_NOSTD") == "" {
		stdImp = importer.ForCompiler(r.Fset, "source", nil)
	}
	conf := types.Config{
		Importer:                 &fakeImporter{pkgs: map[string]*types.Package{}, r: r, module: modulePath(r.Root), bctx: &bctx, std: stdImp},
		Error:                    func(error) {},
		DisableUnusedImportCheck: true,
		FakeImportC:              true,
	}
	pkg, _ := conf.Check("parquet", r.Fset, files, info)
	if pkg == nil {
		return fmt.Errorf("type check produced no package")
	}
	g := &ecGraph{r: r, info: info, pkg: pkg, nodeOf: map[*types.Func]string{}, nodes: map[string]bool{},
		edges: map[string]map[string]bool{}, methods: map[string][]*types.Func{}, addrTaken: map[sigKey]map[string]bool{},
		dynCalls: map[string]map[sigKey]bool{}, callsPR: map[string]bool{}}
	type decl struct {
		name string
		fn   *ast.FuncDecl
	}
	var decls []decl
	for _, f := range files {
		for _, d := range f.Decls {
			fn, ok := d.(*ast.FuncDecl)
			if !ok {
				continue
			}
			name := qualName(fn)
			if obj, ok := info.Defs[fn.Name].(*types.Func); ok {
				g.nodeOf[obj] = name
				if fn.Recv != nil {
					g.methods[fn.Name.Name] = append(g.methods[fn.Name.Name], obj)
				}
			}
			g.nodes[name] = true
			if fn.Body != nil {
				decls = append(decls, decl{name, fn})
			}
		}
	}
	for k := range g.methods {
		ms := g.methods[k]
		sort.Slice(ms, func(i, j int) bool { return g.nodeOf[ms[i]] < g.nodeOf[ms[j]] })
	}
	for _, d := range decls {
		g.walk(d.name, d.fn.Body)
	}
	// package-level variable initialisers (tables of functions): their references are address-taken
	for _, f := range files {
		for _, d := range f.Decls {
			if gd, ok := d.(*ast.GenDecl); ok && gd.Tok == token.VAR {
				g.walk("(package variables)", gd)
			}
		}
	}
	// calls of function values: every address-taken function of the same arity
	for from, keys := range g.dynCalls {
		for key := range keys {
			for taken, fns := range g.addrTaken {
				if key.matches(taken) {
					for to := range fns {
						g.addEdge(from, to)
					}
				}
			}
		}
	}
	nEdges := 0
	for _, m := range g.edges {
		nEdges += len(m)
	}

	sites, loaders, err := fileReadSiteFuncs(r)
	if err != nil {
		return err
	}
	interest := map[string]bool{}
	for k := range g.callsPR {
		interest[k] = true
	}
	for k := range sites {
		interest[k] = true
	}
	// reachInterest[f] = the functions of interest reachable from f (f itself included when it is one):
	// one backward search per function of interest
	rev := map[string][]string{}
	for from, m := range g.edges {
		for to := range m {
			rev[to] = append(rev[to], from)
		}
	}
	reachInterest := map[string]map[string]bool{}
	for _, target := range sortedKeys(interest) {
		seen := map[string]bool{target: true}
		stack := []string{target}
		for len(stack) > 0 {
			f := stack[len(stack)-1]
			stack = stack[:len(stack)-1]
			if reachInterest[f] == nil {
				reachInterest[f] = map[string]bool{}
			}
			reachInterest[f][target] = true
			for _, p := range rev[f] {
				if !seen[p] {
					seen[p] = true
					stack = append(stack, p)
				}
			}
		}
	}
	// layer(f) = the functions of interest reached from f without crossing another one
	layer := func(start string) map[string]bool {
		seen := map[string]bool{start: true}
		out := map[string]bool{}
		stack := []string{start}
		for len(stack) > 0 {
			f := stack[len(stack)-1]
			stack = stack[:len(stack)-1]
			for to := range g.edges[f] {
				if seen[to] {
					continue
				}
				seen[to] = true
				if interest[to] {
					out[to] = true
					continue
				}
				stack = append(stack, to)
			}
		}
		return out
	}
	if dbg := os.Getenv("FACTGEN_EC_PATH"); dbg != "" { // "from>to": print one shortest call path (review aid)
		ft := strings.SplitN(dbg, ">", 2)
		prev := map[string]string{ft[0]: ""}
		queue := []string{ft[0]}
		for len(queue) > 0 && len(ft) == 2 {
			f := queue[0]
			queue = queue[1:]
			if f == ft[1] {
				for x := f; x != ""; x = prev[x] {
					fmt.Fprintln(os.Stderr, "  <-", x)
				}
				break
			}
			for _, to := range sortedKeys(g.edges[f]) {
				if _, ok := prev[to]; !ok {
					prev[to] = f
					queue = append(queue, to)
				}
			}
		}
	}

	s.Comment("call graph of the root package (go/types on the root package alone, imports faked; class hierarchy\nanalysis by method name and arity for interface calls; function values by arity)")
	s.Def("callGraphSize", "Nat × Nat × Nat × Nat × Nat",
		Tuple(fmt.Sprint(len(g.nodes)), fmt.Sprint(nEdges), fmt.Sprint(g.nIface), fmt.Sprint(g.nDyn), fmt.Sprint(g.nByName)))
	s.Comment("the functions of interest: (function, contains a call to a page reader, function of file.go with a read site)")
	var rows []string
	for _, f := range sortedKeys(interest) {
		rows = append(rows, Tuple(Str(f), Bool(g.callsPR[f]), Bool(sites[f])))
	}
	s.Def("pageReadingFuncs", "List (String × Bool × Bool)", List(rows))
	s.Comment("for each of them: the functions of interest directly below (reached without crossing another one)")
	rows = nil
	for _, f := range sortedKeys(interest) {
		rows = append(rows, Tuple(Str(f), strList(sortedKeys(layer(f)))))
	}
	s.Def("readerLayers", "List (String × List String)", List(rows))

	// the exported entry points that reach a page loader
	classes := map[string][]string{}
	classSet := map[string][]string{}
	for _, name := range sortedKeys(g.nodes) {
		bare := name
		if i := strings.Index(bare, "."); i >= 0 {
			bare = bare[i+1:]
		}
		if !ast.IsExported(bare) {
			continue
		}
		set := reachInterest[name]
		hit := false
		for l := range loaders {
			if set[l] {
				hit = true
			}
		}
		if !hit {
			continue
		}
		keys := sortedKeys(set)
		k := strings.Join(keys, ",")
		classes[k] = append(classes[k], name)
		classSet[k] = keys
	}
	var ckeys []string
	for k := range classes {
		ckeys = append(ckeys, k)
	}
	sort.Slice(ckeys, func(i, j int) bool {
		if len(classSet[ckeys[i]]) != len(classSet[ckeys[j]]) {
			return len(classSet[ckeys[i]]) < len(classSet[ckeys[j]])
		}
		return ckeys[i] < ckeys[j]
	})
	s.Comment("the exported read entry points (exported name, a page loader reachable), grouped by the functions of\ninterest they reach: (reached, entry points)")
	rows = nil
	for _, k := range ckeys {
		rows = append(rows, Tuple(strList(classSet[k]), strList(classes[k])))
	}
	s.Def("readEntryClasses", "List (List String × List String)", List(rows))
	return nil
}
