package main

// Family "writesites" (property C14): every call in writer.go (non-test) on the byte path to the
// destination io.Writer, with the AST-level flag "the error result flows to the return of the
// enclosing function".
//
// A call is a site when
//   sink   its receiver chain reaches the destination: `w.writer.X`, `w.buffer.X`, a method of a
//          value built from it (`encoder := thrift.NewEncoder(protocol.NewWriter(&w.writer))`),
//          or io.Copy / io.WriteString with such a destination;
//   param  its receiver is an io.Writer parameter (`output.Write`, `w.Write` in writeBloomFilter):
//          sink or intermediate store, decided by the caller;
//   store  it writes an intermediate store (page buffer, deferred bloom buffer) — io.Copy(buf, …);
//   pass   it hands the destination / a store to a function of the package that returns an error
//          (`c.writeDictionaryPage(&w.writer, …)`);
//   call   it calls a function declared in writer.go from which a site is reachable and which
//          returns an error (`w.flush()`, `c.Flush()`, `w.writeRowGroup(…)`): the links of the
//          chain that carries a leaf error up to the API;
//   errdrop a call statement that discards the error of a function of the package all of whose
//          declarations under that name return an error (errcheck-style, writer.go only).
//
// propagates = the error result is not assigned to `_` and is (a) returned directly, or (b) bound
// to a variable whose first later use in the block is `if v != nil { … return … v … }` or a
// `return` mentioning it (or a bare return with v a named result).

import (
	"fmt"
	"go/ast"
	"go/parser"
	"go/printer"
	"go/token"
	"os"
	"path/filepath"
	"sort"
	"strings"
)

func init() { RegisterRaw("writesites", famWriteSites) }

type wsSite struct {
	name       string
	line       int
	kind       string
	propagates bool
	how        string
}

var wsSinkMethods = map[string]bool{"Write": true, "WriteString": true, "WriteByte": true,
	"ReadFrom": true, "Flush": true, "Encode": true, "WriteTo": true}

func exprText(fset *token.FileSet, e ast.Node) string {
	var sb strings.Builder
	printer.Fprint(&sb, fset, e)
	return strings.Join(strings.Fields(sb.String()), " ")
}

func lastResultIsError(ft *ast.FuncType) bool {
	if ft.Results == nil || len(ft.Results.List) == 0 {
		return false
	}
	last := ft.Results.List[len(ft.Results.List)-1]
	id, ok := last.Type.(*ast.Ident)
	return ok && id.Name == "error"
}

func isIoWriterType(e ast.Expr) bool {
	s, ok := e.(*ast.SelectorExpr)
	if !ok {
		return false
	}
	x, ok := s.X.(*ast.Ident)
	return ok && x.Name == "io" && (s.Sel.Name == "Writer" || s.Sel.Name == "ReadWriteSeeker" || s.Sel.Name == "WriteSeeker")
}

type wsFunc struct {
	decl  *ast.FuncDecl
	name  string // Type.method or func
	short string // method / func name alone
}

func wsFuncName(d *ast.FuncDecl) string {
	if d.Recv != nil && len(d.Recv.List) > 0 {
		t := d.Recv.List[0].Type
		if s, ok := t.(*ast.StarExpr); ok {
			t = s.X
		}
		if ix, ok := t.(*ast.IndexExpr); ok {
			t = ix.X
		}
		if id, ok := t.(*ast.Ident); ok {
			return id.Name + "." + d.Name.Name
		}
	}
	return d.Name.Name
}

// taint classes of an expression
const (
	wsNone = iota
	wsSink
	wsParam
	wsStore
)

type wsAnalyzer struct {
	fset     *token.FileSet
	errFuncs map[string]bool // method name -> every method declared with that name returns error last
	errPlain map[string]bool // plain function name -> it returns error last
	declared map[string]bool // any function or method of the package has this name
	tainted  map[string]int  // identifier -> class (per function)
	fnParams map[string]bool // parameters of function type (per function)
}

func (a *wsAnalyzer) class(e ast.Expr) int {
	switch x := e.(type) {
	case *ast.ParenExpr:
		return a.class(x.X)
	case *ast.UnaryExpr:
		if x.Op == token.AND {
			return a.class(x.X)
		}
	case *ast.StarExpr:
		return a.class(x.X)
	case *ast.Ident:
		return a.tainted[x.Name]
	case *ast.SelectorExpr:
		switch x.Sel.Name {
		case "writer":
			// w.writer (offsetTrackingWriter of writer) and w.writer.writer
			return wsSink
		case "buffer":
			if id, ok := x.X.(*ast.Ident); ok && id.Name == "w" {
				return wsSink // w.buffer: the bufio.Writer in front of the destination
			}
		case "pageBuffer":
			return wsStore
		case "buf":
			if id, ok := x.X.(*ast.Ident); ok && id.Name == "bf" {
				return wsStore // deferredBloomFilter.buf
			}
		}
	case *ast.CallExpr:
		// a value built from a tainted one: thrift.NewEncoder(protocol.NewWriter(&w.writer))
		best := wsNone
		for _, arg := range x.Args {
			if c := a.class(arg); c != wsNone && (best == wsNone || c < best) {
				best = c
			}
		}
		if best != wsNone {
			return best
		}
		// pool.GetBuffer() is an intermediate store
		if s, ok := x.Fun.(*ast.SelectorExpr); ok && s.Sel.Name == "GetBuffer" {
			return wsStore
		}
	}
	return wsNone
}

func wsKindName(c int) string {
	switch c {
	case wsSink:
		return "sink"
	case wsParam:
		return "param"
	case wsStore:
		return "store"
	}
	return ""
}

// parent links
type wsParents map[ast.Node]ast.Node

func wsBuildParents(root ast.Node) wsParents {
	p := wsParents{}
	var stack []ast.Node
	ast.Inspect(root, func(n ast.Node) bool {
		if n == nil {
			stack = stack[:len(stack)-1]
			return true
		}
		if len(stack) > 0 {
			p[n] = stack[len(stack)-1]
		}
		stack = append(stack, n)
		return true
	})
	return p
}

func wsMentions(n ast.Node, name string) bool {
	found := false
	ast.Inspect(n, func(m ast.Node) bool {
		if id, ok := m.(*ast.Ident); ok && id.Name == name {
			found = true
		}
		return !found
	})
	return found
}

// namedResults of the innermost enclosing function (FuncLit or FuncDecl)
func enclosingFuncType(p wsParents, n ast.Node) *ast.FuncType {
	for cur := n; cur != nil; cur = p[cur] {
		switch f := cur.(type) {
		case *ast.FuncLit:
			return f.Type
		case *ast.FuncDecl:
			return f.Type
		}
	}
	return nil
}

func hasNamedResult(ft *ast.FuncType, name string) bool {
	if ft == nil || ft.Results == nil {
		return false
	}
	for _, f := range ft.Results.List {
		for _, id := range f.Names {
			if id.Name == name {
				return true
			}
		}
	}
	return false
}

// returnsVar: the statement list contains (at any depth, not inside a nested function) a return
// that mentions v, or a bare return while v is a named result.
func returnsVar(body ast.Node, v string, ft *ast.FuncType) bool {
	ok := false
	ast.Inspect(body, func(n ast.Node) bool {
		if _, isLit := n.(*ast.FuncLit); isLit {
			return false
		}
		if r, isRet := n.(*ast.ReturnStmt); isRet {
			if len(r.Results) == 0 {
				if hasNamedResult(ft, v) {
					ok = true
				}
			}
			for _, e := range r.Results {
				if wsMentions(e, v) {
					ok = true
				}
			}
		}
		return !ok
	})
	return ok
}

// isErrTest: `v != nil` (or `v != ErrSomething`: the remaining case is handled by the code below it)
func isErrTest(cond ast.Expr, v string) bool {
	b, ok := cond.(*ast.BinaryExpr)
	if ok && b.Op == token.LOR {
		// `v != nil || …`: the body runs whenever the error is set
		return isErrTest(b.X, v) || isErrTest(b.Y, v)
	}
	if !ok || b.Op != token.NEQ {
		return false
	}
	x, ok1 := b.X.(*ast.Ident)
	_, ok2 := b.Y.(*ast.Ident)
	return ok1 && ok2 && x.Name == v
}

// onlySetsWhenNil: `if v == nil && … { v = … }` (every statement of the body assigns v): the
// statement can only replace a nil error by a non-nil one.
func onlySetsWhenNil(ifs *ast.IfStmt, v string) bool {
	var guarded func(e ast.Expr) bool
	guarded = func(e ast.Expr) bool {
		b, ok := e.(*ast.BinaryExpr)
		if !ok {
			return false
		}
		if b.Op == token.LAND {
			return guarded(b.X) || guarded(b.Y)
		}
		x, ok1 := b.X.(*ast.Ident)
		y, ok2 := b.Y.(*ast.Ident)
		return b.Op == token.EQL && ok1 && ok2 && x.Name == v && y.Name == "nil"
	}
	if !guarded(ifs.Cond) || len(ifs.Body.List) == 0 {
		return false
	}
	for _, st := range ifs.Body.List {
		as, ok := st.(*ast.AssignStmt)
		if !ok || as.Tok != token.ASSIGN || len(as.Lhs) != 1 {
			return false
		}
		id, ok := as.Lhs[0].(*ast.Ident)
		if !ok || id.Name != v {
			return false
		}
	}
	return true
}

// breaksToReturn: body is `{ break }` inside a loop, v is a named result, and after the loop the
// first statement that mentions v or returns is a return (bare, or mentioning v).
func breaksToReturn(p wsParents, ifs *ast.IfStmt, v string, ft *ast.FuncType) bool {
	if !hasNamedResult(ft, v) || len(ifs.Body.List) != 1 {
		return false
	}
	br, ok := ifs.Body.List[0].(*ast.BranchStmt)
	if !ok || br.Tok != token.BREAK || br.Label != nil {
		return false
	}
	var loop ast.Node
	for cur := p[ifs]; cur != nil; cur = p[cur] {
		switch cur.(type) {
		case *ast.ForStmt, *ast.RangeStmt:
			loop = cur
		case *ast.SwitchStmt, *ast.SelectStmt, *ast.TypeSwitchStmt, *ast.FuncLit, *ast.FuncDecl:
			return false // break would leave something else
		}
		if loop != nil {
			break
		}
	}
	if loop == nil {
		return false
	}
	blk, ok := p[loop].(*ast.BlockStmt)
	if !ok {
		return false
	}
	after := false
	for _, s := range blk.List {
		if s == loop {
			after = true
			continue
		}
		if !after {
			continue
		}
		if r, ok := s.(*ast.ReturnStmt); ok {
			if len(r.Results) == 0 {
				return true
			}
			for _, e := range r.Results {
				if wsMentions(e, v) {
					return true
				}
			}
			return false
		}
		if wsMentions(s, v) {
			return false
		}
	}
	// falling off the end of the function body
	_, isDecl := p[blk].(*ast.FuncDecl)
	return isDecl
}

// flows decides what happens to the error bound to v by the statement `at`.
func (a *wsAnalyzer) flows(p wsParents, at ast.Stmt, v string) (bool, string) {
	ft := enclosingFuncType(p, at)
	parent := p[at]
	// `if v := call; v != nil { return … v … }`
	if ifs, ok := parent.(*ast.IfStmt); ok && ifs.Init == at {
		if isErrTest(ifs.Cond, v) && returnsVar(ifs.Body, v, ft) {
			return true, "if-err-return"
		}
		if isErrTest(ifs.Cond, v) && breaksToReturn(p, ifs, v, ft) {
			return true, "if-err-break-return"
		}
		return false, "if-init-not-returned"
	}
	// following statements of the same block: the first one that mentions v decides
	var list []ast.Stmt
	switch b := parent.(type) {
	case *ast.BlockStmt:
		list = b.List
	case *ast.CaseClause:
		list = b.Body
	case *ast.CommClause:
		list = b.Body
	default:
		return false, "unsupported-context"
	}
	idx := -1
	for i, s := range list {
		if s == at {
			idx = i
		}
	}
	for _, s := range list[idx+1:] {
		if !wsMentions(s, v) {
			if r, ok := s.(*ast.ReturnStmt); ok && len(r.Results) == 0 && hasNamedResult(ft, v) {
				return true, "named-result-return"
			}
			continue
		}
		switch st := s.(type) {
		case *ast.ReturnStmt:
			return true, "assigned-then-returned"
		case *ast.IfStmt:
			if st.Init == nil && st.Else == nil && onlySetsWhenNil(st, v) {
				continue // `if v == nil && … { v = … }`: an error already set passes through unchanged
			}
			if st.Init == nil && isErrTest(st.Cond, v) && returnsVar(st.Body, v, ft) {
				return true, "if-err-return"
			}
			if st.Init == nil && isErrTest(st.Cond, v) && breaksToReturn(p, st, v, ft) {
				return true, "if-err-break-return"
			}
			return false, "tested-not-returned"
		default:
			return false, "overwritten-or-used"
		}
	}
	// end of block: a named result is returned by falling through a bare return / end of function
	if hasNamedResult(ft, v) {
		if _, isBody := p[parent].(*ast.FuncDecl); isBody {
			return true, "named-result-return"
		}
		if _, isBody := p[parent].(*ast.FuncLit); isBody {
			return true, "named-result-return"
		}
	}
	return false, "never-checked"
}

// disposition of the error result of call c
func (a *wsAnalyzer) disposition(p wsParents, c *ast.CallExpr) (bool, string) {
	parent := p[c]
	for {
		if pe, ok := parent.(*ast.ParenExpr); ok {
			parent = p[pe]
			continue
		}
		break
	}
	switch st := parent.(type) {
	case *ast.ReturnStmt:
		return true, "returned"
	case *ast.ExprStmt:
		return false, "unchecked"
	case *ast.DeferStmt:
		return false, "deferred"
	case *ast.GoStmt:
		return false, "go"
	case *ast.AssignStmt:
		if len(st.Rhs) != 1 || st.Rhs[0] != ast.Expr(c) {
			return false, "multi-assign"
		}
		last := st.Lhs[len(st.Lhs)-1]
		id, ok := last.(*ast.Ident)
		if !ok {
			return false, "assigned-to-non-variable"
		}
		if id.Name == "_" {
			return false, "assigned-blank"
		}
		return a.flows(p, st, id.Name)
	case *ast.ValueSpec:
		return false, "var-decl"
	}
	return false, "unsupported-context"
}

func famWriteSites(repo string) (string, error) {
	fset := token.NewFileSet()
	// 1. which names of the package always return an error (all non-test files)
	ents, err := os.ReadDir(repo)
	if err != nil {
		return "", err
	}
	total := map[string]int{}
	witherr := map[string]int{}
	plainErr := map[string]bool{}
	declared := map[string]bool{}
	var writerFile *ast.File
	for _, e := range ents {
		n := e.Name()
		if e.IsDir() || !strings.HasSuffix(n, ".go") || strings.HasSuffix(n, "_test.go") {
			continue
		}
		f, err := parser.ParseFile(fset, filepath.Join(repo, n), nil, parser.SkipObjectResolution)
		if err != nil {
			return "", err
		}
		if n == "writer.go" {
			writerFile = f
		}
		for _, d := range f.Decls {
			if fd, ok := d.(*ast.FuncDecl); ok {
				declared[fd.Name.Name] = true
				if fd.Recv == nil {
					plainErr[fd.Name.Name] = lastResultIsError(fd.Type)
					continue
				}
				total[fd.Name.Name]++
				if lastResultIsError(fd.Type) {
					witherr[fd.Name.Name]++
				}
			}
		}
	}
	if writerFile == nil {
		return "", fmt.Errorf("writer.go not found in %s", repo)
	}
	a := &wsAnalyzer{fset: fset, errFuncs: map[string]bool{}, errPlain: plainErr, declared: declared}
	for n, t := range total {
		a.errFuncs[n] = witherr[n] == t
	}

	var funcs []wsFunc
	for _, d := range writerFile.Decls {
		if fd, ok := d.(*ast.FuncDecl); ok && fd.Body != nil {
			funcs = append(funcs, wsFunc{fd, wsFuncName(fd), fd.Name.Name})
		}
	}

	type rawSite struct {
		fn   string
		call *ast.CallExpr
		kind string
	}
	perFunc := map[string][]rawSite{}
	parents := map[string]wsParents{}
	calls := map[string][]*ast.CallExpr{} // all calls per function, for the reachability pass

	for _, f := range funcs {
		p := wsBuildParents(f.decl)
		parents[f.name] = p
		a.tainted = map[string]int{}
		a.fnParams = map[string]bool{}
		// io.Writer parameters of the function and of its closures
		markParams := func(ft *ast.FuncType) {
			if ft.Params == nil {
				return
			}
			for _, fld := range ft.Params.List {
				if _, isFn := fld.Type.(*ast.FuncType); isFn {
					for _, id := range fld.Names {
						a.fnParams[id.Name] = true
					}
				}
				if isIoWriterType(fld.Type) {
					for _, id := range fld.Names {
						a.tainted[id.Name] = wsParam
					}
				}
			}
		}
		markParams(f.decl.Type)
		ast.Inspect(f.decl.Body, func(n ast.Node) bool {
			if fl, ok := n.(*ast.FuncLit); ok {
				markParams(fl.Type)
			}
			return true
		})
		// derived values, in source order (two passes reach a fixpoint for the shapes in use)
		for pass := 0; pass < 2; pass++ {
			ast.Inspect(f.decl.Body, func(n ast.Node) bool {
				as, ok := n.(*ast.AssignStmt)
				if !ok || len(as.Rhs) != 1 {
					return true
				}
				call, ok := as.Rhs[0].(*ast.CallExpr)
				if !ok || len(as.Lhs) == 0 {
					return true
				}
				// constructors only: the called function is not a package function returning an error
				if c := a.class(call); c != wsNone && !a.isErrCall(call) && !a.isSinkMethodCall(call) {
					if id, ok := as.Lhs[0].(*ast.Ident); ok && id.Name != "_" {
						if _, seen := a.tainted[id.Name]; !seen {
							a.tainted[id.Name] = c
						}
					}
				}
				return true
			})
		}
		ast.Inspect(f.decl.Body, func(n ast.Node) bool {
			call, ok := n.(*ast.CallExpr)
			if !ok {
				return true
			}
			calls[f.name] = append(calls[f.name], call)
			if k := a.siteKind(call); k != "" {
				perFunc[f.name] = append(perFunc[f.name], rawSite{f.name, call, k})
			}
			return true
		})
	}

	// 2. functions of writer.go from which a site is reachable (by simple name)
	reaching := map[string]bool{}
	for _, f := range funcs {
		if len(perFunc[f.name]) > 0 {
			reaching[f.short] = true
		}
	}
	for changed := true; changed; {
		changed = false
		for _, f := range funcs {
			if reaching[f.short] {
				continue
			}
			for _, c := range calls[f.name] {
				if n := calleeName(c); n != "" && reaching[n] && a.localMethodCall(c) {
					reaching[f.short] = true
					changed = true
					break
				}
			}
		}
	}
	for _, f := range funcs {
		seen := map[*ast.CallExpr]bool{}
		for _, s := range perFunc[f.name] {
			seen[s.call] = true
		}
		for _, c := range calls[f.name] {
			if seen[c] {
				continue
			}
			n := calleeName(c)
			if n == "" || !a.localMethodCall(c) {
				continue
			}
			if reaching[n] && a.isErrCall(c) {
				perFunc[f.name] = append(perFunc[f.name], rawSite{f.name, c, "call"})
			} else if a.isErrCall(c) {
				// errcheck-style: only when the error is discarded
				if ok, _ := a.disposition(parents[f.name], c); !ok {
					if _, isStmt := parents[f.name][c].(*ast.ExprStmt); isStmt {
						perFunc[f.name] = append(perFunc[f.name], rawSite{f.name, c, "errdrop"})
					}
				}
			}
		}
	}

	// 3. names, dispositions
	var sites []wsSite
	for _, f := range funcs {
		rs := perFunc[f.name]
		sort.SliceStable(rs, func(i, j int) bool { return rs[i].call.Pos() < rs[j].call.Pos() })
		count := map[string]int{}
		for _, s := range rs {
			text := exprText(fset, s.call.Fun)
			count[text]++
			ok, how := a.disposition(parents[f.name], s.call)
			sites = append(sites, wsSite{
				name:       fmt.Sprintf("%s:%s#%d", f.name, text, count[text]),
				line:       fset.Position(s.call.Pos()).Line,
				kind:       s.kind,
				propagates: ok,
				how:        how,
			})
		}
	}
	sort.SliceStable(sites, func(i, j int) bool { return sites[i].line < sites[j].line })

	var sb strings.Builder
	sb.WriteString("/-- a call of writer.go on the byte path to the destination io.Writer.\n")
	sb.WriteString("    name = `<function>:<callee>#<occurrence in the function>`; kind ∈ sink | param | store | pass | call | errdrop;\n")
	sb.WriteString("    propagates = its error result reaches the return of the enclosing function (AST level) -/\n")
	sb.WriteString("structure WriteSite where\n  name : String\n  line : Nat\n  kind : String\n  propagates : Bool\n  how : String\n  deriving Repr, DecidableEq\n\n")
	sb.WriteString("def writeSites : List WriteSite := [\n")
	for i, s := range sites {
		sep := ","
		if i == len(sites)-1 {
			sep = ""
		}
		fmt.Fprintf(&sb, "  ⟨%s, %d, %s, %s, %s⟩%s\n", LeanString(s.name), s.line, LeanString(s.kind), LeanBool(s.propagates), LeanString(s.how), sep)
	}
	sb.WriteString("]\n")
	return sb.String(), nil
}

func calleeName(c *ast.CallExpr) string {
	switch f := c.Fun.(type) {
	case *ast.Ident:
		return f.Name
	case *ast.SelectorExpr:
		return f.Sel.Name
	}
	return ""
}

// localMethodCall: a plain function call, or a method call whose receiver is a plain identifier or
// a field chain — but not a package-qualified call of another package (io.Copy, fmt.Errorf).
func (a *wsAnalyzer) localMethodCall(c *ast.CallExpr) bool {
	switch f := c.Fun.(type) {
	case *ast.Ident:
		return true
	case *ast.SelectorExpr:
		if id, ok := f.X.(*ast.Ident); ok {
			switch id.Name {
			case "io", "fmt", "os", "bytes", "binary", "thrift", "slices", "cmp", "sort", "errors", "math", "bits", "bufio", "encoding", "format", "compress", "memory", "unsafe", "reflect", "strings", "sync", "time", "maps":
				return false
			}
		}
		return true
	}
	return false
}

func (a *wsAnalyzer) isErrCall(c *ast.CallExpr) bool {
	switch f := c.Fun.(type) {
	case *ast.Ident:
		return a.errPlain[f.Name]
	case *ast.SelectorExpr:
		return a.localMethodCall(c) && a.errFuncs[f.Sel.Name]
	}
	return false
}

func (a *wsAnalyzer) isSinkMethodCall(c *ast.CallExpr) bool {
	s, ok := c.Fun.(*ast.SelectorExpr)
	return ok && wsSinkMethods[s.Sel.Name] && a.class(s.X) != wsNone
}

func (a *wsAnalyzer) siteKind(c *ast.CallExpr) string {
	if s, ok := c.Fun.(*ast.SelectorExpr); ok {
		// io.Copy(dst, src) / io.CopyN / io.WriteString(dst, s)
		if id, ok := s.X.(*ast.Ident); ok && id.Name == "io" &&
			(s.Sel.Name == "Copy" || s.Sel.Name == "CopyN" || s.Sel.Name == "CopyBuffer" || s.Sel.Name == "WriteString") && len(c.Args) >= 2 {
			if k := a.class(c.Args[0]); k != wsNone {
				return wsKindName(k)
			}
			return ""
		}
		// receiver chain reaches the destination / a store
		if wsSinkMethods[s.Sel.Name] {
			if k := a.class(s.X); k != wsNone {
				return wsKindName(k)
			}
		}
	}
	// hands the destination / a store to a package function that returns an error, or to a
	// function value (`writeTo(c.pageBuffer)` in writePageTo)
	fnValue := false
	if id, ok := c.Fun.(*ast.Ident); ok && a.fnParams[id.Name] {
		fnValue = true
	}
	if a.isErrCall(c) || fnValue {
		for _, arg := range c.Args {
			if a.class(arg) != wsNone {
				return "pass"
			}
		}
	}
	return ""
}
