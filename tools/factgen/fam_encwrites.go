package main

// Family "encwrites" (property C18, leak part): every call that moves bytes towards the file in
// the functions of writer.go that have an encryption branch, with
//
//	branch    "enc"   the call sits in the branch taken when a key is present (`c.encKey != nil`,
//	                  `key := pageIndexKey(column); key != nil`, `w.encryption != nil`),
//	          "plain" it sits in the else branch of such a test, or after such a branch that ends
//	                  with a return (reached only without a key),
//	          "any"   it is reached either way;
//	argSealed the first argument is a variable assigned from encryptModule(...) or signFooter(...)
//	          in the same function.
//
// Calls whose receiver is a local bytes.Buffer, an encoder built over one, or the column writer's
// header scratch buffer (`c.header.…`) only fill an intermediate plaintext buffer and are not
// sites. The Lean side (Props/FactsCheckC18.lean) compares the table with the list the model's
// `emit` is built from: a new site, a site that changes branch, or an "enc" site whose argument
// is not sealed breaks the build.

import (
	"fmt"
	"go/ast"
	"go/parser"
	"go/token"
	"path/filepath"
	"regexp"
	"strings"
)

func init() { RegisterRaw("encwrites", famEncWrites) }

var ewFuncs = map[string]bool{
	"writer.writeFileHeader": true, "writer.writeDeferredBloomFilters": true, "writer.writeFileFooter": true,
	"writer.writeRowGroup": true, "ColumnWriter.writeDataPage": true, "ColumnWriter.writeDictionaryPage": true,
	"ColumnWriter.writeBloomFilter": true,
}

var ewMethods = map[string]bool{"Write": true, "WriteString": true, "Encode": true, "ReadFrom": true, "copySection": true}

var ewKeyTest = regexp.MustCompile(`(encKey != nil|^key != nil$|w\.encryption != nil)`)

type ewSite struct {
	name      string
	line      int
	branch    string
	argSealed bool
}

type ewWalker struct {
	fset   *token.FileSet
	fn     string
	locals map[string]bool // local plaintext buffers and encoders over them
	sealed map[string]bool
	encs   map[string]bool // encoder variables in scope and whether they write to a local buffer
	sites  []ewSite
}

func ewRoot(e ast.Expr) string {
	for {
		switch x := e.(type) {
		case *ast.SelectorExpr:
			e = x.X
		case *ast.UnaryExpr:
			e = x.X
		case *ast.ParenExpr:
			e = x.X
		case *ast.IndexExpr:
			e = x.X
		case *ast.CallExpr:
			e = x.Fun
		case *ast.Ident:
			return x.Name
		default:
			return ""
		}
	}
}

// innermost `&X` / identifier handed to NewWriter(...) inside thrift.NewEncoder(...)
func ewEncoderTarget(call *ast.CallExpr) ast.Expr {
	var target ast.Expr
	ast.Inspect(call, func(n ast.Node) bool {
		if c, ok := n.(*ast.CallExpr); ok {
			if s, ok := c.Fun.(*ast.SelectorExpr); ok && s.Sel.Name == "NewWriter" && len(c.Args) == 1 {
				target = c.Args[0]
			}
		}
		return true
	})
	return target
}

func (w *ewWalker) prepass(body *ast.BlockStmt) {
	ast.Inspect(body, func(n ast.Node) bool {
		switch x := n.(type) {
		case *ast.DeclStmt:
			if g, ok := x.Decl.(*ast.GenDecl); ok && g.Tok == token.VAR {
				for _, sp := range g.Specs {
					vs := sp.(*ast.ValueSpec)
					if exprText(w.fset, vs.Type) == "bytes.Buffer" {
						for _, id := range vs.Names {
							w.locals[id.Name] = true
						}
					}
				}
			}
		case *ast.AssignStmt:
			if len(x.Rhs) == 1 {
				if c, ok := x.Rhs[0].(*ast.CallExpr); ok {
					if id, ok := c.Fun.(*ast.Ident); ok && (id.Name == "encryptModule" || id.Name == "signFooter") {
						if l, ok := x.Lhs[0].(*ast.Ident); ok {
							w.sealed[l.Name] = true
						}
					}
				}
			}
		}
		return true
	})
}

func (w *ewWalker) call(c *ast.CallExpr, br string) {
	var recv, method string
	var args []ast.Expr
	if s, ok := c.Fun.(*ast.SelectorExpr); ok {
		recv, method = exprText(w.fset, s.X), s.Sel.Name
		args = c.Args
		if recv == "io" && method == "Copy" && len(c.Args) == 2 {
			if w.locals[ewRoot(c.Args[0])] {
				return
			}
			recv, method, args = "io", "Copy:"+exprText(w.fset, c.Args[0]), c.Args[1:]
		} else if !ewMethods[method] {
			return
		} else if method == "Encode" {
			// only thrift encoders write; codecs have an Encode too
			local, known := w.encs[ewRoot(s.X)]
			if !known || local {
				return
			}
		} else if w.locals[ewRoot(s.X)] || strings.HasPrefix(recv, "c.header.") {
			return
		}
	} else {
		return
	}
	arg := ""
	sealed := false
	if len(args) > 0 {
		arg = exprText(w.fset, args[0])
		if id, ok := args[0].(*ast.Ident); ok && w.sealed[id.Name] {
			sealed = true
		}
	}
	w.sites = append(w.sites, ewSite{name: fmt.Sprintf("%s:%s.%s(%s)", w.fn, recv, method, arg), line: w.fset.Position(c.Pos()).Line, branch: br, argSealed: sealed})
}

// calls of an expression or simple statement; function literals are walked as statement lists
func (w *ewWalker) calls(n ast.Node, br string) {
	if n == nil {
		return
	}
	ast.Inspect(n, func(x ast.Node) bool {
		switch y := x.(type) {
		case *ast.FuncLit:
			w.stmts(y.Body.List, br)
			return false
		case *ast.AssignStmt:
			// `e := thrift.NewEncoder(p.NewWriter(&X))`: e writes where X is (the name may be reused
			// in another branch for another target, so this follows the walk, not the scope)
			if len(y.Rhs) == 1 {
				if c, ok := y.Rhs[0].(*ast.CallExpr); ok && strings.HasSuffix(exprText(w.fset, c.Fun), "NewEncoder") {
					if l, ok := y.Lhs[0].(*ast.Ident); ok {
						t := ewEncoderTarget(c)
						w.encs[l.Name] = t != nil && w.locals[ewRoot(t)]
					}
				}
			}
		case *ast.CallExpr:
			w.call(y, br)
		}
		return true
	})
}

func ewTerminates(b *ast.BlockStmt) bool {
	if len(b.List) == 0 {
		return false
	}
	_, ok := b.List[len(b.List)-1].(*ast.ReturnStmt)
	return ok
}

// ifStmt returns true when the statement is a key test whose key-present branch ends with a return
func (w *ewWalker) ifStmt(s *ast.IfStmt, br string) bool {
	w.calls(s.Init, br)
	w.calls(s.Cond, br)
	thenBr, elseBr := br, br
	keyTest := ewKeyTest.MatchString(exprText(w.fset, s.Cond))
	if keyTest && br != "plain" {
		thenBr, elseBr = "enc", "plain"
		if br == "enc" {
			elseBr = "enc" // nested test under an outer key-present branch (never happens today)
		}
	}
	w.stmts(s.Body.List, thenBr)
	switch e := s.Else.(type) {
	case *ast.IfStmt:
		w.ifStmt(e, elseBr)
	case *ast.BlockStmt:
		w.stmts(e.List, elseBr)
	}
	return keyTest && ewTerminates(s.Body)
}

func (w *ewWalker) stmts(list []ast.Stmt, br string) {
	for _, st := range list {
		switch s := st.(type) {
		case *ast.IfStmt:
			if w.ifStmt(s, br) && br == "any" {
				br = "plain"
			}
		case *ast.BlockStmt:
			w.stmts(s.List, br)
		case *ast.ForStmt:
			w.calls(s.Init, br)
			w.calls(s.Cond, br)
			w.calls(s.Post, br)
			w.stmts(s.Body.List, br)
		case *ast.RangeStmt:
			w.calls(s.X, br)
			w.stmts(s.Body.List, br)
		case *ast.SwitchStmt:
			w.calls(s.Init, br)
			w.calls(s.Tag, br)
			for _, cc := range s.Body.List {
				w.stmts(cc.(*ast.CaseClause).Body, br)
			}
		case *ast.TypeSwitchStmt:
			for _, cc := range s.Body.List {
				w.stmts(cc.(*ast.CaseClause).Body, br)
			}
		default:
			w.calls(st, br)
		}
	}
}

func famEncWrites(repo string) (string, error) {
	fset := token.NewFileSet()
	f, err := parser.ParseFile(fset, filepath.Join(repo, "writer.go"), nil, parser.SkipObjectResolution)
	if err != nil {
		return "", err
	}
	var all []ewSite
	found := map[string]bool{}
	for _, d := range f.Decls {
		fd, ok := d.(*ast.FuncDecl)
		if !ok || fd.Body == nil {
			continue
		}
		name := wsFuncName(fd)
		if !ewFuncs[name] {
			continue
		}
		found[name] = true
		w := &ewWalker{fset: fset, fn: name, locals: map[string]bool{}, sealed: map[string]bool{}, encs: map[string]bool{}}
		w.prepass(fd.Body)
		w.stmts(fd.Body.List, "any")
		all = append(all, w.sites...)
	}
	for n := range ewFuncs {
		if !found[n] {
			return "", fmt.Errorf("function %s not found in writer.go", n)
		}
	}
	var sb strings.Builder
	sb.WriteString("\n/-- a call of writer.go that moves bytes towards the file in a function with an encryption branch -/\n")
	sb.WriteString("structure EncWriteSite where\n  name : String\n  branch : String\n  argSealed : Bool\nderiving DecidableEq, Repr\n\n")
	sb.WriteString("def encWriteSites : List EncWriteSite := [\n")
	for i, s := range all {
		sep := ","
		if i == len(all)-1 {
			sep = ""
		}
		fmt.Fprintf(&sb, "  ⟨%s, %s, %s⟩%s  -- writer.go:%d\n", LeanString(s.name), LeanString(s.branch), LeanBool(s.argSealed), sep, s.line)
	}
	sb.WriteString("]\n")
	return sb.String(), nil
}
