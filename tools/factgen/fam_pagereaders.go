package main

// Family "pagereaders" (property C13): every call in the library (root package, non-test files) to a
// function through which a page-load error travels — the page readers
//
//	ReadPage readPageInSequence readPage readDictionary ReadDictionary
//	readDataPageV1 readDataPageV2 readDictionaryPage readEncryptedPage
//
// — and what the caller does with the error result. For each call site the family emits
//
//	(function, callee, form, steps)
//
// form  = "tail"     `return x.ReadPage()`: results handed on unchanged
//	       | "assign"   `p, err := x.ReadPage()` / `err = …`           (error kept in a variable)
//	       | "if-init"  `if err := f.readDictionary(); err != nil {…}`
//	       | "discard"  the call is an expression statement: results dropped
//	       | "blank"    the error result is assigned to `_`
//	       | "other:<text>" anything else (go/defer, nested in an expression)
//
// steps = the decision list the statements after the call form over the error variable (and the
// page variable): `(guard, outcome)` in program order, where `guard` is the condition under which the
// statement is reached AND taken, in reverse Polish notation over the atoms
//
//	err==nil err!=nil err==EOF err!=EOF isEOF (errors.Is(err, io.EOF)) page==nil page!=nil
//	true, ?<text> (a condition about something else: unknown), and / or / not
//
// and `outcome` is what happens there: "return-err" (the error variable is the last result),
// "return-wrapped" (the last result mentions it), "return-nil", "return-other", "send" (sent on a
// channel inside a struct: the async reader), "reassign" (the variable is overwritten), "break",
// "continue", "uses:<text>", "end" (the enclosing function/loop body ends). Nested `if`s are flattened
// by conjunction; after an `if` whose body always leaves, the negated condition is added to what
// follows; the statements after the enclosing `if`/block are followed up to the enclosing loop or
// function. The Lean side (`PqModel/PageReaders.lean`) evaluates the list (Kleene logic) in the
// situation "error that is neither nil nor io.EOF, page nil or not": the first step whose guard
// holds must hand the error on. Hook calls (`verif*`) are ignored.

import (
	"go/ast"
	"go/token"
	"os"
	"path/filepath"
	"sort"
	"strings"
)

func init() { Register("pagereaders", pageReaders) }

var pageReaderCallees = map[string]bool{
	"ReadPage": true, "readPageInSequence": true, "readPage": true, "readDictionary": true, "ReadDictionary": true,
	"readDataPageV1": true, "readDataPageV2": true, "readDictionaryPage": true, "readEncryptedPage": true,
}

// the value / row readers through which the same error travels further up (second table)
var rowReaderCallees = map[string]bool{"ReadValues": true, "ReadRows": true, "readRows": true}

type prStep struct {
	guard   []string
	outcome string
}

type prSite struct {
	file    string
	line    int
	fn      string
	callee  string
	form    string
	steps   []prStep
	callPos token.Pos
}

type prCtx struct {
	r        *Repo
	errVar   string
	pageVar  string
	countVar string // value/row readers: the count result (atoms n==0, n!=0, n>0)
}

func rpnAnd(a, b []string) []string {
	if len(a) == 1 && a[0] == "true" {
		return b
	}
	if len(b) == 1 && b[0] == "true" {
		return a
	}
	out := append(append([]string{}, a...), b...)
	return append(out, "and")
}

func rpnNot(a []string) []string { return append(append([]string{}, a...), "not") }

func isIdent(e ast.Expr, name string) bool {
	id, ok := e.(*ast.Ident)
	return ok && id.Name == name
}

// toRPN translates a condition; anything that is not about the tracked variables is one unknown atom
func (c *prCtx) toRPN(e ast.Expr) []string {
	switch x := e.(type) {
	case *ast.ParenExpr:
		return c.toRPN(x.X)
	case *ast.UnaryExpr:
		if x.Op == token.NOT {
			return rpnNot(c.toRPN(x.X))
		}
	case *ast.BinaryExpr:
		switch x.Op {
		case token.LAND:
			return append(append(c.toRPN(x.X), c.toRPN(x.Y)...), "and")
		case token.LOR:
			return append(append(c.toRPN(x.X), c.toRPN(x.Y)...), "or")
		case token.GTR, token.LSS:
			isZero := func(e ast.Expr) bool { b, ok := e.(*ast.BasicLit); return ok && b.Value == "0" }
			if c.countVar != "" && ((x.Op == token.GTR && isIdent(x.X, c.countVar) && isZero(x.Y)) || (x.Op == token.LSS && isZero(x.X) && isIdent(x.Y, c.countVar))) {
				return []string{"n>0"}
			}
		case token.EQL, token.NEQ:
			op := "=="
			if x.Op == token.NEQ {
				op = "!="
			}
			l, r := x.X, x.Y
			if isIdent(r, c.errVar) || (c.pageVar != "" && isIdent(r, c.pageVar)) {
				l, r = r, l
			}
			isZero := func(e ast.Expr) bool { b, ok := e.(*ast.BasicLit); return ok && b.Value == "0" }
			switch {
			case c.countVar != "" && isIdent(l, c.countVar) && isZero(r):
				return []string{"n" + op + "0"}
			case c.countVar != "" && isIdent(r, c.countVar) && isZero(l):
				return []string{"n" + op + "0"}
			case c.errVar != "" && isIdent(l, c.errVar) && isIdent(r, "nil"):
				return []string{"err" + op + "nil"}
			case c.errVar != "" && isIdent(l, c.errVar) && isSel(r, "io", "EOF"):
				return []string{"err" + op + "EOF"}
			case c.pageVar != "" && isIdent(l, c.pageVar) && isIdent(r, "nil"):
				return []string{"page" + op + "nil"}
			}
		}
	case *ast.CallExpr:
		if isSel(x.Fun, "errors", "Is") && len(x.Args) == 2 && isIdent(x.Args[0], c.errVar) && isSel(x.Args[1], "io", "EOF") {
			return []string{"isEOF"}
		}
	}
	return []string{"?" + c.r.Text(e)}
}

func mentionsIdent(n ast.Node, name string) bool {
	if n == nil || name == "" {
		return false
	}
	found := false
	ast.Inspect(n, func(m ast.Node) bool {
		if id, ok := m.(*ast.Ident); ok && id.Name == name {
			found = true
		}
		return !found
	})
	return found
}

func isHookCall(s ast.Stmt) bool {
	es, ok := s.(*ast.ExprStmt)
	if !ok {
		return false
	}
	c, ok := es.X.(*ast.CallExpr)
	return ok && strings.HasPrefix(bareCallee(c), "verif")
}

func assignsTo(s *ast.AssignStmt, name string) bool {
	for _, l := range s.Lhs {
		if isIdent(l, name) {
			return true
		}
	}
	return false
}

// flatten walks a statement list; returns true when every path through it leaves (return/branch/…)
func (c *prCtx) flatten(list []ast.Stmt, prefix []string, out *[]prStep) (terminated bool, rest []string) {
	emit := func(g []string, o string) { *out = append(*out, prStep{g, o}) }
	for _, s := range list {
		if isHookCall(s) {
			continue
		}
		switch x := s.(type) {
		case *ast.IfStmt:
			if x.Init != nil {
				if a, ok := x.Init.(*ast.AssignStmt); ok && assignsTo(a, c.errVar) {
					emit(prefix, "reassign")
					return true, prefix
				}
			}
			cond := c.toRPN(x.Cond)
			tBody, _ := c.flatten(x.Body.List, rpnAnd(prefix, cond), out)
			// the body's trailing "end" is not a step of its own: execution goes on below
			if n := len(*out); n > 0 && (*out)[n-1].outcome == "end" {
				*out = (*out)[:n-1]
			}
			tElse := false
			if x.Else != nil {
				var el []ast.Stmt
				switch e := x.Else.(type) {
				case *ast.BlockStmt:
					el = e.List
				default:
					el = []ast.Stmt{e}
				}
				tElse, _ = c.flatten(el, rpnAnd(prefix, rpnNot(cond)), out)
				if n := len(*out); n > 0 && (*out)[n-1].outcome == "end" {
					*out = (*out)[:n-1]
				}
				if tBody && tElse {
					return true, prefix
				}
				if tElse {
					prefix = rpnAnd(prefix, cond)
				}
			}
			if tBody && !tElse {
				prefix = rpnAnd(prefix, rpnNot(cond))
			}
		case *ast.ReturnStmt:
			o := "return-other"
			if n := len(x.Results); n > 0 {
				last := x.Results[n-1]
				switch {
				case isIdent(last, c.errVar):
					o = "return-err"
				case mentionsIdent(last, c.errVar):
					o = "return-wrapped"
				case isIdent(last, "nil"):
					o = "return-nil"
				}
			}
			emit(prefix, o)
			return true, prefix
		case *ast.BranchStmt:
			emit(prefix, strings.ToLower(x.Tok.String()))
			return true, prefix
		case *ast.AssignStmt:
			if assignsTo(x, c.errVar) {
				emit(prefix, "reassign")
				return true, prefix
			}
			for _, rhs := range x.Rhs {
				if mentionsIdent(rhs, c.errVar) {
					emit(prefix, "uses:"+prShort(c.r.Text(x)))
					return true, prefix
				}
			}
		case *ast.SelectStmt:
			sends := false
			for _, cl := range x.Body.List {
				if cc, ok := cl.(*ast.CommClause); ok {
					if snd, ok := cc.Comm.(*ast.SendStmt); ok && mentionsIdent(snd.Value, c.errVar) {
						sends = true
					}
				}
			}
			if sends {
				emit(prefix, "send")
				return true, prefix
			}
			if mentionsIdent(x, c.errVar) {
				emit(prefix, "uses:select")
				return true, prefix
			}
		case *ast.SendStmt:
			if mentionsIdent(x.Value, c.errVar) {
				emit(prefix, "send")
				return true, prefix
			}
		case *ast.BlockStmt:
			if t, _ := c.flatten(x.List, prefix, out); t {
				return true, prefix
			}
			if n := len(*out); n > 0 && (*out)[n-1].outcome == "end" {
				*out = (*out)[:n-1]
			}
		default:
			if mentionsIdent(s, c.errVar) {
				emit(prefix, "uses:"+prShort(c.r.Text(s)))
				return true, prefix
			}
		}
	}
	emit(prefix, "end")
	return false, prefix
}

func pageReaders(r *Repo, s *Section) error {
	paths, err := filepath.Glob(filepath.Join(r.Root, "*.go"))
	if err != nil {
		return err
	}
	sort.Strings(paths)
	var sites []prSite
	for _, p := range paths {
		base := filepath.Base(p)
		if strings.HasSuffix(base, "_test.go") || strings.HasPrefix(base, "export_verif") || strings.HasSuffix(base, "_verif.go") {
			continue
		}
		src, err := os.ReadFile(p)
		if err != nil {
			return err
		}
		if !strings.Contains(string(src), "ReadPage") && !strings.Contains(string(src), "eadDictionary") && !strings.Contains(string(src), "readDataPage") {
			continue
		}
		file, err := r.File(base)
		if err != nil {
			return err
		}
		for _, d := range file.Decls {
			fn, ok := d.(*ast.FuncDecl)
			if !ok || fn.Body == nil {
				continue
			}
			sites = append(sites, prSitesOf(r, base, fn)...)
		}
	}
	sort.SliceStable(sites, func(i, j int) bool {
		if sites[i].fn != sites[j].fn {
			return sites[i].fn < sites[j].fn
		}
		return sites[i].callPos < sites[j].callPos
	})
	var rows []string
	for _, st := range sites {
		var steps []string
		for _, sp := range st.steps {
			steps = append(steps, Tuple(strList(sp.guard), Str(sp.outcome)))
		}
		s.Comment("%s:%d %s calls %s (%s)", st.file, st.line, st.fn, st.callee, st.form)
		rows = append(rows, Tuple(Str(st.fn), Str(st.callee), Str(st.form), "["+strings.Join(steps, ", ")+"]"))
	}
	s.Comment("every call to a page reader in the root package: (function, callee, form, decision list over the\nerror/page variables after the call: (guard in RPN, outcome)) — see tools/factgen/fam_pagereaders.go")
	s.Def("pageReaderCalls", "List (String × String × String × List (List String × String))", List(rows))

	// second table: the callers of value / row readers (ReadValues, ReadRows, readRows)
	prCallees = rowReaderCallees
	defer func() { prCallees = pageReaderCallees }()
	var sites2 []prSite
	for _, p := range paths {
		base := filepath.Base(p)
		if strings.HasSuffix(base, "_test.go") || strings.HasPrefix(base, "export_verif") || strings.HasSuffix(base, "_verif.go") {
			continue
		}
		src, err := os.ReadFile(p)
		if err != nil {
			return err
		}
		if !strings.Contains(string(src), "ReadValues(") && !strings.Contains(string(src), "ReadRows(") && !strings.Contains(string(src), "readRows(") {
			continue
		}
		file, err := r.File(base)
		if err != nil {
			return err
		}
		for _, d := range file.Decls {
			if fn, ok := d.(*ast.FuncDecl); ok && fn.Body != nil {
				sites2 = append(sites2, prSitesOf(r, base, fn)...)
			}
		}
	}
	sort.SliceStable(sites2, func(i, j int) bool {
		if sites2[i].fn != sites2[j].fn {
			return sites2[i].fn < sites2[j].fn
		}
		return sites2[i].callPos < sites2[j].callPos
	})
	rows = nil
	for _, st := range sites2 {
		var steps []string
		for _, sp := range st.steps {
			steps = append(steps, Tuple(strList(sp.guard), Str(sp.outcome)))
		}
		s.Comment("%s:%d %s calls %s (%s)", st.file, st.line, st.fn, st.callee, st.form)
		rows = append(rows, Tuple(Str(st.fn), Str(st.callee), Str(st.form), "["+strings.Join(steps, ", ")+"]"))
	}
	s.Comment("every call to a value / row reader (ReadValues, ReadRows, readRows) in the root package, same layout;\nextra atoms n==0 n!=0 n>0 over the count result")
	s.Def("rowReaderCalls", "List (String × String × String × List (List String × String))", List(rows))
	return nil
}

var prCallees = pageReaderCallees

func newPrCtx(r *Repo, errVar, first, callee string) *prCtx {
	if rowReaderCallees[callee] {
		return &prCtx{r: r, errVar: errVar, countVar: first}
	}
	return &prCtx{r: r, errVar: errVar, pageVar: first}
}

func isReaderCall(e ast.Expr) (*ast.CallExpr, string) {
	c, ok := e.(*ast.CallExpr)
	if !ok {
		return nil, ""
	}
	name := bareCallee(c)
	if !prCallees[name] {
		return nil, ""
	}
	if _, ok := c.Fun.(*ast.SelectorExpr); !ok && rowReaderCallees[name] && name != "readRows" {
		return nil, ""
	}
	// ReadPage / ReadDictionary are method calls (x.ReadPage()); a package-level function of the
	// same name would be something else
	if _, ok := c.Fun.(*ast.SelectorExpr); !ok && (name == "ReadPage" || name == "ReadDictionary") {
		return nil, ""
	}
	return c, name
}

// prSitesOf finds the call sites of one function. conts is the stack of statement lists that
// follow the current block (innermost last); a nil entry marks a loop / function-literal boundary.
func prSitesOf(r *Repo, file string, fn *ast.FuncDecl) []prSite {
	var sites []prSite
	matched := map[token.Pos]bool{}
	name := qualName(fn)
	var walkList func(list []ast.Stmt, conts [][]ast.Stmt)
	follow := func(c *prCtx, first []ast.Stmt, after []ast.Stmt, conts [][]ast.Stmt) []prStep {
		var steps []prStep
		prefix := []string{"true"}
		lists := [][]ast.Stmt{}
		if first != nil {
			lists = append(lists, first)
		}
		lists = append(lists, after)
		for i := len(conts) - 1; i >= 0; i-- {
			lists = append(lists, conts[i])
		}
		for _, l := range lists {
			if l == nil { // loop boundary
				break
			}
			if n := len(steps); n > 0 && steps[n-1].outcome == "end" {
				steps = steps[:n-1]
			}
			t, p := c.flatten(l, prefix, &steps)
			if t {
				return steps
			}
			prefix = p
		}
		return steps
	}
	add := func(call *ast.CallExpr, callee, form string, steps []prStep) {
		matched[call.Pos()] = true
		sites = append(sites, prSite{file, r.Line(call), name, callee, form, steps, call.Pos()})
	}
	lhsVars := func(a *ast.AssignStmt) (pageVar, errVar string) {
		if n := len(a.Lhs); n > 0 {
			if id, ok := a.Lhs[n-1].(*ast.Ident); ok {
				errVar = id.Name
			}
			if n > 1 {
				if id, ok := a.Lhs[0].(*ast.Ident); ok && id.Name != "_" {
					pageVar = id.Name
				}
			}
		}
		return
	}
	var walkStmt func(s ast.Stmt, after []ast.Stmt, conts [][]ast.Stmt)
	walkStmt = func(s ast.Stmt, after []ast.Stmt, conts [][]ast.Stmt) {
		inner := append(conts[:len(conts):len(conts)], after)
		switch x := s.(type) {
		case *ast.ExprStmt:
			if c, callee := isReaderCall(x.X); c != nil {
				add(c, callee, "discard", nil)
			}
		case *ast.AssignStmt:
			if len(x.Rhs) == 1 {
				if c, callee := isReaderCall(x.Rhs[0]); c != nil {
					pv, ev := lhsVars(x)
					if ev == "_" || ev == "" {
						add(c, callee, "blank", nil)
					} else {
						ctx := newPrCtx(r, ev, pv, callee)
						add(c, callee, "assign", follow(ctx, nil, after, conts))
					}
				}
			}
		case *ast.ReturnStmt:
			if len(x.Results) == 1 {
				if c, callee := isReaderCall(x.Results[0]); c != nil {
					add(c, callee, "tail", nil)
				}
			}
		case *ast.IfStmt:
			if a, ok := x.Init.(*ast.AssignStmt); ok && len(a.Rhs) == 1 {
				if c, callee := isReaderCall(a.Rhs[0]); c != nil {
					pv, ev := lhsVars(a)
					if ev == "_" || ev == "" {
						add(c, callee, "blank", nil)
					} else {
						ctx := newPrCtx(r, ev, pv, callee)
						bare := &ast.IfStmt{If: x.If, Cond: x.Cond, Body: x.Body, Else: x.Else}
						add(c, callee, "if-init", follow(ctx, []ast.Stmt{bare}, after, conts))
					}
				}
			}
			walkList(x.Body.List, inner)
			switch e := x.Else.(type) {
			case *ast.BlockStmt:
				walkList(e.List, inner)
			case ast.Stmt:
				walkStmt(e, after, conts)
			}
		case *ast.BlockStmt:
			walkList(x.List, inner)
		case *ast.ForStmt:
			walkList(x.Body.List, append(inner[:len(inner):len(inner)], nil))
		case *ast.RangeStmt:
			walkList(x.Body.List, append(inner[:len(inner):len(inner)], nil))
		case *ast.SwitchStmt:
			for _, cl := range x.Body.List {
				if cc, ok := cl.(*ast.CaseClause); ok {
					walkList(cc.Body, inner)
				}
			}
		case *ast.TypeSwitchStmt:
			for _, cl := range x.Body.List {
				if cc, ok := cl.(*ast.CaseClause); ok {
					walkList(cc.Body, inner)
				}
			}
		case *ast.SelectStmt:
			for _, cl := range x.Body.List {
				if cc, ok := cl.(*ast.CommClause); ok {
					walkList(cc.Body, inner)
				}
			}
		case *ast.LabeledStmt:
			walkStmt(x.Stmt, after, conts)
		}
	}
	walkList = func(list []ast.Stmt, conts [][]ast.Stmt) {
		for i, s := range list {
			walkStmt(s, list[i+1:], conts)
		}
	}
	walkList(fn.Body.List, nil)
	// anything the statement patterns did not see (go/defer, nested in an expression, in a closure)
	ast.Inspect(fn.Body, func(n ast.Node) bool {
		if e, ok := n.(ast.Expr); ok {
			if c, callee := isReaderCall(e); c != nil && !matched[c.Pos()] {
				matched[c.Pos()] = true
				sites = append(sites, prSite{file, r.Line(c), name, callee, "other:" + r.Text(c), nil, c.Pos()})
			}
		}
		return true
	})
	return sites
}

// prShort keeps the head of a statement's text (the outcome only has to be recognisable)
func prShort(s string) string {
	if len(s) > 48 {
		return s[:48] + "…"
	}
	return s
}
