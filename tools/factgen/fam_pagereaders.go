package main

// Family "pagereaders" (property C13): every call in the library (root package, non-test files) to a
// function through which a page-load error travels — the page readers
//
//	ReadPage readPageInSequence readPage readDictionary ReadDictionary
//	readDataPageV1 readDataPageV2 readDictionaryPage readEncryptedPage
//
// — and what the caller does with the error result. For each call site the family emits
//
//	(function, callee, form, steps)
//
// form  = "tail"     `return x.ReadPage()`: results handed on unchanged
//	       | "assign"   `p, err := x.ReadPage()` / `err = …`           (error kept in a variable)
//	       | "if-init"  `if err := f.readDictionary(); err != nil {…}`
//	       | "discard"  the call is an expression statement: results dropped
//	       | "blank"    the error result is assigned to `_`
//	       | "other:<text>" anything else (go/defer, nested in an expression)
//
// steps = the decision list the statements after the call form over the error variable (and the
// page variable): `(guard, outcome)` in program order, where `guard` is the condition under which the
// statement is reached AND taken, in reverse Polish notation over the atoms
//
//	err==nil err!=nil err==EOF err!=EOF isEOF (errors.Is(err, io.EOF)) page==nil page!=nil
//	true, ?<text> (a condition about something else: unknown), and / or / not
//
// and `outcome` is what happens there: "return-err" (the error variable is the last result),
// "return-wrapped" (the last result mentions it), "return-nil", "return-other", "send" (sent on a
// channel inside a struct: the async reader), "reassign" (the variable is overwritten), "break",
// "continue", "uses:<text>", "end" (the enclosing function/loop body ends). Nested `if`s are flattened
// by conjunction; after an `if` whose body always leaves, the negated condition is added to what
// follows; the statements after the enclosing `if`/block are followed up to the enclosing loop or
// function. Since round 4 the list does not stop at the loop: an unlabeled `break` is followed into the
// statements behind the loop (under the guard it was taken with); the end of the body of a
// `for …; cond; … {}` loop becomes `(guard and cond, "iterate")` and goes on behind the loop under
// `guard and not cond`; a `for` loop with a condition over the tracked variables that FOLLOWS the call
// is entered under its condition (its body's loose ends are "iterate") and passed under the negation;
// `x.f = err` (the error kept in a field) is the non-deciding step "store" (fields: readerErrorStores); `return …, other` where
// the guards say `other != nil` is "return-other-err" (the caller fails, with another error); a
// variable re-declared with `:=` in an inner scope is not the tracked one; function literals are
// walked like functions. The Lean side (`PqModel/PageReaders.lean`) evaluates the list (Kleene logic) in the
// situation "error that is neither nil nor io.EOF, page nil or not": the first step whose guard
// holds must hand the error on. Hook calls (`verif*`) are ignored.

import (
	"go/ast"
	"go/token"
	"os"
	"path/filepath"
	"sort"
	"strings"
)

func init() { Register("pagereaders", pageReaders) }

var pageReaderCallees = map[string]bool{
	"ReadPage": true, "readPageInSequence": true, "readPage": true, "readDictionary": true, "ReadDictionary": true,
	"readDataPageV1": true, "readDataPageV2": true, "readDictionaryPage": true, "readEncryptedPage": true,
}

// the value / row readers through which the same error travels further up (second table)
var rowReaderCallees = map[string]bool{"ReadValues": true, "ReadRows": true, "readRows": true}

type prStep struct {
	guard   []string
	outcome string
}

type prSite struct {
	file    string
	line    int
	fn      string
	callee  string
	form    string
	steps   []prStep
	callPos token.Pos
	recv    string // text of the receiver expression
	source  string // receiverSource
	stores  []string
}

type prCtx struct {
	r        *Repo
	errVar   string
	pageVar  string
	countVar string // value/row readers: the count result (atoms n==0, n!=0, n>0)
	stores   []string // fields the error variable is stored in (`x.f = err`)
}

// guardSaysNonNil: the guard (RPN) contains the unknown atom `?<name> != nil` (as a conjunct or not: the
// outcome is only named after it; the Lean evaluator explores both values of an unknown atom)
func guardSaysNonNil(guard []string, name string) bool {
	for _, t := range guard {
		if t == "?"+name+" != nil" {
			return true
		}
	}
	return false
}

func rpnAnd(a, b []string) []string {
	if len(a) == 1 && a[0] == "true" {
		return b
	}
	if len(b) == 1 && b[0] == "true" {
		return a
	}
	out := append(append([]string{}, a...), b...)
	return append(out, "and")
}

func rpnNot(a []string) []string { return append(append([]string{}, a...), "not") }

func isIdent(e ast.Expr, name string) bool {
	id, ok := e.(*ast.Ident)
	return ok && id.Name == name
}

// toRPN translates a condition; anything that is not about the tracked variables is one unknown atom
func (c *prCtx) toRPN(e ast.Expr) []string {
	switch x := e.(type) {
	case *ast.ParenExpr:
		return c.toRPN(x.X)
	case *ast.UnaryExpr:
		if x.Op == token.NOT {
			return rpnNot(c.toRPN(x.X))
		}
	case *ast.BinaryExpr:
		switch x.Op {
		case token.LAND:
			return append(append(c.toRPN(x.X), c.toRPN(x.Y)...), "and")
		case token.LOR:
			return append(append(c.toRPN(x.X), c.toRPN(x.Y)...), "or")
		case token.GTR, token.LSS:
			isZero := func(e ast.Expr) bool { b, ok := e.(*ast.BasicLit); return ok && b.Value == "0" }
			if c.countVar != "" && ((x.Op == token.GTR && isIdent(x.X, c.countVar) && isZero(x.Y)) || (x.Op == token.LSS && isZero(x.X) && isIdent(x.Y, c.countVar))) {
				return []string{"n>0"}
			}
		case token.EQL, token.NEQ:
			op := "=="
			if x.Op == token.NEQ {
				op = "!="
			}
			l, r := x.X, x.Y
			if isIdent(r, c.errVar) || (c.pageVar != "" && isIdent(r, c.pageVar)) {
				l, r = r, l
			}
			isZero := func(e ast.Expr) bool { b, ok := e.(*ast.BasicLit); return ok && b.Value == "0" }
			switch {
			case c.countVar != "" && isIdent(l, c.countVar) && isZero(r):
				return []string{"n" + op + "0"}
			case c.countVar != "" && isIdent(r, c.countVar) && isZero(l):
				return []string{"n" + op + "0"}
			case c.errVar != "" && isIdent(l, c.errVar) && isIdent(r, "nil"):
				return []string{"err" + op + "nil"}
			case c.errVar != "" && isIdent(l, c.errVar) && isSel(r, "io", "EOF"):
				return []string{"err" + op + "EOF"}
			case c.pageVar != "" && isIdent(l, c.pageVar) && isIdent(r, "nil"):
				return []string{"page" + op + "nil"}
			}
		}
	case *ast.CallExpr:
		if isSel(x.Fun, "errors", "Is") && len(x.Args) == 2 && isIdent(x.Args[0], c.errVar) && isSel(x.Args[1], "io", "EOF") {
			return []string{"isEOF"}
		}
	}
	return []string{"?" + c.r.Text(e)}
}

func mentionsIdent(n ast.Node, name string) bool {
	if n == nil || name == "" {
		return false
	}
	found := false
	ast.Inspect(n, func(m ast.Node) bool {
		if id, ok := m.(*ast.Ident); ok && id.Name == name {
			found = true
		}
		return !found
	})
	return found
}

// definesIdent: `name` is declared by this `:=` statement
func definesIdent(s ast.Stmt, name string) bool {
	a, ok := s.(*ast.AssignStmt)
	if !ok || a.Tok != token.DEFINE {
		return false
	}
	for _, l := range a.Lhs {
		if isIdent(l, name) {
			return true
		}
	}
	return false
}

// listMentionsFree / mentionsFree: the statement(s) mention the variable `name` of the enclosing scope
// (occurrences behind a re-declaration `name := …` in an inner block are another variable)
func listMentionsFree(list []ast.Stmt, name string) bool {
	for _, s := range list {
		if definesIdent(s, name) {
			for _, rhs := range s.(*ast.AssignStmt).Rhs {
				if mentionsIdent(rhs, name) {
					return true
				}
			}
			return false // the rest of the block sees the new variable
		}
		if mentionsFree(s, name) {
			return true
		}
	}
	return false
}

func mentionsFree(n ast.Node, name string) bool {
	if n == nil || name == "" {
		return false
	}
	opt := func(s ast.Stmt) bool { return s != nil && mentionsFree(s, name) }
	switch x := n.(type) {
	case *ast.BlockStmt:
		if x == nil {
			return false
		}
		return listMentionsFree(x.List, name)
	case *ast.IfStmt:
		if x.Init != nil && definesIdent(x.Init, name) {
			return listMentionsFree([]ast.Stmt{x.Init}, name)
		}
		return opt(x.Init) || mentionsIdent(x.Cond, name) || mentionsFree(x.Body, name) || opt(x.Else)
	case *ast.ForStmt:
		if x.Init != nil && definesIdent(x.Init, name) {
			return listMentionsFree([]ast.Stmt{x.Init}, name)
		}
		return opt(x.Init) || (x.Cond != nil && mentionsIdent(x.Cond, name)) || opt(x.Post) || mentionsFree(x.Body, name)
	case *ast.RangeStmt:
		if x.Tok == token.DEFINE && ((x.Key != nil && isIdent(x.Key, name)) || (x.Value != nil && isIdent(x.Value, name))) {
			return mentionsIdent(x.X, name)
		}
		return (x.Key != nil && mentionsIdent(x.Key, name)) || (x.Value != nil && mentionsIdent(x.Value, name)) ||
			mentionsIdent(x.X, name) || mentionsFree(x.Body, name)
	case *ast.SwitchStmt:
		return opt(x.Init) || (x.Tag != nil && mentionsIdent(x.Tag, name)) || mentionsFree(x.Body, name)
	case *ast.TypeSwitchStmt:
		return opt(x.Init) || opt(x.Assign) || mentionsFree(x.Body, name)
	case *ast.SelectStmt:
		return mentionsFree(x.Body, name)
	case *ast.CaseClause:
		for _, e := range x.List {
			if mentionsIdent(e, name) {
				return true
			}
		}
		return listMentionsFree(x.Body, name)
	case *ast.CommClause:
		return opt(x.Comm) || listMentionsFree(x.Body, name)
	case *ast.LabeledStmt:
		return mentionsFree(x.Stmt, name)
	}
	return mentionsIdent(n, name)
}

func isHookCall(s ast.Stmt) bool {
	es, ok := s.(*ast.ExprStmt)
	if !ok {
		return false
	}
	c, ok := es.X.(*ast.CallExpr)
	return ok && strings.HasPrefix(bareCallee(c), "verif")
}

func assignsTo(s *ast.AssignStmt, name string) bool {
	for _, l := range s.Lhs {
		if isIdent(l, name) {
			return true
		}
	}
	return false
}

// flatten walks a statement list; returns true when every path through it leaves (return/branch/…)
func (c *prCtx) flatten(list []ast.Stmt, prefix []string, out *[]prStep) (terminated bool, rest []string) {
	emit := func(g []string, o string) { *out = append(*out, prStep{g, o}) }
	for _, s := range list {
		if isHookCall(s) {
			continue
		}
		switch x := s.(type) {
		case *ast.IfStmt:
			if x.Init != nil {
				if a, ok := x.Init.(*ast.AssignStmt); ok && assignsTo(a, c.errVar) {
					emit(prefix, "reassign")
					return true, prefix
				}
			}
			cond := c.toRPN(x.Cond)
			tBody, _ := c.flatten(x.Body.List, rpnAnd(prefix, cond), out)
			// the body's trailing "end" is not a step of its own: execution goes on below
			if n := len(*out); n > 0 && (*out)[n-1].outcome == "end" {
				*out = (*out)[:n-1]
			}
			tElse := false
			if x.Else != nil {
				var el []ast.Stmt
				switch e := x.Else.(type) {
				case *ast.BlockStmt:
					el = e.List
				default:
					el = []ast.Stmt{e}
				}
				tElse, _ = c.flatten(el, rpnAnd(prefix, rpnNot(cond)), out)
				if n := len(*out); n > 0 && (*out)[n-1].outcome == "end" {
					*out = (*out)[:n-1]
				}
				if tBody && tElse {
					return true, prefix
				}
				if tElse {
					prefix = rpnAnd(prefix, cond)
				}
			}
			if tBody && !tElse {
				prefix = rpnAnd(prefix, rpnNot(cond))
			}
		case *ast.ReturnStmt:
			o := "return-other"
			if n := len(x.Results); n > 0 {
				last := x.Results[n-1]
				switch {
				case isIdent(last, c.errVar):
					o = "return-err"
				case mentionsIdent(last, c.errVar):
					o = "return-wrapped"
				case isIdent(last, "nil"):
					o = "return-nil"
				default:
					if id, ok := last.(*ast.Ident); ok && guardSaysNonNil(prefix, id.Name) {
						o = "return-other-err"
					}
				}
			}
			emit(prefix, o)
			return true, prefix
		case *ast.BranchStmt:
			o := strings.ToLower(x.Tok.String())
			if x.Label != nil && o == "break" {
				o = "break-to-label" // not followed
			}
			emit(prefix, o)
			return true, prefix
		case *ast.AssignStmt:
			if assignsTo(x, c.errVar) {
				emit(prefix, "reassign")
				return true, prefix
			}
			if len(x.Lhs) == 1 && len(x.Rhs) == 1 && isIdent(x.Rhs[0], c.errVar) {
				if sel, ok := x.Lhs[0].(*ast.SelectorExpr); ok {
					// the error is kept in a field and execution goes on
					emit(prefix, "store")
					c.stores = append(c.stores, c.r.Text(sel))
					continue
				}
			}
			for _, rhs := range x.Rhs {
				if mentionsIdent(rhs, c.errVar) {
					emit(prefix, "uses:"+prShort(c.r.Text(x)))
					return true, prefix
				}
			}
		case *ast.ForStmt:
			if !mentionsFree(x, c.errVar) {
				break
			}
			if x.Cond == nil || (x.Init != nil && mentionsFree(x.Init, c.errVar)) || (x.Post != nil && mentionsFree(x.Post, c.errVar)) {
				if mentionsFree(x, c.errVar) {
					emit(prefix, "uses:"+prShort(c.r.Text(s)))
					return true, prefix
				}
				break
			}
			// a loop that is entered under a condition over the tracked variables: its body under the
			// condition (loose ends iterate), what follows under the negation
			cond := c.toRPN(x.Cond)
			var inner []prStep
			c.flatten(x.Body.List, rpnAnd(prefix, cond), &inner)
			for _, st := range inner {
				switch st.outcome {
				case "end", "continue", "break":
					st.outcome = "iterate"
				}
				*out = append(*out, st)
			}
			prefix = rpnAnd(prefix, rpnNot(cond))
		case *ast.SelectStmt:
			sends := false
			for _, cl := range x.Body.List {
				if cc, ok := cl.(*ast.CommClause); ok {
					if snd, ok := cc.Comm.(*ast.SendStmt); ok && mentionsIdent(snd.Value, c.errVar) {
						sends = true
					}
				}
			}
			if sends {
				emit(prefix, "send")
				return true, prefix
			}
			if mentionsIdent(x, c.errVar) {
				emit(prefix, "uses:select")
				return true, prefix
			}
		case *ast.SendStmt:
			if mentionsIdent(x.Value, c.errVar) {
				emit(prefix, "send")
				return true, prefix
			}
		case *ast.BlockStmt:
			if t, _ := c.flatten(x.List, prefix, out); t {
				return true, prefix
			}
			if n := len(*out); n > 0 && (*out)[n-1].outcome == "end" {
				*out = (*out)[:n-1]
			}
		default:
			if mentionsFree(s, c.errVar) {
				emit(prefix, "uses:"+prShort(c.r.Text(s)))
				return true, prefix
			}
		}
	}
	emit(prefix, "end")
	return false, prefix
}

func pageReaders(r *Repo, s *Section) error {
	paths, err := filepath.Glob(filepath.Join(r.Root, "*.go"))
	if err != nil {
		return err
	}
	sort.Strings(paths)
	var sites []prSite
	for _, p := range paths {
		base := filepath.Base(p)
		if strings.HasSuffix(base, "_test.go") || strings.HasPrefix(base, "export_verif") || strings.HasSuffix(base, "_verif.go") {
			continue
		}
		src, err := os.ReadFile(p)
		if err != nil {
			return err
		}
		if !strings.Contains(string(src), "ReadPage") && !strings.Contains(string(src), "eadDictionary") && !strings.Contains(string(src), "readDataPage") {
			continue
		}
		file, err := r.File(base)
		if err != nil {
			return err
		}
		for _, d := range file.Decls {
			fn, ok := d.(*ast.FuncDecl)
			if !ok || fn.Body == nil {
				continue
			}
			sites = append(sites, prSitesOf(r, base, fn)...)
		}
	}
	sort.SliceStable(sites, func(i, j int) bool {
		if sites[i].fn != sites[j].fn {
			return sites[i].fn < sites[j].fn
		}
		return sites[i].callPos < sites[j].callPos
	})
	var rows []string
	for _, st := range sites {
		var steps []string
		for _, sp := range st.steps {
			steps = append(steps, Tuple(strList(sp.guard), Str(sp.outcome)))
		}
		s.Comment("%s:%d %s calls %s (%s)", st.file, st.line, st.fn, st.callee, st.form)
		rows = append(rows, Tuple(Str(st.fn), Str(st.callee), Str(st.form), "["+strings.Join(steps, ", ")+"]"))
	}
	s.Comment("every call to a page reader in the root package: (function, callee, form, decision list over the\nerror/page variables after the call: (guard in RPN, outcome)) — see tools/factgen/fam_pagereaders.go")
	s.Def("pageReaderCalls", "List (String × String × String × List (List String × String))", List(rows))

	// second table: the callers of value / row readers (ReadValues, ReadRows, readRows)
	prCallees = rowReaderCallees
	defer func() { prCallees = pageReaderCallees }()
	var sites2 []prSite
	for _, p := range paths {
		base := filepath.Base(p)
		if strings.HasSuffix(base, "_test.go") || strings.HasPrefix(base, "export_verif") || strings.HasSuffix(base, "_verif.go") {
			continue
		}
		src, err := os.ReadFile(p)
		if err != nil {
			return err
		}
		if !strings.Contains(string(src), "ReadValues(") && !strings.Contains(string(src), "ReadRows(") && !strings.Contains(string(src), "readRows(") {
			continue
		}
		file, err := r.File(base)
		if err != nil {
			return err
		}
		for _, d := range file.Decls {
			if fn, ok := d.(*ast.FuncDecl); ok && fn.Body != nil {
				sites2 = append(sites2, prSitesOf(r, base, fn)...)
			}
		}
	}
	sort.SliceStable(sites2, func(i, j int) bool {
		if sites2[i].fn != sites2[j].fn {
			return sites2[i].fn < sites2[j].fn
		}
		return sites2[i].callPos < sites2[j].callPos
	})
	rows = nil
	var recvs []string
	for _, st := range sites2 {
		var steps []string
		for _, sp := range st.steps {
			steps = append(steps, Tuple(strList(sp.guard), Str(sp.outcome)))
		}
		s.Comment("%s:%d %s calls %s (%s) on %s [%s]", st.file, st.line, st.fn, st.callee, st.form, st.recv, st.source)
		rows = append(rows, Tuple(Str(st.fn), Str(st.callee), Str(st.form), "["+strings.Join(steps, ", ")+"]"))
		recvs = append(recvs, Tuple(Str(st.fn), Str(st.recv), Str(st.source)))
	}
	s.Comment("the reader each of those calls is made on, in the same order: (function, receiver text, source);\nsource = page-values: a local assigned `<page>.Values()` in the same function (in-memory value reader)")
	s.Def("rowReaderReceivers", "List (String × String × String)", List(recvs))
	var stores []string
	for _, st := range append(append([]prSite{}, sites...), sites2...) {
		for _, f := range st.stores {
			stores = append(stores, Tuple(Str(st.fn), Str(st.callee), Str(f)))
		}
	}
	s.Comment("(function, callee, field): where the error of such a call is kept in a field (step \"store\") before the list goes on")
	s.Def("readerErrorStores", "List (String × String × String)", List(stores))
	s.Comment("every call to a value / row reader (ReadValues, ReadRows, readRows) in the root package, same layout;\nextra atoms n==0 n!=0 n>0 over the count result")
	s.Def("rowReaderCalls", "List (String × String × String × List (List String × String))", List(rows))
	return nil
}

var prCallees = pageReaderCallees

func newPrCtx(r *Repo, errVar, first, callee string) *prCtx {
	if rowReaderCallees[callee] {
		return &prCtx{r: r, errVar: errVar, countVar: first}
	}
	return &prCtx{r: r, errVar: errVar, pageVar: first}
}

func isReaderCall(e ast.Expr) (*ast.CallExpr, string) {
	c, ok := e.(*ast.CallExpr)
	if !ok {
		return nil, ""
	}
	name := bareCallee(c)
	if !prCallees[name] {
		return nil, ""
	}
	if _, ok := c.Fun.(*ast.SelectorExpr); !ok && rowReaderCallees[name] && name != "readRows" {
		return nil, ""
	}
	// ReadPage / ReadDictionary are method calls (x.ReadPage()); a package-level function of the
	// same name would be something else
	if _, ok := c.Fun.(*ast.SelectorExpr); !ok && (name == "ReadPage" || name == "ReadDictionary") {
		return nil, ""
	}
	return c, name
}

// prSitesOf finds the call sites of one function. conts is the stack of statement lists that
// follow the current block (innermost last); a nil entry marks a loop / function-literal boundary.
func prSitesOf(r *Repo, file string, fn *ast.FuncDecl) []prSite {
	var sites []prSite
	matched := map[token.Pos]bool{}
	name := qualName(fn)
	var walkList func(list []ast.Stmt, conts [][]ast.Stmt)
	// conts: the statement lists that follow the current block, innermost last; a nil entry marks a loop
	// boundary (the loop statement itself is loops[index of the nil entry])
	loops := map[int]ast.Stmt{}
	var run func(c *prCtx, first [][]ast.Stmt, conts [][]ast.Stmt, prefix []string, depth int) []prStep
	run = func(c *prCtx, first [][]ast.Stmt, conts [][]ast.Stmt, prefix []string, depth int) []prStep {
		var steps []prStep
		lists := append([][]ast.Stmt{}, first...)
		i := len(conts) - 1
		for ; i >= 0 && conts[i] != nil; i-- {
			lists = append(lists, conts[i])
		}
		for _, l := range lists {
			if n := len(steps); n > 0 && steps[n-1].outcome == "end" {
				steps = steps[:n-1]
			}
			t, p := c.flatten(l, prefix, &steps)
			if t {
				break
			}
			prefix = p
		}
		if len(lists) == 0 {
			steps = append(steps, prStep{prefix, "end"})
		}
		if i < 0 {
			// the function (literal) ends here: reaching its end drops the error
			for k := range steps {
				if steps[k].outcome == "end" {
					steps[k].outcome = "falls-off"
				}
			}
			return steps
		}
		if depth >= 4 {
			return steps
		}
		// a loop boundary: follow the ways out of the loop into what comes behind it
		loop := loopAt(loops, conts, i)
		outer := conts[:i]
		var out []prStep
		for _, st := range steps {
			switch st.outcome {
			case "break":
				out = append(out, run(c, nil, outer, st.guard, depth+1)...)
			case "end", "continue":
				if fs, ok := loop.(*ast.ForStmt); ok && fs.Cond != nil && (fs.Post == nil || !mentionsFree(fs.Post, c.errVar)) {
					cond := c.toRPN(fs.Cond)
					out = append(out, prStep{rpnAnd(st.guard, cond), "iterate"})
					out = append(out, run(c, nil, outer, rpnAnd(st.guard, rpnNot(cond)), depth+1)...)
				} else {
					out = append(out, st)
				}
			default:
				out = append(out, st)
			}
		}
		return out
	}
	follow := func(c *prCtx, first []ast.Stmt, after []ast.Stmt, conts [][]ast.Stmt) []prStep {
		var fl [][]ast.Stmt
		if first != nil {
			fl = append(fl, first)
		}
		fl = append(fl, after)
		return run(c, fl, conts, []string{"true"}, 0)
	}
	var lastCtx *prCtx
	add := func(call *ast.CallExpr, callee, form string, steps []prStep) {
		matched[call.Pos()] = true
		rt, rs := receiverSource(r, fn, call)
		var stores []string
		if lastCtx != nil {
			seen := map[string]bool{}
			for _, f := range lastCtx.stores {
				if !seen[f] {
					seen[f] = true
					stores = append(stores, f)
				}
			}
			lastCtx = nil
		}
		sites = append(sites, prSite{file, r.Line(call), name, callee, form, steps, call.Pos(), rt, rs, stores})
	}
	lhsVars := func(a *ast.AssignStmt) (pageVar, errVar string) {
		if n := len(a.Lhs); n > 0 {
			if id, ok := a.Lhs[n-1].(*ast.Ident); ok {
				errVar = id.Name
			}
			if n > 1 {
				if id, ok := a.Lhs[0].(*ast.Ident); ok && id.Name != "_" {
					pageVar = id.Name
				}
			}
		}
		return
	}
	var walkStmt func(s ast.Stmt, after []ast.Stmt, conts [][]ast.Stmt)
	walkStmt = func(s ast.Stmt, after []ast.Stmt, conts [][]ast.Stmt) {
		inner := append(conts[:len(conts):len(conts)], after)
		switch x := s.(type) {
		case *ast.ExprStmt:
			if c, callee := isReaderCall(x.X); c != nil {
				add(c, callee, "discard", nil)
			}
		case *ast.AssignStmt:
			if len(x.Rhs) == 1 {
				if c, callee := isReaderCall(x.Rhs[0]); c != nil {
					pv, ev := lhsVars(x)
					if ev == "_" || ev == "" {
						add(c, callee, "blank", nil)
					} else {
						ctx := newPrCtx(r, ev, pv, callee)
						steps := follow(ctx, nil, after, conts)
						lastCtx = ctx
						add(c, callee, "assign", steps)
					}
				}
			}
		case *ast.ReturnStmt:
			if len(x.Results) == 1 {
				if c, callee := isReaderCall(x.Results[0]); c != nil {
					add(c, callee, "tail", nil)
				}
			}
		case *ast.IfStmt:
			if a, ok := x.Init.(*ast.AssignStmt); ok && len(a.Rhs) == 1 {
				if c, callee := isReaderCall(a.Rhs[0]); c != nil {
					pv, ev := lhsVars(a)
					if ev == "_" || ev == "" {
						add(c, callee, "blank", nil)
					} else {
						ctx := newPrCtx(r, ev, pv, callee)
						bare := &ast.IfStmt{If: x.If, Cond: x.Cond, Body: x.Body, Else: x.Else}
						steps := follow(ctx, []ast.Stmt{bare}, after, conts)
						lastCtx = ctx
						add(c, callee, "if-init", steps)
					}
				}
			}
			walkList(x.Body.List, inner)
			switch e := x.Else.(type) {
			case *ast.BlockStmt:
				walkList(e.List, inner)
			case ast.Stmt:
				walkStmt(e, after, conts)
			}
		case *ast.BlockStmt:
			walkList(x.List, inner)
		case *ast.ForStmt:
			loops[len(inner)] = x
			walkList(x.Body.List, append(inner[:len(inner):len(inner)], nil))
		case *ast.RangeStmt:
			loops[len(inner)] = x
			walkList(x.Body.List, append(inner[:len(inner):len(inner)], nil))
		case *ast.SwitchStmt:
			for _, cl := range x.Body.List {
				if cc, ok := cl.(*ast.CaseClause); ok {
					walkList(cc.Body, inner)
				}
			}
		case *ast.TypeSwitchStmt:
			for _, cl := range x.Body.List {
				if cc, ok := cl.(*ast.CaseClause); ok {
					walkList(cc.Body, inner)
				}
			}
		case *ast.SelectStmt:
			for _, cl := range x.Body.List {
				if cc, ok := cl.(*ast.CommClause); ok {
					walkList(cc.Body, inner)
				}
			}
		case *ast.LabeledStmt:
			walkStmt(x.Stmt, after, conts)
		}
	}
	walkList = func(list []ast.Stmt, conts [][]ast.Stmt) {
		for i, s := range list {
			walkStmt(s, list[i+1:], conts)
		}
	}
	walkList(fn.Body.List, nil)
	// function literals: each body is walked like a function of its own (the statement walker does not
	// descend into expressions, so every literal — nested ones included — is walked exactly once)
	ast.Inspect(fn.Body, func(n ast.Node) bool {
		if lit, ok := n.(*ast.FuncLit); ok && lit.Body != nil {
			walkList(lit.Body.List, nil)
		}
		return true
	})
	// anything the statement patterns did not see (go/defer, nested in an expression)
	ast.Inspect(fn.Body, func(n ast.Node) bool {
		if e, ok := n.(ast.Expr); ok {
			if c, callee := isReaderCall(e); c != nil && !matched[c.Pos()] {
				matched[c.Pos()] = true
				rt, rs := receiverSource(r, fn, c)
				sites = append(sites, prSite{file, r.Line(c), name, callee, "other:" + r.Text(c), nil, c.Pos(), rt, rs, nil})
			}
		}
		return true
	})
	return sites
}

func loopAt(loops map[int]ast.Stmt, conts [][]ast.Stmt, i int) ast.Stmt { return loops[i] }

// receiverSource: where the reader a value/row-reader call is made on comes from — "page-values" when
// it is a local variable assigned `<x>.Values()` in the same function (the value reader of a page that
// is already loaded, verified and decoded: it ends with io.EOF and nothing else), otherwise the text
// of the receiver expression
func receiverSource(r *Repo, fn *ast.FuncDecl, call *ast.CallExpr) (string, string) {
	sel, ok := call.Fun.(*ast.SelectorExpr)
	if !ok {
		return "", "function"
	}
	text := r.Text(sel.X)
	id, ok := sel.X.(*ast.Ident)
	if !ok {
		return text, "expr"
	}
	src := "variable"
	ast.Inspect(fn.Body, func(n ast.Node) bool {
		a, ok := n.(*ast.AssignStmt)
		if !ok || len(a.Lhs) != 1 || len(a.Rhs) != 1 || !isIdent(a.Lhs[0], id.Name) || a.Pos() > call.Pos() {
			return true
		}
		if c, ok := a.Rhs[0].(*ast.CallExpr); ok {
			if s2, ok := c.Fun.(*ast.SelectorExpr); ok && s2.Sel.Name == "Values" && len(c.Args) == 0 {
				src = "page-values"
				return true
			}
		}
		src = "variable"
		return true
	})
	return text, src
}

// prShort keeps the head of a statement's text (the outcome only has to be recognisable)
func prShort(s string) string {
	if len(s) > 48 {
		return s[:48] + "…"
	}
	return s
}
