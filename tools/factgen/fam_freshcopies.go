package main

// Family "freshcopies" (property C16, read side): the two source facts behind the model's
// "`Read[T]` and clones hand out fresh copies" (PqModel.Pool `readGo`, `clone`):
//
//	cloneCopiedKinds     the value kinds for which `Value.Clone` (value.go) re-points `v.ptr` at a
//	                     copy: the identifiers of the `case` clause (or of the `v.Kind() == K` tests
//	                     of the `if`) that guards the assignment to `v.ptr`
//	destinationSetSites  every `<dst>.Set(x)` in the Go-value reconstruction functions of row.go
//	                     (`setMakeSlice`, `setNullSlice`, `reconstructFuncOf*`) where <dst> is the
//	                     destination parameter (`v` / `value`), with the constructor x comes from
//	                     (x itself, or the right-hand side of the local assignment that defines x)
//
//	assignValueSetBytesSites / assignValueReuseSites  in every `AssignValue` method of type*.go: the
//	                     constructor behind each `<dst>.SetBytes(x)`, and every call on the destination
//	                     that exposes or resizes the memory a slice destination already has
//
// The Lean side (Props/FactsCheckC16.lean) requires the copied kinds to be exactly the kinds whose
// Value holds a pointer, and every destination to be set from a constructor of fresh memory.

import (
	"fmt"
	"go/ast"
	"go/parser"
	"go/token"
	"path/filepath"
	"sort"
	"strings"
)

func init() { RegisterRaw("freshcopies", famFreshCopies) }

func fcKindsOfCond(e ast.Expr, out *[]string) {
	switch v := e.(type) {
	case *ast.BinaryExpr:
		if v.Op == token.LOR || v.Op == token.LAND {
			fcKindsOfCond(v.X, out)
			fcKindsOfCond(v.Y, out)
		} else if v.Op == token.EQL {
			if id, ok := v.Y.(*ast.Ident); ok {
				*out = append(*out, id.Name)
			}
		}
	case *ast.ParenExpr:
		fcKindsOfCond(v.X, out)
	}
}

func fcAssignsPtr(n ast.Node) bool {
	found := false
	ast.Inspect(n, func(x ast.Node) bool {
		if as, ok := x.(*ast.AssignStmt); ok {
			for _, l := range as.Lhs {
				if s, ok := l.(*ast.SelectorExpr); ok && s.Sel.Name == "ptr" {
					found = true
				}
			}
		}
		return true
	})
	return found
}

func famFreshCopies(repo string) (string, error) {
	fset := token.NewFileSet()
	var b strings.Builder
	// ---- Value.Clone
	vf, err := parser.ParseFile(fset, filepath.Join(repo, "value.go"), nil, parser.SkipObjectResolution)
	if err != nil {
		return "", err
	}
	var kinds []string
	foundClone := false
	for _, d := range vf.Decls {
		fd, ok := d.(*ast.FuncDecl)
		if !ok || fd.Name.Name != "Clone" || fd.Recv == nil || fd.Body == nil {
			continue
		}
		if id, ok := fd.Recv.List[0].Type.(*ast.Ident); !ok || id.Name != "Value" {
			continue
		}
		foundClone = true
		ast.Inspect(fd.Body, func(n ast.Node) bool {
			switch v := n.(type) {
			case *ast.CaseClause:
				assigns := false
				for _, st := range v.Body {
					if fcAssignsPtr(st) {
						assigns = true
					}
				}
				if assigns {
					for _, e := range v.List {
						kinds = append(kinds, exprText(fset, e))
					}
				}
			case *ast.IfStmt:
				if fcAssignsPtr(v.Body) {
					fcKindsOfCond(v.Cond, &kinds)
				}
			}
			return true
		})
	}
	if !foundClone {
		return "", fmt.Errorf("value.go: func (v Value) Clone not found")
	}
	b.WriteString("-- value.go Value.Clone: the kinds whose clone gets its own copy of the bytes\n")
	b.WriteString("def cloneCopiedKinds : List String := [")
	for i, k := range kinds {
		if i > 0 {
			b.WriteString(", ")
		}
		b.WriteString(LeanString(k))
	}
	b.WriteString("]\n")
	// ---- destination.Set(x) in the reconstruction functions of row.go
	rf, err := parser.ParseFile(fset, filepath.Join(repo, "row.go"), nil, parser.SkipObjectResolution)
	if err != nil {
		return "", err
	}
	type site struct {
		fn, ctor, text string
		line           int
	}
	var sites []site
	for _, d := range rf.Decls {
		fd, ok := d.(*ast.FuncDecl)
		if !ok || fd.Body == nil {
			continue
		}
		n := fd.Name.Name
		if n != "setMakeSlice" && n != "setNullSlice" && !strings.HasPrefix(n, "reconstructFuncOf") {
			continue
		}
		// local definitions x := <expr>, with their positions: a use refers to the nearest one before it
		type def struct {
			pos  token.Pos
			expr ast.Expr
		}
		defs := map[string][]def{}
		ast.Inspect(fd.Body, func(x ast.Node) bool {
			if as, ok := x.(*ast.AssignStmt); ok && len(as.Lhs) == len(as.Rhs) {
				for i, l := range as.Lhs {
					if id, ok := l.(*ast.Ident); ok {
						defs[id.Name] = append(defs[id.Name], def{as.Pos(), as.Rhs[i]})
					}
				}
			}
			return true
		})
		ast.Inspect(fd.Body, func(x ast.Node) bool {
			c, ok := x.(*ast.CallExpr)
			if !ok || len(c.Args) != 1 {
				return true
			}
			sel, ok := c.Fun.(*ast.SelectorExpr)
			if !ok || sel.Sel.Name != "Set" {
				return true
			}
			recv, ok := sel.X.(*ast.Ident)
			if !ok || (recv.Name != "v" && recv.Name != "value") {
				return true
			}
			arg := c.Args[0]
			if id, ok := arg.(*ast.Ident); ok {
				var best *def
				for i := range defs[id.Name] {
					d := &defs[id.Name][i]
					if d.pos < c.Pos() && (best == nil || d.pos > best.pos) {
						best = d
					}
				}
				if best != nil {
					arg = best.expr
				}
			}
			ctor := exprText(fset, arg)
			if call, ok := arg.(*ast.CallExpr); ok {
				ctor = exprText(fset, call.Fun)
			}
			sites = append(sites, site{n, ctor, exprText(fset, c), fset.Position(c.Pos()).Line})
			return true
		})
	}
	b.WriteString("-- row.go: (function, constructor of the value the destination is set to, the call)\n")
	b.WriteString("def destinationSetSites : List (String × String × String) := [\n")
	for i, s := range sites {
		sep := ","
		if i == len(sites)-1 {
			sep = ""
		}
		fmt.Fprintf(&b, "  (%s, %s, %s)%s  -- row.go:%d\n", LeanString(s.fn), LeanString(s.ctor), LeanString(s.text), sep, s.line)
	}
	b.WriteString("]\n")
	// ---- AssignValue methods of the leaf types (type*.go): how the byte-holding destinations are filled
	files, err := filepath.Glob(filepath.Join(repo, "type*.go"))
	if err != nil {
		return "", err
	}
	sort.Strings(files)
	// reflect.Value methods that expose or resize the memory a slice destination already has
	reuse := map[string]bool{"Bytes": true, "SetLen": true, "SetCap": true, "Slice": true, "Slice3": true, "Cap": true,
		"Index": true, "Pointer": true, "UnsafePointer": true, "Grow": true, "Extend": true}
	var setBytes, reused []site
	nAssign := 0
	for _, file := range files {
		if strings.HasSuffix(file, "_test.go") {
			continue
		}
		tf, err := parser.ParseFile(fset, file, nil, parser.SkipObjectResolution)
		if err != nil {
			return "", err
		}
		for _, d := range tf.Decls {
			fd, ok := d.(*ast.FuncDecl)
			if !ok || fd.Body == nil || fd.Recv == nil || fd.Name.Name != "AssignValue" {
				continue
			}
			if len(fd.Type.Params.List) == 0 || len(fd.Type.Params.List[0].Names) == 0 {
				continue // unnamed parameters: the method cannot touch the destination
			}
			dst := fd.Type.Params.List[0].Names[0].Name
			recv := strings.TrimPrefix(exprText(fset, fd.Recv.List[0].Type), "*")
			nAssign++
			ast.Inspect(fd.Body, func(x ast.Node) bool {
				c, ok := x.(*ast.CallExpr)
				if !ok {
					return true
				}
				sel, ok := c.Fun.(*ast.SelectorExpr)
				if !ok {
					return true
				}
				id, ok := sel.X.(*ast.Ident)
				if !ok || id.Name != dst {
					return true
				}
				where := recv + ".AssignValue"
				line := fset.Position(c.Pos()).Line
				switch {
				case sel.Sel.Name == "SetBytes" && len(c.Args) == 1:
					ctor := exprText(fset, c.Args[0])
					if call, ok := c.Args[0].(*ast.CallExpr); ok {
						ctor = exprText(fset, call.Fun)
					}
					setBytes = append(setBytes, site{where, ctor, filepath.Base(file), line})
				case reuse[sel.Sel.Name]:
					reused = append(reused, site{where, sel.Sel.Name, filepath.Base(file), line})
				}
				return true
			})
		}
	}
	if nAssign == 0 {
		return "", fmt.Errorf("type*.go: no AssignValue method found")
	}
	fmt.Fprintf(&b, "-- type*.go: number of AssignValue methods with a named destination parameter\ndef assignValueMethods : Nat := %d\n", nAssign)
	b.WriteString("-- type*.go AssignValue: (method, constructor of the bytes) of every <dst>.SetBytes(x)\n")
	b.WriteString("def assignValueSetBytesSites : List (String × String) := [\n")
	for i, s := range setBytes {
		sep := ","
		if i == len(setBytes)-1 {
			sep = ""
		}
		fmt.Fprintf(&b, "  (%s, %s)%s  -- %s:%d\n", LeanString(s.fn), LeanString(s.ctor), sep, s.text, s.line)
	}
	b.WriteString("]\n")
	b.WriteString("-- type*.go AssignValue: (method, reflect method) of every call on <dst> that exposes or resizes the\n")
	b.WriteString("-- memory a slice destination already has (Bytes, SetLen, SetCap, Slice, Slice3, Cap, Index, Pointer, UnsafePointer, Grow, Extend)\n")
	b.WriteString("def assignValueReuseSites : List (String × String) := [\n")
	for i, s := range reused {
		sep := ","
		if i == len(reused)-1 {
			sep = ""
		}
		fmt.Fprintf(&b, "  (%s, %s)%s  -- %s:%d\n", LeanString(s.fn), LeanString(s.ctor), sep, s.text, s.line)
	}
	b.WriteString("]\n")
	return b.String(), nil
}
