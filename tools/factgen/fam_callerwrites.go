package main

// Family "callerwrites" (property C16, write side): the statements of the Write entry points of the
// root package through which memory of the rows / values passed by the caller may be written.
//
// Entry points: every method named WriteRows, WriteValues or WriteRowValues whose first parameter is
// a `[]Row` or `[]Value`. For each of them a flow-insensitive, name-based alias analysis over go/ast
// (no type information) tracks, for every variable and field path, which regions of the caller's
// memory its backing array may be (`self`) and which regions the backing arrays of its elements may
// be (`elems`). Regions of a parameter p: (p,0) = the backing array of the slice itself ([]Row header
// array, or the []Value array), (p,1) = the backing arrays of its elements (the []Value arrays of the
// rows of a []Row).
//
//	x := y, x = y[a:b]        x gets y's regions
//	x := y[i], range y        the value gets self = y.elems
//	x[i] = v                  STORE into x.self;  x.elems += v.self
//	append(a, b...)           STORE into a.self;  result self = a.self, elems = a.elems + b.elems
//	append(a, v)              STORE into a.self;  result elems = a.elems + v.self
//	copy(d, s), clear(d)      STORE into d.self
//	f(args) / x.f(args)       f declared in the package (by name): STORE according to f's summary
//	                          (which of its slice parameters it stores into, at which depth)
//	t.fn(dst, src)            a call through a func-typed field: contract of the documented
//	                          callbacks — the result aliases the first argument, nothing is stored
//	x.WriteRows(rows) etc.    calls of the entry-point names are the contract itself: no store
//
// A STORE into a region of a parameter of the entry point is a site. Function literals (deferred
// closures, callbacks) are analysed inline. The table lists (entry point, statement); the Lean side
// (Props/C16Write.lean) requires it to be empty.

import (
	"fmt"
	"go/ast"
	"go/parser"
	"go/token"
	"os"
	"path/filepath"
	"sort"
	"strings"
)

func init() { RegisterRaw("callerwrites", famCallerWrites) }

type cwVal struct{ self, elems uint64 }

func (a cwVal) join(b cwVal) cwVal { return cwVal{a.self | b.self, a.elems | b.elems} }

func cwBit(param, depth int) uint64 { return 1 << uint(param*2+depth) }

type cwFunc struct {
	name   string // Recv.Method or function name
	short  string // method / function name
	decl   *ast.FuncDecl
	params []string // names of all parameters in order
	kinds  []int    // 0 untracked, 1 []Value or Row, 2 []Row
	// summary: stores[i] bit0 = stores into the backing array of parameter i, bit1 = into its elements' arrays
	stores []uint8
}

type cwSite struct {
	entry, stmt string
	line        int
}

type cwAnalysis struct {
	fset   *token.FileSet
	byName map[string][]*cwFunc
}

func cwParamKind(t ast.Expr) int {
	switch x := t.(type) {
	case *ast.ArrayType:
		if x.Len != nil {
			return 0
		}
		if id, ok := x.Elt.(*ast.Ident); ok {
			switch id.Name {
			case "Value":
				return 1
			case "Row":
				return 2
			}
		}
	case *ast.Ident:
		if x.Name == "Row" {
			return 1
		}
	}
	return 0
}

var cwContractNames = map[string]bool{"WriteRows": true, "WriteValues": true, "WriteRowValues": true}

type cwEnv struct {
	a       *cwAnalysis
	fn      *cwFunc
	vals    map[string]cwVal
	changed bool
	collect bool
	sites   []cwSite
	stores  []uint8
}

func (e *cwEnv) path(x ast.Expr) string {
	switch v := x.(type) {
	case *ast.Ident:
		return v.Name
	case *ast.SelectorExpr:
		if p := e.path(v.X); p != "" {
			return p + "." + v.Sel.Name
		}
	case *ast.ParenExpr:
		return e.path(v.X)
	case *ast.StarExpr:
		return e.path(v.X)
	}
	return ""
}

func (e *cwEnv) set(p string, v cwVal) {
	if p == "" || p == "_" {
		return
	}
	old := e.vals[p]
	n := old.join(v)
	if n != old {
		e.vals[p] = n
		e.changed = true
	}
}

// store records a write into the regions `target`
func (e *cwEnv) store(target uint64, at ast.Node) {
	if target == 0 {
		return
	}
	for i := range e.fn.params {
		for d := 0; d < 2; d++ {
			if target&cwBit(i, d) != 0 {
				if e.stores[i]&(1<<uint(d)) == 0 {
					e.stores[i] |= 1 << uint(d)
					e.changed = true
				}
			}
		}
	}
	if e.collect {
		e.sites = append(e.sites, cwSite{e.fn.name, exprText(e.a.fset, at), e.a.fset.Position(at.Pos()).Line})
	}
}

func (e *cwEnv) eval(x ast.Expr) cwVal {
	switch v := x.(type) {
	case nil:
		return cwVal{}
	case *ast.Ident:
		return e.vals[v.Name]
	case *ast.ParenExpr:
		return e.eval(v.X)
	case *ast.StarExpr:
		return e.eval(v.X)
	case *ast.UnaryExpr:
		return e.eval(v.X)
	case *ast.SelectorExpr:
		if p := e.path(v); p != "" {
			if val, ok := e.vals[p]; ok {
				return val
			}
		}
		// a field or method value of something that aliases caller memory (row.Range, ...)
		b := e.eval(v.X)
		return cwVal{b.self | b.elems, b.elems}
	case *ast.IndexExpr:
		e.eval(v.Index)
		return cwVal{e.eval(v.X).elems, 0}
	case *ast.SliceExpr:
		return e.eval(v.X)
	case *ast.TypeAssertExpr:
		return e.eval(v.X)
	case *ast.FuncLit:
		e.block(v.Body)
		return cwVal{}
	case *ast.CompositeLit:
		var out cwVal
		for _, el := range v.Elts {
			if kv, ok := el.(*ast.KeyValueExpr); ok {
				el = kv.Value
			}
			out.elems |= e.eval(el).self
		}
		return out
	case *ast.BinaryExpr:
		e.eval(v.X)
		e.eval(v.Y)
		return cwVal{}
	case *ast.CallExpr:
		return e.call(v)
	}
	return cwVal{}
}

func (e *cwEnv) call(c *ast.CallExpr) cwVal {
	args := make([]cwVal, len(c.Args))
	for i, a := range c.Args {
		args[i] = e.eval(a)
	}
	switch f := c.Fun.(type) {
	case *ast.ArrayType:
		if len(args) == 1 {
			return args[0]
		}
	case *ast.Ident:
		switch f.Name {
		case "append":
			if len(args) == 0 {
				return cwVal{}
			}
			e.store(args[0].self, c)
			out := args[0]
			for i := 1; i < len(args); i++ {
				if c.Ellipsis.IsValid() && i == len(args)-1 {
					out.elems |= args[i].elems
				} else {
					out.elems |= args[i].self
				}
			}
			return out
		case "copy":
			if len(args) == 2 {
				e.store(args[0].self, c)
				if p := e.path(cwBase(c.Args[0])); p != "" {
					e.set(p, cwVal{0, args[1].elems})
				}
			}
			return cwVal{}
		case "clear":
			if len(args) == 1 {
				e.store(args[0].self, c)
			}
			return cwVal{}
		case "len", "cap", "min", "max", "make", "new", "panic", "int", "int32", "int64", "uint32", "uint64", "byte":
			return cwVal{}
		case "Row":
			if len(args) == 1 {
				return args[0]
			}
		}
		return e.applySummaries(f.Name, c, args, cwVal{})
	case *ast.SelectorExpr:
		name := f.Sel.Name
		recv := e.eval(f.X)
		if cwContractNames[name] {
			return cwVal{}
		}
		if _, declared := e.a.byName[name]; declared {
			return e.applySummaries(name, c, args, recv)
		}
		// not declared in the package: a func-typed field (predicate / compare / transform: the
		// result aliases the first argument) or a method of another package
		out := cwVal{recv.self | recv.elems, recv.elems}
		if len(args) > 0 {
			out = out.join(args[0])
		}
		return out
	case *ast.FuncLit:
		e.block(f.Body)
	}
	return cwVal{}
}

func cwBase(x ast.Expr) ast.Expr {
	for {
		switch v := x.(type) {
		case *ast.SliceExpr:
			x = v.X
		case *ast.ParenExpr:
			x = v.X
		default:
			return x
		}
	}
}

func (e *cwEnv) applySummaries(name string, c *ast.CallExpr, args []cwVal, recv cwVal) cwVal {
	out := cwVal{recv.self | recv.elems, recv.elems}
	for _, fn := range e.a.byName[name] {
		for i := range args {
			if i >= len(fn.stores) {
				break
			}
			if fn.stores[i]&1 != 0 {
				e.store(args[i].self, c)
			}
			if fn.stores[i]&2 != 0 {
				e.store(args[i].elems, c)
			}
		}
	}
	for _, a := range args {
		out = out.join(a)
	}
	return out
}

func (e *cwEnv) assign(lhs ast.Expr, v cwVal, at ast.Node) {
	switch l := lhs.(type) {
	case *ast.IndexExpr:
		base := e.eval(l.X)
		e.store(base.self, at)
		if p := e.path(cwBase(l.X)); p != "" {
			e.set(p, cwVal{0, v.self})
		}
	case *ast.SliceExpr:
		e.assign(l.X, v, at)
	default:
		e.set(e.path(lhs), v)
	}
}

func (e *cwEnv) block(b *ast.BlockStmt) {
	if b == nil {
		return
	}
	for _, s := range b.List {
		e.stmt(s)
	}
}

func (e *cwEnv) stmt(s ast.Stmt) {
	switch v := s.(type) {
	case *ast.AssignStmt:
		if len(v.Lhs) == len(v.Rhs) {
			for i := range v.Lhs {
				e.assign(v.Lhs[i], e.eval(v.Rhs[i]), v)
			}
		} else if len(v.Rhs) == 1 {
			val := e.eval(v.Rhs[0])
			if len(v.Lhs) > 0 {
				e.assign(v.Lhs[0], val, v)
			}
		}
	case *ast.DeclStmt:
		if g, ok := v.Decl.(*ast.GenDecl); ok {
			for _, sp := range g.Specs {
				if vs, ok := sp.(*ast.ValueSpec); ok {
					for i, n := range vs.Names {
						if i < len(vs.Values) {
							e.set(n.Name, e.eval(vs.Values[i]))
						}
					}
				}
			}
		}
	case *ast.ExprStmt:
		e.eval(v.X)
	case *ast.DeferStmt:
		e.eval(v.Call)
	case *ast.GoStmt:
		e.eval(v.Call)
	case *ast.ReturnStmt:
		for _, r := range v.Results {
			e.eval(r)
		}
	case *ast.IfStmt:
		if v.Init != nil {
			e.stmt(v.Init)
		}
		e.eval(v.Cond)
		e.block(v.Body)
		if v.Else != nil {
			e.stmt(v.Else)
		}
	case *ast.ForStmt:
		if v.Init != nil {
			e.stmt(v.Init)
		}
		e.eval(v.Cond)
		if v.Post != nil {
			e.stmt(v.Post)
		}
		e.block(v.Body)
	case *ast.RangeStmt:
		x := e.eval(v.X)
		val := cwVal{x.elems, 0}
		switch v.X.(type) {
		case *ast.SelectorExpr, *ast.CallExpr:
			if _, known := e.vals[e.path(v.X)]; !known {
				// range over a method value / call (iterator): be conservative
				val = cwVal{x.self | x.elems, x.elems}
			}
		}
		if v.Value != nil {
			e.set(e.path(v.Value), val)
		} else if v.Key != nil {
			if _, isFunc := v.X.(*ast.SelectorExpr); isFunc {
				if _, known := e.vals[e.path(v.X)]; !known {
					e.set(e.path(v.Key), val)
				}
			}
		}
		if v.Key != nil && v.Value != nil {
			switch v.X.(type) {
			case *ast.SelectorExpr, *ast.CallExpr:
				if _, known := e.vals[e.path(v.X)]; !known {
					e.set(e.path(v.Key), val)
				}
			}
		}
		e.block(v.Body)
	case *ast.BlockStmt:
		e.block(v)
	case *ast.SwitchStmt:
		if v.Init != nil {
			e.stmt(v.Init)
		}
		e.eval(v.Tag)
		e.block(v.Body)
	case *ast.TypeSwitchStmt:
		if v.Init != nil {
			e.stmt(v.Init)
		}
		e.stmt(v.Assign)
		e.block(v.Body)
	case *ast.CaseClause:
		for _, x := range v.List {
			e.eval(x)
		}
		for _, st := range v.Body {
			e.stmt(st)
		}
	case *ast.LabeledStmt:
		e.stmt(v.Stmt)
	case *ast.IncDecStmt, *ast.BranchStmt, *ast.EmptyStmt:
	}
}

// analyse runs one function to a fixpoint of its environment; collect says whether sites are recorded
func (a *cwAnalysis) analyse(fn *cwFunc, collect bool) (*cwEnv, bool) {
	e := &cwEnv{a: a, fn: fn, vals: map[string]cwVal{}, stores: make([]uint8, len(fn.params))}
	copy(e.stores, fn.stores)
	for i, p := range fn.params {
		switch fn.kinds[i] {
		case 1:
			e.vals[p] = cwVal{cwBit(i, 0), 0}
		case 2:
			e.vals[p] = cwVal{cwBit(i, 0), cwBit(i, 1)}
		}
	}
	for iter := 0; iter < 20; iter++ {
		e.changed = false
		e.block(fn.decl.Body)
		if !e.changed {
			break
		}
	}
	summaryChanged := false
	for i := range fn.stores {
		if fn.stores[i] != e.stores[i] {
			fn.stores[i] = e.stores[i]
			summaryChanged = true
		}
	}
	if collect {
		e.collect = true
		e.sites = nil
		e.block(fn.decl.Body)
	}
	return e, summaryChanged
}

func famCallerWrites(repo string) (string, error) {
	fset := token.NewFileSet()
	ents, err := os.ReadDir(repo)
	if err != nil {
		return "", err
	}
	a := &cwAnalysis{fset: fset, byName: map[string][]*cwFunc{}}
	var all []*cwFunc
	for _, ent := range ents {
		n := ent.Name()
		if ent.IsDir() || !strings.HasSuffix(n, ".go") || strings.HasSuffix(n, "_test.go") || strings.Contains(n, "_verif") {
			continue
		}
		f, err := parser.ParseFile(fset, filepath.Join(repo, n), nil, parser.SkipObjectResolution)
		if err != nil {
			return "", err
		}
		for _, d := range f.Decls {
			fd, ok := d.(*ast.FuncDecl)
			if !ok || fd.Body == nil {
				continue
			}
			fn := &cwFunc{short: fd.Name.Name, name: fd.Name.Name, decl: fd}
			if fd.Recv != nil && len(fd.Recv.List) == 1 {
				t := fd.Recv.List[0].Type
				if st, ok := t.(*ast.StarExpr); ok {
					t = st.X
				}
				if ix, ok := t.(*ast.IndexExpr); ok {
					t = ix.X
				}
				if id, ok := t.(*ast.Ident); ok {
					fn.name = id.Name + "." + fd.Name.Name
				}
			}
			tracked := false
			for _, fld := range fd.Type.Params.List {
				k := cwParamKind(fld.Type)
				names := fld.Names
				if len(names) == 0 {
					names = []*ast.Ident{{Name: "_"}}
				}
				for _, id := range names {
					fn.params = append(fn.params, id.Name)
					fn.kinds = append(fn.kinds, k)
					if k != 0 {
						tracked = true
					}
				}
			}
			if len(fn.params) > 30 {
				continue
			}
			fn.stores = make([]uint8, len(fn.params))
			if tracked {
				all = append(all, fn)
				a.byName[fn.short] = append(a.byName[fn.short], fn)
			}
		}
	}
	sort.Slice(all, func(i, j int) bool { return all[i].name < all[j].name })
	// summaries to a fixpoint
	for round := 0; round < 10; round++ {
		changed := false
		for _, fn := range all {
			if _, ch := a.analyse(fn, false); ch {
				changed = true
			}
		}
		if !changed {
			break
		}
	}
	var entries []string
	var sites []cwSite
	for _, fn := range all {
		if !cwContractNames[fn.short] || fn.kinds[0] == 0 || fn.decl.Recv == nil {
			continue
		}
		entries = append(entries, fn.name)
		e, _ := a.analyse(fn, true)
		seen := map[string]bool{}
		for _, s := range e.sites {
			k := s.entry + "|" + s.stmt
			if !seen[k] {
				seen[k] = true
				sites = append(sites, s)
			}
		}
	}
	var b strings.Builder
	b.WriteString("-- Write entry points of the root package (methods WriteRows / WriteValues / WriteRowValues taking a\n")
	b.WriteString("-- []Row or []Value) and the statements through which memory of that argument may be written\n")
	b.WriteString("-- (name-based alias analysis over go/ast, see tools/factgen/fam_callerwrites.go)\n")
	b.WriteString("def writeEntryPoints : List String := [\n")
	for i, n := range entries {
		sep := ","
		if i == len(entries)-1 {
			sep = ""
		}
		fmt.Fprintf(&b, "  %s%s\n", LeanString(n), sep)
	}
	b.WriteString("]\n")
	b.WriteString("def callerWriteSites : List (String × String) := [\n")
	for i, s := range sites {
		sep := ","
		if i == len(sites)-1 {
			sep = ""
		}
		fmt.Fprintf(&b, "  (%s, %s)%s  -- line %d\n", LeanString(s.entry), LeanString(s.stmt), sep, s.line)
	}
	b.WriteString("]\n")
	return b.String(), nil
}
