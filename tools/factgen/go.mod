module factgen

go 1.24.9
