package main

// Family "aadsites" (property C18, authentication part): everything the library's source says
// about which AAD a module is sealed or opened with.
//
//	aadModuleConsts  the module type constants of encrypt.go (name, value)
//	aadSites         every call of makeAAD in writer.go and file.go, in source order: enclosing
//	                 function, the prefix and file-identifier arguments, the module-type argument
//	                 and the ordinal arguments IN THE ORDER THEY ARE PASSED. Bare identifiers that
//	                 are local variables are annotated with what defines them in the enclosing
//	                 function: `x{e1|e2}` for assignments `x := e1`, `x = e2` of the block that
//	                 declares x, `x{range E}` for the key of `for x := range E`, `x{elem of range E}`
//	                 for its value, `x{param k of func literal in F(...)}` for a callback parameter.
//	                 `alts` expands a site whose arguments are locals assigned in several branches
//	                 (`hdrModuleType{dictPageHeaderModule|dataPageHeaderModule}`, `pageOrd{0|d.dataPageOrd}`)
//	                 into one (type, ordinals) pair per branch, k-th definition with k-th definition;
//	                 locals with a single definition are kept annotated.
//	aadAssigns       every assignment to (and composite-literal initialisation of) the fields the
//	                 AAD is built from — fileUnique, aadPrefix, rowGroupOrdinal, columnOrdinal,
//	                 awaitOrdinal, dataPageOrd, dictPagePending — with the enclosing function.
//
// The Lean side (Props/FactsCheckC18.lean) compares the three tables with the reviewed ones and
// ties them to the model (`AadSites.lean`: `Site`, `ModType.roles`; `Aad.lean`: the writer and
// reader state machines): an argument that changes place, a call site that appears or disappears,
// an assignment that is dropped or added breaks the build.

import (
	"fmt"
	"go/ast"
	"go/parser"
	"go/token"
	"path/filepath"
	"strings"
)

func init() { RegisterRaw("aadsites", famAadSites) }

var aadFields = map[string]bool{
	"fileUnique": true, "aadPrefix": true, "rowGroupOrdinal": true, "columnOrdinal": true,
	"awaitOrdinal": true, "dataPageOrd": true, "dictPagePending": true,
}

type aadResolver struct {
	fset *token.FileSet
	path []ast.Node // ancestors of the call, outermost first
}

// defsInBlock lists what the statements of one block (nested statements included, function
// literals excluded) assign to the bare identifier name; declared reports whether the block
// itself declares it.
func (r *aadResolver) defsInBlock(list []ast.Stmt, name string) (defs []string, declared bool) {
	for _, st := range list {
		switch s := st.(type) {
		case *ast.AssignStmt:
			if s.Tok == token.DEFINE {
				for i, l := range s.Lhs {
					if id, ok := l.(*ast.Ident); ok && id.Name == name {
						declared = true
						_ = i
					}
				}
			}
		case *ast.DeclStmt:
			if g, ok := s.Decl.(*ast.GenDecl); ok && g.Tok == token.VAR {
				for _, sp := range g.Specs {
					for _, id := range sp.(*ast.ValueSpec).Names {
						if id.Name == name {
							declared = true
						}
					}
				}
			}
		}
	}
	if !declared {
		return nil, false
	}
	for _, st := range list {
		ast.Inspect(st, func(n ast.Node) bool {
			switch s := n.(type) {
			case *ast.FuncLit:
				return false
			case *ast.AssignStmt:
				for i, l := range s.Lhs {
					if id, ok := l.(*ast.Ident); ok && id.Name == name {
						rhs := "?"
						if len(s.Rhs) == len(s.Lhs) {
							rhs = exprText(r.fset, s.Rhs[i])
						} else if len(s.Rhs) == 1 {
							rhs = fmt.Sprintf("result %d of %s", i, exprText(r.fset, s.Rhs[0]))
						}
						defs = append(defs, rhs)
					}
				}
			case *ast.DeclStmt:
				if g, ok := s.Decl.(*ast.GenDecl); ok && g.Tok == token.VAR {
					for _, sp := range g.Specs {
						vs := sp.(*ast.ValueSpec)
						for i, id := range vs.Names {
							if id.Name == name && i < len(vs.Values) {
								defs = append(defs, exprText(r.fset, vs.Values[i]))
							}
						}
					}
				}
			case *ast.IncDecStmt:
				if id, ok := s.X.(*ast.Ident); ok && id.Name == name {
					defs = append(defs, name+s.Tok.String())
				}
			}
			return true
		})
	}
	return defs, true
}

// resolve returns the annotation of a bare identifier, or "" when it is not a local variable.
func (r *aadResolver) resolve(name string) string {
	for i := len(r.path) - 1; i >= 0; i-- {
		switch n := r.path[i].(type) {
		case *ast.RangeStmt:
			if n.Tok == token.DEFINE {
				if id, ok := n.Key.(*ast.Ident); ok && id.Name == name {
					return "range " + exprText(r.fset, n.X)
				}
				if id, ok := n.Value.(*ast.Ident); ok && id.Name == name {
					return "elem of range " + exprText(r.fset, n.X)
				}
			}
		case *ast.ForStmt:
			if a, ok := n.Init.(*ast.AssignStmt); ok && a.Tok == token.DEFINE {
				for k, l := range a.Lhs {
					if id, ok := l.(*ast.Ident); ok && id.Name == name && k < len(a.Rhs) {
						return "for-init " + exprText(r.fset, a.Rhs[k])
					}
				}
			}
		case *ast.IfStmt:
			if a, ok := n.Init.(*ast.AssignStmt); ok && a.Tok == token.DEFINE {
				for k, l := range a.Lhs {
					if id, ok := l.(*ast.Ident); ok && id.Name == name {
						if len(a.Rhs) == len(a.Lhs) {
							return "if-init " + exprText(r.fset, a.Rhs[k])
						}
						return fmt.Sprintf("if-init result %d of %s", k, exprText(r.fset, a.Rhs[0]))
					}
				}
			}
		case *ast.FuncLit:
			k := 0
			for _, f := range n.Type.Params.List {
				for _, id := range f.Names {
					if id.Name == name {
						where := ""
						if i > 0 {
							if c, ok := r.path[i-1].(*ast.CallExpr); ok {
								where = " in " + exprText(r.fset, c.Fun) + "(...)"
							}
						}
						return fmt.Sprintf("param %d of func literal%s", k, where)
					}
					k++
				}
			}
		case *ast.BlockStmt:
			if defs, ok := r.defsInBlock(n.List, name); ok {
				return strings.Join(defs, "|")
			}
		case *ast.CaseClause:
			if defs, ok := r.defsInBlock(n.Body, name); ok {
				return strings.Join(defs, "|")
			}
		}
	}
	return ""
}

// annotate prints an argument with its bare local identifiers resolved.
func (r *aadResolver) annotate(e ast.Expr) string {
	switch x := e.(type) {
	case *ast.Ident:
		if d := r.resolve(x.Name); d != "" {
			return x.Name + "{" + d + "}"
		}
		return x.Name
	case *ast.CallExpr:
		var args []string
		for _, a := range x.Args {
			args = append(args, r.annotate(a))
		}
		return exprText(r.fset, x.Fun) + "(" + strings.Join(args, ", ") + ")"
	case *ast.ParenExpr:
		return "(" + r.annotate(x.X) + ")"
	default:
		return exprText(r.fset, e)
	}
}

type aadSite struct {
	file, fn, pfx, fu, typ string
	ords                   []string
	line                   int
}

// aadAlts splits `x{a|b}` arguments position-wise; every branching argument must have the same
// number of definitions, otherwise the pairing is unknown and a "?" entry breaks the Lean side.
func aadAlts(typ string, ords []string) [][]string {
	split := func(a string) []string {
		i := strings.Index(a, "{")
		if i < 0 || !strings.HasSuffix(a, "}") || strings.Contains(a[:i], "(") {
			return nil
		}
		parts := strings.Split(a[i+1:len(a)-1], "|")
		if len(parts) < 2 {
			return nil
		}
		return parts
	}
	all := append([]string{typ}, ords...)
	n := 1
	for _, a := range all {
		if p := split(a); p != nil {
			if n != 1 && n != len(p) {
				return [][]string{{"?"}}
			}
			n = len(p)
		}
	}
	var out [][]string
	for k := 0; k < n; k++ {
		var row []string
		for _, a := range all {
			if p := split(a); p != nil {
				row = append(row, p[k])
			} else {
				row = append(row, a)
			}
		}
		out = append(out, row)
	}
	return out
}

type aadAssign struct {
	file, fn, field, text string
	line                  int
}

func famAadSites(repo string) (string, error) {
	var sb strings.Builder
	// 1. the constants
	fset := token.NewFileSet()
	ef, err := parser.ParseFile(fset, filepath.Join(repo, "encrypt.go"), nil, parser.SkipObjectResolution)
	if err != nil {
		return "", err
	}
	type kv struct {
		name, val string
	}
	var consts []kv
	sawMake := false
	for _, d := range ef.Decls {
		switch g := d.(type) {
		case *ast.GenDecl:
			if g.Tok != token.CONST {
				continue
			}
			for _, sp := range g.Specs {
				vs := sp.(*ast.ValueSpec)
				for i, id := range vs.Names {
					if strings.HasSuffix(id.Name, "Module") && i < len(vs.Values) {
						consts = append(consts, kv{id.Name, exprText(fset, vs.Values[i])})
					}
				}
			}
		case *ast.FuncDecl:
			if g.Name.Name == "makeAAD" {
				sawMake = true
			}
		}
	}
	if !sawMake || len(consts) == 0 {
		return "", fmt.Errorf("makeAAD or the module constants not found in encrypt.go")
	}
	// 2. call sites and assignments
	var sites []aadSite
	var assigns []aadAssign
	for _, file := range []string{"writer.go", "file.go"} {
		f, err := parser.ParseFile(fset, filepath.Join(repo, file), nil, parser.SkipObjectResolution)
		if err != nil {
			return "", err
		}
		for _, d := range f.Decls {
			fd, ok := d.(*ast.FuncDecl)
			if !ok || fd.Body == nil {
				continue
			}
			fn := wsFuncName(fd)
			var path []ast.Node
			var walk func(n ast.Node) bool
			walk = func(n ast.Node) bool {
				if n == nil {
					path = path[:len(path)-1]
					return false
				}
				switch x := n.(type) {
				case *ast.CallExpr:
					if id, ok := x.Fun.(*ast.Ident); ok && id.Name == "makeAAD" && len(x.Args) >= 3 {
						r := &aadResolver{fset: fset, path: append([]ast.Node{}, path...)}
						s := aadSite{file: file, fn: fn, line: fset.Position(x.Pos()).Line,
							pfx: r.annotate(x.Args[0]), fu: r.annotate(x.Args[1]), typ: r.annotate(x.Args[2])}
						for _, a := range x.Args[3:] {
							s.ords = append(s.ords, r.annotate(a))
						}
						if x.Ellipsis.IsValid() {
							s.ords = append(s.ords, "...")
						}
						sites = append(sites, s)
					}
				case *ast.AssignStmt:
					for i, l := range x.Lhs {
						if se, ok := l.(*ast.SelectorExpr); ok && aadFields[se.Sel.Name] {
							rhs := "?"
							if len(x.Rhs) == len(x.Lhs) {
								rhs = exprText(fset, x.Rhs[i])
							}
							assigns = append(assigns, aadAssign{file, fn, se.Sel.Name, exprText(fset, l) + " " + x.Tok.String() + " " + rhs, fset.Position(x.Pos()).Line})
						}
					}
				case *ast.IncDecStmt:
					if se, ok := x.X.(*ast.SelectorExpr); ok && aadFields[se.Sel.Name] {
						assigns = append(assigns, aadAssign{file, fn, se.Sel.Name, exprText(fset, x.X) + x.Tok.String(), fset.Position(x.Pos()).Line})
					}
				case *ast.KeyValueExpr:
					if id, ok := x.Key.(*ast.Ident); ok && aadFields[id.Name] {
						assigns = append(assigns, aadAssign{file, fn, id.Name, id.Name + ": " + exprText(fset, x.Value), fset.Position(x.Pos()).Line})
					}
				}
				path = append(path, n)
				return true
			}
			ast.Inspect(fd.Body, walk)
		}
	}
	if len(sites) == 0 {
		return "", fmt.Errorf("no makeAAD call site found")
	}
	sb.WriteString("\n/-- module type constants of encrypt.go -/\n")
	sb.WriteString("def aadModuleConsts : List (String × String) := [\n")
	for i, c := range consts {
		sep := ","
		if i == len(consts)-1 {
			sep = ""
		}
		fmt.Fprintf(&sb, "  (%s, %s)%s\n", LeanString(c.name), LeanString(c.val), sep)
	}
	sb.WriteString("]\n\n")
	sb.WriteString("/-- a call of makeAAD: arguments in the order they are passed, local identifiers annotated -/\n")
	sb.WriteString("structure AadSite where\n  fn : String\n  pfx : String\n  fu : String\n  typ : String\n  ords : List String\n  alts : List (String × List String)\nderiving DecidableEq, Repr\n\n")
	sb.WriteString("def aadSites : List AadSite := [\n")
	for i, s := range sites {
		sep := ","
		if i == len(sites)-1 {
			sep = ""
		}
		var os []string
		for _, o := range s.ords {
			os = append(os, LeanString(o))
		}
		var alts []string
		for _, row := range aadAlts(s.typ, s.ords) {
			var as []string
			for _, o := range row[1:] {
				as = append(as, LeanString(o))
			}
			alts = append(alts, fmt.Sprintf("(%s, [%s])", LeanString(row[0]), strings.Join(as, ", ")))
		}
		fmt.Fprintf(&sb, "  ⟨%s, %s, %s, %s, [%s],\n    [%s]⟩%s  -- %s:%d\n", LeanString(s.file+":"+s.fn), LeanString(s.pfx), LeanString(s.fu), LeanString(s.typ), strings.Join(os, ", "), strings.Join(alts, ", "), sep, s.file, s.line)
	}
	sb.WriteString("]\n\n")
	sb.WriteString("/-- an assignment to one of the fields the AAD is built from -/\n")
	sb.WriteString("structure AadAssign where\n  fn : String\n  field : String\n  text : String\nderiving DecidableEq, Repr\n\n")
	sb.WriteString("def aadAssigns : List AadAssign := [\n")
	for i, a := range assigns {
		sep := ","
		if i == len(assigns)-1 {
			sep = ""
		}
		fmt.Fprintf(&sb, "  ⟨%s, %s, %s⟩%s  -- %s:%d\n", LeanString(a.file+":"+a.fn), LeanString(a.field), LeanString(a.text), sep, a.file, a.line)
	}
	sb.WriteString("]\n")
	return sb.String(), nil
}
