package main

// Family "pageloaders" (property C13): which functions of file.go fill a page buffer from the
// underlying reader, and does a checksum comparison stand between that read and the function's
// successful return.
//
// A *read site* is a call io.ReadFull(r, dst) / io.ReadAtLeast(r, dst, n) / x.Read(dst) / x.ReadAt(dst, off).
// Its destination is a *page buffer* when the root variable of dst was obtained from the page buffer
// pool (`buffers.get(...)`) or was sized by `CompressedPageSize`; every other read site of the file is
// listed in `otherReadSites` so that a new way of loading bytes cannot appear unnoticed.
//
// A page loader *verifies* when, after the read site and before the last `return …, nil`:
//   - there is a call crc32.<F>(…) or checksum(…) (inline or assigned to a variable), and
//   - an `if a != b { … return <non-nil error> }` (or `==` with the error in the else branch) where
//     one operand derives from `<x>.CRC` and the other from that call, and
//   - the only conditions enclosing that `if` are guards comparing `<x>.CRC` with zero
//     (reported separately in `pageLoaderZeroGuard`: that guard is finding F8), or
//   - it calls, under the same nesting rule, a function of the same file that does the above.
//
// Also extracted: which functions call a page loader (`pageLoaderCalls`), where the writer sets the CRC and over which buffers, and the declared type and
// thrift tag of format.PageHeader.CRC (the `optional` i32 that makes a zero CRC disappear).

import (
	"fmt"
	"go/ast"
	"go/token"
	"sort"
	"strings"
)

func init() { Register("pageloaders", pageLoaders) }

type readSite struct {
	fn     string
	dest   ast.Expr
	call   *ast.CallExpr
	isPage bool
}

// rootIdent strips calls, selectors, index and slice expressions: page.data.Slice() -> page
func rootIdent(e ast.Expr) *ast.Ident {
	for {
		switch x := e.(type) {
		case *ast.Ident:
			return x
		case *ast.CallExpr:
			e = x.Fun
		case *ast.SelectorExpr:
			e = x.X
		case *ast.SliceExpr:
			e = x.X
		case *ast.IndexExpr:
			e = x.X
		case *ast.ParenExpr:
			e = x.X
		case *ast.StarExpr:
			e = x.X
		case *ast.UnaryExpr:
			e = x.X
		default:
			return nil
		}
	}
}

// qualName is the function name, prefixed by the receiver type for methods: FilePages.readPage
func qualName(fn *ast.FuncDecl) string {
	if fn.Recv == nil || len(fn.Recv.List) == 0 {
		return fn.Name.Name
	}
	t := fn.Recv.List[0].Type
	for {
		switch x := t.(type) {
		case *ast.StarExpr:
			t = x.X
			continue
		case *ast.IndexExpr:
			t = x.X
			continue
		case *ast.IndexListExpr:
			t = x.X
			continue
		case *ast.Ident:
			return x.Name + "." + fn.Name.Name
		}
		return fn.Name.Name
	}
}

func isSel(e ast.Expr, pkg, name string) bool {
	s, ok := e.(*ast.SelectorExpr)
	if !ok || s.Sel.Name != name {
		return false
	}
	id, ok := s.X.(*ast.Ident)
	return ok && id.Name == pkg
}

func mentions(r *Repo, e ast.Node, sub string) bool { return strings.Contains(r.Text(e), sub) }

// assignments of the function: variable name -> right-hand sides assigned to it anywhere
func assignments(fn *ast.FuncDecl) map[string][]ast.Expr {
	out := map[string][]ast.Expr{}
	ast.Inspect(fn.Body, func(n ast.Node) bool {
		switch s := n.(type) {
		case *ast.AssignStmt:
			if len(s.Lhs) == len(s.Rhs) {
				for i, l := range s.Lhs {
					if id, ok := l.(*ast.Ident); ok {
						out[id.Name] = append(out[id.Name], s.Rhs[i])
					}
				}
			} else if len(s.Rhs) == 1 {
				for _, l := range s.Lhs {
					if id, ok := l.(*ast.Ident); ok {
						out[id.Name] = append(out[id.Name], s.Rhs[0])
					}
				}
			}
		case *ast.ValueSpec:
			for i, id := range s.Names {
				if i < len(s.Values) {
					out[id.Name] = append(out[id.Name], s.Values[i])
				}
			}
		}
		return true
	})
	return out
}

func isCrcCall(e ast.Expr) bool {
	found := false
	ast.Inspect(e, func(n ast.Node) bool {
		c, ok := n.(*ast.CallExpr)
		if !ok {
			return true
		}
		switch f := c.Fun.(type) {
		case *ast.SelectorExpr:
			if id, ok := f.X.(*ast.Ident); ok && id.Name == "crc32" {
				found = true
			}
			if strings.EqualFold(f.Sel.Name, "checksum") {
				found = true
			}
		case *ast.Ident:
			if strings.EqualFold(f.Name, "checksum") {
				found = true
			}
		}
		return true
	})
	return found
}

// taints of a function: which local variables derive from a header CRC field / from a crc computation
// (fixpoint over the assignments of the function)
type taints struct{ hdr, crc map[string]bool }

func identsOf(e ast.Node) []string {
	var out []string
	ast.Inspect(e, func(n ast.Node) bool {
		if id, ok := n.(*ast.Ident); ok {
			out = append(out, id.Name)
		}
		return true
	})
	return out
}

func taintsOf(r *Repo, asg map[string][]ast.Expr) taints {
	t := taints{map[string]bool{}, map[string]bool{}}
	type rhs struct {
		v      string
		idents []string
	}
	var all []rhs
	for v, es := range asg {
		for _, e := range es {
			if mentions(r, e, ".CRC") {
				t.hdr[v] = true
			}
			if isCrcCall(e) {
				t.crc[v] = true
			}
			all = append(all, rhs{v, identsOf(e)})
		}
	}
	for changed := true; changed; {
		changed = false
		for _, a := range all {
			for _, id := range a.idents {
				if t.hdr[id] && !t.hdr[a.v] {
					t.hdr[a.v], changed = true, true
				}
				if t.crc[id] && !t.crc[a.v] {
					t.crc[a.v], changed = true, true
				}
			}
		}
	}
	return t
}

// taint of an operand: does it derive from a header CRC field / from a crc computation
func (t taints) of(r *Repo, e ast.Expr) (hdr, crc bool) {
	hdr, crc = mentions(r, e, ".CRC"), isCrcCall(e)
	for _, id := range identsOf(e) {
		hdr, crc = hdr || t.hdr[id], crc || t.crc[id]
	}
	return
}

func isZeroCrcGuard(r *Repo, cond ast.Expr) bool {
	b, ok := cond.(*ast.BinaryExpr)
	if !ok || (b.Op != token.NEQ && b.Op != token.GTR) {
		return false
	}
	isZero := func(e ast.Expr) bool { l, ok := e.(*ast.BasicLit); return ok && l.Value == "0" }
	isNil := func(e ast.Expr) bool { id, ok := e.(*ast.Ident); return ok && id.Name == "nil" }
	return (mentions(r, b.X, ".CRC") && (isZero(b.Y) || isNil(b.Y))) || (mentions(r, b.Y, ".CRC") && (isZero(b.X) || isNil(b.X)))
}

func returnsError(body ast.Node) bool {
	if body == nil {
		return false
	}
	found := false
	ast.Inspect(body, func(n ast.Node) bool {
		if _, ok := n.(*ast.FuncLit); ok {
			return false
		}
		if ret, ok := n.(*ast.ReturnStmt); ok && len(ret.Results) > 0 {
			last := ret.Results[len(ret.Results)-1]
			if id, ok := last.(*ast.Ident); !ok || id.Name != "nil" {
				found = true
			}
		}
		return true
	})
	return found
}

// lastSuccessReturn: position of the last `return …, nil` (or bare `return nil`) of the function,
// or the end of the body.
func lastSuccessReturn(fn *ast.FuncDecl) token.Pos {
	pos := token.NoPos
	ast.Inspect(fn.Body, func(n ast.Node) bool {
		if _, ok := n.(*ast.FuncLit); ok {
			return false
		}
		if ret, ok := n.(*ast.ReturnStmt); ok && len(ret.Results) > 0 {
			if id, ok := ret.Results[len(ret.Results)-1].(*ast.Ident); ok && id.Name == "nil" {
				pos = ret.Pos()
			}
		}
		return true
	})
	if pos == token.NoPos {
		pos = fn.Body.End()
	}
	return pos
}

type check struct {
	pos       token.Pos
	zeroGuard bool
	via       string   // "" = own comparison, else the callee that verifies
	scope     ast.Node // innermost enclosing branch with another condition (nil: function body)
}

// covers: the check is on every path from the read site to the code after it
func (c check) covers(site ast.Node) bool {
	if c.pos <= site.End() {
		return false
	}
	return c.scope == nil || (c.scope.Pos() <= site.Pos() && site.End() <= c.scope.End())
}

// checksOf lists the checksum comparisons of a function that every execution passing their position
// goes through (modulo zero-CRC guards). checkers = same-file functions known to verify.
func checksOf(r *Repo, fn *ast.FuncDecl, checkers map[string]bool) []check {
	var out []check
	// cheap filter: a function that neither mentions a CRC field nor calls a checker has no check
	if !mentions(r, fn.Body, ".CRC") {
		calls := false
		ast.Inspect(fn.Body, func(n ast.Node) bool {
			if c, ok := n.(*ast.CallExpr); ok {
				switch f := c.Fun.(type) {
				case *ast.Ident:
					calls = calls || checkers[f.Name]
				case *ast.SelectorExpr:
					calls = calls || checkers[f.Sel.Name]
				}
			}
			return !calls
		})
		if !calls {
			return nil
		}
	}
	tn := taintsOf(r, assignments(fn))
	var walk func(n ast.Node, guarded bool, scope ast.Node)
	walkBlock := func(list []ast.Stmt, guarded bool, scope ast.Node) {
		for _, s := range list {
			walk(s, guarded, scope)
		}
	}
	callsChecker := func(n ast.Node) string {
		name := ""
		if n == nil {
			return ""
		}
		ast.Inspect(n, func(m ast.Node) bool {
			if _, ok := m.(*ast.FuncLit); ok {
				return false
			}
			if c, ok := m.(*ast.CallExpr); ok {
				switch f := c.Fun.(type) {
				case *ast.Ident:
					if checkers[f.Name] {
						name = f.Name
					}
				case *ast.SelectorExpr:
					if checkers[f.Sel.Name] {
						name = f.Sel.Name
					}
				}
			}
			return true
		})
		return name
	}
	walk = func(n ast.Node, guarded bool, scope ast.Node) {
		switch s := n.(type) {
		case nil:
		case *ast.BlockStmt:
			if s != nil {
				walkBlock(s.List, guarded, scope)
			}
		case *ast.IfStmt:
			if via := callsChecker(s.Init); via != "" {
				out = append(out, check{s.Pos(), guarded, via, scope})
			}
			if b, ok := s.Cond.(*ast.BinaryExpr); ok && (b.Op == token.NEQ || b.Op == token.EQL) {
				hx, cx := tn.of(r, b.X)
				hy, cy := tn.of(r, b.Y)
				if (hx && cy) || (hy && cx) {
					if (b.Op == token.NEQ && returnsError(s.Body)) || (b.Op == token.EQL && returnsError(s.Else)) {
						out = append(out, check{s.Pos(), guarded, "", scope})
					}
				}
			}
			if isZeroCrcGuard(r, s.Cond) {
				walk(s.Body, true, scope) // only reached when the header has a CRC: finding F8 territory
			} else {
				// any other condition: a check inside a branch only counts for reads of that branch
				walk(s.Body, guarded, s.Body)
				if s.Else != nil {
					walk(s.Else, guarded, s.Else)
				}
			}
		case *ast.AssignStmt, *ast.ExprStmt, *ast.ReturnStmt:
			if via := callsChecker(s); via != "" {
				out = append(out, check{s.Pos(), guarded, via, scope})
			}
		}
	}
	walk(fn.Body, false, nil)
	return out
}

// enclosingConds lists, outermost first, the conditions under which the statement at pos executes:
// the conditions of the enclosing `if`s (negated for an else branch) and a marker for every
// enclosing loop / switch / select / function literal.
func enclosingConds(r *Repo, fn *ast.FuncDecl, pos token.Pos) []string {
	var found []string
	var walk func(n ast.Node, conds []string) bool
	walk = func(n ast.Node, conds []string) bool {
		if n == nil || pos < n.Pos() || pos >= n.End() {
			return false
		}
		if n.Pos() == pos {
			if _, ok := n.(*ast.IfStmt); ok {
				found = append([]string{}, conds...)
				return true
			}
		}
		switch s := n.(type) {
		case *ast.IfStmt:
			c := r.Text(s.Cond)
			if walk(s.Body, append(conds[:len(conds):len(conds)], c)) {
				return true
			}
			if s.Else != nil && walk(s.Else, append(conds[:len(conds):len(conds)], "!("+c+")")) {
				return true
			}
			return false
		case *ast.ForStmt:
			return walk(s.Body, append(conds[:len(conds):len(conds)], "for"))
		case *ast.RangeStmt:
			return walk(s.Body, append(conds[:len(conds):len(conds)], "range"))
		case *ast.SwitchStmt:
			return walk(s.Body, append(conds[:len(conds):len(conds)], "switch"))
		case *ast.TypeSwitchStmt:
			return walk(s.Body, append(conds[:len(conds):len(conds)], "switch"))
		case *ast.SelectStmt:
			return walk(s.Body, append(conds[:len(conds):len(conds)], "select"))
		case *ast.FuncLit:
			return walk(s.Body, append(conds[:len(conds):len(conds)], "func"))
		}
		done := false
		ast.Inspect(n, func(m ast.Node) bool {
			if done || m == nil || m == n {
				return !done
			}
			switch m.(type) {
			case *ast.IfStmt, *ast.ForStmt, *ast.RangeStmt, *ast.SwitchStmt, *ast.TypeSwitchStmt, *ast.SelectStmt, *ast.FuncLit:
				if walk(m, conds) {
					done = true
				}
				return false
			}
			return true
		})
		return done
	}
	walk(fn.Body, nil)
	return found
}

// comparisonsOf: positions of the `if a != b` / `a == b` statements of fn that compare a value derived
// from a header CRC field with one derived from a crc computation (whether or not they cover a read)
func comparisonsOf(r *Repo, fn *ast.FuncDecl) []*ast.IfStmt {
	if !mentions(r, fn.Body, ".CRC") {
		return nil
	}
	tn := taintsOf(r, assignments(fn))
	var out []*ast.IfStmt
	ast.Inspect(fn.Body, func(n ast.Node) bool {
		s, ok := n.(*ast.IfStmt)
		if !ok {
			return true
		}
		if b, ok := s.Cond.(*ast.BinaryExpr); ok && (b.Op == token.NEQ || b.Op == token.EQL) {
			hx, cx := tn.of(r, b.X)
			hy, cy := tn.of(r, b.Y)
			if (hx && cy) || (hy && cx) {
				out = append(out, s)
			}
		}
		return true
	})
	return out
}

func bareCallee(c *ast.CallExpr) string {
	switch f := c.Fun.(type) {
	case *ast.Ident:
		return f.Name
	case *ast.SelectorExpr:
		return f.Sel.Name
	}
	return ""
}

// passedTo: callees of fn that receive the variable `v` itself as an argument
func passedTo(fn *ast.FuncDecl, v string) []string {
	seen := map[string]bool{}
	ast.Inspect(fn.Body, func(n ast.Node) bool {
		c, ok := n.(*ast.CallExpr)
		if !ok {
			return true
		}
		for _, a := range c.Args {
			if id, ok := a.(*ast.Ident); ok && id.Name == v {
				seen[bareCallee(c)] = true
			}
		}
		return true
	})
	var out []string
	for k := range seen {
		out = append(out, k)
	}
	sort.Strings(out)
	return out
}

func strList(xs []string) string {
	q := make([]string, len(xs))
	for i, x := range xs {
		q[i] = Str(x)
	}
	return "[" + strings.Join(q, ", ") + "]"
}

func pageLoaders(r *Repo, s *Section) error {
	file, err := r.File("file.go")
	if err != nil {
		return err
	}
	funcs := map[string]*ast.FuncDecl{}
	var order []string
	for _, d := range file.Decls {
		if fn, ok := d.(*ast.FuncDecl); ok && fn.Body != nil {
			funcs[qualName(fn)] = fn
			order = append(order, qualName(fn))
		}
	}
	// read sites
	var sites []readSite
	for _, name := range order {
		fn := funcs[name]
		asg := assignments(fn)
		ast.Inspect(fn.Body, func(n ast.Node) bool {
			c, ok := n.(*ast.CallExpr)
			if !ok {
				return true
			}
			var dest ast.Expr
			switch {
			case (isSel(c.Fun, "io", "ReadFull") || isSel(c.Fun, "io", "ReadAtLeast")) && len(c.Args) >= 2:
				dest = c.Args[1]
			default:
				if sel, ok := c.Fun.(*ast.SelectorExpr); ok && (sel.Sel.Name == "Read" || sel.Sel.Name == "ReadAt") && len(c.Args) >= 1 {
					dest = c.Args[0]
				}
			}
			if dest == nil {
				return true
			}
			isPage := false
			if id := rootIdent(dest); id != nil {
				for _, rhs := range asg[id.Name] {
					if mentions(r, rhs, "buffers.get(") || mentions(r, rhs, "CompressedPageSize") {
						isPage = true
					}
				}
			}
			sites = append(sites, readSite{name, dest, c, isPage})
			return true
		})
	}
	// functions that verify on their own (fixpoint over calls to verifying functions, 2 rounds)
	checkers := map[string]bool{} // by bare name, as it appears at a call site
	for round := 0; round < 3; round++ {
		for _, name := range order {
			if len(checksOf(r, funcs[name], checkers)) > 0 {
				checkers[funcs[name].Name.Name] = true
			}
		}
	}
	type loader struct {
		verified, zeroGuard bool
		notes               []string
	}
	loaders := map[string]*loader{}
	var others []string
	for _, st := range sites {
		if !st.isPage {
			others = append(others, Tuple(Str(st.fn), Str(r.Text(st.dest))))
			s.Comment("file.go:%d %s: %s  (not a page buffer)", r.Line(st.call), st.fn, r.Text(st.call))
			continue
		}
		l := loaders[st.fn]
		if l == nil {
			l = &loader{verified: true}
			loaders[st.fn] = l
		}
		fn := funcs[st.fn]
		end := lastSuccessReturn(fn)
		ok := false
		for _, c := range checksOf(r, fn, checkers) {
			if c.covers(st.call) && c.pos < end {
				ok = true
				l.zeroGuard = l.zeroGuard || c.zeroGuard
				via := "compares the checksum"
				if c.via != "" {
					via = "calls " + c.via
				}
				l.notes = append(l.notes, fmt.Sprintf("file.go:%d %s: read at line %d, %s at line %d (zero-CRC guard: %v)",
					r.Line(st.call), st.fn, r.Line(st.call), via, r.Fset.Position(c.pos).Line, c.zeroGuard))
			}
		}
		if !ok {
			l.verified = false
			l.notes = append(l.notes, fmt.Sprintf("file.go:%d %s: %s — no checksum comparison before the successful return",
				r.Line(st.call), st.fn, r.Text(st.call)))
		}
	}
	names := make([]string, 0, len(loaders))
	for n := range loaders {
		names = append(names, n)
	}
	sort.Strings(names)
	var rows, guards []string
	for _, n := range names {
		for _, note := range loaders[n].notes {
			s.Comment("%s", note)
		}
		rows = append(rows, Tuple(Str(n), Bool(loaders[n].verified)))
		if loaders[n].verified {
			guards = append(guards, Tuple(Str(n), Bool(loaders[n].zeroGuard)))
		}
	}
	s.Comment("functions of file.go that fill a page buffer from the reader, and whether a checksum comparison\nstands between the read and the successful return")
	s.Def("pageLoaders", "List (String × Bool)", List(rows))
	s.Comment("for the loaders that verify: is the comparison skipped when the header CRC is zero (`if header.CRC != 0`)")
	s.Def("pageLoaderZeroGuard", "List (String × Bool)", List(guards))
	// who asks a page loader for a body: (caller, loader) for every call in file.go to a function
	// that bears the name of a page loader
	bare := map[string]string{}
	for _, n := range names {
		bare[funcs[n].Name.Name] = n
	}
	var calls []string
	seenCall := map[string]bool{}
	for _, name := range order {
		ast.Inspect(funcs[name].Body, func(n ast.Node) bool {
			c, ok := n.(*ast.CallExpr)
			if !ok {
				return true
			}
			callee := ""
			switch f := c.Fun.(type) {
			case *ast.Ident:
				callee = f.Name
			case *ast.SelectorExpr:
				callee = f.Sel.Name
			}
			if l, ok := bare[callee]; ok && !seenCall[name+">"+l] {
				seenCall[name+">"+l] = true
				calls = append(calls, Tuple(Str(name), Str(l)))
				s.Comment("file.go:%d %s calls %s", r.Line(c), name, l)
			}
			return true
		})
	}
	sort.Strings(calls)
	s.Comment("(caller, loader): the functions of file.go that obtain a page body from a page loader")
	s.Def("pageLoaderCalls", "List (String × String)", List(calls))
	sort.Strings(others)
	s.Comment("every other read site of file.go: (function, destination)")
	s.Def("otherReadSites", "List (String × String)", List(others))

	// ---- under which conditions is the checksum compared (finding F8 is `header.CRC != 0`; anything
	// else in here — a skip counter, an option — makes verification depend on reader state)
	var guardRows []string
	for _, name := range order {
		for _, cmp := range comparisonsOf(r, funcs[name]) {
			conds := enclosingConds(r, funcs[name], cmp.Pos())
			guardRows = append(guardRows, Tuple(Str(name), strList(conds)))
			s.Comment("file.go:%d %s: `if %s` executes under %v", r.Line(cmp), name, r.Text(cmp.Cond), conds)
		}
	}
	s.Comment("(function, conditions enclosing its checksum comparison, outermost first)")
	s.Def("crcComparisonGuards", "List (String × List String)", List(guardRows))

	// ---- the buffer that is read, checksummed and returned by a loader; where its callers pass it
	var flowRows, useRows, entryRows []string
	entries := map[string]bool{}
	for _, n := range names {
		fn := funcs[n]
		asg := assignments(fn)
		readInto, summed, returned := "", "", ""
		for _, st := range sites {
			if st.fn == n && st.isPage {
				if id := rootIdent(st.dest); id != nil {
					readInto = id.Name
				}
			}
		}
		ast.Inspect(fn.Body, func(m ast.Node) bool {
			if c, ok := m.(*ast.CallExpr); ok && isCrcCall(c) && len(c.Args) > 0 {
				if id := rootIdent(c.Args[len(c.Args)-1]); id != nil {
					summed = id.Name
				}
			}
			if ret, ok := m.(*ast.ReturnStmt); ok && len(ret.Results) > 1 {
				if id, ok := ret.Results[len(ret.Results)-1].(*ast.Ident); ok && id.Name == "nil" {
					returned = r.Text(ret.Results[0])
				}
			}
			return true
		})
		flowRows = append(flowRows, Tuple(Str(n), Str(readInto), Str(summed), Str(returned), fmt.Sprint(len(asg[readInto]))))
	}
	for _, name := range order {
		fn := funcs[name]
		asg := assignments(fn)
		ast.Inspect(fn.Body, func(m ast.Node) bool {
			a, ok := m.(*ast.AssignStmt)
			if !ok || len(a.Rhs) != 1 {
				return true
			}
			c, ok := a.Rhs[0].(*ast.CallExpr)
			if !ok {
				return true
			}
			loader, ok := bare[bareCallee(c)]
			if !ok {
				return true
			}
			res, ok := a.Lhs[0].(*ast.Ident)
			if !ok {
				useRows = append(useRows, Tuple(Str(name), Str(loader), Str(r.Text(a.Lhs[0])), "[]", "[]"))
				return true
			}
			var others []string
			for _, rhs := range asg[res.Name] {
				if rhs != a.Rhs[0] {
					others = append(others, r.Text(rhs))
				}
			}
			sort.Strings(others)
			to := passedTo(fn, res.Name)
			for _, t := range to {
				entries[t] = true
			}
			useRows = append(useRows, Tuple(Str(name), Str(loader), Str(res.Name), strList(to), strList(others)))
			return true
		})
	}
	sort.Strings(useRows)
	var entryNames []string
	for _, name := range order {
		if entries[funcs[name].Name.Name] {
			entryNames = append(entryNames, name)
		}
	}
	sort.Strings(entryNames)
	for _, name := range entryNames {
		fn := funcs[name]
		param := ""
		for _, f := range fn.Type.Params.List {
			if strings.Contains(r.Text(f.Type), "buffer[byte]") && len(f.Names) > 0 {
				param = f.Names[0].Name
			}
		}
		entryRows = append(entryRows, Tuple(Str(name), Str(param), strList(passedTo(fn, param)), fmt.Sprint(len(assignments(fn)[param]))))
	}
	s.Comment("(loader, variable read into, variable checksummed, value returned on success, assignments to that variable)")
	s.Def("loaderBufferFlow", "List (String × String × String × String × Nat)", List(flowRows))
	s.Comment("(caller, loader, variable holding the loader's result, callees that receive that variable,\nother values assigned to it in the caller)")
	s.Def("loaderResultFlow", "List (String × String × String × List String × List String)", List(useRows))
	s.Comment("the decode entry points that receive it: (function, its *buffer[byte] parameter, callees that receive the\nparameter, assignments to the parameter)")
	s.Def("decodeEntryFlow", "List (String × String × List String × Nat)", List(entryRows))

	// ---- writer side
	wfile, err := r.File("writer.go")
	if err != nil {
		return err
	}
	var wsites, covers []string
	for _, d := range wfile.Decls {
		fn, ok := d.(*ast.FuncDecl)
		if !ok || fn.Body == nil {
			continue
		}
		ast.Inspect(fn.Body, func(n ast.Node) bool {
			a, ok := n.(*ast.AssignStmt)
			if !ok || len(a.Lhs) != 1 || len(a.Rhs) != 1 {
				return true
			}
			if sel, ok := a.Lhs[0].(*ast.SelectorExpr); ok && sel.Sel.Name == "CRC" {
				wsites = append(wsites, Tuple(Str(qualName(fn)), Str(r.Text(a.Lhs[0])), Str(r.Text(a.Rhs[0]))))
				s.Comment("writer.go:%d %s: %s", r.Line(a), qualName(fn), r.Text(a))
			}
			return true
		})
		if fn.Name.Name == "crc32" && fn.Recv != nil {
			ast.Inspect(fn.Body, func(n ast.Node) bool {
				c, ok := n.(*ast.CallExpr)
				if ok && isSel(c.Fun, "crc32", "Update") && len(c.Args) == 3 {
					covers = append(covers, Tuple(Str(r.Text(c.Args[1])), Str(r.Text(c.Args[2]))))
				}
				return true
			})
		}
	}
	s.Comment("writer.go: assignments to a header's CRC field: (function, field, value)")
	s.Def("crcWriteSites", "List (String × String × String)", List(wsites))
	s.Comment("writer.go: the chained crc32.Update calls of (*writerBuffers).crc32, in order: (table, buffer)")
	s.Def("crcWriteCovers", "List (String × String)", List(covers))

	// ---- format.PageHeader.CRC
	ffile, err := r.File("format/parquet.go")
	if err != nil {
		return err
	}
	typ, tag := "", ""
	ast.Inspect(ffile, func(n ast.Node) bool {
		ts, ok := n.(*ast.TypeSpec)
		if !ok || ts.Name.Name != "PageHeader" {
			return true
		}
		if st, ok := ts.Type.(*ast.StructType); ok {
			for _, f := range st.Fields.List {
				for _, id := range f.Names {
					if id.Name == "CRC" {
						typ = r.Text(f.Type)
						if f.Tag != nil {
							tag = strings.Trim(f.Tag.Value, "`")
						}
					}
				}
			}
		}
		return false
	})
	s.Comment("format/parquet.go: declared type and struct tag of PageHeader.CRC")
	s.Def("pageHeaderCrcField", "String × String", Tuple(Str(typ), Str(tag)))
	return nil
}
