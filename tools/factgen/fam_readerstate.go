package main

// Family "readerstate" (property C13): the bookkeeping of the two readers that REMEMBER a failed read,
//
//	FilePages.desync   (file.go)       set by a failed ReadPage, consumed by the next SeekToRow
//	rowGroupRows.err   (row_group.go)  set by a failed ReadRows, reported again until SeekToRow / Reset
//
// as plain data, so that the Lean mirrors of these fields (`Seek.St.lost`, `RowsState.St.err`) are
// compared with the source on every run:
//
//	stateWrites       (function, field, right-hand side, guards) for every assignment to the field in a
//	                  method of its type; guards = the texts of the enclosing `if` conditions, outermost
//	                  first, `!(…)` for an else branch
//	stateReads        (function, text) for every `if` condition and every assignment right-hand side
//	                  that mentions the field
//	columnRepositions (function, method, guards) for every call `<x>.reader.<method>(…)` in a method of
//	                  rowGroupRows: where the column readers are moved, read or closed

import (
	"go/ast"
	"sort"
	"strings"
)

func init() { Register("readerstate", readerState) }

func readerState(r *Repo, s *Section) error {
	type target struct{ file, typ, field string }
	targets := []target{{"file.go", "FilePages", "desync"}, {"row_group.go", "rowGroupRows", "err"}}
	var writes, reads, repos []string
	for _, t := range targets {
		f, err := r.File(t.file)
		if err != nil {
			return err
		}
		for _, d := range f.Decls {
			fn, ok := d.(*ast.FuncDecl)
			if !ok || fn.Body == nil || fn.Recv == nil || len(fn.Recv.List) != 1 || len(fn.Recv.List[0].Names) != 1 {
				continue
			}
			name := qualName(fn)
			if !strings.HasPrefix(name, t.typ+".") {
				continue
			}
			recv := fn.Recv.List[0].Names[0].Name
			isField := func(e ast.Expr) bool {
				sel, ok := e.(*ast.SelectorExpr)
				return ok && sel.Sel.Name == t.field && isIdent(sel.X, recv)
			}
			mentionsField := func(n ast.Node) bool {
				found := false
				ast.Inspect(n, func(m ast.Node) bool {
					if e, ok := m.(ast.Expr); ok && isField(e) {
						found = true
					}
					return !found
				})
				return found
			}
			var walk func(n ast.Node, guards []string)
			walk = func(n ast.Node, guards []string) {
				ast.Inspect(n, func(m ast.Node) bool {
					switch x := m.(type) {
					case *ast.IfStmt:
						if x.Init != nil {
							walk(x.Init, guards)
						}
						cond := r.Text(x.Cond)
						if mentionsField(x.Cond) {
							reads = append(reads, Tuple(Str(name), Str("if "+cond)))
						}
						walk(x.Cond, guards)
						walk(x.Body, append(guards[:len(guards):len(guards)], cond))
						if x.Else != nil {
							walk(x.Else, append(guards[:len(guards):len(guards)], "!("+cond+")"))
						}
						return false
					case *ast.AssignStmt:
						for i, l := range x.Lhs {
							if isField(l) {
								rhs := x.Rhs[0]
								if len(x.Rhs) == len(x.Lhs) {
									rhs = x.Rhs[i]
								}
								writes = append(writes, Tuple(Str(name), Str(recv+"."+t.field), Str(r.Text(rhs)), strList(guards)))
								s.Comment("%s:%d %s: %s", t.file, r.Line(x), name, r.Text(x))
							}
						}
						for _, rhs := range x.Rhs {
							if mentionsField(rhs) {
								reads = append(reads, Tuple(Str(name), Str(r.Text(x))))
							}
						}
					case *ast.ReturnStmt:
						for _, res := range x.Results {
							if mentionsField(res) {
								reads = append(reads, Tuple(Str(name), Str(r.Text(x))))
								break
							}
						}
					case *ast.CallExpr:
						if t.typ != "rowGroupRows" {
							break
						}
						if sel, ok := x.Fun.(*ast.SelectorExpr); ok {
							if inner, ok := sel.X.(*ast.SelectorExpr); ok && inner.Sel.Name == "reader" {
								repos = append(repos, Tuple(Str(name), Str(sel.Sel.Name), strList(guards)))
								s.Comment("%s:%d %s: %s", t.file, r.Line(x), name, r.Text(x.Fun))
							}
						}
					}
					return true
				})
			}
			walk(fn.Body, nil)
		}
	}
	sort.Strings(writes)
	sort.Strings(reads)
	sort.Strings(repos)
	s.Comment("(function, field, right-hand side, enclosing if conditions): every assignment to FilePages.desync / rowGroupRows.err")
	s.Def("stateWrites", "List (String × String × String × List String)", List(writes))
	s.Comment("(function, text): every condition / right-hand side / return that reads the field")
	s.Def("stateReads", "List (String × String)", List(reads))
	s.Comment("(function, method, enclosing if conditions): every call on a column reader (`….reader.<method>`) in rowGroupRows")
	s.Def("columnRepositions", "List (String × String × List String)", List(repos))
	return nil
}
