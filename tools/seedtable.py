#!/usr/bin/env python3
"""Regenerate the seeded-changes table of DESIGN.md section 10.7 from seeded/*/meta.json."""
import json, glob, os, re
ROOT = os.path.dirname(os.path.dirname(os.path.abspath(__file__)))
rows = []
for d in sorted(glob.glob(os.path.join(ROOT, "seeded", "*", ""))):
    m = json.load(open(d + "meta.json"))
    name = os.path.basename(d.rstrip("/"))
    runs = m.get("runs", [])
    own = [r for r in runs if r["check"] == m["property"]]
    other = [r for r in runs if r["check"] != m["property"] and r["detected"]]
    files = sorted({l[6:] for l in open(d + "patch.diff").read().splitlines() if l.startswith("+++ b/")})
    f1 = "caught" if own and own[0]["detected"] else "MISSED"
    f2 = "caught" if own and own[-1]["detected"] else "missed by own check"
    if m.get("neutralised_by") and not (own and own[-1]["detected"]):
        f2 = "no longer a breaking change (fix " + m["neutralised_by"]["commit"] + ")"
    if other:
        f2 += " (also " + ", ".join(sorted({r["check"] for r in other})) + ")"
    keys = "; ".join("`" + str(x) + "`" for x in (own[-1]["violation_keys"][:2] if own else []))
    rows.append(f"| {name} | {', '.join(files)} | {f1} | {f2} | {keys} |")
doc = open(os.path.join(ROOT, "DESIGN.md")).read()
head = "| seed | files touched | first run | now (quick) | failure keys now |\n|---|---|---|---|---|\n"
i = doc.index(head) + len(head)
j = i
while doc[j:j + 2] == "| ":
    j = doc.index("\n", j) + 1
doc = doc[:i] + "\n".join(rows) + "\n" + doc[j:]
open(os.path.join(ROOT, "DESIGN.md"), "w").write(doc)
print(len(rows), "seed rows;", sum("MISSED" in r for r in rows), "missed at first;", sum("missed by own" in r for r in rows), "still missed by own check")
