#!/bin/bash
# merge a finished lane: branch w-<name> into /verif main, its `verif hooks:` commits into /repo
n=$1
cd /verif
tools/integrate.sh w-$n | grep -v "nothing to commit\|On branch"
base=$(git -C /root/w/$n/repo merge-base HEAD $(git -C /repo rev-parse HEAD) 2>/dev/null)
git -C /repo fetch -q /root/w/$n/repo HEAD || exit 1
for c in $(git -C /repo log --reverse --format=%H HEAD..FETCH_HEAD); do
  s=$(git -C /repo log -1 --format=%s $c)
  if git -C /repo log --format=%s | grep -qxF "$s"; then continue; fi
  case "$s" in
    "verif hook"*) git -C /repo cherry-pick $c >/dev/null 2>&1 && echo "hook: $s" || { echo "HOOK CHERRY-PICK FAILED: $s"; git -C /repo cherry-pick --abort; };;
    *) echo "NOT TAKEN (not a hook commit): $c $s";;
  esac
done
