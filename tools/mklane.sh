#!/bin/bash
# create a private sandbox /root/w/<name>: verif = git worktree of /verif on branch w-<name> (with the
# built Lean and harness output copied so nothing is rebuilt from scratch), repo = local clone of /repo
n=$1
W=/root/w/$n
mkdir -p /root/w
[ -d $W ] && { echo "$W exists"; exit 1; }
mkdir -p $W
git -C /verif worktree add -q -B w-$n $W/verif HEAD || exit 1
cp -a /verif/lean/.lake $W/verif/lean/.lake
mkdir -p $W/verif/.build && cp -a /verif/.build/pqdriver* /verif/.build/factgen $W/verif/.build/ 2>/dev/null
git clone -q --local /repo $W/repo
echo "$n: $(git -C $W/verif log --oneline -1 | cut -c1-50) | repo $(git -C $W/repo log --oneline -1 | cut -c1-50)"
