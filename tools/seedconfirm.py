#!/usr/bin/env python3
"""Confirm a seeded breaking change delivered by a seeding agent and file it under /verif/seeded.

  tools/seedconfirm.py <ID> <variant letter>

In a scratch git worktree of /repo (removed afterwards): the demonstration passes on the unmodified
tree, the patch applies and builds, the demonstration fails with it, and the pinned suite still
passes (tools/baseline.py against the scratch tree). Writes seeded/<ID>-<k>/{patch.diff,demo*,notes.md,meta.json}."""
import glob, json, os, shutil, subprocess, sys
ROOT = os.path.dirname(os.path.dirname(os.path.abspath(__file__)))
pid, k = sys.argv[1], sys.argv[2]
base = os.environ.get("SEED_BASE", "/tmp/seed")
suffix = os.environ.get("SEED_SUFFIX", "")
src = f"{base}/{pid}/out"
patch = f"{src}/variant_{k}.diff"
demos = [p for p in glob.glob(f"{src}/variant_{k}_demo*") ]
if not os.path.exists(patch) or not demos:
    sys.exit("missing patch or demo")
wt = f"/tmp/confirm/{pid}{suffix}{k}"
env = dict(os.environ, GOFLAGS="-mod=mod", GOPROXY="off")
env.pop("GOTOOLCHAIN", None); env.pop("GOSUMDB", None)
def sh(cmd, cwd=None, timeout=1500):
    p = subprocess.run(cmd, cwd=cwd, env=env, shell=isinstance(cmd, str), capture_output=True, text=True, timeout=timeout)
    return p.returncode, (p.stdout + p.stderr)
os.makedirs("/tmp/confirm", exist_ok=True)
sh(["git", "-C", "/repo", "worktree", "remove", "--force", wt])
rc, o = sh(["git", "-C", "/repo", "worktree", "add", "--detach", wt, "HEAD"])
if rc != 0: sys.exit(o)
meta = {"property": pid, "variant": k, "source": "independent seeding sub-agent (given only the property text and a scratch worktree)", "confirmation": {}}
try:
    # the demo lives in its own directory so that ./... of the library is not polluted
    ddir = os.path.join(wt, "out")
    os.makedirs(ddir)
    runcmd = None
    for d in demos:
        if os.path.isdir(d):
            shutil.copytree(d, os.path.join(ddir, os.path.basename(d)))
            runcmd = f"go run ./out/{os.path.basename(d)}"
        else:
            name = os.path.basename(d)
            if name.endswith(".txt"): name = name[:-4]
            shutil.copy(d, os.path.join(ddir, name))
            runcmd = "go test -vet=off -count=1 ./out/"
    rc0, o0 = sh(runcmd, cwd=wt)
    meta["confirmation"]["demo_on_unmodified_tree"] = "pass" if rc0 == 0 else "FAIL: " + o0[-400:]
    rc, o = sh(["git", "apply", patch], cwd=wt)
    meta["confirmation"]["patch_applies"] = rc == 0
    if rc != 0: raise SystemExit("patch does not apply: " + o)
    rc, o = sh("go build ./... && go build -tags purego ./...", cwd=wt)
    meta["confirmation"]["builds"] = rc == 0
    rc1, o1 = sh(runcmd, cwd=wt)
    meta["confirmation"]["demo_with_change"] = "fails (as intended)" if rc1 != 0 else "PASSES (seed not effective)"
    meta["confirmation"]["demo_output_with_change"] = o1[-600:]
    shutil.rmtree(ddir)
    e2 = dict(env, VERIF_REPO=wt)
    # packages whose own files or transitive dependencies the patch touches (tests elsewhere cannot change)
    changed = set()
    for l in open(patch):
        if l.startswith("+++ b/") or l.startswith("--- a/"):
            changed.add(os.path.dirname(l[6:].strip()))
    mod = "github.com/parquet-go/parquet-go"
    chpk = {mod + ("/" + d if d else "") for d in changed}
    rcl, ol = sh("go list -test -deps -f '{{.ImportPath}} {{join .Deps \",\"}}' ./... 2>/dev/null", cwd=wt)
    aff = set()
    for l in ol.splitlines():
        parts = l.split(" ", 1)
        name = parts[0].split(" ")[0]
        deps = set(parts[1].split(",")) if len(parts) > 1 else set()
        base = name.split(" [")[0].replace(".test", "").replace("_test", "")
        if base.startswith(mod) and (base in chpk or deps & chpk):
            aff.add(base)
    if aff and os.environ.get("SEED_FULL_SUITE") != "1":
        e2["BASELINE_PKGS"] = " ".join(sorted(aff))
        meta["confirmation"]["suite_scope"] = "packages whose files or transitive dependencies the patch touches: " + " ".join(sorted(aff))
    p = subprocess.run([os.path.join(ROOT, "tools", "baseline.py")], env=e2, capture_output=True, text=True)
    meta["confirmation"]["pinned_suite_with_change"] = p.stdout.strip().splitlines()[0] if p.stdout else "?"
    if p.returncode != 0:
        # tests that depend on timing fail now and then on a loaded machine: one more run decides
        meta["confirmation"]["first_suite_run_not_passing"] = [l.strip() for l in p.stdout.splitlines() if "NOT PASSING" in l][:10]
        p = subprocess.run([os.path.join(ROOT, "tools", "baseline.py")], env=e2, capture_output=True, text=True)
        meta["confirmation"]["pinned_suite_with_change_second_run"] = p.stdout.strip().splitlines()[0] if p.stdout else "?"
    meta["confirmation"]["suite_ok"] = p.returncode == 0
    ok = rc0 == 0 and rc1 != 0 and p.returncode == 0 and meta["confirmation"]["builds"]
    meta["confirmed"] = ok
    meta["ran"] = [runcmd + "  (unmodified: pass)", "git apply patch.diff", "go build ./... ; go build -tags purego ./...", runcmd + "  (with change: fail)", "tools/baseline.py (pinned suite vs BASELINE.json)"]
finally:
    sh(["git", "-C", "/repo", "worktree", "remove", "--force", wt])
out = os.path.join(ROOT, "seeded", f"{pid}-{suffix}{k}")
os.makedirs(out, exist_ok=True)
shutil.copy(patch, os.path.join(out, "patch.diff"))
for d in demos:
    if os.path.isdir(d):
        shutil.copytree(d, os.path.join(out, os.path.basename(d)), dirs_exist_ok=True)
    else:
        # keep demos out of any Go build of /verif: store with a .txt suffix
        name = os.path.basename(d)
        if not name.endswith(".txt"): name += ".txt"
        shutil.copy(d, os.path.join(out, name))
notes = f"{src}/variant_{k}.md"
if os.path.exists(notes):
    shutil.copy(notes, os.path.join(out, "notes.md"))
    meta["needs_to_manifest"] = open(notes).read()[:1500]
json.dump(meta, open(os.path.join(out, "meta.json"), "w"), indent=1)
print(pid, k, "confirmed" if meta.get("confirmed") else "NOT confirmed", meta["confirmation"])
