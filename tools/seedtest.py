#!/usr/bin/env python3
"""Run the checks against one seeded breaking change and record the outcome.

  tools/seedtest.py <seed dir containing patch.diff + meta.json> [quick|thorough] [extra property ids...]

Applies patch.diff to /repo (git apply), runs ./check for the property the seed targets (and any
extra ids), restores /repo (git checkout -- . ; git clean of files the patch added), and appends
the outcome to the seed's meta.json under "runs"."""
import json, os, subprocess, sys, time
ROOT = os.path.dirname(os.path.dirname(os.path.abspath(__file__)))
REPO = os.environ.get("VERIF_REPO", "/repo")   # a lane (tools/mklane.sh) tests seeds against its own clone
seed = os.path.abspath(sys.argv[1])
tier = sys.argv[2] if len(sys.argv) > 2 and sys.argv[2] in ("quick", "thorough") else "quick"
extra = [a for a in sys.argv[2:] if a not in ("quick", "thorough")]
meta = json.load(open(os.path.join(seed, "meta.json")))
ids = [meta["property"]] + extra
patch = os.path.join(seed, "patch.diff")
st = subprocess.run(["git", "-C", REPO, "status", "--porcelain"], capture_output=True, text=True).stdout
if st.strip():
    sys.exit("refusing: " + REPO + " is not clean:\n" + st)
r = subprocess.run(["git", "-C", REPO, "apply", patch], capture_output=True, text=True)
if r.returncode != 0:
    sys.exit("patch does not apply: " + r.stderr)
runs = meta.setdefault("runs", [])
try:
    for pid in ids:
        t0 = time.time()
        p = subprocess.run([os.path.join(ROOT, "check"), pid, tier], cwd=ROOT, capture_output=True, text=True)
        lines = [l for l in p.stdout.splitlines() if l.startswith("VIOLATION") or l.startswith("KNOWN-FINDING") or l.startswith("[check] " + pid)]
        keys = []
        for l in lines:
            if l.startswith("VIOLATION") and "replay=" in l:
                rp = l.split("replay=")[1].split()[0]
                try:
                    keys.append(json.load(open(rp)).get("key") or json.load(open(rp)).get("kind"))
                except Exception:
                    pass
        runs.append({"check": pid, "tier": tier, "exit": p.returncode, "detected": p.returncode == 1,
                     "violation_keys": keys[:12], "no_failing_input_found": any("no-failing-input-found" in l for l in lines),
                     "summary": lines[-1] if lines else p.stdout[-300:], "wall_s": round(time.time() - t0, 1)})
        print(pid, tier, "exit", p.returncode, keys[:6])
finally:
    subprocess.run(["git", "-C", REPO, "checkout", "--", "."])
    subprocess.run(["git", "-C", REPO, "clean", "-fdq"])
json.dump(meta, open(os.path.join(seed, "meta.json"), "w"), indent=1)
