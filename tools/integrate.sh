#!/bin/bash
# merge a builder branch into main with the usual conflict policy
# (evidence: theirs; known_findings/MANIFEST/Generated facts: ours; Driver/Main.lean regenerated)
cd /verif || exit 1
b=$1
git add -A; git commit -q -m "work in progress before merging $1" 2>/dev/null
git merge --no-edit "$b" 2>&1 | grep -E "CONFLICT \(content\): Merge conflict in [^e]|CONFLICT \(add|error:" 
for f in $(git diff --name-only --diff-filter=U); do
  case $f in
    evidence/*) git checkout --theirs "$f" 2>/dev/null;;
    known_findings.json|MANIFEST.json|lean/PqModel/Generated/Facts.lean) git checkout --ours "$f";;
    props/*.json) tools/mergeprops.py "$f" && git add "$f";;
  esac
done
tools/gendriver.py >/dev/null
left=$(git diff --name-only --diff-filter=U | grep -v "Main.lean\|props/\|evidence/\|known_findings.json\|MANIFEST.json\|Generated/Facts.lean")
if [ -n "$left" ]; then echo "UNRESOLVED: $left"; fi
git add -A; git commit -q -m "merge $b" 2>/dev/null
if grep -rl "^<<<<<<< " --include=*.lean --include=*.go --include=*.json --include=*.md --include=*.py . 2>/dev/null | grep -v "\.lake\|\.build" | head -3 | grep -q .; then echo "CONFLICT MARKERS LEFT"; fi
