#!/usr/bin/env python3
"""Regenerate the table of DESIGN.md section 10.3 from /repo's `fix:` commits and the `fixed`
entries of known_findings.json (commit -> property, failure keys)."""
import json, re, subprocess, os
V = os.path.dirname(os.path.dirname(os.path.abspath(__file__)))
kf = json.load(open(f"{V}/known_findings.json"))["findings"]
by = {}
for f in kf:
    if f.get("status") == "fixed" and f.get("commit"):
        by.setdefault(f["commit"][:7], []).append(f)
log = subprocess.run(["git", "-C", "/repo", "log", "--reverse", "--format=%h %s"], capture_output=True, text=True).stdout
rows = []
for line in log.splitlines():
    h, s = line.split(" ", 1)
    if not s.startswith("fix:"):
        continue
    h = h[:7]
    es = by.get(h, [])
    props = sorted({e["property"] for e in es}) or ["—"]
    keys = []
    for e in es:
        k = e.get("key") or e.get("key_prefix") or e.get("key_regex") or ""
        if k and k not in keys:
            keys.append(k)
    keytxt = "; ".join(f"`{k}`" for k in keys) if keys else "(see commit message)"
    rows.append(f"| {h} | {s[4:].strip()} | {', '.join(props)} | {keytxt} |")
d = open(f"{V}/DESIGN.md").read()
head = "| commit | what was wrong | property | failure key(s) of the check that found it |\n|---|---|---|---|\n"
i = d.index(head) + len(head)
j = d.index("\n\n", i)
d = d[:i] + "\n".join(rows) + d[j:]
d = re.sub(r"[A-Z][a-z-]+ commits so far;", f"{len(rows)} commits so far;", d)
open(f"{V}/DESIGN.md", "w").write(d)
missing = [r.split(" | ")[0][2:] for r in rows if "(see commit message)" in r]
print(len(rows), "rows; without fixed entry:", missing)
