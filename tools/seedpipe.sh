#!/bin/bash
# round-6 pipeline for one delivered seed: confirm (scratch worktree, affected-package suite), then run
# the property's quick check against it in a lane.  usage: tools/seedpipe.sh <ID> <lane>
id=$1; lane=$2
export SEED_BASE=${SEED_BASE:-/tmp/seed6} SEED_SUFFIX=${SEED_SUFFIX:-6}
cd /verif
tools/seedconfirm.py $id a > $SEED_BASE/$id.confirm.log 2>&1
tail -1 $SEED_BASE/$id.confirm.log | cut -c1-300
VERIF_REPO=/root/w/$lane/repo /root/w/$lane/verif/tools/seedtest.py /verif/seeded/$id-${SEED_SUFFIX}a quick 2>&1 | tail -2
