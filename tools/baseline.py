#!/usr/bin/env python3
"""Run /repo's pinned test suite with the verif guard OFF and compare with /root/.vp/BASELINE.json.
Usage: tools/baseline.py [extra go test args]; exit 0 iff every stable_pass test passes."""
import json, os, subprocess, sys
env = dict(os.environ); env["GOFLAGS"] = "-mod=mod"; env["GOPROXY"] = "off"
env.pop("GOTOOLCHAIN", None); env.pop("GOSUMDB", None)
repo = os.environ.get("VERIF_REPO", "/repo")
# BASELINE_PKGS (import paths, space separated): run only these packages and compare only their tests.
# Used by tools/seedconfirm.py with the set of packages whose transitive dependencies a patch touches:
# the outcome of a test in any other package cannot depend on the patch.
pkgs = os.environ.get("BASELINE_PKGS", "").split()
p = subprocess.run(["go", "test", "-json", "-vet=off", "-count=1", "-timeout", "25m"] + sys.argv[1:] + (pkgs or ["./..."]),
                   cwd=repo, env=env, stdout=subprocess.PIPE, stderr=subprocess.DEVNULL, text=True)
status = {}
for line in p.stdout.splitlines():
    try:
        e = json.loads(line)
    except Exception:
        continue
    if e.get("Test") and e.get("Action") in ("pass", "fail", "skip"):
        status[e["Package"] + "::" + e["Test"]] = e["Action"]
base = json.load(open("/root/.vp/BASELINE.json"))["stable_pass"]
if pkgs:
    base = [t for t in base if t.split("::")[0] in pkgs]
bad = [t for t in base if status.get(t) != "pass"]
print(f"baseline: {len(base)} stable tests, {len(base) - len(bad)} pass now, {len(bad)} not passing; "
      f"{sum(1 for v in status.values() if v == 'fail')} failing tests overall")
for t in bad[:40]:
    print("  NOT PASSING:", t, status.get(t))
sys.exit(1 if bad else 0)
