#!/usr/bin/env python3
"""Regenerate /verif/MANIFEST.json from props.json (claimed checks) and properties.jsonl."""
import json, os, subprocess
ROOT = os.path.dirname(os.path.dirname(os.path.abspath(__file__)))
props = {}
for fn in sorted(os.listdir(os.path.join(ROOT, "props"))):
    if fn.endswith(".json"):
        c = json.load(open(os.path.join(ROOT, "props", fn)))
        props[c["id"]] = c
all_ids = [json.loads(l)["id"] for l in open(os.path.join(ROOT, "properties.jsonl"))]
pending = json.load(open(os.path.join(ROOT, "tools", "pending.json"))) if os.path.exists(os.path.join(ROOT, "tools", "pending.json")) else {}
hook_commits = []
try:
    out = subprocess.run(["git", "-C", "/repo", "log", "--format=%H %s"], capture_output=True, text=True).stdout
    hook_commits = [l.split()[0] for l in out.splitlines() if " verif hooks:" in l or " verif hook:" in l]
except Exception:
    pass
checks = []
for pid in all_ids:
    if pid not in props:
        continue
    c = props[pid]
    checks.append({
        "property_id": pid,
        "quick_cmd": f"./check {pid} quick",
        "thorough_cmd": f"./check {pid} thorough",
        "evidence_file": f"evidence/{pid}.json",
        "replay_cmd_template": f"./check {pid} --replay {{path}}",
        "engine": "lean-proof+correspondence",
        "level_claimed": {"category": c.get("level", "proof"), "text": c["level_text"], "design_ref": c.get("design_ref", "DESIGN.md section 3 " + pid)},
        "level_note": c["level_note"],
        "technique": c["technique"],
    })
m = {
    "version": 1,
    "setup_cmd": "./check --setup",
    "hooks": {
        "guard": "verif",
        "enable": "go build -tags verif (harness module /verif/harness, replace github.com/parquet-go/parquet-go => /repo); the purego variant adds -tags 'verif purego'",
        "baseline_off_cmd": "cd /repo && GOFLAGS=-mod=mod go test -json -vet=off -count=1 -timeout 25m ./...",
        "source_commits": hook_commits,
        "add_only": True,
    },
    "engines": [{
        "name": "lean-proof+correspondence",
        "path": "check",
        "serves_properties": [c["property_id"] for c in checks],
        "kind_free_text": "Lean 4 theorems about hand-written executable models (lean/PqModel), audited by #print axioms; Go correspondence harness (harness/) built against /repo with -tags verif drives the real library and the compiled Lean model (pqdriver) on the same inputs: L1 = the property's own oracle on the real code, L2 = real code vs Lean mirror; factgen regenerates source facts for FactsCheck theorems",
    }],
    "checks": checks,
    "notes": "See DESIGN.md. known_findings.json lists recorded findings and fixed defects.",
    "not_applicable": [{"property_id": pid, "reason": pending.get(pid, "check not built yet in this session; see DESIGN.md section 3 for the planned Lean model and theorems")} for pid in all_ids if pid not in props],
}
with open(os.path.join(ROOT, "MANIFEST.json"), "w") as f:
    json.dump(m, f, indent=1)
    f.write("\n")
print("MANIFEST.json:", len(checks), "checks,", len(m["not_applicable"]), "not claimed")
