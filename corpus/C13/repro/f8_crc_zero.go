//go:build ignore

// F8: a page whose CRC-32 is exactly 0 is written without a CRC field (thrift `optional` i32 zero is
// omitted) and is never verified (`if header.CRC != 0`). The last value is solved for so that the
// PLAIN body has CRC 0; a flipped bit is then returned as data.
package main

import (
	"bytes"
	"encoding/binary"
	"fmt"
	"hash/crc32"

	"github.com/parquet-go/parquet-go"
)

type Row struct {
	V int32 `parquet:"v,plain"`
}

// forge returns the 4 bytes x with crc32.ChecksumIEEE(prefix ‖ x) == target
func forge(prefix []byte, target uint32) [4]byte {
	tab := crc32.IEEETable
	var rev [256]byte
	for i := 0; i < 256; i++ {
		rev[tab[i]>>24] = byte(i)
	}
	s, t := ^crc32.ChecksumIEEE(prefix), ^target
	for i := 0; i < 4; i++ {
		idx := rev[t>>24]
		t = (t^tab[idx])<<8 | uint32(idx)
	}
	var out [4]byte
	binary.LittleEndian.PutUint32(out[:], t^s)
	return out
}

func main() {
	vals := []int32{7, -3, 1 << 30, 42, 0}
	var pre []byte
	for _, v := range vals[:4] {
		pre = binary.LittleEndian.AppendUint32(pre, uint32(v))
	}
	x := forge(pre, 0)
	vals[4] = int32(binary.LittleEndian.Uint32(x[:])) // -2081027679
	buf := new(bytes.Buffer)
	w := parquet.NewGenericWriter[Row](buf)
	for _, v := range vals {
		w.Write([]Row{{v}})
	}
	w.Close()
	data := buf.Bytes()
	body := append(pre, x[:]...)
	fmt.Println("values", vals, "crc32(body) =", crc32.ChecksumIEEE(body))
	i := bytes.Index(data, body)
	bad := bytes.Clone(data)
	bad[i+1] ^= 0x10 // 7 -> 4103
	out := make([]Row, 10)
	n, err := parquet.NewGenericReader[Row](bytes.NewReader(bad)).Read(out)
	fmt.Println("read of the altered file:", out[:n], err) // [{4103} {-3} ...] EOF  — no corruption error
}
