//go:build ignore

// F4: a flipped bit in a DICTIONARY page body is reported by a sequential read but returned as data
// (no error) after SeekToRow, and by FilePages.ReadDictionary(). Run inside a module that requires
// github.com/parquet-go/parquet-go:  go run f4_dict_page_after_seek.go
package main

import (
	"bytes"
	"fmt"

	"github.com/parquet-go/parquet-go"
)

type Row struct {
	ID   int64  `parquet:"id,plain"`
	Name string `parquet:"name,dict"`
}

func main() {
	buf := new(bytes.Buffer)
	w := parquet.NewGenericWriter[Row](buf, parquet.PageBufferSize(1)) // every Write call = one page
	names := []string{"alpha", "beta", "gamma", "delta"}
	for b := 0; b < 5; b++ {
		rows := make([]Row, 20)
		for i := range rows {
			rows[i] = Row{int64(b*20 + i), names[(b*20+i)%4]}
		}
		w.Write(rows)
	}
	w.Close()
	data := buf.Bytes()
	f, _ := parquet.OpenFile(bytes.NewReader(data), int64(len(data)))
	// the dictionary page body of column "name" is the PLAIN byte-array list; find "alpha" in it
	off := f.Metadata().RowGroups[0].Columns[1].MetaData.DictionaryPageOffset
	i := bytes.Index(data[off:], []byte("alpha"))
	bad := bytes.Clone(data)
	bad[off+int64(i)+1] ^= 0x02 // "alpha" -> "anpha"

	f, _ = parquet.OpenFile(bytes.NewReader(bad), int64(len(bad)))
	out := make([]parquet.Row, 100)
	rows := f.RowGroups()[0].Rows()
	_, err := rows.ReadRows(out)
	fmt.Println("sequential read:        ", err) // crc32 checksum mismatch ... corrupted parquet page
	rows.Close()

	rows = f.RowGroups()[0].Rows()
	rows.SeekToRow(55)
	n, err := rows.ReadRows(out[:3])
	fmt.Println("after SeekToRow(55):    ", out[:n], err) // [[55 delta] [56 anpha] [57 beta]] <nil>
	rows.Close()

	pages := f.RowGroups()[0].ColumnChunks()[1].Pages()
	d, err := pages.(*parquet.FilePages).ReadDictionary()
	fmt.Println("ReadDictionary():       ", d.Index(0), err) // anpha <nil>
	pages.Close()
}
