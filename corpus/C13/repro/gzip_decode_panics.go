//go:build ignore

// compress.Decompressor.Decode (compress/compress.go:98-116) panics on input the codec's reader
// rejects at construction/Reset ("panic(err) // Will be caught below" — nothing recovers it). Reached
// from a corrupted page body wherever the CRC is not compared first (F4, F8); in ReadModeAsync the
// panic is in a goroutine of the library and takes the process down.
package main

import (
	"fmt"

	"github.com/parquet-go/parquet-go"
)

func main() {
	defer func() { fmt.Println("recovered:", recover()) }() // recovered: gzip: invalid header
	out, err := (&parquet.Gzip).Decode(nil, []byte{0x1e, 0x8b, 8, 0, 0, 0, 0, 0, 0, 0xff})
	fmt.Println(out, err)
}
