//go:build ignore

// Standalone reproduction of the C18 findings (repaired by the three `fix:` commits on writer.go:
// Reset re-initialises the encryption state, plaintext-footer redaction on the footer copy,
// BeginRowGroup row groups are encrypted); kept as a regression program. Run from a module that
// requires github.com/parquet-go/parquet-go (for instance inside the repository):
//
//	GOFLAGS=-mod=mod GOPROXY=off go run repro_encryption_writer_defects.go
//
// Expected on a correct library: every "read" line reports the rows written, "marker in clear"
// is false, file identifiers differ, and the metadata of row group 1 equals that of row group 0.
package main

import (
	"bytes"
	"fmt"

	"github.com/parquet-go/parquet-go"
)

type Row struct {
	Name  string `parquet:"name,snappy"`
	Value int64  `parquet:"value"`
}

type keys struct{ footer, name []byte }

func (k keys) FooterKey([]byte) ([]byte, error) { return k.footer, nil }
func (k keys) ColumnKey(path []string, _ []byte) ([]byte, error) {
	if len(path) == 1 && path[0] == "name" {
		return k.name, nil
	}
	return nil, parquet.ErrKeyNotFound
}

func rows(tag string) []Row {
	r := make([]Row, 20)
	for i := range r {
		r[i] = Row{Name: fmt.Sprintf("%s-MARKERMARKER-%02d", tag, i), Value: int64(i)}
	}
	return r
}

func read(what string, data []byte, k keys) *parquet.File {
	f, err := parquet.OpenFile(bytes.NewReader(data), int64(len(data)), parquet.WithDecryption(k))
	if err != nil {
		fmt.Printf("%-34s open: %v\n", what, err)
		return nil
	}
	out := make([]Row, 100)
	n, err := parquet.NewGenericReader[Row](f).Read(out)
	fmt.Printf("%-34s read: %d rows, err=%v\n", what, n, err)
	return f
}

func main() {
	k := keys{footer: bytes.Repeat([]byte{1}, 16), name: bytes.Repeat([]byte{2}, 16)}
	for _, encFooter := range []bool{true, false} {
		fmt.Printf("---- EncryptedFooter=%v\n", encFooter)
		cfg := &parquet.EncryptionConfig{FooterKey: k.footer, ColumnKeys: map[string][]byte{"name": k.name}, EncryptedFooter: encFooter}

		// (1) Writer.Reset: the second file cannot be read (stale row-group ordinal in the page AADs,
		//     column paths cleared by reset so that "name" is declared footer-key but sealed with its
		//     column key), and it reuses the AAD file identifier of the first file.
		var f1, f2 bytes.Buffer
		w := parquet.NewGenericWriter[Row](&f1, parquet.WithEncryption(cfg))
		w.Write(rows("first"))
		fmt.Println("close first:", w.Close())
		w.Reset(&f2)
		w.Write(rows("second"))
		fmt.Println("close second (after Reset):", w.Close())
		read("first file", f1.Bytes(), k)
		read("second file (writer reused)", f2.Bytes(), k)

		// (2) BeginRowGroup: pages are written in clear although the footer declares the columns encrypted.
		var f3 bytes.Buffer
		w3 := parquet.NewGenericWriter[Row](&f3, parquet.WithEncryption(cfg))
		rg := w3.BeginRowGroup()
		schema := parquet.SchemaOf(Row{})
		var prs []parquet.Row
		for _, r := range rows("third") {
			prs = append(prs, schema.Deconstruct(nil, &r))
		}
		rg.WriteRows(prs)
		_, err := rg.Commit()
		fmt.Println("commit:", err, "close:", w3.Close())
		read("BeginRowGroup file", f3.Bytes(), k)
		fmt.Println("marker of encrypted column in clear:", bytes.Contains(f3.Bytes(), []byte("MARKERMARKER")))

		// (3) plaintext footer: the sealed column metadata of every row group after the first says
		//     BOOLEAN / UNCOMPRESSED / no encodings / no path (the column writer's metadata is zeroed
		//     in place after the first row group).
		var f4 bytes.Buffer
		w4 := parquet.NewGenericWriter[Row](&f4, parquet.WithEncryption(cfg), parquet.MaxRowsPerRowGroup(10))
		w4.Write(rows("fourth"))
		w4.Close()
		if f := read("two row groups", f4.Bytes(), k); f != nil {
			for i, g := range f.Metadata().RowGroups {
				m := g.Columns[0].MetaData
				fmt.Printf("   row group %d column 0: type=%v codec=%v encodings=%v path=%q\n", i, m.Type, m.Codec, m.Encoding, m.PathInSchema)
			}
		}
	}
}
