// Standalone reproductions of the C05/C06 findings (public API only) on the library BEFORE the fix commits
// 'truncated column index max…', 'float column indexes claim no boundary order…', 'chunk statistics replace a
// NaN bound…', 'AVX-512 min/max of 16-byte values…', 'AVX-512 orderOf kernels…', 'fixed-length column indexes…'.
// On the repaired tree every line prints the correct result.
//
//	cd <scratch module with `replace github.com/parquet-go/parquet-go => <repo>`>
//	GOFLAGS=-mod=mod GOPROXY=off go run ./main.go            # assembly build
//	GOFLAGS=-mod=mod GOPROXY=off go run -tags purego ./main.go
package main

import (
	"bytes"
	"fmt"
	"math"

	"github.com/parquet-go/parquet-go"
)

func try(name string, f func()) {
	defer func() {
		if r := recover(); r != nil {
			fmt.Printf("%-28s PANIC: %v\n", name, r)
		}
	}()
	f()
}

func open[T any](opts []parquet.WriterOption, pages ...[]T) (*parquet.File, parquet.ColumnChunk, parquet.ColumnIndex) {
	var buf bytes.Buffer
	w := parquet.NewGenericWriter[T](&buf, append(opts, parquet.PageBufferSize(1))...) // one page per Write
	for _, p := range pages {
		w.Write(p)
	}
	w.Close()
	f, err := parquet.OpenFile(bytes.NewReader(buf.Bytes()), int64(buf.Len()))
	if err != nil {
		panic(err)
	}
	cc := f.RowGroups()[0].ColumnChunks()[0]
	ci, _ := cc.ColumnIndex()
	return f, cc, ci
}

func main() {
	// truncmax-all-ff-prefix (F2): recorded max FFFFFFFF < value FFFFFFFFFFFF, Search misses it
	try("truncmax-all-ff-prefix", func() {
		type R struct {
			A string `parquet:"a"`
		}
		v := "\xff\xff\xff\xff\xff\xff"
		_, cc, ci := open([]parquet.WriterOption{parquet.ColumnIndexSizeLimit(func([]string) int { return 4 })}, []R{{v}})
		fmt.Printf("%-28s max=%x value=%x Search=%d NumPages=%d\n", "truncmax-all-ff-prefix", ci.MaxValue(0).ByteArray(), v,
			parquet.Search(ci, parquet.ByteArrayValue([]byte(v)), cc.Type()), ci.NumPages())
	})
	// flba-null-page-index-short (F6): min_values shorter than null_pages, MinValue(2) panics
	try("flba-null-page-index-short", func() {
		type R struct {
			A *[5]byte `parquet:"a,optional"`
		}
		f, _, ci := open(nil, []R{{&[5]byte{1}}}, []R{{nil}}, []R{{&[5]byte{2}}})
		raw := f.ColumnIndexes()[0]
		fmt.Printf("%-28s null_pages=%d min_values=%d\n", "flba-null-page-index-short", len(raw.NullPages), len(raw.MinValues))
		ci.MinValue(2)
	})
	// boundary-order-false-nan-page: pages (5,7) / all-NaN / (1,3) claimed ASCENDING, Search(2) misses
	try("boundary-order-false-nan-page", func() {
		type R struct {
			A float32 `parquet:"a"`
		}
		nan := float32(math.NaN())
		_, cc, ci := open(nil, []R{{5}, {7}}, []R{{nan}, {nan}}, []R{{1}, {3}})
		fmt.Printf("%-28s ascending=%v Search(2)=%d NumPages=%d (2 is in page 2)\n", "boundary-order-false-nan-page", ci.IsAscending(),
			parquet.Search(ci, parquet.FloatValue(2), cc.Type()), ci.NumPages())
	})
	// chunk-stats-nan-sticky: first page all-NaN, chunk min/max stay NaN
	try("chunk-stats-nan-sticky", func() {
		type R struct {
			A float32 `parquet:"a"`
		}
		nan := float32(math.NaN())
		f, _, _ := open(nil, []R{{nan}}, []R{{1}, {3}})
		st := f.Metadata().RowGroups[0].Columns[0].MetaData.Statistics
		fmt.Printf("%-28s chunk min=%x max=%x (values 1 and 3 present)\n", "chunk-stats-nan-sticky", st.MinValue, st.MaxValue)
	})
	// be128-minmax-ignores-byte-9 (assembly build): 16 values that differ only at byte 9
	try("be128-minmax-ignores-byte-9", func() {
		type R struct {
			A [16]byte `parquet:"a,uuid"`
		}
		page := make([]R, 16)
		for i := 1; i < 16; i++ {
			page[i].A[9] = 1
		}
		_, _, ci := open(nil, page)
		fmt.Printf("%-28s max=%x (fifteen values are 00..0001000000000000)\n", "be128-minmax-ignores-byte-9", ci.MaxValue(0).ByteArray())
	})
	// orderof-kernel-reads-past-end (assembly build, AVX-512): 56 ascending int64 pages
	try("orderof-kernel-reads-past-end", func() {
		ix := parquet.Int64Type.NewColumnIndexer(16)
		for i := 0; i < 56; i++ {
			v := parquet.Int64Value(int64(i / 55)) // 55 zeros then 1
			ix.IndexPage(1, 0, v, v)
		}
		fmt.Printf("%-28s 56 ascending pages: boundary_order=%v\n", "orderof-kernel-reads-past-end", ix.ColumnIndex().BoundaryOrder)
	})
	// skip-page-bounds-zero-index: SkipPageBounds writes a column index with min = max = zero value
	try("skip-page-bounds-zero-index", func() {
		type R struct {
			A int32 `parquet:"a"`
		}
		_, cc, ci := open([]parquet.WriterOption{parquet.SkipPageBounds("a")}, []R{{5}, {7}}, []R{{-3}})
		if ci == nil {
			fmt.Printf("%-28s no column index (repaired)\n", "skip-page-bounds-zero-index")
			return
		}
		fmt.Printf("%-28s min=%v max=%v null_page=%v Search(5)=%d NumPages=%d (5 is in page 0)\n", "skip-page-bounds-zero-index",
			ci.MinValue(0), ci.MaxValue(0), ci.NullPage(0), parquet.Search(ci, parquet.Int32Value(5), cc.Type()), ci.NumPages())
	})
	// unencoded-byte-array-bytes-dict: dictionary-encoded string column counts 0 unencoded bytes
	try("unencoded-byte-array-bytes-dict", func() {
		type R struct {
			D string `parquet:"d,dict"`
		}
		f, _, _ := open(nil, []R{{"abc"}, {"abc"}, {"de"}})
		fmt.Printf("%-28s unencoded_byte_array_data_bytes=%d (the values have 8 bytes)\n", "unencoded-byte-array-bytes-dict",
			f.Metadata().RowGroups[0].Columns[0].MetaData.SizeStatistics.UnencodedByteArrayDataBytes)
	})
	// orderof-float-nan-differs-from-portable: 17 float pages, second one all-NaN
	try("orderof-float-nan", func() {
		ix := parquet.FloatType.NewColumnIndexer(16)
		for i := 0; i < 17; i++ {
			v := parquet.FloatValue(1)
			if i == 0 {
				v = parquet.FloatValue(5)
			}
			if i == 1 {
				v = parquet.FloatValue(float32(math.NaN()))
			}
			ix.IndexPage(1, 0, v, v)
		}
		fmt.Printf("%-28s pages 5,NaN,1,1,...: boundary_order=%v (portable code: ASCENDING)\n", "orderof-float-nan", ix.ColumnIndex().BoundaryOrder)
	})
}
