/-! Line-protocol helpers for pqdriver: decimal ints, comma lists ("-" = empty), hex bytes. -/
namespace Driver

def parseNat? (s : String) : Option Nat := s.toNat?

def parseInt? (s : String) : Option Int := s.toInt?

def splitList (s : String) : List String :=
  if s == "-" then [] else s.splitOn ","

def parseList? {α} (p : String → Option α) (s : String) : Option (List α) :=
  (splitList s).mapM p

def hexVal? (c : Char) : Option Nat :=
  if '0' ≤ c ∧ c ≤ '9' then some (c.toNat - '0'.toNat)
  else if 'a' ≤ c ∧ c ≤ 'f' then some (c.toNat - 'a'.toNat + 10)
  else if 'A' ≤ c ∧ c ≤ 'F' then some (c.toNat - 'A'.toNat + 10)
  else none

def parseHexAux : List Char → List UInt8 → Option (List UInt8)
  | [], acc => some acc.reverse
  | [_], _ => none
  | a :: b :: rest, acc =>
    match hexVal? a, hexVal? b with
    | some x, some y => parseHexAux rest (UInt8.ofNat (x * 16 + y) :: acc)
    | _, _ => none

/-- "-" is the empty byte string -/
def parseHex? (s : String) : Option (List UInt8) :=
  if s == "-" then some [] else parseHexAux s.toList []

def hexDigit (n : Nat) : Char :=
  if n < 10 then Char.ofNat ('0'.toNat + n) else Char.ofNat ('a'.toNat + n - 10)

def toHex (bs : List UInt8) : String :=
  if bs.isEmpty then "-" else
  String.ofList (bs.foldr (fun b acc => hexDigit (b.toNat / 16) :: hexDigit (b.toNat % 16) :: acc) [])

def showList {α} (f : α → String) (xs : List α) : String :=
  if xs.isEmpty then "-" else ",".intercalate (xs.map f)

/-- optional int: "n" = none -/
def parseOptInt? (s : String) : Option (Option Int) :=
  if s == "n" then some none else (s.toInt?).map some

end Driver
