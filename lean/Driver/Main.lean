import Driver.Proto
import PqModel.Search

open Driver

namespace Driver

/-- one request line -> one response line; never defaults an unparsable request -/
def handle (toks : List String) : String :=
  match toks with
  | ["ping"] => "ok pong"
  -- find <asc 0/1> <zero-rank> <mins> <maxs> <v>   (bounds: int or n)
  | ["find", asc, z, mins, maxs, v] =>
    match parseList? parseOptInt? mins, parseList? parseOptInt? maxs, parseInt? v, parseInt? z with
    | some mn, some mx, some v, some z =>
      let ix : PqModel.Search.Index := { mins := mn, maxs := mx }
      if mn.length ≠ mx.length then "bad-op" else
      s!"ok {PqModel.Search.find (asc == "1") ix v} {PqModel.Search.writerOrder z ix}"
    | _, _, _, _ => "bad-op"
  | _ => "bad-op"

partial def loop (hin hout : IO.FS.Stream) : IO Unit := do
  let line ← hin.getLine
  if line.isEmpty then return ()
  let toks := (line.trimAscii.toString.splitOn " ").filter (· ≠ "")
  hout.putStrLn (handle toks)
  hout.flush
  loop hin hout

end Driver

def main : IO Unit := do
  Driver.loop (← IO.getStdin) (← IO.getStdout)
