import Driver.Proto
import Driver.Ops.C06
import Driver.Ops.C03
import Driver.Ops.C17

/-! pqdriver: one request per line on stdin, one answer per line on stdout.
    Each property registers its ops in `Driver/Ops/<id>.lean` as
    `handle : List String → Option String` (`none` = not my op). -/
namespace Driver

def handlers : List (List String → Option String) := [
  Ops.C06.handle,
  Ops.C03.handle,
  Ops.C17.handle
]

/-- never defaults an unparsable request -/
def dispatch (toks : List String) : String :=
  match toks with
  | ["ping"] => "ok pong"
  | _ => (handlers.findSome? (· toks)).getD "bad-op"

partial def loop (hin hout : IO.FS.Stream) : IO Unit := do
  let line ← hin.getLine
  if line.isEmpty then return ()
  let toks := (line.trimAscii.toString.splitOn " ").filter (· ≠ "")
  hout.putStrLn (dispatch toks)
  hout.flush
  loop hin hout

end Driver

def main : IO Unit := do
  Driver.loop (← IO.getStdin) (← IO.getStdout)
