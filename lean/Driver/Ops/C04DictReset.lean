import Driver.Proto
import PqModel.DictReset
import Driver.Ops.C04Plain

/-! Ops of C04 part "plain", round 4 (dictionary sessions: Insert / Reset on one dictionary object).

  dict.session <family> <chunk> <init> <ops>
      <family> = probe (hashprobe dictionaries, batches cut into chunks of <chunk> values)
               | flba  (fixed-len byte array / int96: Go map numbered by page position)
               | bytes (byte array: Go map numbered by its size)
               | bool  (boolean, tokens 0/1; <init> must be -)
               | spec  (SPEC session, identity ensure) | specbool
      <init>   = the page the dictionary is created over (tokens compared as text; - = empty)
      <ops>    = calls separated by `;`: `r` = Reset, `i=<values>` = Insert of the batch (- = empty)
      answer:  `ok <per call, separated by ;> <final page>` where an Insert answers its indexes and a
               Reset answers `r=<the page just before it>`
-/
namespace Driver.Ops.C04DictReset
open Driver PqModel.Plain PqModel.DictReset Driver.Ops.C04Plain

/-- cut a batch into chunks of `c` values (fuel = length) -/
def chunksOf (c : Nat) : Nat → List String → List (List String)
  | 0, _ => []
  | fuel + 1, xs => if xs.isEmpty then [] else xs.take c :: chunksOf c fuel (xs.drop c)

def parseOps (chunk : Nat) (s : String) : Option (List (Op String)) :=
  (s.splitOn ";").mapM fun t =>
    if t == "r" then some Op.reset
    else if t.startsWith "i=" then
      let xs := splitList (t.drop 2).toString
      some (Op.insert (if chunk == 0 then [xs] else chunksOf chunk xs.length xs))
    else none

/-- run call by call, answering per call -/
def trace {σ : Type} (m : Machine σ String) (s : σ) : List (Op String) → List String × σ
  | [] => ([], s)
  | op :: ops =>
    let r := m.step s op
    let here := match op with
      | .insert _ => showNats r.2
      | .reset => "r=" ++ showList id (m.values s)
    let rest := trace m r.1 ops
    (here :: rest.1, rest.2)

def answer {σ : Type} (m : Machine σ String) (s : σ) (ops : List (Op String)) : String :=
  let r := trace m s ops
  s!"ok {";".intercalate r.1} {showList id (m.values r.2)}"

def specMachine (ensure : List String → List String) : Machine (List String) String :=
  { insert := fun d cs => insertAll (ensure d) cs.flatten, reset := fun _ => [], values := id }

def boolTok (b : Bool) : String := if b then "1" else "0"

/-- the boolean machines over tokens -/
def boolMachineTok : Machine BoolDict String :=
  { insert := fun g cs => boolInsert g (cs.map (·.map (· == "1"))),
    reset := boolReset,
    values := fun g => g.values.map boolTok }

def ensureBoolToks (d : List String) : List String :=
  (ensureBools (d.map (· == "1"))).map boolTok

def handle (toks : List String) : Option String :=
  match toks with
  | ["dict.session", fam, chunk, init, ops] => some <|
    match parseNat? chunk with
    | none => "bad-op"
    | some c =>
      match parseOps (if fam == "probe" then c else 0) ops with
      | none => "bad-op"
      | some ops =>
        let page := splitList init
        if fam == "probe" then answer probeMachine (probeNew page) ops
        else if fam == "flba" then answer (mapMachine false) (mapNew page) ops
        else if fam == "bytes" then answer (mapMachine true) (mapNew page) ops
        else if fam == "spec" then answer (specMachine id) page ops
        else if fam == "bool" then (if page.isEmpty then answer boolMachineTok boolNew ops else "bad-op")
        else if fam == "specbool" then answer (specMachine ensureBoolToks) page ops
        else "bad-op"
  | _ => none

end Driver.Ops.C04DictReset
