import Driver.Proto
import Driver.Ops.C13
import PqModel.C13Levels

namespace Driver.Ops.C13Levels
open Driver PqModel.Crc PqModel.PageLoad PqModel.C13Levels

/-- * `c13.wcrc <rep hex> <def hex> <page hex>` (`-` = empty) ->
      `ok size=<n> crc=<hex8> spec=<hex8>`: `CompressedPageSize` and `CRC` of the header the mirror of
      the column writer stores for these three buffers (`writerHeader wcurrent`), and the spec CRC of
      the stored body -/
def handle (toks : List String) : Option String :=
  match toks with
  | ["c13.wcrc", r, d, p] => some <|
    match parseHex? r, parseHex? d, parseHex? p with
    | some r, some d, some p =>
      let b : Buffers := { repetitions := r, definitions := d, page := p }
      let h := writerHeader wcurrent .dataV2 b
      s!"ok size={h.compressedSize} crc={C13.hex32 h.crc} spec={C13.hex32 (specCrc b)}"
    | _, _, _ => "bad-op"
  | _ => none

end Driver.Ops.C13Levels
