import Driver.Proto
import PqModel.PageSlice
import PqModel.PageValues
import PqModel.PageSliceBool
import PqModel.PageSliceBytes

namespace Driver.Ops.C08PageSlice
open Driver PqModel.PageSlice

def showNats (xs : List Nat) : String := showList toString xs

def showTriple (t : Triple) : String :=
  s!"{t.1}.{t.2.1}." ++ (match t.2.2 with | some v => toString v | none => "n")

/-- one `ReadValues` call after the other with the given buffer sizes, going on after `io.EOF`;
    one token `<n>:<eof 0/1>:<triples joined by |>` per call -/
def runCalls (md : Nat) : List Nat → RV → List Nat → List String → List String
  | [], _, _, acc => acc.reverse
  | sz :: szs, st, caps, acc =>
    match readValues md sz st caps with
    | none => ("fuel" :: acc).reverse
    | some (out, st', caps', eof) =>
      let tok := s!"{out.length}:{if eof then 1 else 0}:" ++ (if out.isEmpty then "-" else "|".intercalate (out.map showTriple))
      runCalls md szs st' caps' (tok :: acc)

def parsePg? (kind rep dfn base : String) : Option (Bool × Pg) :=
  match parseList? parseNat? rep, parseList? parseNat? dfn, parseList? parseNat? base with
  | some rep, some dfn, some base =>
    if kind == "o" then (if rep.isEmpty then some (true, ⟨[], dfn, base⟩) else none)
    else if kind == "r" then (if rep.length = dfn.length then some (false, ⟨rep, dfn, base⟩) else none)
    else none
  | _, _, _ => none

def handle (toks : List String) : Option String :=
  match toks with
  -- `pslice.run <o|r> <maxDef> <rep|-> <def> <base values> <i> <j>` -> `ok <rep'> <def'> <base'>`:
  -- the mirror of optionalPage.Slice / repeatedPage.Slice with the base page
  | ["pslice.run", kind, md, rep, dfn, base, i, j] => some <|
    match parseNat? md, parsePg? kind rep dfn base, parseNat? i, parseNat? j with
    | some md, some (opt, p), some i, some j =>
      let q := if opt then sliceOptionalPg md p i j else sliceRepeatedPg md p i j
      s!"ok {showNats q.rep} {showNats q.dfn} {showNats q.base}"
    | _, _, _, _ => "bad-op"
  -- `pvalues.run <o|r> <maxDef> <rep|-> <def> <base values> <buffer sizes> <caps>` -> `ok <call> …`:
  -- the mirror of optionalPageValues / repeatedPageValues ReadValues, one call per buffer size; the
  -- base page's reader delivers at most the next cap per call (no cap once the list is used up)
  | ["pvalues.run", kind, md, rep, dfn, base, sizes, caps] => some <|
    match parseNat? md, parsePg? kind rep dfn base, parseList? parseNat? sizes, parseList? parseNat? caps with
    | some md, some (opt, p), some szs, some caps =>
      let lv := if opt then levelsOfOpt p else levelsOf p
      "ok " ++ " ".intercalate (runCalls md szs ⟨lv, p.base⟩ caps [])
    | _, _, _, _ => "bad-op"
  -- `bslice.run <bytes> <bit offset> <numValues> <i> <j> <a> <b>` -> the mirror of booleanPage.Slice(i, j)
  -- and of .Slice(a, b) of the result: `ok <bytes'> <offset'> <n'> <values'> <bytes''> <offset''> <n''> <values''>`
  | ["bslice.run", bits, off, n, i, j, a, b] => some <|
    match parseList? parseNat? bits, parseNat? off, parseNat? n, parseNat? i, parseNat? j, parseNat? a, parseNat? b with
    | some bits, some off, some n, some i, some j, some a, some b =>
      let q := sliceBool ⟨bits, off, n⟩ i j
      let q2 := sliceBool q a b
      s!"ok {showNats q.bits} {q.offset} {q.numValues} {showNats (boolValues q)} {showNats q2.bits} {q2.offset} {q2.numValues} {showNats (boolValues q2)}"
    | _, _, _, _, _, _, _ => "bad-op"
  -- `baslice.run <bytes> <offsets> <i> <j> <a> <b>` -> the mirror of byteArrayPage.Slice(i, j) and of
  -- .Slice(a, b) of the result: `ok <offsets'> <values' joined by |, bytes by .> <offsets''> <values''>`
  | ["baslice.run", vals, offs, i, j, a, b] => some <|
    match parseList? parseNat? vals, parseList? parseNat? offs, parseNat? i, parseNat? j, parseNat? a, parseNat? b with
    | some vals, some offs, some i, some j, some a, some b =>
      let showVals (p : BaPg) : String :=
        if (baValues p).isEmpty then "-" else "|".intercalate ((baValues p).map (fun v => if v.isEmpty then "e" else ".".intercalate (v.map toString)))
      let q := sliceBa ⟨vals, offs⟩ i j
      let q2 := sliceBa q a b
      s!"ok {showNats q.offsets} {showVals q} {showNats q2.offsets} {showVals q2}"
    | _, _, _, _, _, _ => "bad-op"
  | _ => none

end Driver.Ops.C08PageSlice
