import Driver.Proto
import PqModel.DictTable
import Driver.Ops.C04DictReset

/-! Ops of C04 part "dicttable" (round 6): Insert / Reset sessions of the probe-table dictionaries run on the
COMPOSED mirror (dictionary state machine of `PqModel/DictTable.lean` over the table mirror of
`PqModel/HashProbe.lean`).

  dict.tsession <G> <minCap> <loadNum> <loadDen> <chunk> <init> <ops>
      <G> = group size of the type's table (7 / 4 / 1), <minCap> = capacity clamp of makeTableNN (7 / 4 / 8),
      <loadNum>/<loadDen> = maxLoad (85/100; be128: 75/100), <chunk>, <init>, <ops> as for `dict.session probe`.
      The sizing function is `tableSizeAndMaxLen` in exact rational arithmetic, the seeds are fixed functions of
      the draw number and the key's text (the answers do not depend on either:
      `table_session_independent_of_table_parameters`).
      answer: as `dict.session`: `ok <per call, separated by ;> <final page>` | `hang` (a call never returns)
-/
namespace Driver.Ops.C04DictTable
open Driver PqModel.Plain PqModel.DictReset PqModel.HashProbe PqModel.DictTable
open Driver.Ops.C04DictReset Driver.Ops.C04Plain

def pow2From : Nat → Nat → Nat → Nat
  | 0, p, _ => p
  | fuel + 1, p, n => if n ≤ p then p else pow2From fuel (2 * p) n

/-- `tableSizeAndMaxLen(groupSize, numValues, maxLoad)` (hashprobe.go:71-76), maxLoad = num/den, exact -/
def sizing (G num den : Nat) (numValues : Nat) : Nat × Nat :=
  let n := (numValues * den + num - 1) / num
  let size := pow2From 64 1 ((n + (G - 1)) / G)
  (size, (num * G * size + den - 1) / den)

/-- the hash function of the k-th seed: a function of the key's text, colliding more or less with `k` -/
def seedHash (k : Nat) (x : String) : Nat :=
  let h := (hash x).toNat
  if k % 4 == 1 then h % 257 else if k % 4 == 2 then h / 2 ^ (k % 7) else h + k

def ttrace (c : Cfg String) : TableDict String → List (Op String) → Option (List String × TableDict String)
  | s, [] => some ([], s)
  | s, op :: ops =>
    match tableStep c s op with
    | none => none
    | some (s1, out) =>
      let here := match op with
        | .insert _ => showNats out
        | .reset => "r=" ++ showList id s.values
      match ttrace c s1 ops with
      | none => none
      | some (rest, sf) => some (here :: rest, sf)

def handle (toks : List String) : Option String :=
  match toks with
  | ["dict.tsession", g, mc, ln, ld, chunk, init, ops] => some <|
    match parseNat? g, parseNat? mc, parseNat? ln, parseNat? ld, parseNat? chunk with
    | some G, some minCap, some num, some den, some ch =>
      if G == 0 || num == 0 || den < num || ch == 0 then "bad-op" else
      match parseOps ch ops with
      | none => "bad-op"
      | some ops =>
        let c : Cfg String := { G := G, minCap := minCap, sz := sizing G num den, seeds := seedHash }
        match ttrace c (tableNew (splitList init) 0) ops with
        | none => "hang"
        | some (tr, sf) => s!"ok {";".intercalate tr} {showList id sf.values}"
    | _, _, _, _, _ => "bad-op"
  | _ => none

end Driver.Ops.C04DictTable
