import Driver.Proto
import PqModel.PoolMixedTrace

/-! Line-protocol op of the per-chunk detach flag of the row reader (C16, sub-check `chunkflag`).

`chunkflag.run <slip> <byteArray> <fixedLen> <detach0> <pages>`
  slip       0 = the page fetch as the code has it, 1 = the variant of `PoolMixed.flagAfterFetch`
  byteArray  1 = BYTE_ARRAY / FIXED_LEN_BYTE_ARRAY column (`PoolMixed.chunkProgs`), 0 = any other
             column (`PoolProto.rowReaderProg false`: rows hold no pointer, the flag is down)
  fixedLen   1 = FIXED_LEN_BYTE_ARRAY
  detach0    the flag before the first fetch
  pages      comma list `hasDict:nRead:nKept` (`-` = no page)
answers `ok <page>,<page>...` with page = `flag:put:uses:kept:disc`: the flag after the fetch of the
page, whether the reader itself puts the page's values buffer (Release rather than
releaseAndDetachValues), the number of touches in the page's program, the touches of the buffer
through kept rows (`PageD.keptTouches`), and whether the program keeps the pool discipline. -/
namespace Driver.Ops.C16ChunkFlag
open Driver PqModel.PoolProto PqModel.PoolMixed

def parsePage? (s : String) : Option PageD :=
  match s.splitOn ":" with
  | [h, r, k] => do
    let h ← parseNat? h
    some ⟨h == 1, ← parseNat? r, ← parseNat? k⟩
  | _ => none

def bit (b : Bool) : String := if b then "1" else "0"

def parseBit? (s : String) : Option Bool :=
  if s == "1" then some true else if s == "0" then some false else none

def run (slip byteArray fixedLen detach : Bool) (ps : List PageD) : List String :=
  let progs := if byteArray then chunkProgs slip fixedLen detach ps
               else ps.map fun p => rowReaderProg false false p.nRead 0
  let flags := if byteArray then flagTrace slip fixedLen detach ps else ps.map fun _ => false
  (ps.zip (progs.zip flags)).map fun (p, prog, f) =>
    s!"{bit f}:{bit (hasPut prog)}:{countUse prog}:{if byteArray then p.keptTouches else 0}:{bit (disc prog)}"

def handle (toks : List String) : Option String :=
  match toks with
  | ["chunkflag.run", sl, ba, fl, d0, pages] => some <|
    match parseBit? sl, parseBit? ba, parseBit? fl, parseBit? d0, parseList? parsePage? pages with
    | some sl, some ba, some fl, some d0, some ps => "ok " ++ showList id (run sl ba fl d0 ps)
    | _, _, _, _, _ => "bad-op"
  | _ => none

end Driver.Ops.C16ChunkFlag
