import Driver.Proto
import PqModel.Spec.Lz4Seqs

/-! C20 round 6 ops: the LZ4 block format on sequences (PqModel/Spec/Lz4Seqs.lean).
`lz4.encseqs` writes a generated sequence list and says what the spec reader makes of it;
`lz4.parse` splits a stream of the REAL encoder into sequences and judges it;
`lz4.greedy` is the proved reference encoder. -/
namespace Driver.Ops.C20Lz4
open Driver PqModel.Spec.BlockCodecs PqModel.Spec.Lz4Seqs

def showErr : Err → String
  | .fuel => "fuel" | .truncated => "truncated" | .badOffset => "bad-offset"
  | .badLength => "bad-length" | .tooLarge => "too-large"

/-- `lithex:off:ml` -/
def parseSeq? (s : String) : Option Seq :=
  match s.splitOn ":" with
  | [l, o, m] => do
    let l ← parseHex? l
    let o ← parseNat? o
    let m ← parseNat? m
    if o < 65536 then pure ⟨l, o, m⟩ else none
  | _ => none

def bit (b : Bool) : String := if b then "1" else "0"

/-- some match is longer than its offset (overlapping copy) -/
def overlaps (seqs : List Seq) : Bool := seqs.any fun s => decide (s.off < s.ml + 4)

def handle (toks : List String) : Option String :=
  match toks with
  /- `lz4.encseqs <seq,seq,..|-> <lasthex>` → `ok <blockhex> w=<writable> e=<end rules> <ok:hex|err:name>`
     the last field is what the spec reader `lz4Dec` answers on the block; when the list is
     writable it is compared with `applySeqs` (theorem lz4Dec_encSeqs) before answering -/
  | ["lz4.encseqs", ss, last] => some <|
    match parseList? parseSeq? ss, parseHex? last with
    | some seqs, some last =>
      let blk := encSeqs seqs last
      let w := seqsOk seqs #[]
      let e := endOk seqs last
      match lz4Dec blk with
      | .ok y =>
        -- accepted: must be writable and mean `applySeqs` (theorems lz4Dec_encSeqs / _rejects)
        if w && y == (applySeqs seqs #[]).toList ++ last then s!"ok {toHex blk} w={bit w} e={bit e} ok:{toHex y}"
        else "model-inconsistent"
      | .error er => if w then "model-inconsistent" else s!"ok {toHex blk} w={bit w} e={bit e} err:{showErr er}"
    | _, _ => "bad-op"
  /- `lz4.parse <blockhex>` → `ok n=<sequences with a match> w= e= canon=<re-encodes to itself>
     ovl=<has an overlapping match> x=<ext: some length ≥ 15> <meaning hex>` | `err parse` -/
  | ["lz4.parse", x] => some <|
    match parseHex? x with
    | none => "bad-op"
    | some blk =>
      if blk.isEmpty then "ok n=0 w=1 e=1 canon=1 ovl=0 x=0 -" else
      match parseBlock blk with
      | none => "err parse"
      | some (seqs, last) =>
        let w := seqsOk seqs #[]
        let ext := seqs.any (fun s => decide (15 ≤ s.ml) || decide (15 ≤ s.lits.length)) || decide (15 ≤ last.length)
        let meaning := if w then toHex ((applySeqs seqs #[]).toList ++ last) else "unwritable"
        s!"ok n={seqs.length} w={bit w} e={bit (endOk seqs last)} canon={bit (encSeqs seqs last == blk)} ovl={bit (overlaps seqs)} x={bit ext} {meaning}"
  /- `lz4.greedy <window> <hex>`: the proved reference encoder (lz4Dec_lz4Greedy) -/
  | ["lz4.greedy", w, x] => some <|
    match parseNat? w, parseHex? x with
    | some w, some x => s!"ok {toHex (lz4Greedy w x)}"
    | _, _ => "bad-op"
  | _ => none

end Driver.Ops.C20Lz4
