import Driver.Proto
import Driver.Ops.C03
import PqModel.MapToGroup

/-! Ops for C03 (Go maps onto GROUP schemas).
    GNode text: `F` leaf | `O(x)` optional | `G(<name>:x,<name>:y)` group with numeric member names
    Val text as in `Driver.Ops.C03`; a Go map is `L(S(P<key>,<value>),…)`, the nil map `N`. -/
namespace Driver.Ops.C03MapToGroup
open Driver PqModel.Dremel PqModel.MapToGroup

mutual
partial def parseG : List Char → Option (GNode × List Char)
  | 'F' :: r => some (.leaf, r)
  | 'O' :: '(' :: r => do
    let (n, r) ← parseG r
    match r with | ')' :: r => some (.opt n, r) | _ => none
  | 'G' :: '(' :: r => do
    let (fs, r) ← parseGF r
    some (.group fs, r)
  | _ => none
partial def parseGF : List Char → Option (GFields × List Char)
  | ')' :: r => some (.nil, r)
  | cs =>
    let (ds, r) := C03.takeDigits cs []
    match (String.ofList ds).toNat?, r with
    | some name, ':' :: r => do
      let (n, r) ← parseG r
      match r with
      | ',' :: r => do
        let (fs, r) ← parseGF r
        some (.cons name n fs, r)
      | ')' :: r => some (.cons name n .nil, r)
      | _ => none
    | _, _ => none
end

/-- members of the string branch: `<name>:o` optional, `<name>:r` required, comma separated -/
def parseMembers (s : String) : Option (List (Nat × Bool)) :=
  (s.splitOn ",").mapM fun m =>
    match m.splitOn ":" with
    | [a, "o"] => a.toNat?.map fun x => (x, true)
    | [a, "r"] => a.toNat?.map fun x => (x, false)
    | _ => none

def parseBatch (vals : List String) : Option (List Val) :=
  vals.mapM fun v => match C03.parseVal v.toList with | some (x, []) => some x | _ => none

def showRead (rs : List (List (Option Nat))) : String :=
  ";".intercalate (rs.map fun c => " ".intercalate (c.map fun | some x => toString x | none => "n"))

/-- `m2g.write <G(..)> <map> … <map>` → `ok <cols> | <read-back values per column> | <1 iff some row fails okF>` (value-writer branches, one Write of the batch);
    `m2g.owrite <G(..)> <J(map)|N> …` the map as a record member on an OPTIONAL group node;
    `m2g.iface <G(..)> <struct> … <struct>` the same for a struct of `any` fields (`S(v1,…)` in schema order);
    `m2g.str <members> <map> … <map>` → `ok <cols>` (string branch) -/
def handle (toks : List String) : Option String :=
  match toks with
  | "m2g.write" :: gs :: vals => some <|
    match parseG gs.toList, parseBatch vals with
    | some (.group fs, []), some batch => s!"ok {C03.showCols (m2gWrite fs batch)} | {showRead (readCols (maxDefsF fs 0) (m2gWrite fs batch))} | {if batch.all fun row => okF fs true (some (PqModel.TypedPath.elemsS row)) then 0 else 1}"
    | _, _ => "bad-op"
  | "m2g.owrite" :: gs :: vals => some <|
    match parseG gs.toList, parseBatch vals with
    | some (.group fs, []), some batch => s!"ok {C03.showCols (m2gOptWrite fs batch)} | {showRead (readCols (maxDefsF fs 1) (m2gOptWrite fs batch))}"
    | _, _ => "bad-op"
  | "m2g.iface" :: gs :: vals => some <|
    match parseG gs.toList, parseBatch vals with
    | some (.group fs, []), some batch => s!"ok {C03.showCols (ifaceWrite fs batch)} | {showRead (readCols (maxDefsF fs 0) (ifaceWrite fs batch))}"
    | _, _ => "bad-op"
  | "m2g.str" :: ms :: vals => some <|
    match parseMembers ms, parseBatch vals with
    | some fs, some batch => s!"ok {C03.showCols (m2gWriteStr fs batch)} | {showRead (readCols (fs.map fun f => if f.2 then 1 else 0) (m2gWriteStr fs batch))}"
    | _, _ => "bad-op"
  | _ => none

end Driver.Ops.C03MapToGroup
