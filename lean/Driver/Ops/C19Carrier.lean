import Driver.Proto
import Driver.Ops.C19
import PqModel.C19Carrier

/-! `variant.deccol <slip 0|1> <phys> <prec> <scale> <prim>`: MIRROR of the decimal cases of
    `variantToParquetValue` on a DECIMAL(prec, scale) typed_value column of physical type
    `<phys>` = `i32` | `i64` | `flba<n>` | `ba`, applied to the primitive `<prim>` (driver grammar,
    `d4:<scale>:<x>` / `d8:..` / `d16:<scale>:<16 bytes LE hex>` or any other scalar), and the reader
    mirror applied to the result.
    answer: `ok none` (the value goes to the residual column) or `ok <leaf> <prim read back | err>`
    with `<leaf>` = `i32:<x>` | `i64:<x>` | `x<hex>`. -/
namespace Driver.Ops.C19Carrier
open Driver PqModel.Variant PqModel.Variant.Carrier

def parsePhys? (s : String) : Option Phys :=
  if s == "i32" then some .int32
  else if s == "i64" then some .int64
  else if s == "ba" then some .ba
  else if s.startsWith "flba" then (s.drop 4).toNat?.map .flba
  else none

def showCV : CV → String
  | .i32 x => s!"i32:{x.toInt}"
  | .i64 x => s!"i64:{x.toInt}"
  | .bytes b => "x" ++ Driver.Ops.C19.hexE (b.map UInt8.ofNat)

def handle (toks : List String) : Option String :=
  match toks with
  | ["variant.deccol", slip, ph, prec, scale, prim] => some <|
    match parsePhys? ph, prec.toNat?, scale.toNat?, Driver.Ops.C19.parseScalar prim with
    | some ph, some prec, some scale, some p =>
      let c : DecCol := ⟨ph, prec, scale⟩
      match decToCol (slip == "1") c p with
      | none => "ok none"
      | some v =>
        match decOfCol c v with
        | some q => s!"ok {showCV v} {Driver.Ops.C19.showPrim q}"
        | none => s!"ok {showCV v} err"
    | _, _, _, _ => "bad-op"
  | _ => none

end Driver.Ops.C19Carrier
