import Driver.Proto
import PqModel.AsyncTrace
import PqModel.RowGroupProto
import PqModel.LazyInit

/-! Ops for C15: trace validation of the async page reader against `PqModel.Async`.

    The wrapped reader `U` is described by five tokens:
      `<numRows> <pageStarts> <rdFatal> <skSoft> <skFatal>`
    (page start rows ascending; positions whose read fails fatally; seek targets that fail
    recoverably / fatally). A position is a row index; the page read at row p ends at the next
    page start (or numRows); p >= numRows reads EOF.

    Events (comma separated, `-` = empty log):
      rb ho dl:<res>:<v> dr:<v> rc spd spb ss:<k>:<v> sc cb cr cf ce ca
      pi pd pt:<k>:<v> pe bc bo:<res>:<v> st:<k>:<v> sd
    Results: `p<row>` page read from row, `eof`, `s<code>` recoverable error, `f<code>` fatal error.

    `async.validate U… <events>` -> `ok <nprod> <handed> <released>` if the log is a path of the
       transition system from `init`, else `illegal <index of the first illegal event>`
    `async.seq U… <ops>` (ops: `s<k>` SeekToRow, `r` ReadPage) -> `ok <results>`: the sequential
       reference run (SPEC side)

    `rgproto.run <restore 0|1> <events>`: the ConcurrentRowGroupWriter protocol (`PqModel.RowGroupProto`).
       Events: `b` BeginRowGroup, `f<i>:<x>` one row x into row group writer i, `l<i>` page boundary
       (rg_i.Flush), `c<i>` rg_i.Commit, `w:<x>` one row through the parent writer, `lo` page boundary
       in the parent's row group, `W` parent Flush.
       -> `ok <state after each event, '|' separated> file=<rows of each row group of the MIRROR>
          spec=<rows of each row group of the SPEC> readable=<0|1>`; a state is
          `g<row groups>;<own>;<rg 0>;<rg 1>...`, a row group writer is
          `<await 0|1>.<ordinal>.<buffered rows>.<rows in sealed pages>.<sealed pages>`

    `once.run <wait 0|1> <k> <v> <acts>`: the once-guarded lazy load (`PqModel.OnceLoad`), k callers,
       loaded content v. Acts: `e<i>` caller i reaches the guard, `f<i>` the loader of caller i
       completes, `p<i>` caller i reads the variables and answers.
       -> `ok <outcome per act> loads=<n>`; outcomes: `load` (entered the loader), `pass` (went past the
          guard), `blocked` (waits inside once.Do; the state is unchanged), `ok`, `r<v>` / `rnil` (answered
          from the loaded content / from the zero values), `bad` (not enabled) -/
namespace Driver.Ops.C15
open Driver PqModel.Async

def mkUnder (numRows : Nat) (starts rdFatal skSoft skFatal : List Nat) : Under :=
  { next := fun p => if p < numRows then ((starts.find? (fun s => p < s)).getD numRows) else p,
    rd := fun p => if rdFatal.contains p then .fatal 1 else if p < numRows then .page else .eof,
    sk := fun k => if skFatal.contains k then .fatal 2 else if skSoft.contains k then .soft 3 else .ok }

def parseRes? (s : String) : Option Res :=
  if s == "eof" then some .eof else
  match s.toList with
  | 'p' :: r => (String.ofList r).toNat?.map .page
  | 's' :: r => (String.ofList r).toNat?.map .soft
  | 'f' :: r => (String.ofList r).toNat?.map .fatal
  | _ => none

def showRes : Res → String
  | .page p => s!"p{p}"
  | .eof => "eof"
  | .soft c => s!"s{c}"
  | .fatal c => s!"f{c}"

def parseEv? (s : String) : Option Ev :=
  match s.splitOn ":" with
  | ["rb"] => some .readBegin
  | ["ho"] => some .handoff
  | ["dl", r, v] => do some (.deliver (← parseRes? r) (← parseNat? v))
  | ["dr", v] => do some (.drop (← parseNat? v))
  | ["rc"] => some .readClosed
  | ["spd"] => some (.seekPoll true)
  | ["spb"] => some (.seekPoll false)
  | ["ss", k, v] => do some (.seekSend (← parseNat? k) (← parseNat? v))
  | ["sc"] => some .seekClosed
  | ["cb"] => some .closeBegin
  | ["cr"] => some .closeRecv
  | ["cf"] => some .closeFinal
  | ["ce"] => some .closeEnd
  | ["ca"] => some .closeAgain
  | ["pi"] => some .initPass
  | ["pd"] => some .initDone
  | ["pt", k, v] => do some (.pollTake (← parseNat? k) (← parseNat? v))
  | ["pe"] => some .pollEmpty
  | ["bc"] => some .bodyCont
  | ["bo", r, v] => do some (.bodyOffer (← parseRes? r) (← parseNat? v))
  | ["st", k, v] => do some (.selTake (← parseNat? k) (← parseNat? v))
  | ["sd"] => some .selDone
  | _ => none

def parseOp? (s : String) : Option Op :=
  if s == "r" then some .read else
  match s.toList with
  | 's' :: r => (String.ofList r).toNat?.map .seek
  | _ => none

def parseUnder? (n st rf ss sf : String) : Option Under := do
  some (mkUnder (← parseNat? n) (← parseList? parseNat? st) (← parseList? parseNat? rf)
    (← parseList? parseNat? ss) (← parseList? parseNat? sf))

namespace Rgp
open PqModel.RowGroupProto

def parseEv? (s : String) : Option (Ev Nat) :=
  if s == "b" then some .begin else
  if s == "lo" then some .flushOwn else
  if s == "W" then some .wflush else
  match s.splitOn ":" with
  | ["w", x] => (parseNat? x).map .write
  | [f, x] =>
    match f.toList with
    | 'f' :: r => do some (.fill (← (String.ofList r).toNat?) (← parseNat? x))
    | _ => none
  | [t] =>
    match t.toList with
    | 'l' :: r => (String.ofList r).toNat?.map .flush
    | 'c' :: r => (String.ofList r).toNat?.map .commit
    | _ => none
  | _ => none

def showRg (r : Rg Nat) : String :=
  let sealed := r.pages.foldl (fun n p => n + p.2.length) 0
  s!"{if r.await then 1 else 0}.{r.ord}.{r.buf.length}.{sealed}.{r.pages.length}"

def showW (w : W Nat) : String :=
  String.intercalate ";" (s!"g{w.groups.length}" :: showRg w.own :: w.rgs.map showRg)

def showGroups (gs : List (List Nat)) : String :=
  if gs.isEmpty then "-" else String.intercalate "/" (gs.map (fun g => String.intercalate "." (g.map toString)))

def states (restore : Bool) : W Nat → List (Ev Nat) → List String
  | _, [] => []
  | w, e :: es => let w' := step restore w e; showW w' :: states restore w' es

end Rgp

def parseAct? (s : String) : Option PqModel.OnceLoad.Act :=
  match s.toList with
  | 'e' :: r => (String.ofList r).toNat?.map .enter
  | 'f' :: r => (String.ofList r).toNat?.map .finish
  | 'p' :: r => (String.ofList r).toNat?.map .probe
  | _ => none

def handle (toks : List String) : Option String :=
  match toks with
  | ["once.run", wait, k, v, acts] => some <|
    match parseNat? k, parseNat? v, parseList? parseAct? acts with
    | some k, some v, some as =>
      let r := PqModel.OnceLoad.runActs (wait == "1") v (PqModel.OnceLoad.init k) as
      s!"ok {showList id r.1} loads={r.2.loads}"
    | _, _, _ => "bad-op"
  | ["rgproto.run", restore, evs] => some <|
    match parseList? Rgp.parseEv? evs with
    | some es =>
      let r := restore == "1"
      let w := PqModel.RowGroupProto.run r es
      let s := PqModel.RowGroupProto.srun es
      let sts := Rgp.states r PqModel.RowGroupProto.init es
      s!"ok {if sts.isEmpty then "-" else String.intercalate "|" sts} file={Rgp.showGroups (w.groups.map PqModel.RowGroupProto.content)} spec={Rgp.showGroups s.out} readable={if PqModel.RowGroupProto.readable w.groups then 1 else 0}"
    | none => "bad-op"
  | ["async.validate", n, st, rf, ss, sf, evs] => some <|
    match parseUnder? n st rf ss sf, parseList? parseEv? evs with
    | some U, some es =>
      match validate U es with
      | .ok g => s!"ok {g.nprod} {showList toString g.handed} {showList toString g.released}"
      | .error i => s!"illegal {i}"
    | _, _ => "bad-op"
  | ["async.seq", n, st, rf, ss, sf, ops] => some <|
    match parseUnder? n st rf ss sf, parseList? parseOp? ops with
    | some U, some os => s!"ok {showList showRes (seqRun U ⟨0, none, none⟩ os)}"
    | _, _ => "bad-op"
  | _ => none

end Driver.Ops.C15
