import Driver.Proto
import PqModel.PlainDict
import Driver.Ops.C04Plain

/-! Ops of C04 part "plain", extension (Go decoders, dictionary-encoded column).

  plain.godecfixed <k> <hex>            MIRROR of the Go PLAIN decoders of the k-byte types: ok <decimals> | err
  plain.godecflba <size> <hex>          MIRROR DecodeFixedLenByteArray: ok <hex> | err | panic
  bss.godecfixed <k> <hex>              MIRROR of the Go BYTE_STREAM_SPLIT numeric decoders: ok <decimals> | err
  bss.godecflba <size> <stale> <hex>    MIRROR, destination holding <stale>: ok <hex> | err
  dict.indexpage <n> <stale> <hex>      index page (<bit width> <hybrid>): `go=<ok ids|err> spec=<ok ids|err>`;
                                        <stale> = decimal content of the recycled buffer's capacity
  dict.column <type> <numDict> <dicthex> <n> <pagehex> <stale>
                                        whole column, <type> = fixed:<k> | bytes | flba:<n>:
                                        `go=<ok vals|err|panic> spec=<ok vals|err>`
-/
namespace Driver.Ops.C04PlainDict
open Driver PqModel.Plain PqModel.PlainDict Driver.Ops.C04Plain

def showGo {α} (f : α → String) : GoRes α → String
  | .ok a => s!"ok {f a}"
  | .err => "err"
  | .panic => "panic"

def showOpt {α} (f : α → String) : Option α → String
  | some a => s!"ok {f a}"
  | none => "err"

def natBytes (bs : Bytes) : List Nat := bs.map UInt8.toNat

/-- FLBA dictionary page: the Go decoder returns the flat copy, the dictionary cuts it in values -/
def goDecFLBAValues (size : Nat) (bs : Bytes) : GoRes (List Bytes) :=
  match goDecFLBA size bs with
  | .ok flat => .ok (chunks size (flat.length / size) flat)
  | .err => .err
  | .panic => .panic

def column {α} (decS : Bytes → Option (List α)) (decG : Bytes → GoRes (List α)) (sh : List α → String)
    (numDict : Nat) (dict : Bytes) (n : Nat) (page : Bytes) (stale : List Nat) : String :=
  let g := goDictColumn decG numDict dict n (natBytes page) stale
  let s := specDictColumn decS numDict dict n (natBytes page)
  s!"go={showGo sh g} spec={showOpt sh s}"

def handle (toks : List String) : Option String :=
  match toks with
  | ["plain.godecfixed", k, hex] => some <|
    match parseNat? k, parseHex? hex with
    | some k, some bs => if k = 0 then "bad-op" else showGo showNats (goDecFixed k bs)
    | _, _ => "bad-op"
  | ["plain.godecflba", k, hex] => some <|
    match parseNat? k, parseHex? hex with
    | some k, some bs => showGo toHex (goDecFLBA k bs)
    | _, _ => "bad-op"
  | ["bss.godecfixed", k, hex] => some <|
    match parseNat? k, parseHex? hex with
    | some k, some bs => if k = 0 then "bad-op" else showGo showNats (goBssDecFixed k bs)
    | _, _ => "bad-op"
  | ["bss.godecflba", k, stale, hex] => some <|
    match parseNat? k, parseHex? stale, parseHex? hex with
    | some k, some st, some bs => showGo toHex (goBssDecFLBA k st bs)
    | _, _, _ => "bad-op"
  | ["dict.indexpage", n, stale, hex] => some <|
    match parseNat? n, parseList? parseNat? stale, parseHex? hex with
    | some n, some st, some bs =>
      let g := match PqModel.Rle.goDecodeDict (natBytes bs) with
        | .ok idx => s!"ok {showNats (goNewIndexedPage idx st n)}"
        | .error _ => "err"
      let s := match PqModel.Rle.specDecodeDict n (natBytes bs) with
        | .ok idx => s!"ok {showNats idx}"
        | .error _ => "err"
      s!"go={g} spec={s}"
    | _, _, _ => "bad-op"
  | ["dict.column", t, numDict, dict, n, page, stale] => some <|
    match parseNat? numDict, parseHex? dict, parseNat? n, parseHex? page, parseList? parseNat? stale with
    | some numDict, some dict, some n, some page, some st =>
      if t == "bytes" then
        column specDecByteArray goDecByteArray showHexVals numDict dict n page st
      else match afterColon? "fixed:" t, afterColon? "flba:" t with
        | some k, _ => match parseNat? k with
          | some k => if k = 0 then "bad-op" else
            column (specDecFixed k) (goDecFixed k) showNats numDict dict n page st
          | none => "bad-op"
        | none, some k => match parseNat? k with
          | some k => column (specDecFixedBytes k) (goDecFLBAValues k) showHexVals numDict dict n page st
          | none => "bad-op"
        | none, none => "bad-op"
    | _, _, _, _, _ => "bad-op"
  | _ => none

end Driver.Ops.C04PlainDict
