import Driver.Proto
import PqModel.ConvValue

/-! `conv.value <tgt> <src> <hex>`: the mirror of `targetType.ConvertValue(v, sourceType)`.
    types: `bool i32 i64 i96 f32 f64 ba fl<n> str` (`str` = BYTE_ARRAY with the STRING logical type,
    i.e. `*stringType`); `<hex>` = the payload of the source value (little-endian bytes of a fixed
    width value, one byte 00/01 for a boolean, the bytes of a byte array; `-` = empty, `null` = the null value).
    answer: `ok <kind> <hex>` (kind of the returned VALUE: `bool i32 i64 i96 f32 f64 ba fl`),
    `invalid`, `panic`, `unmodelled`. -/
namespace Driver.Ops.C12Value
open Driver PqModel.ConvValue PqModel.Plain

def parseTy? (s : String) : Option Ty :=
  match s with
  | "bool" => some ⟨.boolean, false⟩
  | "i32" => some ⟨.int32, false⟩
  | "i64" => some ⟨.int64, false⟩
  | "i96" => some ⟨.int96, false⟩
  | "f32" => some ⟨.float, false⟩
  | "f64" => some ⟨.double, false⟩
  | "ba" => some ⟨.byteArray, false⟩
  | "str" => some ⟨.byteArray, true⟩
  | _ => match s.toList with
    | 'f' :: 'l' :: t => (String.ofList t).toNat?.map (fun n => ⟨.flba n, false⟩)
    | _ => none

def parseVal? (t : Ty) (b : List UInt8) : Option Val :=
  match t.kind with
  | .boolean => match b with
    | [x] => if x = 0 then some (.bool false) else if x = 1 then some (.bool true) else none
    | _ => none
  | .int32 => if b.length = 4 then some (.i32 (leVal b)) else none
  | .int64 => if b.length = 8 then some (.i64 (leVal b)) else none
  | .int96 => if b.length = 12 then some (.i96 (leVal b)) else none
  | .float => if b.length = 4 then some (.f32 (leVal b)) else none
  | .double => if b.length = 8 then some (.f64 (leVal b)) else none
  | .byteArray => some (.bytes b)
  | .flba n => if b.length = n then some (.fixed b) else none

def showVal : Val → String
  | .bool b => s!"bool {if b then "01" else "00"}"
  | .i32 x => s!"i32 {toHex (leBytes 4 x)}"
  | .i64 x => s!"i64 {toHex (leBytes 8 x)}"
  | .i96 x => s!"i96 {toHex (leBytes 12 x)}"
  | .f32 x => s!"f32 {toHex (leBytes 4 x)}"
  | .f64 x => s!"f64 {toHex (leBytes 8 x)}"
  | .bytes b => s!"ba {toHex b}"
  | .fixed b => s!"fl {toHex b}"
  | .null => "null -"

def handle (toks : List String) : Option String :=
  match toks with
  | ["conv.value", tgt, src, "null"] => some <|
    match parseTy? tgt, parseTy? src with
    | some tgt, some src =>
      match convertValue tgt src .null with
      | .ok w => "ok " ++ showVal w
      | .invalid => "invalid"
      | .panics => "panic"
      | .unmodelled => "unmodelled"
    | _, _ => "bad-op"
  | ["conv.value", tgt, src, payload] => some <|
    match parseTy? tgt, parseTy? src, parseHex? payload with
    | some tgt, some src, some b =>
      match parseVal? src b with
      | some v =>
        match convertValue tgt src v with
        | .ok w => "ok " ++ showVal w
        | .invalid => "invalid"
        | .panics => "panic"
        | .unmodelled => "unmodelled"
      | none => "bad-op"
    | _, _, _ => "bad-op"
  | _ => none

end Driver.Ops.C12Value
