import Driver.Proto
import PqModel.VariantElems

/-! `variant.elems <startsP> <startsE> <defs> <elemsDefAbs> <entries>`: the element groups the
    `LocTypedList` branch of `processElements` gives every entry of a list cursor.
    startsP/startsE: the `starts` arrays (with sentinel) of the presence leaf at the list cursor's depth
    and one deeper; defs: the presence leaf's definition levels; entries: comma list, `<g>` = an entry
    tagged LocTypedList with slot group g, `n` = any other entry.
    answer: `ok <groups of entry 0>/<groups of entry 1>/... <listOffsets>` (`-` = none). -/
namespace Driver.Ops.C19Elems
open Driver PqModel.VariantWindow

def parseEntry? (s : String) : Option (Option Nat) :=
  if s == "n" then some none else s.toNat?.map some

def handle (toks : List String) : Option String :=
  match toks with
  | ["variant.elems", sp, se, defs, eda, entries] => some <|
    match parseList? parseNat? sp, parseList? parseNat? se, parseList? parseNat? defs, parseNat? eda,
          parseList? parseEntry? entries with
    | some sp, some se, some defs, some eda, some es =>
      let out := elemsLoop sp se (fun s => decide (defs.getD s 0 ≥ eda)) es 0
      let groups := if out.isEmpty then "-" else "/".intercalate (out.map (showList toString))
      s!"ok {groups} {showList toString (listOffsetsFrom 0 out)}"
    | _, _, _, _, _ => "bad-op"
  | _ => none

end Driver.Ops.C19Elems
