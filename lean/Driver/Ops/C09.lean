import Driver.Proto
import PqModel.Merge
import PqModel.MergeRanges

namespace Driver.Ops.C09
open Driver PqModel.Merge

/-- list of lists: parts separated by `/`, `.` = no part at all, `-` = empty part -/
def parseLists? {α} (p : String → Option α) (s : String) : Option (List (List α)) :=
  if s == "." then some [] else (s.splitOn "/").mapM (parseList? p)

def streakOf : Reader → Int
  | .two s => s.streak
  | .many s => s.streak
  | _ => -1

/-- `Reader.session` that also records the streak counter after every call -/
def sessionS : Reader → List Nat → List (List Row) × List Int × Bool
  | _, [] => ([], [], false)
  | r, m :: ms =>
    let res := r.readRows m
    if res.2.1 then ([res.1], [streakOf res.2.2], true)
    else
      let rest := sessionS res.2.2 ms
      (res.1 :: rest.1, streakOf res.2.2 :: rest.2.1, rest.2.2)

def showRow (r : Row) : String := s!"{r.inp}:{r.seq}"
def showBatch (b : List Row) : String := showList showRow b

def parseOptRow? (s : String) : Option (Option Row) :=
  if s == "n" then some none else (s.toInt?).map (fun k => some { key := k, inp := 0, seq := 0 })

/-- `merge.run <inputs> <batch sizes> <refill sizes>` -> `ok <eof> <batch>|<batch>|… <streak after each call>`
    `merge.runlength <window keys> <bound> <max>` -> `ok <n>`
    `dedupe.run <batches of keys>` -> `ok <kept rows as batch:index>` -/
def handle (toks : List String) : Option String :=
  match toks with
  | ["merge.run", ins, bs, rs] => some <|
    match parseLists? parseInt? ins, parseList? parseNat? bs, parseLists? parseNat? rs with
    | some ins, some bs, some rs =>
      let r := Reader.new (tagInputs ins) rs
      let res := sessionS r bs
      s!"ok {if res.2.2 then 1 else 0} {"|".intercalate (res.1.map showBatch)} {showList toString res.2.1}"
    | _, _, _ => "bad-op"
  | ["merge.runlength", w, b, mx] => some <|
    match parseList? parseInt? w, parseInt? b, parseInt? mx with
    | some w, some b, some mx =>
      let rows := w.map (fun k => ({ key := k, inp := 0, seq := 0 } : Row))
      s!"ok {runLength rows { key := b, inp := 0, seq := 0 } mx}"
    | _, _, _ => "bad-op"
  | ["merge.segments", nf, ins] => some <|
    match parseLists? parseOptInt? ins with
    | some ins =>
      let segs := segmentsOf true (nf == "1") ins
      let showSeg (seg : List (Nat × Nat)) : String := s!"{seg.length}:{(seg.map (·.2)).sum}"
      s!"ok {showList showSeg segs}"
    | none => "bad-op"
  | ["dedupe.run", bs] => some <|
    match parseLists? parseInt? bs with
    | some bs =>
      let rows := tagInputs bs
      s!"ok {showBatch (dedupeReader none rows)}"
    | none => "bad-op"
  | _ => none

end Driver.Ops.C09
