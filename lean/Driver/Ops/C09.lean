import Driver.Proto
import PqModel.Merge
import PqModel.MergeRanges
import PqModel.Compare
import PqModel.MergeRefine
import PqModel.MergeZero
import PqModel.MergeRetry
import PqModel.MergeShape

namespace Driver.Ops.C09
open Driver PqModel.Merge PqModel.Compare

/-- list of lists: parts separated by `/`, `.` = no part at all, `-` = empty part -/
def parseLists? {α} (p : String → Option α) (s : String) : Option (List (List α)) :=
  if s == "." then some [] else (s.splitOn "/").mapM (parseList? p)

def streakOf : Reader → Int
  | .two s => s.streak
  | .many s => s.streak
  | _ => -1

/-- `Reader.session` that also records the streak counter after every call -/
def sessionS : Reader → List Nat → List (List Row) × List Int × Bool
  | _, [] => ([], [], false)
  | r, m :: ms =>
    let res := r.readRows m
    if res.2.1 then ([res.1], [streakOf res.2.2], true)
    else
      let rest := sessionS res.2.2 ms
      (res.1 :: rest.1, streakOf res.2.2 :: rest.2.1, rest.2.2)

def parseSpec? (s : String) : Option ColSpec :=
  match s.toList with
  | [d, n] =>
    if (d == 'a' || d == 'd') && (n == 'l' || n == 'f') then some { desc := d == 'd', nullsFirst := n == 'f' } else none
  | _ => none

def parseKeyRow? (s : String) : Option KeyRow := (s.splitOn ";").mapM parseOptInt?

/-- mirror rows of inputs with compound nullable keys: key = rank under `cmpRows specs`
    (same definition as `rankRows`, computed once per distinct call) -/
def rankInputs (specs : List ColSpec) (ins : List (List KeyRow)) : List (List Row) :=
  let all := ins.flatten
  let c := cmpRows specs
  (List.range ins.length).map (fun i =>
    let src := ins.getD i []
    (List.range src.length).map (fun j => { key := (rankIn c all (src.getD j []) : Nat), inp := i, seq := j }))

def parsePage? (s : String) : Option PqModel.Refine.PageStat :=
  match s.splitOn "_" with
  | [mn, mx, fl] =>
    match parseOptInt? mn, parseOptInt? mx with
    | some mn, some mx =>
      if fl == "N" then some { nullPage := true, hasNulls := true, min := mn, max := mx }
      else if fl == "h" then some { nullPage := false, hasNulls := true, min := mn, max := mx }
      else if fl == "o" then some { nullPage := false, hasNulls := false, min := mn, max := mx }
      else none
    | _, _ => none
  | _ => none

/-- shapes in prefix form, tokens separated by `,`: `L` leaf, `E` empty row group, `P` plain `*rowGroup`, `M<drop>:<n>` merged with `n` members,
    `S<drop>:<n>` segments, `U:<n>` multi, `D` dedup, `R` range, `C` converted. Fuel = number of tokens. -/
def parseShape : Nat → List String → Option (PqModel.Shape.Shape Unit × List String)
  | 0, _ => none
  | fuel + 1, tok :: rest =>
    let many (n : Nat) : Option (List (PqModel.Shape.Shape Unit) × List String) :=
      (List.range n).foldlM (fun (acc : List (PqModel.Shape.Shape Unit) × List String) _ =>
        (parseShape fuel acc.2).map (fun r => (acc.1 ++ [r.1], r.2))) ([], rest)
    if tok == "L" then some (.leaf [], rest)
    else if tok == "E" then some (.empty, rest)
    else if tok == "P" then some (.plain [], rest)
    else if tok == "D" then (parseShape fuel rest).map (fun r => (.dedup r.1, r.2))
    else if tok == "R" then (parseShape fuel rest).map (fun r => (.range r.1 0 0, r.2))
    else if tok == "C" then (parseShape fuel rest).map (fun r => (.converted r.1, r.2))
    else
      match tok.splitOn ":" with
      | [k, n] =>
        match parseNat? n with
        | none => none
        | some n =>
          if k == "M0" then (many n).map (fun r => (.merged false r.1, r.2))
          else if k == "M1" then (many n).map (fun r => (.merged true r.1, r.2))
          else if k == "S0" then (many n).map (fun r => (.segments false r.1, r.2))
          else if k == "S1" then (many n).map (fun r => (.segments true r.1, r.2))
          else if k == "U" then (many n).map (fun r => (.multi r.1, r.2))
          else none
      | _ => none
  | _ + 1, [] => none

def showRow (r : Row) : String := s!"{r.inp}:{r.seq}"
def showBatch (b : List Row) : String := showList showRow b

/-- the shape of a row group inside a target of `merge.plan`: part `H<shape with ; for ,>` -/
def supportsOfPart (parts : List String) : Bool :=
  match parts.find? (fun x => x.startsWith "H") with
  | none => true
  | some h =>
    let toks := ((h.drop 1).toString.splitOn ";")
    match parseShape (toks.length + 1) toks with
    | some (s, []) => PqModel.Shape.supportsRowRanges s
    | _ => true

/-- `<numRows>~<pages of col 0>~…~F<first row indexes>[~I]`; pages `min_max_flag` comma separated;
    `I` = the row group interleaves the rows of its chunks (merged row group) -/
def parseTarget? (idx : Nat) (s : String) : Option PqModel.Refine.Target :=
  match s.splitOn "~" with
  | [] => none
  | n :: rest =>
    match parseNat? n with
    | none => none
    | some n =>
      let il := rest.contains "I"
      let dr := rest.contains "D"
      let sup := supportsOfPart rest
      let rest := rest.filter (fun x => x != "I" && x != "D" && !x.startsWith "H")
      let cols := rest.filter (fun x => !x.startsWith "F")
      let firsts := rest.filter (fun x => x.startsWith "F")
      match cols.mapM (parseList? parsePage?), firsts.mapM (fun x => parseList? parseNat? (x.drop 1).toString) with
      | some cols, some fr => some { idx := idx, numRows := n, cols := cols, firstRows := fr.headD [], interleaved := il, dropsRows := dr, supportsRanges := sup }
      | _, _ => none

def parseOptRow? (s : String) : Option (Option Row) :=
  if s == "n" then some none else (s.toInt?).map (fun k => some { key := k, inp := 0, seq := 0 })

/-- `merge.run <inputs> <batch sizes> <refill sizes>` -> `ok <eof> <batch>|<batch>|… <streak after each call>`
    `merge.runlength <window keys> <bound> <max>` -> `ok <n>`
    `dedupe.run <batches of keys>` -> `ok <kept rows as batch:index>` -/
def handle (toks : List String) : Option String :=
  match toks with
  | ["merge.run", ins, bs, rs] => some <|
    match parseLists? parseInt? ins, parseList? parseNat? bs, parseLists? parseNat? rs with
    | some ins, some bs, some rs =>
      let r := Reader.new (tagInputs ins) rs
      let res := sessionS r bs
      s!"ok {if res.2.2 then 1 else 0} {"|".intercalate (res.1.map showBatch)} {showList toString res.2.1}"
    | _, _, _ => "bad-op"
  | ["merge.runr", ins, bs, rs] => some <|
    -- refill streams with `(0, nil)` answers (entry 0): the retry loop of `read` skips them
    -- (MergeRetry.lean `readE_squash`), the session runs on the squashed streams
    match parseLists? parseInt? ins, parseList? parseNat? bs, parseLists? parseNat? rs with
    | some ins, some bs, some rs =>
      if rs.any (fun l => !(decide (∀ i, i < l.length → zeroRun (l.drop i) ≤ 100))) then "stall"
      else
        let r := Reader.new (tagInputs ins) (rs.map squashSizes)
        let res := sessionS r bs
        s!"ok {if res.2.2 then 1 else 0} {"|".intercalate (res.1.map showBatch)} {showList toString res.2.1}"
    | _, _, _ => "bad-op"
  | ["merge.runz", ins, bs, rs] => some <|
    match parseLists? parseInt? ins, parseList? parseNat? bs, parseLists? parseNat? rs with
    | some ins, some bs, some rs =>
      match tagInputs ins with
      | [a, b] =>
        let out := (M2Z.new a b (rs.getD 0 []) (rs.getD 1 [])).session bs
        s!"ok {"|".intercalate (out.map showBatch)}"
      | _ => "bad-op"
    | _, _, _ => "bad-op"
  | ["merge.runc", specs, ins, bs, rs] => some <|
    match parseList? parseSpec? specs, parseLists? parseKeyRow? ins, parseList? parseNat? bs, parseLists? parseNat? rs with
    | some specs, some ins, some bs, some rs =>
      let r := Reader.new (rankInputs specs ins) rs
      let res := sessionS r bs
      s!"ok {if res.2.2 then 1 else 0} {"|".intercalate (res.1.map showBatch)} {showList toString res.2.1}"
    | _, _, _, _ => "bad-op"
  | ["merge.plan", strict, specs, ts] => some <|
    let parts := if ts == "." then [] else ts.splitOn "/"
    match parseList? parseSpec? specs, (List.range parts.length).mapM (fun i => parseTarget? i (parts.getD i "")) with
    | some specs, some ts =>
      let plan := PqModel.Refine.planOf (strict == "1") specs ts
      s!"ok {showList (fun (x : Nat × Nat) => s!"{x.1}:{x.2}") plan}"
    | _, _ => "bad-op"
  | ["merge.shape", sh] => some <|
    -- `ok <interleaves> <dropsRows> <readsChunksInOrder>` of a row-group tree (MergeShape.lean)
    let toks := sh.splitOn ","
    match parseShape (toks.length + 1) toks with
    | some (s, []) =>
      let b (x : Bool) : String := if x then "1" else "0"
      s!"ok {b (PqModel.Shape.interleaves s)} {b (PqModel.Shape.dropsRows s)} {b (PqModel.Shape.readsChunksInOrder s)} {b (PqModel.Shape.supportsRowRanges s)}"
    | _ => "bad-op"
  | ["merge.cmp", specs, a, b] => some <|
    match parseList? parseSpec? specs, parseKeyRow? a, parseKeyRow? b with
    | some specs, some a, some b => s!"ok {cmpRows specs a b}"
    | _, _, _ => "bad-op"
  | ["merge.runlength", w, b, mx] => some <|
    match parseList? parseInt? w, parseInt? b, parseInt? mx with
    | some w, some b, some mx =>
      let rows := w.map (fun k => ({ key := k, inp := 0, seq := 0 } : Row))
      s!"ok {runLength rows { key := b, inp := 0, seq := 0 } mx}"
    | _, _, _ => "bad-op"
  | ["merge.segments", nf, ins] => some <|
    match parseLists? parseOptInt? ins with
    | some ins =>
      let segs := segmentsOf true (nf == "1") ins
      let showSeg (seg : List (Nat × Nat)) : String := s!"{seg.length}:{(seg.map (·.2)).sum}"
      s!"ok {showList showSeg segs}"
    | none => "bad-op"
  | ["dedupe.run", bs] => some <|
    match parseLists? parseInt? bs with
    | some bs =>
      let rows := tagInputs bs
      s!"ok {showBatch (dedupeReader none rows)}"
    | none => "bad-op"
  | _ => none

end Driver.Ops.C09
