import Driver.Proto
import PqModel.RowsBuf

namespace Driver.Ops.C13RowsBuf
open Driver PqModel.RowsBuf

/-- one page: `g` (loads) or `b` (rejected) followed by one digit per value, its repetition level.
    Rows are numbered on from `firstRow`; a value of level 0 starts a row. -/
def parsePage? (col ord firstRow : Nat) (s : String) : Option Page :=
  match s.toList with
  | [] => none
  | t :: levels =>
    if t != 'g' && t != 'b' then none else
    if levels.any (fun c => !c.isDigit) then none else
    let reps := levels.map fun c => c.toNat - '0'.toNat
    let step := fun (acc : List Val × Nat) (rep : Nat) =>
      let row := if rep == 0 then acc.2 + 1 else acc.2
      (acc.1 ++ [{ col := col, row := firstRow + row - 1, rep := rep, page := ord : Val }], row)
    let r := reps.foldl step ([], 0)
    some { bad := t == 'b', firstRow := firstRow, numRows := r.2, vals := r.1 }

def parsePages? (col : Nat) : List String → Nat → Nat → Option (List Page)
  | [], _, _ => some []
  | s :: rest, ord, firstRow => do
    let p ← parsePage? col ord firstRow s
    let ps ← parsePages? col rest (ord + 1) (firstRow + p.numRows)
    pure (p :: ps)

def parseFile? (cols : List String) : Nat → Option (List (List Page))
  | j =>
    match cols with
    | [] => some []
    | c :: rest => do
      let ps ← parsePages? j (if c = "-" then [] else c.splitOn ",") 0 0
      let more ← parseFile? rest (j + 1)
      pure (ps :: more)

def parseOp? (s : String) : Option Op :=
  match s.toList with
  | ['z'] => some .reset
  | 'r' :: ds => (parseNat? (String.ofList ds)).map .read
  | 's' :: ds => (parseNat? (String.ofList ds)).map .seek
  | _ => none

def showVal (v : Val) : String := s!"{v.col}.{v.row}.{v.rep}.{v.page}"

def showOut : Out → String
  | .failed => "F"
  | .done => "D"
  | .rows rs eof =>
    let head := s!"R{rs.length}{if eof then "e" else "-"}"
    if rs.isEmpty then head
    else head ++ ":" ++ ";".intercalate (rs.map fun r => ",".intercalate (r.map showVal))

def showSt (st : St) : String :=
  s!"i{st.rowIndex}e{if st.err then 1 else 0}b" ++ ".".intercalate (st.cols.map fun c => toString c.buf.length)

/-- `c13.rowsbuf <bufsize> <col>/<col>/… <op>,<op>,…` -> `ok <out>|<state> …`: `RowsBuf.run`, one
    answer per call of the history -/
def handle (toks : List String) : Option String :=
  match toks with
  | ["c13.rowsbuf", b, f, ops] => some <|
    match parseNat? b, parseFile? (f.splitOn "/") 0, (ops.splitOn ",").mapM parseOp? with
    | some b, some file, some ops =>
      "ok " ++ " ".intercalate ((run file b (init file) ops).map fun r => showOut r.2 ++ "|" ++ showSt r.1)
    | _, _, _ => "bad-op"
  | _ => none

end Driver.Ops.C13RowsBuf
