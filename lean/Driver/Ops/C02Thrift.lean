import Driver.Proto
import PqModel.ThriftWrite

/-! C02, thrift round trip.
    `thrift.write <typed tree>` → `ok <hex of the mirror encoder's bytes> wf=<0|1> <untyped text of erase>`
    `thrift.read <hex>`         → `ok <untyped text of what the spec reader returns> <end offset>` | `err <reason>`

    Typed tree text (no spaces): `T` `F` bool · `b<int>` i8 · `h<int>` i16 · `i<int>` i32 · `l<int>` i64 ·
    `d<16 hex digits>` double bits · `s<hex>` binary · `L<elem type code>[v,v,…]` list ·
    `S{<id><flags>:v,…}` struct, flags among `r` (required) `w` (writezero) `z` (reflect IsZero).
    Untyped text: `T` `F` · `n<int>` · `d<hex>` · `s<hex>` · `[v,…]` · `{id:v,…}`. -/
namespace Driver.Ops.C02Thrift
open PqModel.Spec PqModel.ThriftWrite

def isDigit (c : Char) : Bool := '0' ≤ c && c ≤ '9'

def takeWhileC (p : Char → Bool) : List Char → List Char → List Char × List Char
  | [], acc => (acc.reverse, [])
  | c :: cs, acc => if p c then takeWhileC p cs (c :: acc) else (acc.reverse, c :: cs)

def parseIntC (cs : List Char) : Option (Int × List Char) :=
  let (neg, cs) := match cs with
    | '-' :: r => (true, r)
    | r => (false, r)
  let (ds, rest) := takeWhileC isDigit cs []
  if ds.isEmpty then none else
  let n := ds.foldl (fun a c => a * 10 + (c.toNat - '0'.toNat)) 0
  some (if neg then -(n : Int) else (n : Int), rest)

def parseHexC (cs : List Char) : Option (List UInt8 × List Char) :=
  let (hs, rest) := takeWhileC (fun c => (hexVal? c).isSome) cs []
  (parseHexAux hs []).map (·, rest)

mutual
def parseVal : Nat → List Char → Option (WVal × List Char)
  | 0, _ => none
  | fuel + 1, cs =>
    match cs with
    | 'T' :: r => some (.bool true, r)
    | 'F' :: r => some (.bool false, r)
    | 'b' :: r => (parseIntC r).map fun (i, r) => (.i8 i, r)
    | 'h' :: r => (parseIntC r).map fun (i, r) => (.i16 i, r)
    | 'i' :: r => (parseIntC r).map fun (i, r) => (.i32 i, r)
    | 'l' :: r => (parseIntC r).map fun (i, r) => (.i64 i, r)
    | 'd' :: r =>
      match parseHexAux (r.take 16) [] with
      | some bs => if bs.length == 8 then some (.double (UInt64.ofNat (bs.foldl (fun a b => a * 256 + b.toNat) 0)), r.drop 16) else none
      | none => none
    | 's' :: r => (parseHexC r).map fun (b, r) => (.bin b, r)
    | 'L' :: r =>
      match parseIntC r with
      | some (ety, '[' :: ']' :: r) => some (.list ety.toNat [], r)
      | some (ety, '[' :: r) => (parseElems fuel r []).map fun (xs, r) => (.list ety.toNat xs, r)
      | _ => none
    | 'S' :: '{' :: '}' :: r => some (.struct [], r)
    | 'S' :: '{' :: r => (parseFields fuel r []).map fun (fs, r) => (.struct fs, r)
    | _ => none
def parseElems : Nat → List Char → List WVal → Option (List WVal × List Char)
  | 0, _, _ => none
  | fuel + 1, cs, acc =>
    match parseVal fuel cs with
    | some (v, ',' :: r) => parseElems fuel r (v :: acc)
    | some (v, ']' :: r) => some ((v :: acc).reverse, r)
    | _ => none
def parseFields : Nat → List Char → List (FMeta × WVal) → Option (List (FMeta × WVal) × List Char)
  | 0, _, _ => none
  | fuel + 1, cs, acc =>
    match parseIntC cs with
    | none => none
    | some (id, r) =>
      let (fl, r) := takeWhileC (fun c => c == 'r' || c == 'w' || c == 'z') r []
      match r with
      | ':' :: r =>
        let m : FMeta := { id := id.toNat, required := fl.contains 'r', writezero := fl.contains 'w', zero := fl.contains 'z' }
        match parseVal fuel r with
        | some (v, ',' :: r) => parseFields fuel r ((m, v) :: acc)
        | some (v, '}' :: r) => some (((m, v) :: acc).reverse, r)
        | _ => none
      | _ => none
end

def parseTree (s : String) : Option WVal :=
  match parseVal (s.length + 2) s.toList with
  | some (v, []) => some v
  | _ => none

def hex64 (x : UInt64) : String :=
  String.ofList ((List.range 16).map fun i => hexDigit ((x.toNat >>> (4 * (15 - i))) % 16))

def hexBytes (bs : List UInt8) : String :=
  String.ofList (bs.foldr (fun b acc => hexDigit (b.toNat / 16) :: hexDigit (b.toNat % 16) :: acc) [])

mutual
def render : TVal → String
  | .bool b => if b then "T" else "F"
  | .int i => s!"n{i}"
  | .double b => "d" ++ hex64 b
  | .bin b => "s" ++ hexBytes b.toList
  | .list xs => "[" ++ renderL xs ++ "]"
  | .struct fs => "{" ++ renderF fs ++ "}"
def renderL : List TVal → String
  | [] => ""
  | [x] => render x
  | x :: xs => render x ++ "," ++ renderL xs
def renderF : List (Nat × TVal) → String
  | [] => ""
  | [(id, v)] => s!"{id}:" ++ render v
  | (id, v) :: fs => s!"{id}:" ++ render v ++ "," ++ renderF fs
end

def handle (toks : List String) : Option String :=
  match toks with
  | ["thrift.write", tree] =>
    match parseTree tree with
    | some (.struct fs) =>
      some s!"ok {toHex (writeStruct fs)} wf={if WfF 0 fs then 1 else 0} {render (erase (.struct fs))}"
    | _ => some "bad-op"
  | ["thrift.read", hex] =>
    match parseHex? hex with
    | none => some "bad-op"
    | some bs =>
      match readStruct ⟨bs.toArray⟩ 0 with
      | .ok (v, pos) => some s!"ok {render v} {pos}"
      | .error e => some s!"err {e.replace " " "-"}"
  | _ => none

end Driver.Ops.C02Thrift
