import Driver.Proto
import Driver.Ops.C03
import PqModel.Convert
import PqModel.ConvertChunks
import PqModel.ConvertEntry

/-! Ops for C12: schema conversion of one row.
    Named node text: `F` leaf | `G(<name>:<rp><node>,...)` group (`G()` is not used), rp = `q` required,
    `o` optional, `r` repeated; names are decimal ids whose numeric order is the order of the field
    names. Val text as in C03. -/
namespace Driver.Ops.C12
open Driver PqModel.Dremel PqModel.Convert

mutual
partial def parsePNode : List Char → Option (PNode × List Char)
  | 'F' :: r => some (.leaf, r)
  | 'G' :: '(' :: r => do
    let (fs, r) ← parsePFields r
    some (.group fs, r)
  | _ => none
partial def parsePFields : List Char → Option (PFields × List Char)
  | ')' :: r => some (.nil, r)
  | cs => do
    let (ds, r) := Driver.Ops.C03.takeDigits cs []
    let nm ← (String.ofList ds).toNat?
    match r with
    | ':' :: c :: r =>
      let rp ← (match c with | 'q' => some Rp.req | 'o' => some Rp.opt | 'r' => some Rp.rpt | _ => none)
      let (n, r) ← parsePNode r
      match r with
      | ',' :: r => do
        let (fs, r) ← parsePFields r
        some (.cons nm rp n fs, r)
      | ')' :: r => some (.cons nm rp n .nil, r)
      | _ => none
    | _ => none
end

/-- ops of `convert.fwd`: `r<cap>` = ReadRows with a buffer of `cap` rows, `s<row>` = SeekToRow -/
def fwdOps (st : Fwd Nat) (dead : Bool) : List String → List String
  | [] => []
  | op :: ops =>
    if dead then "dead" :: fwdOps st true ops else
    match op.toList with
    | 'r' :: ds =>
      match (String.ofList ds).toNat? with
      | some cap =>
        match Fwd.read cap (st.rest.length + 1) st with
        | (.rows xs, st') => showList toString xs :: fwdOps st' false ops
        | (.panic, st') => "panic" :: fwdOps st' true ops
      | none => ["bad"]
    | 's' :: ds =>
      match (String.ofList ds).toNat? with
      | some row =>
        match st.seekTo row with
        | some st' => "ok" :: fwdOps st' false ops
        | none => "err" :: fwdOps st false ops
      | none => ["bad"]
    | _ => ["bad"]

/-- `convert.run <src> <tgt> <val>` →
    `ok <conforms 0/1> <subN 0/1> <addN 0/1> <wf 0/1> | <mirror: convertRow src tgt (shred src v)> | <spec: shred tgt (project v)> | <project v>` -/
def handle (toks : List String) : Option String :=
  match toks with
  | ["convert.run", ss, ts, vs] => some <|
    match parsePNode ss.toList, parsePNode ts.toList, Driver.Ops.C03.parseVal vs.toList with
    | some (s, []), some (t, []), some (v, []) =>
      let cols := shred s v
      let pv := projN s t v
      let out := convertRow s t cols
      let exp := shred t pv
      let b (x : Bool) : String := if x then "1" else "0"
      s!"ok {b (confN (eraseN s) v)} {b (subN s t)} {b (addN 0 s t)} {b (wfN (eraseN s))} | {Driver.Ops.C03.showCols out} | {Driver.Ops.C03.showCols exp} | {Driver.Ops.C03.showVal pv}"
    | _, _, _ => "bad-op"
  | ["convert.chunks", ss, ts, ns, vs] => some <|
    -- `ok | <chunkView of the joined streams> | <rowView>`: values separated by `;`
    match parsePNode ss.toList, parsePNode ts.toList, ns.toNat?, (vs.splitOn ";").mapM (fun x => Driver.Ops.C03.parseVal x.toList) with
    | some (s, []), some (t, []), some n, some pvs =>
      if pvs.all (fun p => p.2.isEmpty) then
        let rows := pvs.map (·.1)
        let cols := joinRows (leavesP s) (rows.map (shred s))
        s!"ok | {Driver.Ops.C03.showCols (chunkView s t cols n)} | {Driver.Ops.C03.showCols (rowView s t rows)}"
      else "bad-op"
    | _, _, _, _ => "bad-op"
  | ["convert.sorting", flags] => some <|
    -- which of the source's sorting columns survive (1/0, comma separated) -> how many are declared
    match parseList? parseNat? flags with
    | some fs => s!"ok {(carrySorting (fun x => x != 0) fs).length}"
    | none => "bad-op"
  | ["convert.guards", ss, ts] => some <|
    -- `ok <EqualNodes(tgt, src)> <SameNodes(tgt, src)> <unique names src> <unique names tgt>` (0/1)
    match parsePNode ss.toList, parsePNode ts.toList with
    | some (s, []), some (t, []) =>
      let b (x : Bool) : String := if x then "1" else "0"
      s!"ok {b (equalN t s)} {b (sameN t s)} {b (nodupN s)} {b (nodupN t)}"
    | _, _ => "bad-op"
  | ["convert.retarget", total, targets] => some <|
    -- one `Reader.Read` per character of `targets` (the character names the target type) over a
    -- file of `total` rows: `<type><row>` per call, `eof` past the end
    match total.toNat? with
    | some n =>
      "ok " ++ ";".intercalate ((Rd.run Rd.init n Rd.fresh targets.toList).map fun
        | some (c, k) => s!"{c}{k}"
        | none => "eof")
    | none => "bad-op"
  | ["convert.fwd", total, ops] => some <|
    match total.toNat? with
    | some n => "ok " ++ ";".intercalate (fwdOps { rest := List.range n, seek := 0, index := 0 } false (ops.splitOn ";"))
    | none => "bad-op"
  | _ => none

end Driver.Ops.C12
