import Driver.Proto
import Driver.Ops.C03
import PqModel.Convert
import PqModel.ConvertChunks
import PqModel.ConvertEntry
import PqModel.ConvertViews

/-! Ops for C12: schema conversion of one row.
    Named node text: `F` leaf | `G(<name>:<rp><node>,...)` group (`G()` is not used), rp = `q` required,
    `o` optional, `r` repeated; names are decimal ids whose numeric order is the order of the field
    names. Val text as in C03. -/
namespace Driver.Ops.C12
open Driver PqModel.Dremel PqModel.Convert

mutual
partial def parsePNode : List Char → Option (PNode × List Char)
  | 'F' :: r => some (.leaf, r)
  | 'G' :: '(' :: r => do
    let (fs, r) ← parsePFields r
    some (.group fs, r)
  | _ => none
partial def parsePFields : List Char → Option (PFields × List Char)
  | ')' :: r => some (.nil, r)
  | cs => do
    let (ds, r) := Driver.Ops.C03.takeDigits cs []
    let nm ← (String.ofList ds).toNat?
    match r with
    | ':' :: c :: r =>
      let rp ← (match c with | 'q' => some Rp.req | 'o' => some Rp.opt | 'r' => some Rp.rpt | _ => none)
      let (n, r) ← parsePNode r
      match r with
      | ',' :: r => do
        let (fs, r) ← parsePFields r
        some (.cons nm rp n fs, r)
      | ')' :: r => some (.cons nm rp n .nil, r)
      | _ => none
    | _ => none
end

/-- View text of `convert.views`: `L<n>` transparent leaf of n rows (rows numbered consecutively
    over the whole text), `N<n>` leaf without the marker, `C(<v>)` ConvertRowGroup (f = +1000000,
    g = +2000000), `M(<v>,...)` multi row group, `R<off>.<len>(<v>)` = `rangeOf off len v`.
    Result: the view, the flag `inOrder` of every text node in preorder, the next row id. -/
partial def parseView (cs : List Char) (next : Nat) :
    Option (PqModel.ConvertViews.View Nat × List String × List Char × Nat) :=
  let b (x : Bool) : String := if x then "1" else "0"
  let fl (v : PqModel.ConvertViews.View Nat) : String := b (PqModel.ConvertViews.inOrder false v)
  let leaf (t : Bool) (r : List Char) :=
    let (ds, r) := Driver.Ops.C03.takeDigits r []
    match (String.ofList ds).toNat? with
    | some n =>
      let rs := (List.range n).map (· + next)
      let v : PqModel.ConvertViews.View Nat := .leaf t rs rs
      some (v, [fl v], r, next + n)
    | none => none
  match cs with
  | 'L' :: r => leaf true r
  | 'N' :: r => leaf false r
  | 'C' :: '(' :: r => do
    let (v, fs, r, nx) ← parseView r next
    match r with
    | ')' :: r =>
      let c : PqModel.ConvertViews.View Nat := .conv (· + 1000000) (· + 2000000) v
      some (c, fl c :: fs, r, nx)
    | _ => none
  | 'R' :: r => do
    let (ds, r) := Driver.Ops.C03.takeDigits r []
    let off ← (String.ofList ds).toNat?
    match r with
    | '.' :: r =>
      let (ds, r) := Driver.Ops.C03.takeDigits r []
      let len ← (String.ofList ds).toNat?
      match r with
      | '(' :: r => do
        let (v, fs, r, nx) ← parseView r next
        match r with
        | ')' :: r =>
          let c := PqModel.ConvertViews.rangeOf off len v
          some (c, fl c :: fs, r, nx)
        | _ => none
      | _ => none
    | _ => none
  | 'M' :: '(' :: r =>
    let rec members (r : List Char) (next : Nat) (acc : List (PqModel.ConvertViews.View Nat)) (fs : List String) :
        Option (List (PqModel.ConvertViews.View Nat) × List String × List Char × Nat) := do
      let (v, f, r, nx) ← parseView r next
      match r with
      | ',' :: r => members r nx (acc ++ [v]) (fs ++ f)
      | ')' :: r => some (acc ++ [v], fs ++ f, r, nx)
      | _ => none
    do
      let (vs, fs, r, nx) ← members r next [] []
      let m : PqModel.ConvertViews.View Nat := .multi (vs.foldr .cons .nil)
      some (m, fl m :: fs, r, nx)
  | _ => none

/-- ops of `convert.fwd`: `r<cap>` = ReadRows with a buffer of `cap` rows, `s<row>` = SeekToRow -/
def fwdOps (st : Fwd Nat) (dead : Bool) : List String → List String
  | [] => []
  | op :: ops =>
    if dead then "dead" :: fwdOps st true ops else
    match op.toList with
    | 'r' :: ds =>
      match (String.ofList ds).toNat? with
      | some cap =>
        match Fwd.read cap (st.rest.length + 1) st with
        | (.rows xs, st') => showList toString xs :: fwdOps st' false ops
        | (.panic, st') => "panic" :: fwdOps st' true ops
      | none => ["bad"]
    | 's' :: ds =>
      match (String.ofList ds).toNat? with
      | some row =>
        match st.seekTo row with
        | some st' => "ok" :: fwdOps st' false ops
        | none => "err" :: fwdOps st false ops
      | none => ["bad"]
    | _ => ["bad"]

/-- `convert.run <src> <tgt> <val>` →
    `ok <conforms 0/1> <subN 0/1> <addN 0/1> <wf 0/1> | <mirror: convertRow src tgt (shred src v)> | <spec: shred tgt (project v)> | <project v>` -/
def handle (toks : List String) : Option String :=
  match toks with
  | ["convert.run", ss, ts, vs] => some <|
    match parsePNode ss.toList, parsePNode ts.toList, Driver.Ops.C03.parseVal vs.toList with
    | some (s, []), some (t, []), some (v, []) =>
      let cols := shred s v
      let pv := projN s t v
      let out := convertRow s t cols
      let exp := shred t pv
      let b (x : Bool) : String := if x then "1" else "0"
      s!"ok {b (confN (eraseN s) v)} {b (subN s t)} {b (addN 0 s t)} {b (wfN (eraseN s))} | {Driver.Ops.C03.showCols out} | {Driver.Ops.C03.showCols exp} | {Driver.Ops.C03.showVal pv}"
    | _, _, _ => "bad-op"
  | ["convert.chunks", ss, ts, ns, vs] => some <|
    -- `ok | <chunkView of the joined streams> | <rowView>`: values separated by `;`
    match parsePNode ss.toList, parsePNode ts.toList, ns.toNat?, (vs.splitOn ";").mapM (fun x => Driver.Ops.C03.parseVal x.toList) with
    | some (s, []), some (t, []), some n, some pvs =>
      if pvs.all (fun p => p.2.isEmpty) then
        let rows := pvs.map (·.1)
        let cols := joinRows (leavesP s) (rows.map (shred s))
        s!"ok | {Driver.Ops.C03.showCols (chunkView s t cols n)} | {Driver.Ops.C03.showCols (rowView s t rows)}"
      else "bad-op"
    | _, _, _, _ => "bad-op"
  | ["convert.sorting", flags] => some <|
    -- which of the source's sorting columns survive (1/0, comma separated) -> how many are declared
    match parseList? parseNat? flags with
    | some fs => s!"ok {(carrySorting (fun x => x != 0) fs).length}"
    | none => "bad-op"
  | ["convert.guards", ss, ts] => some <|
    -- `ok <EqualNodes(tgt, src)> <SameNodes(tgt, src)> <unique names src> <unique names tgt>` (0/1)
    match parsePNode ss.toList, parsePNode ts.toList with
    | some (s, []), some (t, []) =>
      let b (x : Bool) : String := if x then "1" else "0"
      s!"ok {b (equalN t s)} {b (sameN t s)} {b (nodupN s)} {b (nodupN t)}"
    | _, _ => "bad-op"
  | ["convert.retarget", total, targets] => some <|
    -- one `Reader.Read` per character of `targets` (the character names the target type) over a
    -- file of `total` rows: `<type><row>` per call, `eof` past the end
    match total.toNat? with
    | some n =>
      "ok " ++ ";".intercalate ((Rd.run Rd.init n Rd.fresh targets.toList).map fun
        | some (c, k) => s!"{c}{k}"
        | none => "eof")
    | none => "bad-op"
  | ["convert.views", text] => some <|
    -- `ok <flags in preorder, comma separated> | <rows == sem 0/1> | <sem, ids without the conversion tags>`
    match parseView text.toList 0 with
    | some (v, fs, [], _) =>
      let b (x : Bool) : String := if x then "1" else "0"
      let rs := PqModel.ConvertViews.rows false v
      let sm := PqModel.ConvertViews.sem v
      s!"ok {",".intercalate fs} | {b (rs == sm)} | {showList toString (sm.map (· % 1000000))}"
    | _ => "bad-op"
  | ["convert.fwd", total, ops] => some <|
    match total.toNat? with
    | some n => "ok " ++ ";".intercalate (fwdOps { rest := List.range n, seek := 0, index := 0 } false (ops.splitOn ";"))
    | none => "bad-op"
  | _ => none

end Driver.Ops.C12
