import Driver.Proto
import PqModel.VariantWindow

/-! `variant.window <maxDef> <maxRep> <numRows> <pages> <ops>`: the windows one leaf column of the
    columnar VariantReader shows along a history of `Next` / `SeekToRow` / cursor creation.
    pages: `|`-separated, each `<levels>;<values>`, levels = comma list of `def.rep`, values = comma
    list of naturals (`-` = empty list; the whole field `-` = no page).
    ops: comma list of `n<k>` (Next(k)), `s<k>` (SeekToRow(k)), `a` (a cursor on the leaf is created).
    answer: one token per op: `W<n>:<defs>:<reps>:<denseIdx>:<values>:<starts 0>/../<starts maxRep>`,
    `R<n>` (rows, leaf not in use), `E` (io.EOF), `X` (error), `N` (nothing returned). -/
namespace Driver.Ops.C19Window
open Driver PqModel.VariantWindow

def parseLevel? (s : String) : Option (Nat × Nat) :=
  match s.splitOn "." with
  | [d, r] => match d.toNat?, r.toNat? with
    | some d, some r => some (d, r)
    | _, _ => none
  | _ => none

def parsePage? (s : String) : Option Page :=
  match s.splitOn ";" with
  | [lv, vs] => match parseList? parseLevel? lv, parseList? parseNat? vs with
    | some lv, some vs => some ⟨lv, vs⟩
    | _, _ => none
  | _ => none

def parsePages? (s : String) : Option (List Page) :=
  if s == "-" then some [] else (s.splitOn "|").mapM parsePage?

def parseOp? (s : String) : Option Op :=
  if s == "a" then some .attach
  else match s.toList with
    | 'n' :: t => (String.ofList t).toNat?.map .next
    | 's' :: t => (String.ofList t).toNat?.map .seek
    | _ => none

def showOut (maxRep : Nat) : Out → String
  | .win n w =>
    let reps := winReps maxRep w
    let sts := (List.range (maxRep + 1)).map (fun d => showList toString (starts reps w.length d))
    s!"W{n}:{showList toString (winDefs w)}:{showList toString reps}:{showList toString (denseIdxFrom 0 w)}:{showList toString (winValues w)}:{"/".intercalate sts}"
  | .rows n => s!"R{n}"
  | .eof => "E"
  | .err => "X"
  | .nothing => "N"

def handle (toks : List String) : Option String :=
  match toks with
  | ["variant.window", maxDef, maxRep, numRows, pages, ops] => some <|
    match parseNat? maxDef, parseNat? maxRep, parseNat? numRows, parsePages? pages, parseList? parseOp? ops with
    | some maxDef, some maxRep, some numRows, some col, some ops =>
      "ok " ++ " ".intercalate ((run maxDef col (init numRows) ops).map (showOut maxRep))
    | _, _, _, _, _ => "bad-op"
  | ["variant.slotof", reps, nslots, depth, g] => some <|
    match parseList? parseNat? reps, parseNat? nslots, parseNat? depth, parseNat? g with
    | some reps, some nslots, some depth, some g =>
      match slotOf reps nslots depth g with
      | some s => s!"ok {s}"
      | none => "ok none"
    | _, _, _, _ => "bad-op"
  | _ => none

end Driver.Ops.C19Window
