import Driver.Proto
import Driver.Ops.C17
import PqModel.ResetSlots

/-! C17 ops for the row-group slots of `w.rowGroups` (PqModel/ResetSlots.lean).

`slots.run <mirror> <cfgSorting> <leaves> <ops>` -> `ok <rg>;<rg>;…` (`-` when no row group is listed)

* mirror: `current` (the library as it stands) | `fixed` | `asis`
* cfgSorting: comma list of `idx:desc:nullsFirst` or `-` (the writer's configured sorting columns)
* leaves: `;`-separated leaf paths in column order, path = `.`-separated hex strings
* ops: `;`-separated: `g:<nchunks>:<rgsorting>` WriteRowGroup of a row group declaring the sorting
  columns rgsorting = comma list of `path/desc/nullsFirst` or `-`; `r` Reset
* rg: `<number of column chunks>|<sorting>`, sorting = `nil` (no list) | `-` (empty list) |
  comma list of `idx:desc:nullsFirst` -/
namespace Driver.Ops.C17Slots
open Driver PqModel.ResetSlots
open PqModel.Reset (SortCol Str)
open Driver.Ops.C17 (parsePath? parseSort? bit? b01)

def parseRGSort? (s : String) : Option RGSort :=
  match s.splitOn "/" with
  | [p, d, n] =>
    match parsePath? p, bit? d, bit? n with
    | some p, some d, some n => some ⟨p, d, n⟩
    | _, _, _ => none
  | _ => none

def parseOp? (s : String) : Option Op :=
  match s.splitOn ":" with
  | ["g", n, srt] =>
    match parseNat? n, parseList? parseRGSort? srt with
    | some n, some srt => some (.commit ⟨List.replicate n 1, srt, []⟩)
    | _, _ => none
  | ["r"] => some .reset
  | _ => none

def showSlot (s : Slot) : String :=
  toString s.columns.length ++ "|" ++
    (match s.sorting with
     | none => "nil"
     | some l => showList (fun (c : SortCol) => s!"{c.columnIdx}:{b01 c.descending}:{b01 c.nullsFirst}") l)

/-- the mirror of the library as it stands: the repaired one since 8f4fe5a -/
def currentSorting := sortingFixed

def mirror? (s : String) : Option (List SortCol → List (List Str) → Commit → Option Slot → Option (List SortCol)) :=
  if s == "current" then some currentSorting else if s == "fixed" then some sortingFixed
  else if s == "asis" then some sortingAsIs else none

def handle (toks : List String) : Option String :=
  match toks with
  | ["slots.run", m, cfg, leaves, ops] => some <|
    match mirror? m, parseList? parseSort? cfg, (leaves.splitOn ";").mapM parsePath?,
          (if ops == "-" then some [] else (ops.splitOn ";").mapM parseOp?) with
    | some m, some cfg, some leaves, some ops =>
      let out := emit (runWith m cfg leaves ops Slots.fresh)
      "ok " ++ (if out.isEmpty then "-" else ";".intercalate (out.map showSlot))
    | _, _, _, _ => "bad-op"
  | _ => none

end Driver.Ops.C17Slots
