import Driver.Proto
import Driver.Ops.C10
import PqModel.ResetBuf

/-! C17 ops for the Buffer side of reuse (PqModel/ResetBuf.lean): a column buffer with the state
`Reset()` leaves alone, stepped through a history; one observation per step.

`bufreset.opt <m> <op>…` -> `ok <obs> <obs> …`   (optionalColumnBuffer over an int64 column)
   ops: `n:<d>:<k>` k null rows of level d · `v:<x;y;…>` a run of values · `s:<i>:<j>` Swap ·
        `p` Page() · `r` Reset()
   obs: `<Len>/<Size>/<reordered 0|1>/<sortIndex[:len]>`, after `p` followed by
        `|<base values of the page>|<definition levels of the page>`
`bufreset.rep <m> <op>…` -> `ok <obs> …`          (repeatedColumnBuffer over an int64 column)
   ops: `w:<rep/def/value|n;…>` one row · `s:<i>:<j>` · `p` · `r`
   obs: `<Len>/<Size>/<reordered>/<spare: n | rows.levels.base lengths>`, after `p` followed by
        `|<base values>|<rep/def,…>`

The memory under a re-extended `sortIndex` is taken as zeros (`page []`): `Props/C17Buf` proves the
page and the index left behind do not depend on it. -/
namespace Driver.Ops.C17Buf
open Driver PqModel.SortBuf PqModel.ResetBuf
open Driver.Ops.C10 (parse2 parseCell showInts showPairs)

def b01 (b : Bool) : String := if b then "1" else "0"
def showNats (xs : List Nat) : String := showList (fun (n : Nat) => toString n) xs

/-- mirror of `optionalColumnBuffer.Reset` as the library has it -/
def optResetCur (b : OptBuf Int) : OptBuf Int := b.reset
/-- mirror of `repeatedColumnBuffer.Reset` as the library has it -/
def repResetCur (b : RepBuf Int) : RepBuf Int := b.reset

def obsOpt (b : OptBuf Int) : String :=
  s!"{b.len}/{b.size 8}/{b01 b.col.reordered}/{showNats b.sortIdx}"

def parseOpt (tok : String) : Option (BOp Int) :=
  match tok.splitOn ":" with
  | ["n", d, n] => (parse2 d n).map fun (d, n) => .write (.nulls d n)
  | ["v", vs] => ((vs.splitOn ";").mapM parseInt?).map fun vs => .write (.vals vs)
  | ["s", i, j] => (parse2 i j).map fun (i, j) => .swap i j
  | ["p"] => some (.page [])
  | ["r"] => some .reset
  | _ => none

def stepOpt (m : Nat) (st : OptBuf Int × List String) (op : BOp Int) : OptBuf Int × List String :=
  let b' := match op with
    | .reset => optResetCur st.1
    | op => st.1.step m op
  let o := match op with
    | .page _ => obsOpt b' ++ "|" ++ showInts b'.col.base ++ "|" ++ showNats b'.col.defs
    | _ => obsOpt b'
  (b', o :: st.2)

def obsRep (b : RepBuf Int) : String :=
  let sp := match b.spare with
    | none => "n"
    | some c => s!"{c.rows.length}.{c.lv.length}.{c.base.length}"
  s!"{b.len}/{b.size 8}/{b01 b.col.reordered}/{sp}"

def parseRep (tok : String) : Option (ROp Int) :=
  match tok.splitOn ":" with
  | ["w", cs] => ((cs.splitOn ";").mapM parseCell).map .write
  | ["s", i, j] => (parse2 i j).map fun (i, j) => .swap i j
  | ["p"] => some .page
  | ["r"] => some .reset
  | _ => none

def stepRep (m : Nat) (st : RepBuf Int × List String) (op : ROp Int) : RepBuf Int × List String :=
  let b' := match op with
    | .reset => repResetCur st.1
    | op => st.1.step m op
  let o := match op with
    | .page => obsRep b' ++ "|" ++ showInts b'.col.base ++ "|" ++ showPairs b'.col.lv
    | _ => obsRep b'
  (b', o :: st.2)

def handle (toks : List String) : Option String :=
  match toks with
  | "bufreset.opt" :: m :: ops => some <|
    match parseNat? m, ops.mapM parseOpt with
    | some m, some ops =>
      let r := ops.foldl (stepOpt m) (OptBuf.fresh, [])
      "ok " ++ " ".intercalate r.2.reverse
    | _, _ => "bad-op"
  | "bufreset.rep" :: m :: ops => some <|
    match parseNat? m, ops.mapM parseRep with
    | some m, some ops =>
      let r := ops.foldl (stepRep m) (RepBuf.fresh, [])
      "ok " ++ " ".intercalate r.2.reverse
    | _, _ => "bad-op"
  | _ => none

end Driver.Ops.C17Buf
