import Driver.Proto
import PqModel.RowBufferRows
import PqModel.SeekForeign

/-! Driver ops tying two mirrors of C08 to the code (round 6, fourth wave):
`rbrows.run` runs a history on the mirror of `rowBufferRows` (RowBufferRows.lean), `dictskip.run`
iterates the mirror of the loop of `readPageInSequence` (SeekForeign.lean) over the pages of a chunk. -/
namespace Driver.Ops.C08Tie
open Driver

/-! ## rowBufferRows -/
open PqModel.RowBufferRows in
/-- one token per op: seek `s:<ok|oor|closed>:<index>`, read `r:<n>:<eof 0/1>:<first row|->:<last row|->:<index>`
    (the rows are their indexes `0..n-1`, so a returned batch is told by its first and last row and its
    length when it is contiguous; `!` is appended when it is not), close `c:<index>` -/
def rbStep (short : Bool) (s : St Nat) (op : String) : Option (St Nat × String) :=
  if op == "c" then
    let s' := close s
    some (s', s!"c:{s'.index}")
  else if op.startsWith "s" then
    match parseInt? (op.drop 1).toString with
    | none => none
    | some k =>
      let (s', o) := seek short s k
      let os := match o with | .ok => "ok" | .outOfRange => "oor" | .closed => "closed"
      some (s', s!"s:{os}:{s'.index}")
  else if op.startsWith "r" then
    match parseNat? (op.drop 1).toString with
    | none => none
    | some b =>
      let (s', out, eof) := read s b
      let shown (o : Option Nat) : String := match o with | some v => toString v | none => "-"
      let contiguous := out == (List.range out.length).map (· + out.headD 0)
      some (s', s!"r:{out.length}:{if eof then 1 else 0}:{shown out.head?}:{shown out.getLast?}:{s'.index}" ++ (if contiguous then "" else "!"))
  else none

open PqModel.RowBufferRows in
def rbRun (short : Bool) : St Nat → List String → List String → Option (List String)
  | _, [], acc => some acc.reverse
  | s, op :: ops, acc =>
    match rbStep short s op with
    | none => none
    | some (s', tok) => rbRun short s' ops (tok :: acc)

/-! ## the loop of readPageInSequence -/
open PqModel.Layout PqModel.SeekForeign

/-- `<d|p>:<hdrLen>:<bodyLen>:<uncompLen>` -/
def parsePage? (s : String) : Option PageOp :=
  match s.splitOn ":" with
  | [k, h, b, u] =>
    match parseNat? h, parseNat? b, parseNat? u with
    | some h, some b, some u =>
      if k == "d" then some ⟨true, h, b, u, 0, 0⟩ else if k == "p" then some ⟨false, h, b, u, 0, 0⟩ else none
    | _, _, _ => none
  | _ => none

/-- `m` calls of the mirror one after the other (each goes on behind the page the one before returned,
    with the dictionary cached once a dictionary page has been passed or a data page returned after
    one): per call `<offset of the header of the page returned>:<offset behind it>:<pages left behind it>`,
    or `none` (the stream ends before a data page) and stop. -/
def skipRun (sk : SkipBy) : Nat → Bool → Nat → List PageOp → List String → List String
  | 0, _, _, _, acc => acc.reverse
  | m + 1, cached, off, ps, acc =>
    match nextPage sk cached off ps with
    | none => ("none" :: acc).reverse
    | some (h, _, after) =>
      -- the pages behind the returned one: drop the dictionary pages passed and the page itself
      let rest := (ps.dropWhile (·.isDict)).drop 1
      let cached' := cached || ps.head?.any (·.isDict)
      skipRun sk m cached' after rest (s!"{h}:{after}:{rest.length}" :: acc)

def handle (toks : List String) : Option String :=
  match toks with
  -- `rbrows.run <short 0|1> <number of rows> <ops s<k>|r<b>|c>` -> `ok <token per op>`
  | ["rbrows.run", short, n, ops] => some <|
    match parseNat? short, parseNat? n with
    | some short, some n =>
      match rbRun (short == 1) ⟨List.range n, 0⟩ (splitList ops) [] with
      | some out => "ok " ++ showList id out
      | none => "bad-op"
    | _, _ => "bad-op"
  -- `dictskip.run <c|u> <cached 0|1> <offset> <pages from that offset> <m>` -> `ok <token per call>`
  | ["dictskip.run", sk, cached, off, pages, m] => some <|
    match parseNat? cached, parseNat? off, parseList? parsePage? pages, parseNat? m with
    | some cached, some off, some ps, some m =>
      if sk != "c" && sk != "u" then "bad-op" else
      "ok " ++ showList id (skipRun (if sk == "c" then .compressed else .uncompressed) m (cached == 1) off ps [])
    | _, _, _, _ => "bad-op"
  | _ => none

end Driver.Ops.C08Tie
