import Driver.Proto
import PqModel.Rle
import PqModel.RleDecode
import PqModel.RleBoolBytes
import PqModel.BitPackedDecode

namespace Driver.Ops.C04Rle
open Driver PqModel.Rle

def bytesOf (bs : List UInt8) : List Nat := bs.map (·.toNat)
def hexOf (ns : List Nat) : String := toHex (ns.map UInt8.ofNat)

def showVals (r : Except Err (List Nat)) : String :=
  match r with
  | .ok vs => s!"ok {showList toString vs}"
  | .error e => s!"err {e.name}"

def showBytes (r : Except Err (List Nat)) : String :=
  match r with
  | .ok bs => s!"ok {hexOf bs}"
  | .error e => s!"err {e.name}"

/-- `rle.specdec <kind> <w> <n> <hex>` -> `ok v1,v2,..` | `err <class>`
      kind: hybrid (no prefix, width w) | v1 (4-byte length prefix, width w) | bool | dict
    `rle.enc <kind> <w> <input>` -> `ok <hex>` | `err invalid-bit-width`
      kind: levels (input hex bytes) | int32 | int32avx2 (input decimal uint32 list) | bool (hex,
      packed bits) | dict (decimal list) -/
def handle (toks : List String) : Option String :=
  match toks with
  | ["rle.specdec", kind, w, n, hex] => some <|
    match parseNat? w, parseNat? n, parseHex? hex with
    | some w, some n, some bs =>
      let bs := bytesOf bs
      match kind with
      | "hybrid" => showVals (specDecode w n bs)
      | "v1" => showVals (specDecodeLevelsV1 w n bs)
      | "bool" => showVals (specDecodeBoolean n bs)
      | "dict" => showVals (specDecodeDict n bs)
      | _ => "bad-op"
    | _, _, _ => "bad-op"
  | ["rle.enc", kind, w, input] => some <|
    match parseNat? w with
    | none => "bad-op"
    | some w =>
      match kind with
      | "levels" => match parseHex? input with
        | some bs => showBytes (encodeLevels w (bytesOf bs))
        | none => "bad-op"
      | "bool" => match parseHex? input with
        | some bs => showBytes (.ok (encodeBoolean (bytesOf bs)))
        | none => "bad-op"
      | "int32" => match parseList? parseNat? input with
        | some xs => if xs.all (· < 2 ^ 32) then showBytes (encodeInt32 w xs) else "bad-op"
        | none => "bad-op"
      | "int32avx2" => match parseList? parseNat? input with
        | some xs => if xs.all (· < 2 ^ 32) then showBytes (encodeInt32AVX2 w xs) else "bad-op"
        | none => "bad-op"
      | "dict" => match parseList? parseNat? input with
        | some xs => if xs.all (· < 2 ^ 32) then showBytes (encodeDict xs) else "bad-op"
        | none => "bad-op"
      | _ => "bad-op"
  | ["rle.godeclevels", w, hex] => some <|
    match parseNat? w, parseHex? hex with
    | some w, some bs => showVals (goDecodeLevels w (bytesOf bs))
    | _, _ => "bad-op"
  | ["rle.godecint32", w, hex] => some <|
    match parseNat? w, parseHex? hex with
    | some w, some bs => showVals (goDecodeInt32 w (bytesOf bs))
    | _, _ => "bad-op"
  | ["rle.godecdict", hex] => some <|
    match parseHex? hex with
    | some bs => showVals (goDecodeDict (bytesOf bs))
    | none => "bad-op"
  | ["rle.gopackbytes", w, hex] => some <|
    match parseNat? w, parseHex? hex with
    | some w, some bs =>
      let bs := bytesOf bs
      showBytes (.ok (goEncodeBytesBitpack w (groups8 (bs.length / 8) bs)))
    | _, _ => "bad-op"
  | ["rle.godecbool", hex] => some <|
    match parseHex? hex with
    | some bs => showBytes (goDecodeBoolean (bytesOf bs))
    | none => "bad-op"
  -- `rle.godecboolbytes <stale byte> <hex>`: the BYTE-level mirror of DecodeBoolean over a
  -- destination whose spare capacity is filled with the given byte
  | ["rle.godecboolbytes", st, hex] => some <|
    match parseNat? st, parseHex? hex with
    | some st, some bs =>
      let bs := bytesOf bs
      showBytes (goDecodeBooleanBytes (List.replicate (8 * bs.length + 8256) st) bs)
    | _, _ => "bad-op"
  | ["bitpacked.specdec", w, n, hex] => some <|
    match parseNat? w, parseNat? n, parseHex? hex with
    | some w, some n, some bs => showVals (specDecodeBitPacked w n (bytesOf bs))
    | _, _, _ => "bad-op"
  -- `bitpacked.godec <w> <hex>`: mirror of bitpacked.decodeLevels (all ceil(8*len/w) values)
  | ["bitpacked.godec", w, hex] => some <|
    match parseNat? w, parseHex? hex with
    | some w, some bs => showVals (.ok (goDecodeBitPacked w (bytesOf bs)))
    | _, _ => "bad-op"
  | ["bitpacked.enc", w, hex] => some <|
    match parseNat? w, parseHex? hex with
    | some w, some bs => showBytes (.ok (encodeBitPacked w (bytesOf bs)))
    | _, _ => "bad-op"
  | _ => none

end Driver.Ops.C04Rle
