import Driver.Proto
import PqModel.Stats
import PqModel.LevelStats
import PqModel.StatsDecimal
import PqModel.StatsRecord
import PqModel.StatsMulti

/-! Ops of C05 (statistics / page indexes). Numeric values travel as unsigned decimal BIT PATTERNS
    (`i32 4294967291` is -5; `f32 2143289344` is a NaN), byte strings as hex (`e` = empty string, `-` = empty list).

    c05.truncmin <hex> <n>            -> ok <hex>          truncateLargeMinByteArrayValue
    c05.truncmax <hex> <n>            -> ok <hex>          truncateLargeMaxByteArrayValue (repaired code)
    c05.truncmax.beforefix <hex> <n>  -> ok <hex>          the code before the all-0xFF fix (regression)
    c05.bounds <kind> <values>        -> ok none | ok <min> <max>     Page.Bounds()
    c05.order <kind> <values>         -> ok <-1|0|1>       orderOf* (kind bool: values 0/1)
    c05.border <a> <b>                -> ok <0|1|2>        boundaryOrderOf
    c05.cmp <kind> <a> <b>            -> ok <-1|0|1>       Type.Compare
    c05.index <kind> <lim> <pages>    -> ok <order> <mins> <maxs>     ColumnIndexer (pages: min:max or n; also flba<size>, be128)
    c05.fold <kind> <pages>           -> ok none | ok <min> <max>     recordPageStats chunk fold
    c05.hist <maxLevel> <pages>       -> ok <chunk histogram> <flat page histograms>   level histograms
    c05.order dec <values>            -> ok <-1|0|1>       orderOfDecimalBytes
    c05.index dec <lim> <pages>       -> ok <order> <mins> <maxs>     decimalColumnIndexer (lim ignored)
    c05.bounds dec|decd <values>      -> decimalPage.Bounds / decimalDictionary.Bounds (literal mirrors)
    c05.record <kind> <pages>         -> ok <index> <null counts> <chunk min:max|none> <chunk nulls>   writerRecord
                                         pages separated by `;`, values by `,`, `n` = null
    c05.levels <maxDef> <maxRep> <entries>  -> ok <numValues> <numNulls> <numRows> <defHist> <repHist> <unencoded>
                                         entries `def:rep:hex|n` separated by `,`
    c05.multi <members>               -> ok <asc><desc> <asc><desc>   multiColumnIndex.IsAscending/IsDescending (repaired code,
                                         then the code before the repair); members separated by `;`, each
                                         `<asc><desc>/<pages>` with the member's own flags (0/1) and its pages as RANKS `min:max` or `n`
    kinds: i32 i64 u32 u64 f32 f64 | bytes flba dec int96 (hex) | bool -/
namespace Driver.Ops.C05
open Driver PqModel PqModel.Stats

/-- byte strings: hex, the empty string is `e` (so that `-` stays the empty LIST) -/
def hexN (bs : List Nat) : String := if bs.isEmpty then "e" else toHex (bs.map UInt8.ofNat)
def parseHexN? (s : String) : Option (List Nat) :=
  if s == "e" then some [] else if s == "-" then none else (parseHex? s).map (·.map UInt8.toNat)

structure NumKind where
  w : Nat
  o : ColOrder (BitVec w)
  isFloat : Bool

def numKind? : String → Option NumKind
  | "i32" => some ⟨32, sint 32, false⟩
  | "i64" => some ⟨64, sint 64, false⟩
  | "u32" => some ⟨32, uint 32, false⟩
  | "u64" => some ⟨64, uint 64, false⟩
  | "f32" => some ⟨32, f32, true⟩
  | "f64" => some ⟨64, f64, true⟩
  | _ => none

/-- INT96 travels as its 12 PLAIN bytes (three little-endian 32-bit words) -/
def leWord (bs : List Nat) : Nat := bs.foldr (fun b acc => b + 256 * acc) 0
def i96Words (bs : List Nat) : I96 := (leWord (bs.take 4), leWord ((bs.drop 4).take 4), leWord ((bs.drop 8).take 4))

/-- the order of a byte-string kind: `dec` compares with the mirror of `compareDecimalByteArrays` -/
def bytesLt? : String → Option (List Nat → List Nat → Bool)
  | "bytes" => some lexLt
  | "flba" => some lexLt
  | "dec" => some (fun a b => cmpDecimal a b < 0)
  | "int96" => some (fun a b => int96Less (i96Words a) (i96Words b))
  | _ => none

def bytesOrder (lt : List Nat → List Nat → Bool) : ColOrder (List Nat) := { lt := lt, ok := fun _ => true }

def showPair {α} (f : α → String) : Option (α × α) → String
  | none => "ok none"
  | some (a, b) => s!"ok {f a} {f b}"

def cmp3 {α} (lt : α → α → Bool) (a b : α) : Int := if lt a b then -1 else if lt b a then 1 else 0

/-- `min:max` or `n` -/
def parsePage? {α} (p : String → Option α) (s : String) : Option (Option (α × α)) :=
  if s == "n" then some none else
  match s.splitOn ":" with
  | [a, b] => match p a, p b with
    | some x, some y => some (some (x, y))
    | _, _ => none
  | _ => none

def showNat (w : Nat) (b : BitVec w) : String := toString b.toNat

/-- a value or `n` (null) -/
def parseOpt? {α} (p : String → Option α) (s : String) : Option (Option α) :=
  if s == "n" then some none else (p s).map some

def showRecord {α} (f : α → String) (r : ChunkRecord α) : String :=
  let e := fun (p : Option (α × α)) => match p with | none => "n" | some (a, b) => s!"{f a}:{f b}"
  let chunk := match r.chunk with | none => "none" | some (a, b) => s!"{f a}:{f b}"
  s!"ok {showList e r.index} {showList toString r.nullCounts} {chunk} {r.chunkNulls}"

/-- `def:rep:hex` or `def:rep:n` -/
def parseEntry? (s : String) : Option (LevelStats.Entry (List Nat)) :=
  match s.splitOn ":" with
  | [d, r, v] =>
    match parseNat? d, parseNat? r, parseOpt? parseHexN? v with
    | some d, some r, some v => some ⟨d, r, v⟩
    | _, _, _ => none
  | _ => none

/-- ranks compare as naturals -/
def rankOrder : ColOrder Nat := ofKey (fun n => (n : Int)) (fun _ => false)

/-- `<asc><desc>/<pages>` -/
def parseMember? (s : String) : Option (MChunk Nat) :=
  match s.splitOn "/" with
  | [flags, pages] =>
    match flags.toList, parseList? (parsePage? parseNat?) pages with
    | [a, d], some ps => some ⟨ps, a == '1', d == '1'⟩
    | _, _ => none
  | _ => none

def bit (b : Bool) : String := if b then "1" else "0"

def handle (toks : List String) : Option String :=
  match toks with
  | ["c05.multi", members] => some <|
    match (members.splitOn ";").mapM parseMember? with
    | some cs =>
      s!"ok {bit (multiAsc rankOrder cs)}{bit (multiDesc rankOrder cs)} {bit (multiAsc_before_fix rankOrder cs)}{bit (multiDesc_before_fix rankOrder cs)}"
    | none => "bad-op"
  | ["c05.truncmin", v, n] => some <|
    match parseHexN? v, parseNat? n with
    | some v, some n => s!"ok {hexN (truncMin v n)}"
    | _, _ => "bad-op"
  | ["c05.truncmax", v, n] => some <|
    match parseHexN? v, parseNat? n with
    | some v, some n => s!"ok {hexN (truncMax v n)}"
    | _, _ => "bad-op"
  | ["c05.truncmax.beforefix", v, n] => some <|
    match parseHexN? v, parseNat? n with
    | some v, some n => s!"ok {hexN (truncMax_before_fix v n)}"
    | _, _ => "bad-op"
  | ["c05.bounds", kind, vals] => some <|
    match numKind? kind with
    | some k =>
      match parseList? parseNat? vals with
      | some xs =>
        let bs := xs.map (BitVec.ofNat k.w)
        showPair (showNat k.w) (if k.isFloat then boundsNaN k.o bs else bounds k.o.lt bs)
      | none => "bad-op"
    | none =>
      match kind, parseList? parseHexN? vals with
      | "bytes", some xs => showPair hexN (boundsSwitch lexLt xs)
      | "flba", some xs => showPair hexN (bounds lexLt xs)
      | "dec", some xs => showPair hexN (boundsDecimal xs)
      | "decd", some xs => showPair hexN (boundsDecimalDict xs)
      | "int96", some xs => showPair hexN (bounds (fun a b => int96Less (i96Words a) (i96Words b)) xs)
      | _, _ => "bad-op"
  | ["c05.order", kind, vals] => some <|
    match numKind? kind with
    | some k =>
      match parseList? parseNat? vals with
      | some xs => s!"ok {orderOf k.o.lt (xs.map (BitVec.ofNat k.w))}"
      | none => "bad-op"
    | none =>
      match kind with
      | "bytes" =>
        match parseList? parseHexN? vals with
        | some xs => s!"ok {orderOfBytes xs}"
        | none => "bad-op"
      | "bool" =>
        match parseList? parseNat? vals with
        | some xs => s!"ok {orderOfBool (xs.map (· != 0))}"
        | none => "bad-op"
      | "int96" =>
        match parseList? parseHexN? vals with
        | some xs => s!"ok {orderOf (fun a b => int96Less (i96Words a) (i96Words b)) xs}"
        | none => "bad-op"
      | "dec" =>
        match parseList? parseHexN? vals with
        | some xs => s!"ok {orderOfDecimal xs}"
        | none => "bad-op"
      | _ => "bad-op"
  | ["c05.border", a, b] => some <|
    match parseInt? a, parseInt? b with
    | some a, some b => s!"ok {boundaryOrderOf a b}"
    | _, _ => "bad-op"
  | ["c05.cmp", kind, a, b] => some <|
    match numKind? kind with
    | some k =>
      match parseNat? a, parseNat? b with
      | some a, some b => s!"ok {cmp3 k.o.lt (BitVec.ofNat k.w a) (BitVec.ofNat k.w b)}"
      | _, _ => "bad-op"
    | none =>
      match bytesLt? kind, parseHexN? a, parseHexN? b with
      | some lt, some a, some b =>
        if kind == "dec" then s!"ok {cmpDecimal a b}" else s!"ok {cmp3 lt a b}"
      | _, _, _ => "bad-op"
  | ["c05.index", kind, lim, pages] => some <|
    match numKind? kind with
    | some k =>
      match parseList? (parsePage? parseNat?) pages with
      | some ps =>
        let ps := ps.map (fun p => p.map (fun (a, b) => (BitVec.ofNat k.w a, BitVec.ofNat k.w b)))
        let z := BitVec.ofNat k.w 0
        s!"ok {indexOrder k.o z ps} {showList (showNat k.w) (storedMins z ps)} {showList (showNat k.w) (storedMaxs z ps)}"
      | none => "bad-op"
    | none =>
      match kind, parseNat? lim, parseList? (parsePage? parseHexN?) pages with
      | "bytes", some lim, some ps =>
        s!"ok {bytesIndexOrder lim ps} {showList hexN (bytesIndexMins lim ps)} {showList hexN (bytesIndexMaxs lim ps)}"
      | "dec", some _, some ps =>
        s!"ok {decimalIndexOrder ps} {showList hexN (decimalIndexMins ps)} {showList hexN (decimalIndexMaxs ps)}"
      | "int96", some _, some ps =>
        let o := bytesOrder (fun a b => int96Less (i96Words a) (i96Words b))
        let z := List.replicate 12 0
        s!"ok {indexOrder o z ps} {showList hexN (storedMins z ps)} {showList hexN (storedMaxs z ps)}"
      | kind, some lim, some ps =>
        -- `flba<size>`: fixedLenByteArrayColumnIndexer; `be128`: the 16-byte indexer (never truncates)
        let size? : Option (Nat × Nat) :=
          if kind == "be128" then some (16, 0)
          else if kind.startsWith "flba" then ((kind.drop 4).toNat?).map (fun n => (n, lim))
          else none
        match size? with
        | some (size, lim) =>
          s!"ok {flbaIndexOrder size lim ps} {showList hexN (flbaIndexMins size lim ps)} {showList hexN (flbaIndexMaxs size lim ps)}"
        | none => "bad-op"
      | _, _, _ => "bad-op"
  | ["c05.fold", kind, pages] => some <|
    match numKind? kind with
    | some k =>
      match parseList? (parsePage? parseNat?) pages with
      | some ps =>
        let ps := ps.map (fun p => p.map (fun (a, b) => (BitVec.ofNat k.w a, BitVec.ofNat k.w b)))
        showPair (showNat k.w) (foldChunk k.o ps)
      | none => "bad-op"
    | none =>
      match bytesLt? kind, parseList? (parsePage? parseHexN?) pages with
      | some lt, some ps => showPair hexN (foldChunk (bytesOrder lt) ps)
      | _, _ => "bad-op"
  | ["c05.record", kind, pages] => some <|
    match numKind? kind with
    | some k =>
      match (pages.splitOn ";").mapM (parseList? (parseOpt? parseNat?)) with
      | some ps =>
        let ps := ps.map (fun p => p.map (fun v => v.map (BitVec.ofNat k.w)))
        showRecord (showNat k.w) (writerRecord k.o ps [])
      | none => "bad-op"
    | none =>
      match (pages.splitOn ";").mapM (parseList? (parseOpt? parseHexN?)) with
      | some ps =>
        match kind with
        | "dec" => showRecord hexN (writerRecord (bytesOrder decLt) ps [])
        | _ =>
          match bytesLt? kind with
          | some lt => showRecord hexN (writerRecord (bytesOrder lt) ps [])
          | none => "bad-op"
      | none => "bad-op"
  | ["c05.levels", maxDef, maxRep, entries] => some <|
    match parseNat? maxDef, parseNat? maxRep, parseList? parseEntry? entries with
    | some md, some mr, some es =>
      let r := LevelStats.pageLevelStats md mr es
      s!"ok {r.numValues} {r.numNulls} {r.numRows} {showList toString r.defHist} {showList toString r.repHist} {r.unencoded}"
    | _, _, _ => "bad-op"
  | ["c05.bufnulls", maxDef, defs] => some <|
    -- mirror of nullableColumnIndex.NullCount / NullPage over the definition levels of the buffer (`-` = none),
    -- then the level-0 slip for comparison
    match parseNat? maxDef, parseList? parseNat? defs with
    | some md, some ds =>
      let b := fun (x : Bool) => if x then "1" else "0"
      s!"ok {LevelStats.bufferIndexNullCount false md ds} {b (LevelStats.bufferIndexNullPage false md ds)} {LevelStats.bufferIndexNullCount true md ds} {b (LevelStats.bufferIndexNullPage true md ds)}"
    | _, _ => "bad-op"
  | ["c05.hist", maxLevel, pages] => some <|
    -- pages separated by `;`, levels by `,`, `-` = page without levels
    match parseNat? maxLevel, (pages.splitOn ";").mapM (parseList? parseNat?) with
    | some m, some ps =>
      let r := LevelStats.chunkHists m ps
      s!"ok {showList toString r.1} {showList toString r.2}"
    | _, _ => "bad-op"
  | _ => none

end Driver.Ops.C05
