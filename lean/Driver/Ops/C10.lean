import Driver.Proto
import PqModel.SortCmp
import PqModel.SortRep
import PqModel.SortNested
import PqModel.SortCuts
import PqModel.SortBytes

/-! C10 ops: the range kernel and the optional column buffer mirror run over a history.

`bcast <asm|purego> <base> <n>`            -> `ok <dst as signed int32 list>`
`optcol <asm|purego> <m> <nullsFirst 0/1> <desc 0/1> <op>…` -> `ok rows=… defs=… base=… less=…`
   ops: `n:<d>:<k>` k null rows of level d written one by one (-1) · `N:<d>:<k>` a null run of the
        typed path (`broadcastValueInt32`) · `v:<x;y;…>` a run of values · `s:<i>:<j>` Swap ·
        `l:<i>:<j>` Less (one result bit each, in order) · `p` Page()
`repcol <m> <nullsFirst 0/1> <desc 0/1> <op>…` -> `ok rows=<off/base,…> lv=<rep/def,…> base=… less=…`
   ops: `w:<rep/def/value|n;…>` one row · `s:<i>:<j>` · `l:<i>:<j>` · `p`

`bufconf <maxRep> <maxDef> <sorted 0/1> <desc 0/1> <nullsFirst 0/1>` -> `ok wrap=<plain|optional|repeated> reversed=<0/1> ord=<4 bits|->`
   what `Buffer.configure` sets up for a leaf with these inherited levels (`ord`: the probe table of
   the null ordering function, `ordTable`; `-` for a plain buffer)
`swcuts <sortRowCount> <dedupe 0/1> <op>…` -> `ok runs=<size,…> buf=<n>`
   ops: `w:<k;k;…>` one Write/WriteRows call with these keys · `f` Flush; `runs`: the number of rows
   of every temporary row group after `Close`'s flush (after duplicate dropping per run if asked)

`bacol <op>…` -> `ok off=<offsets> end=<end offset|n> len=<lengths> vals=<hex> page=<hex;hex;…|none|empty>`
   the byte array column buffer: ops `w:<hex|->` one value · `s:<i>:<j>` Swap · `p` page();
   `page`: the values of the page handed out by the LAST `p` (value i = values[off[i]:off[i+1]])

The definitions below select the mirror of the library *as it currently is* (after the repairs
F13/F14/F24; the as-found transliterations `bcastAsmF14`, `OptCol.pageF24`, `Col.lessF13` stay in the
model for the negation witnesses of `Props/C10.lean`). -/
namespace Driver.Ops.C10
open Driver PqModel.SortBuf

/-- mirror of `broadcastRangeInt32` in the assembly build -/
def asmKernel : BitVec 32 → Nat → List (BitVec 32) := bcastAsm
/-- mirror of `optionalColumnBuffer.Page` -/
def pageCur (m : Nat) (c : OptCol Int) : OptCol Int := c.page m
/-- mirror of the `Less` of a sorting column as `Buffer.configure` sets it up -/
def lessCur (desc nullsFirst : Bool) (c : Col Int) (i j : Nat) : Bool :=
  let leaf : Leaf := match c with
    | .req _ => { maxRep := 0, maxDef := 0 }
    | .opt m _ => { maxRep := 0, maxDef := m }
  Col.lessConf (fun a b => decide (a < b)) (configure leaf (some ⟨0, desc, nullsFirst⟩)) c i j
/-- mirror of `Buffer.configure` for one leaf -/
def configureCur (l : Leaf) (sc : Option SortCol) : Conf := configure l sc

def kernelFn (variant : String) : Option (BitVec 32 → Nat → List (BitVec 32)) :=
  if variant == "asm" then some asmKernel
  else if variant == "purego" then some bcastScalar
  else none

structure St where
  col : OptCol Int
  less : List Bool

def parse2 (a b : String) : Option (Nat × Nat) :=
  match a.toNat?, b.toNat? with
  | some x, some y => some (x, y)
  | _, _ => none

def stepOp (k : Kernel) (purego : Bool) (m : Nat) (desc nf : Bool) (st : St) (tok : String) : Option St :=
  match tok.splitOn ":" with
  | ["n", d, n] => (parse2 d n).map fun (d, n) => { st with col := st.col.write k m (.nulls d n) }
  | ["N", d, n] => (parse2 d n).map fun (d, n) => { st with col := st.col.write k m (.nulls d n (nullMark purego)) }
  | ["v", vs] => ((vs.splitOn ";").mapM parseInt?).map fun vs => { st with col := st.col.write k m (.vals vs) }
  | ["s", i, j] => (parse2 i j).map fun (i, j) => { st with col := st.col.swap i j }
  | ["l", i, j] => (parse2 i j).map fun (i, j) => { st with less := lessCur desc nf (.opt m st.col) i j :: st.less }
  | ["p"] => some { st with col := pageCur m st.col }
  | _ => none

def showInts (xs : List Int) : String := showList (fun (x : Int) => toString x) xs


/-! ### repeated column buffer -/

structure RSt where
  col : RepCol Int
  less : List Bool

def parseCell (t : String) : Option (RCell Int) :=
  match t.splitOn "/" with
  | [r, d, v] =>
    match r.toNat?, d.toNat?, (if v == "n" then some none else (v.toInt?).map some) with
    | some r, some d, some v => some (r, d, v)
    | _, _, _ => none
  | _ => none

/-- mirror of the `Less` of a repeated sorting column as `Buffer.configure` sets it up -/
def repLessCur (m : Nat) (desc nf : Bool) (c : RepCol Int) (i j : Nat) : Bool :=
  let leaf : Leaf := { maxRep := 1, maxDef := m }
  RepCol.lessConf (fun a b => decide (a < b)) (configureCur leaf (some ⟨0, desc, nf⟩)) m c i j

def rstepOp (m : Nat) (desc nf : Bool) (st : RSt) (tok : String) : Option RSt :=
  match tok.splitOn ":" with
  | ["w", cs] => ((cs.splitOn ";").mapM parseCell).map fun row => { st with col := st.col.writeRow row }
  | ["s", i, j] => (parse2 i j).map fun (i, j) => { st with col := st.col.swap i j }
  | ["l", i, j] => (parse2 i j).map fun (i, j) =>
      { st with less := repLessCur m desc nf st.col i j :: st.less }
  | ["p"] => some { st with col := st.col.page m }
  | _ => none

def showPairs (xs : List (Nat × Nat)) : String := showList (fun (p : Nat × Nat) => s!"{p.1}/{p.2}") xs

def handleRep (toks : List String) : Option String :=
  match toks with
  | "repcol" :: m :: nf :: desc :: ops => some <|
    match parseNat? m with
    | some m =>
      match ops.foldlM (rstepOp m (desc == "1") (nf == "1")) { col := RepCol.empty, less := [] } with
      | some st =>
        let bits := if st.less.isEmpty then "-" else String.ofList (st.less.reverse.map fun b => if b then '1' else '0')
        s!"ok rows={showPairs st.col.rows} lv={showPairs st.col.lv} base={showInts st.col.base} less={bits}"
      | none => "bad-op"
    | none => "bad-op"
  | _ => none

/-! ### `Buffer.configure` and the `SortingWriter` run cuts -/

def showBits (bs : List Bool) : String := String.ofList (bs.map fun b => if b then '1' else '0')

def parseCutOp (tok : String) : Option (SWOp Int) :=
  match tok.splitOn ":" with
  | ["f"] => some .flush
  | ["w", ks] => if ks == "" then some (.write []) else ((ks.splitOn ";").mapM parseInt?).map .write
  | _ => none

def handleConf (toks : List String) : Option String :=
  match toks with
  | ["bufconf", mr, md, sorted, desc, nf] => some <|
    match parseNat? mr, parseNat? md with
    | some mr, some md =>
      let sc : Option SortCol := if sorted == "1" then some ⟨0, desc == "1", nf == "1"⟩ else none
      let cf := configureCur { maxRep := mr, maxDef := md } sc
      let wrap := match cf.wrap with | .plain => "plain" | .optional => "optional" | .repeated => "repeated"
      let ord := match cf.wrap with | .plain => "-" | _ => showBits (ordTable cf.nullsFirst cf.descValues)
      s!"ok wrap={wrap} reversed={if cf.reversed then 1 else 0} ord={ord}"
    | _, _ => "bad-op"
  | "swcuts" :: maxRows :: dedupe :: ops => some <|
    match parseNat? maxRows, ops.mapM parseCutOp with
    | some maxRows, some ops =>
      let w := (SW.empty.run maxRows ops).close
      let size := fun (run : List Int) =>
        if dedupe == "1" then (dedupRun (fun a b => a - b) none (run.mergeSort (fun a b => decide (a ≤ b)))).length else run.length
      s!"ok runs={showList (fun (n : Nat) => toString n) (w.runs.map size)} buf={w.buf.length}"
    | _, _ => "bad-op"
  | _ => none

/-! ### byte array column buffer -/

/-- mirror of `byteArrayColumnBuffer.page` (as repaired) -/
def baPageCur (c : BACol UInt8) : BACol UInt8 := c.page

structure BSt where
  col : BACol UInt8
  page : Option (List (List UInt8))

def bstepOp (st : BSt) (tok : String) : Option BSt :=
  match tok.splitOn ":" with
  | ["w", h] => (parseHex? h).map fun v => { st with col := st.col.write v }
  | ["s", i, j] => (parse2 i j).map fun (i, j) => { st with col := st.col.swap i j }
  | ["p"] => let c := baPageCur st.col; some { col := c, page := some c.pageValues }
  | _ => none

def handleBA (toks : List String) : Option String :=
  match toks with
  | "bacol" :: ops => some <|
    match ops.foldlM bstepOp { col := BACol.empty, page := none } with
    | some st =>
      let nat := fun (n : Nat) => toString n
      let e := match st.col.endOff with | some n => toString n | none => "n"
      let pg := match st.page with
        | none => "none"
        | some [] => "empty"
        | some vs => ";".intercalate (vs.map toHex)
      s!"ok off={showList nat st.col.offsets} end={e} len={showList nat st.col.lengths} vals={toHex st.col.values} page={pg}"
    | none => "bad-op"
  | _ => none

def handle (toks : List String) : Option String :=
  match handleBA toks with
  | some r => some r
  | none =>
  match handleRep toks with
  | some r => some r
  | none =>
  match handleConf toks with
  | some r => some r
  | none =>
  match toks with
  | ["bcast", variant, base, n] => some <|
    match kernelFn variant, parseInt? base, parseNat? n with
    | some f, some b, some n => s!"ok {showInts ((f (BitVec.ofInt 32 b) n).map BitVec.toInt)}"
    | _, _, _ => "bad-op"
  | "optcol" :: variant :: m :: nf :: desc :: ops => some <|
    match kernelFn variant, parseNat? m with
    | some f, some m =>
      match ops.foldlM (stepOp (kernelOf f) (variant == "purego") m (desc == "1") (nf == "1")) { col := OptCol.empty, less := [] } with
      | some st =>
        let bits := if st.less.isEmpty then "-" else String.ofList (st.less.reverse.map fun b => if b then '1' else '0')
        s!"ok rows={showInts st.col.rows} defs={showList (fun (d : Nat) => toString d) st.col.defs} base={showInts st.col.base} less={bits}"
      | none => "bad-op"
    | _, _ => "bad-op"
  | _ => none

end Driver.Ops.C10
