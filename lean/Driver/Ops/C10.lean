import Driver.Proto
import PqModel.SortCmp
import PqModel.SortRep

/-! C10 ops: the range kernel and the optional column buffer mirror run over a history.

`bcast <asm|purego> <base> <n>`            -> `ok <dst as signed int32 list>`
`optcol <asm|purego> <m> <nullsFirst 0/1> <desc 0/1> <op>…` -> `ok rows=… defs=… base=… less=…`
   ops: `n:<d>:<k>` k null rows of level d written one by one (-1) · `N:<d>:<k>` a null run of the
        typed path (`broadcastValueInt32`) · `v:<x;y;…>` a run of values · `s:<i>:<j>` Swap ·
        `l:<i>:<j>` Less (one result bit each, in order) · `p` Page()
`repcol <m> <nullsFirst 0/1> <desc 0/1> <op>…` -> `ok rows=<off/base,…> lv=<rep/def,…> base=… less=…`
   ops: `w:<rep/def/value|n;…>` one row · `s:<i>:<j>` · `l:<i>:<j>` · `p`

The definitions below select the mirror of the library *as it currently is* (after the repairs
F13/F14/F24; the as-found transliterations `bcastAsmF14`, `OptCol.pageF24`, `Col.lessF13` stay in the
model for the negation witnesses of `Props/C10.lean`). -/
namespace Driver.Ops.C10
open Driver PqModel.SortBuf

/-- mirror of `broadcastRangeInt32` in the assembly build -/
def asmKernel : BitVec 32 → Nat → List (BitVec 32) := bcastAsm
/-- mirror of `optionalColumnBuffer.Page` -/
def pageCur (m : Nat) (c : OptCol Int) : OptCol Int := c.page m
/-- mirror of the `Less` of a sorting column as `Buffer.configure` sets it up -/
def lessCur (desc nullsFirst : Bool) (c : Col Int) (i j : Nat) : Bool :=
  Col.less (fun a b => decide (a < b)) desc nullsFirst c i j

def kernelFn (variant : String) : Option (BitVec 32 → Nat → List (BitVec 32)) :=
  if variant == "asm" then some asmKernel
  else if variant == "purego" then some bcastScalar
  else none

structure St where
  col : OptCol Int
  less : List Bool

def parse2 (a b : String) : Option (Nat × Nat) :=
  match a.toNat?, b.toNat? with
  | some x, some y => some (x, y)
  | _, _ => none

def stepOp (k : Kernel) (purego : Bool) (m : Nat) (desc nf : Bool) (st : St) (tok : String) : Option St :=
  match tok.splitOn ":" with
  | ["n", d, n] => (parse2 d n).map fun (d, n) => { st with col := st.col.write k m (.nulls d n) }
  | ["N", d, n] => (parse2 d n).map fun (d, n) => { st with col := st.col.write k m (.nulls d n (nullMark purego)) }
  | ["v", vs] => ((vs.splitOn ";").mapM parseInt?).map fun vs => { st with col := st.col.write k m (.vals vs) }
  | ["s", i, j] => (parse2 i j).map fun (i, j) => { st with col := st.col.swap i j }
  | ["l", i, j] => (parse2 i j).map fun (i, j) => { st with less := lessCur desc nf (.opt m st.col) i j :: st.less }
  | ["p"] => some { st with col := pageCur m st.col }
  | _ => none

def showInts (xs : List Int) : String := showList (fun (x : Int) => toString x) xs


/-! ### repeated column buffer -/

structure RSt where
  col : RepCol Int
  less : List Bool

def parseCell (t : String) : Option (RCell Int) :=
  match t.splitOn "/" with
  | [r, d, v] =>
    match r.toNat?, d.toNat?, (if v == "n" then some none else (v.toInt?).map some) with
    | some r, some d, some v => some (r, d, v)
    | _, _, _ => none
  | _ => none

def rstepOp (m : Nat) (desc nf : Bool) (st : RSt) (tok : String) : Option RSt :=
  match tok.splitOn ":" with
  | ["w", cs] => ((cs.splitOn ";").mapM parseCell).map fun row => { st with col := st.col.writeRow row }
  | ["s", i, j] => (parse2 i j).map fun (i, j) => { st with col := st.col.swap i j }
  | ["l", i, j] => (parse2 i j).map fun (i, j) =>
      { st with less := st.col.less (fun a b => decide (a < b)) desc nf m i j :: st.less }
  | ["p"] => some { st with col := st.col.page m }
  | _ => none

def showPairs (xs : List (Nat × Nat)) : String := showList (fun (p : Nat × Nat) => s!"{p.1}/{p.2}") xs

def handleRep (toks : List String) : Option String :=
  match toks with
  | "repcol" :: m :: nf :: desc :: ops => some <|
    match parseNat? m with
    | some m =>
      match ops.foldlM (rstepOp m (desc == "1") (nf == "1")) { col := RepCol.empty, less := [] } with
      | some st =>
        let bits := if st.less.isEmpty then "-" else String.ofList (st.less.reverse.map fun b => if b then '1' else '0')
        s!"ok rows={showPairs st.col.rows} lv={showPairs st.col.lv} base={showInts st.col.base} less={bits}"
      | none => "bad-op"
    | none => "bad-op"
  | _ => none

def handle (toks : List String) : Option String :=
  match handleRep toks with
  | some r => some r
  | none =>
  match toks with
  | ["bcast", variant, base, n] => some <|
    match kernelFn variant, parseInt? base, parseNat? n with
    | some f, some b, some n => s!"ok {showInts ((f (BitVec.ofInt 32 b) n).map BitVec.toInt)}"
    | _, _, _ => "bad-op"
  | "optcol" :: variant :: m :: nf :: desc :: ops => some <|
    match kernelFn variant, parseNat? m with
    | some f, some m =>
      match ops.foldlM (stepOp (kernelOf f) (variant == "purego") m (desc == "1") (nf == "1")) { col := OptCol.empty, less := [] } with
      | some st =>
        let bits := if st.less.isEmpty then "-" else String.ofList (st.less.reverse.map fun b => if b then '1' else '0')
        s!"ok rows={showInts st.col.rows} defs={showList (fun (d : Nat) => toString d) st.col.defs} base={showInts st.col.base} less={bits}"
      | none => "bad-op"
    | _, _ => "bad-op"
  | _ => none

end Driver.Ops.C10
