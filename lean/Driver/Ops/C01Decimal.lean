import Driver.Proto
import PqModel.LogicalDecimal

/-! C01 ops of the binary DECIMAL and TIME/time.Duration conversion mirrors (PqModel/LogicalDecimal.lean).

`c01.dec.write <n|-> <int>`   `writeDecimal`: BYTE_ARRAY (`-`) or FIXED_LEN_BYTE_ARRAY(n) page value of the
                              unscaled integer -> `ok <hex> <read-back int>` or `panic`
`c01.dec.read <hex>`          `readDecimal` of any stored byte string -> `ok <int> <hex written again>`
`c01.dur <reflect|typed|deconstruct> <ms|us|ns> <d>`  `durWrite`, `durOfLeaf` -> `ok <leaf> <duration read back>` or `panic`
`c01.durleaf <ms|us|ns> <v>`  `durOfLeaf`, `durToLeaf` -> `ok <duration> <leaf written again>` -/
namespace Driver.Ops.C01Decimal
open Driver PqModel.LogicalDecimal

def hexOf (b : List Nat) : String := toHex (b.map UInt8.ofNat)

def unit? (s : String) : Option TUnit :=
  match s with
  | "ms" => some .milli
  | "us" => some .micro
  | "ns" => some .nano
  | _ => none

def path? (s : String) : Option DurPath :=
  match s with
  | "reflect" => some .reflect
  | "typed" => some .typed
  | "deconstruct" => some .deconstruct
  | _ => none

def handle (toks : List String) : Option String :=
  match toks with
  | ["c01.dec.write", n, i] => some <|
    match (if n == "-" then some none else (parseNat? n).map some), parseInt? i with
    | some flba, some i =>
      match writeDecimal flba i with
      | none => "panic"
      | some b => s!"ok {hexOf b} {readDecimal b}"
    | _, _ => "bad-op"
  | ["c01.dec.read", h] => some <|
    match parseHex? h with
    | some bs =>
      let data := bs.map (·.toNat)
      let i := readDecimal data
      s!"ok {i} {hexOf (bigIntToByteArray i)}"
    | none => "bad-op"
  | ["c01.dur", p, u, d] => some <|
    match path? p, unit? u, parseInt? d with
    | some p, some u, some d =>
      match durWrite p u d with
      | some v => s!"ok {v} {durOfLeaf u v}"
      | none => "panic"
    | _, _, _ => "bad-op"
  | ["c01.durleaf", u, v] => some <|
    match unit? u, parseInt? v with
    | some u, some v =>
      let d := durOfLeaf u v
      s!"ok {d} {durToLeaf u d}"
    | _, _ => "bad-op"
  | _ => none

end Driver.Ops.C01Decimal
