import Driver.Proto
import PqModel.Spec.FileCheck
import PqModel.Spec.Lz4Seqs

/-! C02 round 6 op: `lz4raw.pages <path>` — every page of every LZ4_RAW (codec 7) column chunk of
the file: where the compressed part is stored, what the sequence parser makes of it (the domain of
`C02Lz4.lz4raw_part_inverts_conformant_block`) and what the file reader's decompression step
(`Spec.partBytes`) returns.
→ `ok <page> <page> …` (`ok -` when there is none), page =
  `rg<i>/col<j>/p<k>:<kind d|1|2>:<pos>:<len>:<comp 0|1>:<uncompressed size the header leaves for this part>:n=<sequences with a match>,w=<writable>,e=<end rules>,canon=<re-encodes to itself>,ovl=<overlapping match>,x=<a length ≥ 15>:<hex of partBytes | - (empty) | err>`
(`n=..` fields are `-` for a part stored uncompressed or an empty part) | `err <why>` -/
namespace Driver.Ops.C02Lz4
open Driver PqModel.Spec PqModel.Spec.BlockCodecs PqModel.Spec.Lz4Seqs

def bit (b : Bool) : String := if b then "1" else "0"

def verdict (blk : List UInt8) : String :=
  if blk.isEmpty then "-" else
  match parseBlock blk with
  | none => "unparsable"
  | some (seqs, last) =>
    let ext := seqs.any (fun s => decide (15 ≤ s.ml) || decide (15 ≤ s.lits.length)) || decide (15 ≤ last.length)
    let ovl := seqs.any fun s => decide (s.off < s.ml + 4)
    s!"n={seqs.length},w={bit (seqsOk seqs #[])},e={bit (endOk seqs last)},canon={bit (encSeqs seqs last == blk)},ovl={bit ovl},x={bit ext}"

def pageText (d : ByteArray) (tag : String) (k : Nat) (p : PageInfo) : String :=
  let ll := if p.ptype == 3 then p.repLen + p.defLen else 0
  let comp := if p.ptype == 3 then p.v2Compressed else true
  let pos := p.bodyPos + ll
  let len := p.op.bodyLen - ll
  let kind := if p.op.isDict then "d" else if p.ptype == 3 then "2" else "1"
  let v := if comp then verdict (Lz4File.blockAt d pos len) else "-"
  let out := match partBytes d 7 comp pos len with
    | .ok b => if b.size == 0 then "-" else toHex b.data.toList
    | .error _ => "err"
  s!"{tag}/p{k}:{kind}:{pos}:{len}:{bit comp}:{p.op.uncompLen - ll}:{v}:{out}"

def chunkPages (d : ByteArray) (tag : String) (c : TVal) : Except String (List String) :=
  match c.field? 3 with
  | none => .error s!"{tag}: no column meta data"
  | some m =>
    if TVal.nat (m.field? 4) != 7 then .ok [] else
    let dataOff := TVal.nat (m.field? 9)
    let totalComp := TVal.nat (m.field? 7)
    let first := match TVal.int? (m.field? 11) with
      | some o => if o.toNat > 0 && o.toNat < dataOff then o.toNat else dataOff
      | none => dataOff
    if first + totalComp > d.size then .error s!"{tag}: chunk past end of file" else
    match walkPages d false (totalComp + 2) first (first + totalComp) [] with
    | .error e => .error s!"{tag}: {e}"
    | .ok pages => .ok ((List.range pages.length).zip pages |>.map fun (k, p) => pageText d tag k p)

def filePages (d : ByteArray) : Except String (List String) :=
  let n := d.size
  if n < 12 then .error "file shorter than 12 bytes" else
  let flen := le d (n - 8) 4
  if flen + 12 > n then .error "footer length exceeds file" else
  match readStruct d (n - 8 - flen) with
  | .error e => .error s!"footer: {e}"
  | .ok (md, _) =>
    let rgs := TVal.listD (md.field? 4)
    ((List.range rgs.length).zip rgs).foldlM (fun acc (rgi, rg) =>
      let cs := TVal.listD (rg.field? 1)
      ((List.range cs.length).zip cs).foldlM (fun acc (ci, c) =>
        match chunkPages d s!"rg{rgi}/col{ci}" c with
        | .error e => .error e
        | .ok ps => .ok (acc ++ ps)) acc) []

def handleIO (toks : List String) : IO (Option String) := do
  match toks with
  | ["lz4raw.pages", path] =>
    let d ← try IO.FS.readBinFile path catch _ => return some "err unreadable"
    match filePages d with
    | .error e => return some s!"err {e.replace "\n" " "}"
    | .ok ps => return some (if ps.isEmpty then "ok -" else "ok " ++ " ".intercalate ps)
  | _ => return none

end Driver.Ops.C02Lz4
