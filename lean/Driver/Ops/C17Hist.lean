import Driver.Proto
import PqModel.ResetHist

/-! C17 ops for the level-histogram / size-statistics part of the writer state.

`hist.append <clr> <col> <live> <spare> <levels> <maxLevel> <extra>` -> `ok <col> <live> <spare>`
    MIRROR `accumulateAndAppendPageLevelHistogram` on a slice `live` whose backing array continues with
    `spare`; `clr` = `current` (the library as it stands) | `noclear`; lists are comma lists, `-` = empty
`hist.reset <col> <live> <spare>` -> `ok <col> <live> <spare>`
    MIRROR the histogram part of `(*ColumnWriter).reset` for one level kind
`hist.spec <maxLevel> <page>/<page>/…` -> `ok <chunk histogram> <flat page histograms>`
    SPEC `LevelStats.chunkHists` (pages = comma lists of levels, `-` = a page without values)
`hist.spec1 <maxLevel> <page>/…` -> `ok <chunk histogram>` (files without a column index) -/
namespace Driver.Ops.C17Hist
open Driver PqModel.ResetHist

def showNats (l : List Nat) : String := showList toString l

def clr? (s : String) : Option Bool :=
  if s == "current" then some true else if s == "noclear" then some false else none

def handle (toks : List String) : Option String :=
  match toks with
  | ["hist.append", c, col, live, spare, levels, ml, extra] => some <|
    match clr? c, parseList? parseNat? col, parseList? parseNat? live, parseList? parseNat? spare,
          parseList? parseNat? levels, parseNat? ml, parseNat? extra with
    | some c, some col, some live, some spare, some levels, some ml, some extra =>
      let r := appendPage c col ⟨live, spare⟩ levels ml extra
      s!"ok {showNats r.1} {showNats r.2.live} {showNats r.2.spare}"
    | _, _, _, _, _, _, _ => "bad-op"
  | ["hist.reset", col, live, spare] => some <|
    match parseList? parseNat? col, parseList? parseNat? live, parseList? parseNat? spare with
    | some col, some live, some spare =>
      let r := (LevelHist.reset ⟨col.length - 1, col, ⟨live, spare⟩⟩)
      s!"ok {showNats r.col} {showNats r.pages.live} {showNats r.pages.spare}"
    | _, _, _ => "bad-op"
  | ["hist.spec", ml, pages] => some <|
    match parseNat? ml, (pages.splitOn "/").mapM (parseList? parseNat?) with
    | some ml, some pages =>
      let r := PqModel.LevelStats.chunkHists ml pages
      s!"ok {showNats r.1} {showNats r.2}"
    | _, _ => "bad-op"
  | ["hist.spec1", ml, pages] => some <|
    match parseNat? ml, (pages.splitOn "/").mapM (parseList? parseNat?) with
    | some ml, some pages => s!"ok {showNats (PqModel.LevelStats.chunkHists ml pages).1}"
    | _, _ => "bad-op"
  | _ => none

end Driver.Ops.C17Hist
