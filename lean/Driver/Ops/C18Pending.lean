import Driver.Proto
import PqModel.C18Pending

/-! Op for C18 (sub-check `pending`): the column writers of BeginRowGroup row groups, column-oriented
    API (`PqModel.C18Pending`).

    `pend.run <guard 0|1> <enc 0|1> <ncols> <events>` (events comma separated, `-` = none):
      `b`               w.BeginRowGroup(): the next row group writer (numbered from 0)
      `w:<i>:<c>:<k>`   rg_i.ColumnWriters()[c].WriteRowValues(k rows)
      `f:<i>:<c>`       rg_i.ColumnWriters()[c].Flush()
      `x:<i>:<c>`       rg_i.ColumnWriters()[c].Close()
      `c:<i>`           rg_i.Commit()
    -> `ok <one item per event>`: after `w`/`f`/`x` the column writer addressed, as
       `<awaitOrdinal 0|1>.<buffered rows>.<rows in written pages>.<written pages>`; after `c` the
       number of rows Commit reports, `n<rows>`, followed by `/<rows of column 0>/<rows of column 1>...`
       that go to the file; after `b` the letter `b`. `guard` = the `|| c.awaitOrdinal` of
       ColumnWriter.Close is there (1 = the code as it is). -/
namespace Driver.Ops.C18Pending
open Driver PqModel.C18Pending

inductive PEv where
  | begin
  | col (i c : Nat) (e : Ev Nat)
  | commit (i : Nat)

def parseEv? (s : String) : Option PEv :=
  match s.splitOn ":" with
  | ["b"] => some .begin
  | ["w", i, c, k] => do some (.col (← parseNat? i) (← parseNat? c) (.write (List.range (← parseNat? k))))
  | ["f", i, c] => do some (.col (← parseNat? i) (← parseNat? c) .flush)
  | ["x", i, c] => do some (.col (← parseNat? i) (← parseNat? c) .close)
  | ["c", i] => do some (.commit (← parseNat? i))
  | _ => none

def showCol (c : Col Nat) : String :=
  s!"{if c.await then 1 else 0}.{c.buf.length}.{(c.pages.map List.length).sum}.{c.pages.length}"

def stepAll (guard enc : Bool) (ncols : Nat) (st : List (Rg Nat) × List String) (e : PEv) :
    List (Rg Nat) × List String :=
  let (rgs, out) := st
  match e with
  | .begin => (rgs ++ [List.replicate ncols (fresh enc)], out ++ ["b"])
  | .col i c ev =>
    match rgs[i]? with
    | none => (rgs, out ++ ["norg"])
    | some rg =>
      let rg' := stepRg guard rg (c, ev)
      (rgs.set i rg', out ++ [(rg'[c]?.map showCol).getD "nocol"])
  | .commit i =>
    match rgs[i]? with
    | none => (rgs, out ++ ["norg"])
    | some rg =>
      match commitRg enc rg with
      | none => (rgs, out ++ ["n0"])
      | some (chunks, rg') =>
        (rgs.set i rg', out ++ [s!"n{(chunks.head?.map List.length).getD 0}" ++
          String.join (chunks.map (fun ch => s!"/{ch.length}"))])

def handle (toks : List String) : Option String :=
  match toks with
  | ["pend.run", g, e, n, evs] => some <|
    match parseNat? g, parseNat? e, parseNat? n, parseList? parseEv? evs with
    | some g, some e, some n, some es =>
      let r := es.foldl (stepAll (g == 1) (e == 1) n) ([], [])
      s!"ok {showList id r.2}"
    | _, _, _, _ => "bad-op"
  | _ => none

end Driver.Ops.C18Pending
