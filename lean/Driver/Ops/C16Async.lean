import Driver.Proto
import Driver.Ops.C15
import PqModel.PoolAsyncExec

/-! Line-protocol op of property C16, asynchronous page reader (`PqModel.PoolAsync`).

`asyncown.run <numRows> <pageStarts> <rdFatal> <skSoft> <skFatal> <labels>`: the wrapped reader is
described as for `async.validate` (Driver/Ops/C15.lean); `<labels>` is a comma list of
  * the event tokens of `async.validate` (`rb ho dl:<res>:<v> … bo:<res>:<v> st:<k>:<v> sd`),
  * `boc:<res>:<v>`: an offer of a page the wrapped reader served from its `lastPage` cache,
  * `bos<n>:<res>:<v>`: an offer before which the wrapped `ReadPage` decoded and skipped n pages,
  * `at<b>` / `ar<b>`: the application's Retain / Release of a page on storage `b`,
  * `q`: snapshot request (no transition).
Answer: `ok <snapshot>;<snapshot>;…` (one per `q`, `ok -` if none) or `illegal <index>` at the first
label that is not a transition of the model. A snapshot is
`<bug 0|1>|<refcounts of storages 0..nbuf-1>|<application references>|<pooled flags>|<last>`. -/
namespace Driver.Ops.C16Async
open Driver PqModel.Async PqModel.PoolAsync

inductive Tok where
  | lbl (l : Lbl)
  | snap

def parseTok? (s : String) : Option Tok :=
  if s == "q" then some .snap else
  match s.toList with
  | 'a' :: 't' :: r => (String.ofList r).toNat?.map fun b => .lbl (.appRetain b)
  | 'a' :: 'r' :: r => (String.ofList r).toNat?.map fun b => .lbl (.appRelease b)
  | _ =>
    match s.splitOn ":" with
    | ["boc", r, v] => do some (.lbl (.lib (.bodyOffer (← C15.parseRes? r) (← parseNat? v)) true 0))
    | [t, r, v] =>
      match t.toList with
      | 'b' :: 'o' :: 's' :: n => do
        some (.lbl (.lib (.bodyOffer (← C15.parseRes? r) (← parseNat? v)) false (← (String.ofList n).toNat?)))
      | _ => (C15.parseEv? s).map fun e => .lbl (.lib e false 0)
    | _ => (C15.parseEv? s).map fun e => .lbl (.lib e false 0)

def snapshot (o : O) : String :=
  let bs := List.range o.h.nbuf
  let nums (f : Nat → Nat) := showList toString (bs.map f)
  let last := match o.last with | some b => toString b | none => "n"
  s!"{if o.h.bug then 1 else 0}|{nums o.h.refc}|{nums o.appc}|{nums fun b => if o.h.pooled b then 1 else 0}|{last}"

def run (U : Under) : O → List Tok → Nat → List String → Except Nat (List String)
  | _, [], _, acc => .ok acc.reverse
  | o, .snap :: rest, i, acc => run U o rest (i + 1) (snapshot o :: acc)
  | o, .lbl l :: rest, i, acc =>
    match onext? U o l with
    | some o' => run U o' rest (i + 1) acc
    | none => .error i

def handle (toks : List String) : Option String :=
  match toks with
  | ["asyncown.run", n, st, rf, ss, sf, ls] => some <|
    match C15.parseUnder? n st rf ss sf, parseList? parseTok? ls with
    | some U, some ts =>
      match run U PqModel.PoolAsync.init ts 0 [] with
      | .ok outs => if outs.isEmpty then "ok -" else "ok " ++ ";".intercalate outs
      | .error i => s!"illegal {i}"
    | _, _ => "bad-op"
  | _ => none

end Driver.Ops.C16Async
