import Driver.Proto
import PqModel.NullScan

/-! Ops for C03 (null bitmap scan of optional non-pointer fields, typed write path).
    words: comma list of hexadecimal 64-bit words (`-` = no word), word 0 first.
    runs:  comma list of `N:i:j` (null run) / `V:i:j` (non-null run), `-` = none. -/
namespace Driver.Ops.C03NullScan
open Driver PqModel.NullScan

def parseHexNat? (s : String) : Option Nat :=
  if s.isEmpty || s.length > 16 then none else
  s.toList.foldlM (fun acc c => (hexVal? c).map (fun d => acc * 16 + d)) 0

def parseWords? (s : String) : Option (List (BitVec 64)) :=
  parseList? (fun t => (parseHexNat? t).map (BitVec.ofNat 64)) s

def showRun (r : Run) : String :=
  (if r.isNull then "N:" else "V:") ++ toString r.i ++ ":" ++ toString r.j

def showRes : Except Err (List Run) → String
  | .ok runs => "ok " ++ showList showRun runs
  | .error .index => "err index-out-of-range"
  | .error .fuel => "err out-of-fuel"

def hexOfNat (n : Nat) : String :=
  String.ofList ((Nat.toDigits 16 n))

def parsePattern? (s : String) : Option (List Bool) :=
  if s == "-" then some [] else
  s.toList.mapM fun c => if c == '1' then some true else if c == '0' then some false else none

/-- `nullscan.run <n> <words>`    → `ok <runs>`: the closure of `writeRowsFuncOfOptional` as repaired
    `nullscan.before <n> <words>` → `ok <runs>`: the loop with the mask before the repair
    `nullscan.index <pattern>`    → `ok <words>`: `nullIndex` on rows whose non-zero-ness is the 0/1 pattern -/
def handle (toks : List String) : Option String :=
  match toks with
  | ["nullscan.run", ns, wsT] => some <|
    match parseNat? ns, parseWords? wsT with
    | some n, some ws => showRes (optionalRuns ws n)
    | _, _ => "bad-op"
  | ["nullscan.before", ns, wsT] => some <|
    match parseNat? ns, parseWords? wsT with
    | some n, some ws => showRes (scanBeforeFix ws n)
    | _, _ => "bad-op"
  | ["nullscan.index", pat] => some <|
    match parsePattern? pat with
    | some bs => "ok " ++ showList (fun (w : BitVec 64) => hexOfNat w.toNat) (nullIndex id bs)
    | none => "bad-op"
  | _ => none

end Driver.Ops.C03NullScan
