import Driver.Proto
import PqModel.BloomWriter
import PqModel.BloomPlace
import PqModel.BloomSegments

namespace Driver.Ops.C07
open Driver PqModel.XxHash PqModel.Bloom PqModel.BloomWriter PqModel.BloomPlace PqModel.BloomSegments

def showHashes (hs : List UInt64) : String := showList (fun h => toString h.toNat) hs

def parseU8? (s : String) : Option UInt8 := (parseNat? s).bind (fun n => if n < 256 then some (UInt8.ofNat n) else none)
def parseU32? (s : String) : Option UInt32 := (parseNat? s).bind (fun n => if n < 2 ^ 32 then some (UInt32.ofNat n) else none)
def parseU64? (s : String) : Option UInt64 := (parseNat? s).bind (fun n => if n < 2 ^ 64 then some (UInt64.ofNat n) else none)
def parseHash? (s : String) : Option (BitVec 64) := (parseU64? s).map UInt64.toBitVec

def parseKind? (s : String) : Option Kind :=
  match s with
  | "boolean" => some .boolean
  | "int32" => some .int32
  | "int64" => some .int64
  | "int96" => some .int96
  | "float" => some .float
  | "double" => some .double
  | "bytearray" => some .byteArray
  | _ =>
    if s.startsWith "flba" then (parseNat? (s.drop 4).toString).map Kind.flba else none

/-- byte string value: hex, `e` = empty (so that a page holding one empty string is not `-`) -/
def parseBytes? (s : String) : Option (List UInt8) :=
  if s == "e" then some [] else if s == "-" then none else parseHex? s

/-- one value in the text form of its kind: boolean 0/1; int32/float/int64/double the unsigned
    decimal of the bit pattern; int96/bytearray/flba hex bytes (`e` = empty) -/
def parseValue? (k : Kind) (s : String) : Option Value :=
  match k with
  | .boolean => if s == "1" then some (.boolean true) else if s == "0" then some (.boolean false) else none
  | .int32 => (parseU32? s).map .int32
  | .float => (parseU32? s).map .float
  | .int64 => (parseU64? s).map .int64
  | .double => (parseU64? s).map .double
  | .int96 => (parseBytes? s).map .int96
  | .byteArray => (parseBytes? s).map .byteArray
  | .flba _ => (parseBytes? s).map .flba

/-- pages separated by `;`, values by `,`; `-` = empty page -/
def parsePages? (k : Kind) (s : String) : Option (List (List Value)) :=
  (s.splitOn ";").mapM (fun p => parseList? (parseValue? k) p)

/-- writer pages: `i:<values>` (dictionary-indexed) or `p:<values>`, separated by `;`; `-` = no page -/
def parseWPages? (k : Kind) (s : String) : Option (List WPage) :=
  if s == "-" then some [] else
  (s.splitOn ";").mapM (fun p =>
    if p.startsWith "i:" then (parseList? (parseValue? k) (p.drop 2).toString).map (fun vs => { values := vs, indexed := true })
    else if p.startsWith "p:" then (parseList? (parseValue? k) (p.drop 2).toString).map (fun vs => { values := vs, indexed := false })
    else none)

/-- dictionary: `n` = none, `d:<values>` -/
def parseDict? (k : Kind) (s : String) : Option (Option (List Value)) :=
  if s == "n" then some none
  else if s.startsWith "d:" then (parseList? (parseValue? k) (s.drop 2).toString).map some
  else none

def pagesOk (k : Kind) (pages : List (List Value)) : Bool :=
  pages.all (fun p => p.all (fun v => v.kindOk k))

/-- placement events: `d<n>` other bytes, `f<rg>.<col>.<len>.<0|1 deferred>`, `x` = writeDeferredBloomFilters -/
def parseEv? (s : String) : Option Ev :=
  if s == "x" then some .flush
  else if s.startsWith "d" then (parseNat? (s.drop 1).toString).map .data
  else if s.startsWith "f" then
    match ((s.drop 1).toString.splitOn ".").mapM parseNat? with
    | some [rg, col, len, d] => if d ≤ 1 then some (.filter rg col len (d == 1)) else none
    | _ => none
  else none

def showLoc (t : MetaTab) : Ev → Option String
  | .filter rg col _ _ =>
    match t rg col with
    | some l => some s!"{rg}.{col}.{l.off}.{l.len}"
    | none => some s!"{rg}.{col}.none"
  | _ => none

/-- a member answer of a multi filter: `n` = no filter, else `<ok 0|1><err 0|1>` -/
def parseMember? (s : String) : Option (Option Ans) :=
  match s with
  | "n" => some none
  | "00" => some (some ⟨false, false⟩)
  | "01" => some (some ⟨false, true⟩)
  | "10" => some (some ⟨true, false⟩)
  | "11" => some (some ⟨true, true⟩)
  | _ => none

def showAns (a : Ans) : String := (if a.ok then "1" else "0") ++ (if a.err then "1" else "0")

/-- `<a>.<b>` -/
def parsePair? (s : String) : Option (Nat × Nat) :=
  match (s.splitOn ".").mapM parseNat? with
  | some [a, b] => some (a, b)
  | _ => none

def handle (toks : List String) : Option String :=
  match toks with
  -- bloom.multi <members> -> answer of multiBloomFilter.Check
  | ["bloom.multi", ms] => some <|
    match parseList? parseMember? ms with
    | some ms => s!"ok {showAns (multiCheck ms)}"
    | none => "bad-op"
  -- bloom.pack <maxRows> <rows.columnOriented,...> -> batches of writeSegmentsPacked: `0+1,2,3+4`
  | ["bloom.pack", mr, segs] => some <|
    match parseNat? mr, parseList? parsePair? segs with
    | some mr, some segs =>
      if segs.any (fun s => s.2 > 1) then "bad-op" else
      let bs := packBatches mr (segs.map (fun s => (s.1, s.2 == 1)))
      s!"ok {showList (fun b => "+".intercalate (b.map toString)) bs}"
    | _, _ => "bad-op"
  -- bloom.packsize <bits> <numValues.exact,...> -> len(c.filter) after configureBloomFiltersForSegments
  | ["bloom.packsize", bits, segs] => some <|
    match parseNat? bits, parseList? parsePair? segs with
    | some bits, some segs =>
      if segs.any (fun s => s.2 > 1) then "bad-op" else
      s!"ok {packedPresize bits (segs.map (fun s => { numValues := s.1, exact := s.2 == 1, pages := [] }))}"
    | _, _ => "bad-op"
  -- bloom.header <numBytes> <gzip 0|1> -> thrift bytes of the BloomFilterHeader, length of the encrypted section
  | ["bloom.header", nb, gz] => some <|
    match parseNat? nb with
    | some nb =>
      if (gz != "0" && gz != "1") || nb ≥ 2147483648 then "bad-op"
      else s!"ok {toHex (headerBytes nb (gz == "1"))} {encSectionLength nb (gz == "1")}"
    | none => "bad-op"
  -- bloom.presize <bits> <exact 0|1> <srcValues> <numRows> <maxRows> <repeated 0|1> -> len(c.filter) after configureBloomFilters
  | ["bloom.presize", bits, ex, sv, nr, mr, rep] => some <|
    match parseNat? bits, parseNat? sv, parseNat? nr, parseNat? mr with
    | some bits, some sv, some nr, some mr =>
      if (ex != "0" && ex != "1") || (rep != "0" && rep != "1") then "bad-op"
      else s!"ok {presize bits (ex == "1") sv nr mr (rep == "1")}"
    | _, _, _, _ => "bad-op"
  -- bloom.place <events> -> `<rg>.<col>.<offset>.<length>` per filter event (MIRROR of the filter loop of
  --   writeRowGroup + writeDeferredBloomFilters, offsets only)
  | ["bloom.place", evs] => some <|
    match (evs.splitOn ",").mapM parseEv? with
    | some evs =>
      let s := PqModel.BloomPlace.run evs
      s!"ok {showList id (evs.filterMap (showLoc s.tab))} {s.offset}"
    | none => "bad-op"
  | ["xxh64", hex] => some <|
    match parseHex? hex with
    | some bs => s!"ok {(xxh64 bs).toNat}"
    | none => "bad-op"
  -- multisum <8|32|64> <cap> <values>  /  multisum 128 <cap> <hex,hex,...>
  | ["multisum", "8", cap, vs] => some <|
    match parseNat? cap, parseList? parseU8? vs with
    | some c, some vs => s!"ok {showHashes (multiSum64Uint8 c vs)}"
    | _, _ => "bad-op"
  | ["multisum", "32", cap, vs] => some <|
    match parseNat? cap, parseList? parseU32? vs with
    | some c, some vs => s!"ok {showHashes (multiSum64Uint32 c vs)}"
    | _, _ => "bad-op"
  | ["multisum", "64", cap, vs] => some <|
    match parseNat? cap, parseList? parseU64? vs with
    | some c, some vs => s!"ok {showHashes (multiSum64Uint64 c vs)}"
    | _, _ => "bad-op"
  | ["multisum", "128", cap, vs] => some <|
    match parseNat? cap, parseList? parseHex? vs with
    | some c, some vs =>
      if vs.all (·.length == 16) then s!"ok {showHashes (multiSum64Uint128 c vs)}" else "bad-op"
    | _, _ => "bad-op"
  -- bloom.build <numBlocks> <hashes> -> filter bytes
  | ["bloom.build", n, hs] => some <|
    match parseNat? n, parseList? parseHash? hs with
    | some n, some hs => s!"ok {toHex (filterBytes (build n hs))}"
    | _, _ => "bad-op"
  -- bloom.check <filter bytes> <hash> -> 0/1 (CheckSplitBlock on the bytes)
  | ["bloom.check", hex, h] => some <|
    match parseHex? hex, parseHash? h with
    | some bs, some h =>
      if bs.length % 32 ≠ 0 ∨ bs.length = 0 then "err size" else s!"ok {if checkBytes bs h then 1 else 0}"
    | _, _ => "bad-op"
  -- bloom.checks <filter bytes> <hashes> -> 0/1 per hash
  | ["bloom.checks", hex, hs] => some <|
    match parseHex? hex, parseList? parseHash? hs with
    | some bs, some hs =>
      if bs.length % 32 ≠ 0 ∨ bs.length = 0 then "err size"
      else s!"ok {showList (fun h => if checkBytes bs h then "1" else "0") hs}"
    | _, _ => "bad-op"
  -- bloom.enc <kind> <numBlocks> <raw page data> [<offsets>] -> filter bytes after one Encode* call
  | ["bloom.enc", k, n, raw] => some <|
    match parseKind? k, parseNat? n with
    | some k, some n =>
      let pd : Option PageData :=
        match k with
        | .boolean => (parseHex? raw).map .boolean
        | .int32 => (parseList? parseU32? raw).map .int32
        | .float => (parseList? parseU32? raw).map .float
        | .int64 => (parseList? parseU64? raw).map .int64
        | .double => (parseList? parseU64? raw).map .double
        | .int96 => (parseHex? raw).map .int96
        | .flba size => (parseHex? raw).map (fun d => .flba d size)
        | .byteArray => none
      match pd with
      | some pd => s!"ok {toHex (filterBytes (build n ((hashWriteStaged pd).map UInt64.toBitVec)))}"
      | none => "bad-op"
    | _, _ => "bad-op"
  | ["bloom.enc", "bytearray", n, raw, offs] => some <|
    match parseNat? n, parseHex? raw, parseList? parseNat? offs with
    | some n, some d, some offs =>
      s!"ok {toHex (filterBytes (build n ((hashWriteStaged (.byteArray d offs)).map UInt64.toBitVec)))}"
    | _, _, _ => "bad-op"
  -- bloom.blocks <numValues as uint64> <bitsPerValue> -> NumSplitBlocksOf in 64-bit uint arithmetic
  | ["bloom.blocks", n, b] => some <|
    match parseU64? n, parseU64? b with
    | some n, some b => s!"ok {(numSplitBlocksOfGo n b).toNat}"
    | _, _ => "bad-op"
  -- bloom.flush <kind> <bits> <presized bytes> <numValues> <switched 0/1> <dictionary> <pages>
  --   -> `<size in bytes> <filter bytes>` of flushFilterPages (as repaired)
  | ["bloom.flush", k, bits, presized, nv, sw, dict, pages] => some <|
    match parseKind? k, parseNat? bits, parseNat? presized, parseNat? nv with
    | some k, some bits, some presized, some nv =>
      match parseDict? k dict, parseWPages? k pages with
      | some d, some ps =>
        if sw != "0" && sw != "1" then "bad-op" else
        if !(ps.all (fun p => p.values.all (·.kindOk k)) && (d.getD []).all (·.kindOk k)) then "bad-op" else
        let c : ChunkWrite := { kind := k, bits := bits, pages := ps, dictionary := d, switched := sw == "1",
                                presized := presized, numValues := nv }
        let b := flushFilter c
        s!"ok {b.1} {toHex (filterBytes (build (b.1 / 32) (b.2.map UInt64.toBitVec)))}"
      | _, _ => "bad-op"
    | _, _, _, _ => "bad-op"
  -- bloom.hashread <kind> <value> -> hash of Value.hash
  | ["bloom.hashread", k, v] => some <|
    match parseKind? k with
    | some k =>
      match parseValue? k v with
      | some v => if v.kindOk k then s!"ok {(hashRead v).toNat}" else "bad-op"
      | none => "bad-op"
    | none => "bad-op"
  -- bloom.file <kind|booleanfixed> <numBlocks> <pages> -> filter bytes the writer stores
  | ["bloom.file", k, n, pages] => some <|
    match parseKind? k, parseNat? n with
    | some k, some n =>
      match parsePages? k pages with
      | some pages =>
        if pagesOk k pages then
          let hs := pages.flatMap (fun p => hashWriteStaged (pageData k p))
          s!"ok {toHex (filterBytes (build n (hs.map UInt64.toBitVec)))}"
        else "bad-op"
      | none => "bad-op"
    | _, _ => "bad-op"
  | _ => none

end Driver.Ops.C07
