import Driver.Proto
import PqModel.Spec.SizeStats

/-! `file.stats <path>`: the statistics clauses of the spec reader (`Spec.SizeStats.checkFileStats`):
    every footer / page header / offset index / column index statistic that is a function of the
    decoded entries, recomputed and compared. `ok <summary>` or `bad <summary> | clause ; clause`.
    `c02ss.dictsize <0|1> <dictionary value lengths, comma list> <indexes, comma list>`: the mirror of
    the dictionary branch of computeUnencodedByteArraySize (1 = the last-index-cache variant). -/
namespace Driver.Ops.C02SizeStats
open PqModel.Spec PqModel.Spec.SizeStats

def handleIO (toks : List String) : IO (Option String) := do
  match toks with
  | ["file.stats", path] =>
    let d ← try IO.FS.readBinFile path catch _ => return some "err unreadable"
    match checkFileStats d with
    | .error e => return some s!"err {e.replace "\n" " "}"
    | .ok r =>
      if r.problems.isEmpty then return some s!"ok {r.summary}"
      else return some s!"bad {r.summary} | {" ; ".intercalate (r.problems.reverse.map (·.replace "\n" " "))}"
  | _ => return none

def handle (toks : List String) : Option String :=
  match toks with
  | ["c02ss.dictsize", flag, lens, idx] =>
    match Driver.parseList? Driver.parseNat? lens, Driver.parseList? Driver.parseNat? idx with
    | some ls, some is =>
      if flag != "0" && flag != "1" then some "bad-op" else
      let dict : Array Value := (ls.map fun n => List.replicate n (0 : UInt8)).toArray
      some s!"ok {dictBranchSize (flag == "1") dict is none 0}"
    | _, _ => some "bad-op"
  | _ => none

end Driver.Ops.C02SizeStats
