import Driver.Proto
import PqModel.Seek
import PqModel.SliceRepeated
import PqModel.SeekLayers
import PqModel.SeekColumn
import PqModel.MultiNest
import PqModel.ReaderSeek
import PqModel.ReaderCursor
import PqModel.ReadRowsValues

namespace Driver.Ops.C08
open Driver PqModel.Seek

/-- The mirror that `seek.run` executes: it must transliterate `FilePages` of the tree the harness
    is built against (`stepAsis` = the code before the `fix:` commits on FilePages.SeekToRow/ReadPage, `stepFixed` = with them). -/
def mirror : Chunk → St → Op → St × Out := stepFixed

def parseOp? (s : String) : Option Op :=
  match s.toList with
  | ['r'] => some .readPage
  | ['i'] => some .loadIndex
  | 's' :: ds => (String.ofList ds).toNat?.map .seek
  | _ => none

def showOut : Out → String
  | .ok => "ok"
  | .err => "err"
  | .eof => "eof"
  | .page p st len => s!"p{p}:{st}:{len}"
  | .corrupt => "corrupt"

/-- `<out>/<f.index>:<stream page>:<f.skip>:<f.lastPageIndex|-1>:<cached page|-1>:<serveLastPage>:<desync>` -/
def showStep (r : St × Out) : String :=
  let s := r.1
  let (li, lp) := match s.last with
    | some (a, b) => (toString a, toString b)
    | none => ("-1", "-1")
  s!"{showOut r.2}/{s.index}:{s.pos}:{s.skip}:{li}:{lp}:{if s.serve then 1 else 0}:{if s.lost then 1 else 0}"

def runWith (step : Chunk → St → Op → St × Out) (rows dict idx bad ops : String) : String :=
  match parseList? parseNat? rows, parseList? parseNat? bad, parseList? parseOp? ops with
  | some rs, some bd, some os =>
    if (dict != "0" && dict != "1") || (idx != "0" && idx != "1") then "bad-op" else
    let c : Chunk := { rows := rs, dict := dict == "1", bad := bd }
    "ok " ++ " ".intercalate ((run (step c) (init (idx == "1")) os).map showStep)
  | _, _, _ => "bad-op"

/-- `seek.run <page row counts> <dict 0/1> <with-index 0/1> <corrupted pages> <ops>`; ops: `s<k>`
    SeekToRow(k), `r` ReadPage, `i` load the offset index lazily; answer: one token per op (see
    `showStep`). -/
def handleBase (toks : List String) : Option String :=
  match toks with
  | ["seek.run", rows, dict, idx, bad, ops] => some (runWith mirror rows dict idx bad ops)
  | ["seek.run.asis", rows, dict, idx, bad, ops] => some (runWith stepAsis rows dict idx bad ops)
  | ["seek.run.fixed", rows, dict, idx, bad, ops] => some (runWith stepFixed rows dict idx bad ops)
  -- `slice.run <maxDef> <rep levels> <def levels> <i> <j>` -> `ok <rowIndex1> <rowIndex2> <base i> <base j>`
  | ["slice.run", md, rep, dfn, i, j] => some <|
    match parseNat? md, parseList? parseNat? rep, parseList? parseNat? dfn, parseNat? i, parseNat? j with
    | some md, some rep, some dfn, some i, some j =>
      if rep.length ≠ dfn.length then "bad-op" else
      let ab := sliceIdx rep i j
      let r := sliceRepeated md rep dfn i j
      s!"ok {ab.1} {ab.2} {r.2.1} {r.2.2}"
    | _, _, _, _, _ => "bad-op"
  | _ => none

/-! ### the layers above FilePages: `range.run`, `multi.run`, `rows.run` -/
open PqModel.SeekLayers PqModel.ReaderSeek

def showROut : ROut → String
  | .ok => "ok"
  | .err => "err"
  | .eof => "eof"
  | .rows st len => s!"p{st}:{len}"
  | .fail => "fail"

/-- `FilePages` machine of a chunk given by its page row counts; `none` if a page is empty -/
def chunkMachine? (rows : List Nat) (dict idx : Bool) : Option Machine.{0} :=
  if h : ∀ r ∈ rows, 0 < r then some (filePages { rows := rows, dict := dict } h idx) else none

/-- chunks separated by `|`, page row counts by `,` -/
def parseChunks? (s : String) (idx : Bool) : Option (List Machine.{0}) :=
  (s.splitOn "|").mapM fun c => (parseList? parseNat? c).bind fun rows => chunkMachine? rows false idx

/-- a column over one chunk is a `FilePages`, over several a `multiPages` -/
def columnMachine (ms : List Machine.{0}) : Machine.{1} := multiM ms

def parseROp? (s : String) : Option ROp :=
  match s.toList with
  | ['z'] => some .reset
  | 's' :: ds => (String.ofList ds).toNat?.map .seek
  | 'r' :: ds => (String.ofList ds).toNat?.map .read
  | _ => none

/-- positions at or beyond the last row are reported as the end (the harness counts that way) -/
def showROutClamped (T : Nat) : ROut → String
  | .rows st len => s!"p{min st T}:{len}"
  | o => showROut o

def totalOf (ms : List Machine.{1}) : Nat :=
  match ms with
  | [] => 0
  | m :: _ => m.total

def handleLayers (toks : List String) : Option String :=
  match toks with
  -- `multi.run <chunk|chunk|...> <with-index 0/1> <ops>`: multiPages over the chunks of one column
  | ["multi.run", chunks, idx, ops] => some <|
    match parseChunks? chunks (idx == "1"), parseList? parseOp? ops with
    | some ms, some os => "ok " ++ " ".intercalate (((multiM ms).outs (multiM ms).init os).map showROut)
    | _, _ => "bad-op"
  -- `range.run <page row counts> <with-index 0/1> <off> <len> <ops>`: a row-range view of one chunk
  | ["range.run", rows, idx, off, len, ops] => some <|
    match (parseList? parseNat? rows).bind (fun r => chunkMachine? r false (idx == "1")), parseNat? off, parseNat? len,
          parseList? parseOp? ops with
    | some b, some off, some len, some os =>
      if h : off + len ≤ b.total then
        "ok " ++ " ".intercalate (((rangeM b off len h).outs (rangeM b off len h).init os).map showROut)
      else "bad-op"
    | _, _, _, _ => "bad-op"
  -- `rows.run <column;column;...> <with-index 0/1> <ops>`: the row reader, a column = its chunks
  | ["rows.run", cols, idx, ops] => some <|
    match (cols.splitOn ";").mapM (fun c => parseChunks? c (idx == "1")), parseList? parseROp? ops with
    | some css, some os =>
      let ms := css.map columnMachine
      "ok " ++ " ".intercalate ((routs (rinit ms) os).map (showROutClamped (totalOf ms)))
    | _, _ => "bad-op"
  -- `rrows.run <column;column;...> <with-index 0/1> <off> <len> <ops>`: the row reader of a row-range
  -- view of one row group (a column = the page row counts of its chunk)
  | ["rrows.run", cols, idx, off, len, ops] => some <|
    match (cols.splitOn ";").mapM (fun c => (parseList? parseNat? c).bind fun r => chunkMachine? r false (idx == "1")),
          parseNat? off, parseNat? len, parseList? parseROp? ops with
    | some bs, some off, some len, some os =>
      match bs.mapM (fun b => if h : off + len ≤ b.total then some (rangeM b off len h) else none) with
      | some ms => "ok " ++ " ".intercalate ((routs (rinit ms) os).map (showROutClamped len))
      | none => "bad-op"
    | _, _, _, _ => "bad-op"
  | _ => none

/-! ### `Column.Pages()` and nested multi row groups: `column.run`, `nested.run` -/
open PqModel.SeekLayers.Nest in
/-- parser state of a nest expression: open `MultiRowGroup(` calls, chunk readers not yet used -/
structure NestP where
  stack : List (List (Node Machine.{0}))
  rest : List Machine.{0}
  inNum : Bool
  ok : Bool

open PqModel.SeekLayers.Nest in
/-- `(a,b,...)` = `MultiRowGroup(a,b,...)` evaluated by the mirror of `init`; a number = the next
    chunk reader (leaves are taken from left to right) -/
def nestStep (p : NestP) (ch : Char) : NestP :=
  if ch.isDigit then
    if p.inNum then p else
      match p.rest, p.stack with
      | m :: ms, top :: st => { p with stack := (top ++ [.leaf m]) :: st, rest := ms, inNum := true }
      | _, _ => { p with ok := false }
  else if ch == '(' then { p with stack := [] :: p.stack, inNum := false }
  else if ch == ')' then
    match p.stack with
    | gs :: top :: st =>
      if gs.length < 2 then { p with ok := false }
      else { p with stack := (top ++ [.multi (initM (·.total) gs)]) :: st, inNum := false }
    | _ => { p with ok := false }
  else if ch == ',' then { p with inNum := false }
  else { p with ok := false }

open PqModel.SeekLayers.Nest in
def parseNest? (expr : String) (ms : List Machine.{0}) : Option (MCC Machine.{0}) :=
  let p := expr.toList.foldl nestStep { stack := [[]], rest := ms, inNum := false, ok := true }
  match p.ok, p.rest, p.stack with
  | true, [], [[.multi c]] => some c
  | _, _, _ => none

def handleNested (toks : List String) : Option String :=
  match toks with
  -- `column.run <chunk|chunk|...> <with-index 0/1> <ops>`: columnPages (Column.Pages()) over the
  -- chunks of one column in every row group
  | ["column.run", chunks, idx, ops] => some <|
    match parseChunks? chunks (idx == "1"), parseList? parseOp? ops with
    | some ms, some os => "ok " ++ " ".intercalate (((columnM ms).outs (columnM ms).init os).map showROut)
    | _, _ => "bad-op"
  -- `nested.run <nest expression> <chunk|chunk|...> <with-index 0/1> <ops>`: multiPages of the column
  -- of MultiRowGroup calls nested as the expression says (leaf i = chunk i)
  | ["nested.run", expr, chunks, idx, ops] => some <|
    match parseChunks? chunks (idx == "1"), parseList? parseOp? ops with
    | some ms, some os =>
      match parseNest? expr ms with
      | some c => "ok " ++ " ".intercalate ((Nest.outs c (multiM c.chunks).init os).map showROut)
      | none => "bad-op"
    | _, _ => "bad-op"
  | _ => none

/-! ### the deprecated `Reader` (two row readers, one cursor): `readerx.run` -/
open PqModel.ReaderCursor in
/-- `rowGroupRows` over the column machines, as the executable part of a row reader -/
def rowsR (ms : List Machine.{1}) : RowR.{2} := { σ := RSt.{1}, step := rstep, init := rinit ms }

/-- ops of `readerx.run`: `s<k>` SeekToRow, `r<n>` ReadRows(n), `t<n>` n calls of `Read(&v)` (answer:
    the rows they delivered together), `g<n>` GenericReader.Read of n (a `ReadRows` loop), `z` Reset -/
inductive XTok where
  | seek (k : Nat)
  | rows (n : Nat)
  | typed (n : Nat)
  | reset

def parseXTok? (s : String) : Option XTok :=
  match s.toList with
  | ['z'] => some .reset
  | 's' :: ds => (String.ofList ds).toNat?.map .seek
  | 'r' :: ds => (String.ofList ds).toNat?.map .rows
  | 'g' :: ds => (String.ofList ds).toNat?.map .rows
  | 't' :: ds => (String.ofList ds).toNat?.map .typed
  | _ => none

open PqModel.ReaderCursor in
/-- `n` calls of `Read(&v)`, stopping at the first that delivers nothing: `(state, start, rows, failed)` -/
def typedLoop {bf br : RowR} : Nat → St bf br → Nat → Nat → St bf br × Nat × Bool
  | 0, s, _, got => (s, got, false)
  | n + 1, s, start, got =>
    match (step s .read).2 with
    | .rows _ 1 => typedLoop n (step s .read).1 start (got + 1)
    | .rows _ _ => ((step s .read).1, got, false)
    | _ => ((step s .read).1, got, true)

open PqModel.ReaderCursor in
def runX {bf br : RowR} (T : Nat) : St bf br → List XTok → List String
  | _, [] => []
  | s, .seek k :: ops => showROut (step s (.seek k)).2 :: runX T (step s (.seek k)).1 ops
  | s, .reset :: ops => "ok" :: runX T (step s .reset).1 ops
  | s, .rows n :: ops => showROutClamped T (step s (.readRows n)).2 :: runX T (step s (.readRows n)).1 ops
  | s, .typed n :: ops =>
    let r := typedLoop n s s.rowIndex 0
    (if r.2.2 && r.2.1 == 0 then "fail" else s!"p{min s.rowIndex T}:{r.2.1}") :: runX T r.1 ops

open PqModel.ReaderCursor in
def handleCursor (toks : List String) : Option String :=
  match toks with
  -- `readerx.run <column;column;...> <with-index 0/1> <ops>`: parquet.Reader / GenericReader over a file
  | ["readerx.run", cols, idx, ops] => some <|
    match (cols.splitOn ";").mapM (fun c => parseChunks? c (idx == "1")), parseList? parseXTok? ops with
    | some css, some os =>
      let ms := css.map columnMachine
      "ok " ++ " ".intercalate (runX (totalOf ms) (init (rowsR ms) (rowsR ms)) os)
    | _, _ => "bad-op"
  | _ => none

/-! ### the value-level loop of `ReadRows`: `rowsv.run` -/
open PqModel.ReadRowsValues

/-- the batches `ReadValues` delivers for a page with a value buffer of `b` slots -/
def chunksOf (b : Nat) : Nat → List Nat → List (List Nat)
  | 0, _ => []
  | _, [] => []
  | fuel + 1, l => l.take b :: chunksOf b fuel (l.drop b)

def runV (c : ColV Nat) : List Nat → List String
  | [] => []
  | n :: ns =>
    let r := colRows id n c
    s!"{rowCount r.2}:{",".intercalate ((r.2.take (rowCount r.2)).map (fun row => toString row.length))}" :: runV r.1 ns

/-- `rowsv.run <bufsize> <n1,n2,...> <pages of repetition levels: page|page|...>`: one column read
    sequentially with `ReadRows(n1)`, `ReadRows(n2)`, ...; answer per read `<rows>:<values per row>` -/
def handleValues (toks : List String) : Option String :=
  match toks with
  | ["rowsv.run", b, ns, pages] => some <|
    match parseNat? b, parseList? parseNat? ns, (pages.splitOn "|").mapM (parseList? parseNat?) with
    | some b, some ns, some ps =>
      if b = 0 then "bad-op" else
      let src := (ps.map fun p => chunksOf b p.length p).flatten
      "ok " ++ " ".intercalate (runV { buf := [], src := src } ns)
    | _, _, _ => "bad-op"
  | _ => none

def handle (toks : List String) : Option String :=
  (((handleBase toks).orElse fun _ => handleLayers toks).orElse fun _ =>
    (handleCursor toks).orElse fun _ => handleValues toks).orElse fun _ => handleNested toks

end Driver.Ops.C08
