import Driver.Proto
import PqModel.Seek
import PqModel.SliceRepeated

namespace Driver.Ops.C08
open Driver PqModel.Seek

/-- The mirror that `seek.run` executes: it must transliterate `FilePages` of the tree the harness
    is built against (`stepAsis` = the code before the `fix:` commits on FilePages.SeekToRow/ReadPage, `stepFixed` = with them). -/
def mirror : Chunk → St → Op → St × Out := stepFixed

def parseOp? (s : String) : Option Op :=
  match s.toList with
  | ['r'] => some .readPage
  | ['i'] => some .loadIndex
  | 's' :: ds => (String.ofList ds).toNat?.map .seek
  | _ => none

def showOut : Out → String
  | .ok => "ok"
  | .err => "err"
  | .eof => "eof"
  | .page p st len => s!"p{p}:{st}:{len}"
  | .corrupt => "corrupt"

/-- `<out>/<f.index>:<stream page>:<f.skip>:<f.lastPageIndex|-1>:<cached page|-1>:<serveLastPage>:<desync>` -/
def showStep (r : St × Out) : String :=
  let s := r.1
  let (li, lp) := match s.last with
    | some (a, b) => (toString a, toString b)
    | none => ("-1", "-1")
  s!"{showOut r.2}/{s.index}:{s.pos}:{s.skip}:{li}:{lp}:{if s.serve then 1 else 0}:{if s.lost then 1 else 0}"

def runWith (step : Chunk → St → Op → St × Out) (rows dict idx bad ops : String) : String :=
  match parseList? parseNat? rows, parseList? parseNat? bad, parseList? parseOp? ops with
  | some rs, some bd, some os =>
    if (dict != "0" && dict != "1") || (idx != "0" && idx != "1") then "bad-op" else
    let c : Chunk := { rows := rs, dict := dict == "1", bad := bd }
    "ok " ++ " ".intercalate ((run (step c) (init (idx == "1")) os).map showStep)
  | _, _, _ => "bad-op"

/-- `seek.run <page row counts> <dict 0/1> <with-index 0/1> <corrupted pages> <ops>`; ops: `s<k>`
    SeekToRow(k), `r` ReadPage, `i` load the offset index lazily; answer: one token per op (see
    `showStep`). -/
def handle (toks : List String) : Option String :=
  match toks with
  | ["seek.run", rows, dict, idx, bad, ops] => some (runWith mirror rows dict idx bad ops)
  | ["seek.run.asis", rows, dict, idx, bad, ops] => some (runWith stepAsis rows dict idx bad ops)
  | ["seek.run.fixed", rows, dict, idx, bad, ops] => some (runWith stepFixed rows dict idx bad ops)
  -- `slice.run <maxDef> <rep levels> <def levels> <i> <j>` -> `ok <rowIndex1> <rowIndex2> <base i> <base j>`
  | ["slice.run", md, rep, dfn, i, j] => some <|
    match parseNat? md, parseList? parseNat? rep, parseList? parseNat? dfn, parseNat? i, parseNat? j with
    | some md, some rep, some dfn, some i, some j =>
      if rep.length ≠ dfn.length then "bad-op" else
      let ab := sliceIdx rep i j
      let r := sliceRepeated md rep dfn i j
      s!"ok {ab.1} {ab.2} {r.2.1} {r.2.2}"
    | _, _, _, _, _ => "bad-op"
  | _ => none

end Driver.Ops.C08
