import Driver.Proto
import Driver.Ops.C06
import PqModel.SearchMultiIndex
import PqModel.SearchMultiNaN

/-! `multiix.ci <zero-rank> <chunks> <null counts> <probes> <lo> <hi>`: the multiColumnIndex over the member
    indexes (`chunks` as in `multi.find`; null counts: members separated by `|`, one comma list each, `-` = a member
    without pages). Answer: `ok <NumPages> <IsAscending><IsDescending> <Find per probe, nulls last> <Find per probe,
    nulls first> <entries>`; entries = one `NullPage/NullCount/MinValue/MaxValue` per page number `lo .. hi`
    (any ints: numbers outside `0 .. NumPages-1` take the fallback of `mapPageIndex`), joined by `;`; `!` = the member
    is asked for a page it does not have, `n` = null value.
    `multiix.oi <offsets> <sizes> <first rows> <row counts> <lo> <hi>`: the multiOffsetIndex over the member offset
    indexes (three `|`-separated families of comma lists, the row count of each member).
    Answer: `ok <NumPages> <entries>`, entries = `Offset/CompressedPageSize/FirstRowIndex` per page number.
    `multiix.findf <IsAscending 0/1> <float chunks> <probes>`: `Find` on the multi index of FLOAT / DOUBLE members
    (bounds: int rank | `n` | `nan`), given what `IsAscending()` answered -> `ok <page per probe, nulls last> <page per
    probe, nulls first>` (`findViewF` on `concatF`). -/
namespace Driver.Ops.C06Multi
open Driver PqModel.Search

def parseMembers? (s : String) : Option (List (List Int)) :=
  (s.splitOn "|").mapM (parseList? parseInt?)

def rangeInt (lo hi : Int) : List Int := (List.range (hi - lo + 1).toNat).map (fun (i : Nat) => lo + Int.ofNat i)

def showOpt {α} (f : α → String) : Option α → String
  | none => "!"
  | some x => f x

/-- one float chunk index: `<asc><desc>:<null pages>:<mins>:<maxs>` -/
def parseFChunk? (s : String) : Option FChunk :=
  match s.splitOn ":" with
  | [flags, nulls, mins, maxs] =>
    match flags.toList, parseList? Driver.Ops.C06.parseBit? nulls, parseList? Driver.Ops.C06.parseFB? mins,
        parseList? Driver.Ops.C06.parseFB? maxs with
    | [a, d], some ns, some mn, some mx =>
      if mn.length = mx.length ∧ ns.length = mn.length then
        some { nulls := ns, ix := { mins := mn, maxs := mx }, asc := a == '1', desc := d == '1' }
      else none
    | _, _, _, _ => none
  | _ => none

def handle (toks : List String) : Option String :=
  match toks with
  | ["multiix.findf", flag, chunks, vs] => some <|
    match (chunks.splitOn "|").mapM parseFChunk?, parseList? parseInt? vs with
    | some cs, some vs =>
      if flag != "0" && flag != "1" then "bad-op" else
      let finds := fun (nf : Bool) =>
        showList toString (vs.map (fun v => findViewF nf (flag == "1") (concatNullsF cs) (concatF cs) v))
      s!"ok {finds false} {finds true}"
    | _, _ => "bad-op"
  | ["multiix.ci", z, chunks, counts, vs, lo, hi] => some <|
    match parseInt? z, Driver.Ops.C06.parseChunks? chunks, parseMembers? counts, parseList? parseInt? vs, parseInt? lo, parseInt? hi with
    | some z, some cs, some counts, some vs, some lo, some hi =>
      if counts.map List.length ≠ cs.map Chunk.n then "bad-op" else
      let b := fun (x : Bool) => if x then "1" else "0"
      let finds := fun (nf : Bool) => showList toString (vs.map (fun v => findMultiGo nf z cs v))
      let entry := fun (p : Int) =>
        s!"{showOpt b (multiAt (cs.map (·.nulls)) p)}/{showOpt toString (multiAt counts p)}/{showOpt Driver.Ops.C06.showBound (multiAt (cs.map (·.ix.mins)) p)}/{showOpt Driver.Ops.C06.showBound (multiAt (cs.map (·.ix.maxs)) p)}"
      s!"ok {total cs} {b (multiIsAscending z cs)}{b (multiIsDescending z cs)} {finds false} {finds true} {";".intercalate ((rangeInt lo hi).map entry)}"
    | _, _, _, _, _, _ => "bad-op"
  | ["multiix.oi", offs, sizes, rows, numRows, lo, hi] => some <|
    match parseMembers? offs, parseMembers? sizes, parseMembers? rows, parseList? parseInt? numRows, parseInt? lo, parseInt? hi with
    | some offs, some sizes, some rows, some numRows, some lo, some hi =>
      if offs.map List.length ≠ rows.map List.length || sizes.map List.length ≠ rows.map List.length
          || numRows.length ≠ rows.length then "bad-op" else
      let entry := fun (p : Int) =>
        s!"{showOpt toString (multiAt offs p)}/{showOpt toString (multiAt sizes p)}/{showOpt toString (multiFirstRowAt rows numRows p)}"
      s!"ok {rows.flatten.length} {";".intercalate ((rangeInt lo hi).map entry)}"
    | _, _, _, _, _, _ => "bad-op"
  | _ => none

end Driver.Ops.C06Multi
