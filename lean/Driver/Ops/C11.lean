import Driver.Proto
import PqModel.CopyPath
import PqModel.Splice
import PqModel.SpliceMeta
import PqModel.CopyValues

/-! Ops for C11: the decision cascade of `Writer.WriteRowGroup`.

`copy.choose <variant> <g> <cols> <rg>` -> `ok <path> <copyCount> <reencodeCount> <steps>`
  variant : `cur` (the mirror of the library under test) | `asis` | `repaired`
  g       : `disableCopy,disableReencode,encrypting,maxRows`
  cols    : `;`-joined `kind,codec,enc,dict,ptype,bpv|n,filterCompressed,encrypted,pageStats,pageBounds,deprecated,limit` (`-` = none)
  rg      : `;`-joined pre-order tokens: `L,<kind>,<rows>,<nchunks>` then nchunks chunk tokens,
            `S,<multi|sorted>,<nchildren>` then the children
  chunk   : `B` | `O` | `R><chunk>` | `F:type:codec:encstats:ciOff:oiOff:bloomOff:bloomLen:bloomHdr:encrypted:numValues:nullCount:rows:hasDict:pages:hasMinMax:hasDeprecated`
            encstats `pt.enc.count+…`, bloomHdr `n` | `numBytes.split.xxhash.uncompressed`,
            pages `ptype.enc.hasStats.nullPage.nullCount.minLen.maxLen+…` (`-` = none)
  steps   : `,`-joined `v:<rows>` (spliced) | `e:<rows>` (column-wise re-encode, rows summed) | `r:<NumRows()>` (row path) -/
namespace Driver.Ops.C11
open Driver PqModel.CopyPath

def parseBool? (s : String) : Option Bool :=
  if s == "1" then some true else if s == "0" then some false else none

def plusList (s : String) : List String := if s == "-" then [] else s.splitOn "+"

def parseEncStat? (s : String) : Option EncStat :=
  match s.splitOn "." with
  | [a, b, c] => do some ⟨← parseNat? a, ← parseNat? b, ← parseNat? c⟩
  | _ => none

def parsePage? (s : String) : Option PageInfo :=
  match s.splitOn "." with
  | [a, b, c, d, e, f, g] => do
    some ⟨← parseNat? a, ← parseNat? b, ← parseBool? c, ← parseBool? d, ← parseNat? e, ← parseNat? f, ← parseNat? g⟩
  | _ => none

def parseBloomHdr? (s : String) : Option (Option BloomHeader) :=
  if s == "n" then some none else
  match s.splitOn "." with
  | [a, b, c, d] => do some (some ⟨← parseNat? a, ← parseBool? b, ← parseBool? c, ← parseBool? d⟩)
  | _ => none

def parseMeta? (fs : List String) : Option ChunkMeta :=
  match fs with
  | [ty, codec, es, ci, oi, bo, bl, bh, enc, nv, nc, rows, hd, pages, mm, dep] => do
    some { type := ← parseNat? ty, codec := ← parseNat? codec,
           encStats := ← (plusList es).mapM parseEncStat?,
           columnIndexOffset := ← parseNat? ci, offsetIndexOffset := ← parseNat? oi,
           bloomOffset := ← parseNat? bo, bloomLength := ← parseInt? bl, bloomHeader := ← parseBloomHdr? bh,
           encrypted := ← parseBool? enc, numValues := ← parseNat? nv, nullCount := ← parseNat? nc,
           rows := ← parseNat? rows, hasDictPage := ← parseBool? hd,
           pages := ← (plusList pages).mapM parsePage?,
           hasMinMax := ← parseBool? mm, hasDeprecated := ← parseBool? dep }
  | _ => none

def wrapRange : List String → Chunk → Option Chunk
  | [], c => some c
  | "R" :: rest, c => (wrapRange rest c).map Chunk.range
  | _, _ => none

def parseChunk? (s : String) : Option Chunk :=
  match (s.splitOn ">").reverse with
  | base :: pre => do
    let b ← (if base == "B" then some Chunk.buffer
      else if base == "O" then some Chunk.other
      else match base.splitOn ":" with
        | "F" :: fs => (parseMeta? fs).map Chunk.file
        | _ => none)
    wrapRange pre b
  | [] => none

def parseLeafKind? (s : String) : Option LeafKind :=
  match s with
  | "file" => some .file | "buffer" => some .buffer | "range" => some .range
  | "merged" => some .merged | "sortedDedup" => some .sortedDedup | "dedup" => some .dedup
  | "converted" => some .converted | "foreign" => some .foreign | "other" => some .other
  | _ => none

def parseSegKind? (s : String) : Option SegKind :=
  match s with
  | "multi" => some .multi | "sorted" => some .sorted | _ => none

def takeChunks : Nat → List String → Option (List Chunk × List String)
  | 0, toks => some ([], toks)
  | n + 1, t :: rest => do
    let c ← parseChunk? t
    let (cs, r) ← takeChunks n rest
    some (c :: cs, r)
  | _ + 1, [] => none

/-- parse `n` row groups in pre-order; `fuel` bounds the number of tokens -/
def parseRGs : Nat → Nat → List String → Option (List (RG Unit) × List String)
  | _, 0, toks => some ([], toks)
  | 0, _ + 1, _ => none
  | _ + 1, _ + 1, [] => none
  | f + 1, n + 1, tok :: rest =>
    match tok.splitOn "," with
    | ["L", k, rows, nch] => do
      let kind ← parseLeafKind? k
      let (chunks, r1) ← takeChunks (← parseNat? nch) rest
      let (more, r2) ← parseRGs f n r1
      some (RG.leaf kind (← parseNat? rows) chunks [] [] :: more, r2)
    | ["S", k, nch] => do
      let kind ← parseSegKind? k
      let (children, r1) ← parseRGs f (← parseNat? nch) rest
      let (more, r2) ← parseRGs f n r1
      some (RG.seg kind children :: more, r2)
    | _ => none

def parseRG? (s : String) : Option (RG Unit) :=
  let toks := s.splitOn ";"
  match parseRGs (toks.length + 1) 1 toks with
  | some ([rg], []) => some rg
  | _ => none

def parseCol? (s : String) : Option DstCol :=
  match s.splitOn "," with
  | [k, c, e, d, pt, bpv, fc, en, ps, pb, dep, lim] => do
    some { kind := ← parseNat? k, codec := ← parseNat? c, encoding := ← parseNat? e, dict := ← parseBool? d,
           pageType := ← parseNat? pt,
           filterBpv := ← (if bpv == "n" then some none else (parseNat? bpv).map some),
           filterCompressed := ← parseBool? fc, encrypted := ← parseBool? en, pageStats := ← parseBool? ps,
           pageBounds := ← parseBool? pb, deprecatedStats := ← parseBool? dep, indexLimit := ← parseNat? lim }
  | _ => none

def parseCfg? (g cols : String) : Option DstCfg :=
  match g.splitOn "," with
  | [dc, dr, en, mr] => do
    let cs ← (if cols == "-" then some [] else (cols.splitOn ";").mapM parseCol?)
    some { disableCopy := ← parseBool? dc, disableReencode := ← parseBool? dr, encrypting := ← parseBool? en,
           maxRows := ← parseNat? mr, cols := cs }
  | _ => none

def parseVariant? (s : String) : Option Variant :=
  match s with
  | "cur" => some currentMirror | "asis" => some .asIs | "repaired" => some .repaired | _ => none

def showPath : Path → String
  | .segments => "segments" | .verbatim => "verbatim" | .reencode => "reencode" | .rows => "rows"

def showStep : Step Unit → String
  | .verbatim rg => s!"v:{rg.numRows}"
  | .reencode rgs => s!"e:{numRowsL rgs}"
  | .rows rg => s!"r:{rg.numRows}"

/-! `copy.splice <start> <chunks>` -> `ok <chunks'> <blooms>` | `err layout`
  chunks : `;`-joined `dict|n,data,totalCompressed,totalUncompressed,numValues,numRows,bloomLength,locs`
           (the SOURCE chunk metadata, locs `offset.size.firstRow+…` or `-`)
  chunks': the metadata `rowGroupMetasMixed` gives when all of them are spliced, back to back, from
           file offset `start` (same fields without bloomLength); blooms: per column `offset.length`
           or `n`, placed after the last chunk -/

def parseLoc? (s : String) : Option PqModel.Layout.PageLoc :=
  match s.splitOn "." with
  | [a, b, c] => do some ⟨← parseNat? a, ← parseNat? b, ← parseNat? c⟩
  | _ => none

def parseSrcChunk? (s : String) : Option (PqModel.Layout.ChunkMeta × Nat) :=
  match s.splitOn "," with
  | [d, data, tc, tu, nv, nr, bl, locs] => do
    let dict ← (if d == "n" then some none else (parseNat? d).map some)
    some ({ dictOffset := dict, dataOffset := ← parseNat? data, totalCompressed := ← parseNat? tc,
            totalUncompressed := ← parseNat? tu, numValues := ← parseNat? nv, numRows := ← parseNat? nr,
            locs := ← (plusList locs).mapM parseLoc? }, ← parseNat? bl)
  | _ => none

def showChunkMeta (m : PqModel.Layout.ChunkMeta) : String :=
  let d := match m.dictOffset with | none => "n" | some x => toString x
  let locs := if m.locs.isEmpty then "-" else
    "+".intercalate (m.locs.map fun l => s!"{l.offset}.{l.size}.{l.firstRow}")
  s!"{d},{m.dataOffset},{m.totalCompressed},{m.totalUncompressed},{m.numValues},{m.numRows},{locs}"

def spliceAll (start : Nat) (cs : List (PqModel.Layout.ChunkMeta × Nat)) : Option String := do
  let metas ← PqModel.Splice.rowGroupMetasMixed start (cs.map fun c => .copied c.1)
  -- the file offset after the chunks: every spliced chunk advances it by dict + data bytes
  let endOff ← cs.foldlM (fun off c => (PqModel.Splice.loadCopied c.1).map fun cc => (PqModel.Splice.writeCopied off cc).2) start
  let blooms := (PqModel.Splice.placeBlooms endOff (cs.map (·.2))).1
  let showB : Option (Nat × Nat) → String := fun b => match b with | none => "n" | some (o, l) => s!"{o}.{l}"
  some s!"{";".intercalate (metas.map showChunkMeta)} {",".intercalate (blooms.map showB)}"

/-! `copy.splicev <start> <chunks>` -> `ok <chunks'> <blooms> rg=<file_offset>,<total_byte_size>,<total_compressed_size>,<num_rows>` | `err layout`
  the whole metadata of a row group all of whose columns are spliced (`SpliceMeta.spliceRowGroupBlooms`)
  chunks : `;`-joined `<layout>~<values>`; layout as in `copy.splice` (with bloomLength)
  values : `:`-joined nullPages(0/1 string|-) mins maxs (`.`-joined hex, `e` = empty bytes, `-` = no entry)
           boundaryOrder nullCounts ciRepHist ciDefHist (`.`-joined|-) unencoded ssRepHist ssDefHist
           nullCount distinctCount minValue maxValue min max (`n` absent | hex | `e`) encStats (`.`-joined `pt_enc_count`|-)
  chunks': the same without bloomLength -/

open PqModel.SpliceMeta in
def parseBytes? (s : String) : Option Bytes := if s == "e" then some [] else parseHex? s

def showBytes (b : PqModel.SpliceMeta.Bytes) : String := if b.isEmpty then "e" else toHex b

def dotList (s : String) : List String := if s == "-" then [] else s.splitOn "."

def showDots (xs : List String) : String := if xs.isEmpty then "-" else ".".intercalate xs

def parseOptBytes? (s : String) : Option (Option PqModel.SpliceMeta.Bytes) :=
  if s == "n" then some none else (parseBytes? s).map some

def showOptBytes : Option PqModel.SpliceMeta.Bytes → String
  | none => "n"
  | some b => showBytes b

def parseEncStatV? (s : String) : Option PqModel.SpliceMeta.EncStat :=
  match s.splitOn "_" with
  | [a, b, c] => do some ⟨← parseNat? a, ← parseNat? b, ← parseNat? c⟩
  | _ => none

def parseValues? (s : String) (layout : PqModel.Layout.ChunkMeta) : Option PqModel.SpliceMeta.FullMeta :=
  match s.splitOn ":" with
  | [np, mins, maxs, bo, ncs, crh, cdh, un, srh, sdh, nc, dc, mnv, mxv, mn, mx, es] => do
    let nps ← (if np == "-" then some [] else np.toList.mapM fun c => if c == '1' then some true else if c == '0' then some false else none)
    some { layout := layout,
           columnIndex := { nullPages := nps, minValues := ← (dotList mins).mapM parseBytes?,
                            maxValues := ← (dotList maxs).mapM parseBytes?, boundaryOrder := ← parseNat? bo,
                            nullCounts := ← (dotList ncs).mapM parseNat?, repHist := ← (dotList crh).mapM parseNat?,
                            defHist := ← (dotList cdh).mapM parseNat? },
           sizeStats := { unencoded := ← parseNat? un, repHist := ← (dotList srh).mapM parseNat?,
                          defHist := ← (dotList sdh).mapM parseNat? },
           statistics := { nullCount := ← parseNat? nc, distinctCount := ← parseNat? dc,
                           minValue := ← parseOptBytes? mnv, maxValue := ← parseOptBytes? mxv,
                           min := ← parseOptBytes? mn, max := ← parseOptBytes? mx },
           encStats := ← (dotList es).mapM parseEncStatV? }
  | _ => none

def showValues (m : PqModel.SpliceMeta.FullMeta) : String :=
  let ci := m.columnIndex
  let nats := fun (xs : List Nat) => showDots (xs.map toString)
  let np := if ci.nullPages.isEmpty then "-" else String.mk (ci.nullPages.map fun b => if b then '1' else '0')
  ":".intercalate [np, showDots (ci.minValues.map showBytes), showDots (ci.maxValues.map showBytes),
    toString ci.boundaryOrder, nats ci.nullCounts, nats ci.repHist, nats ci.defHist,
    toString m.sizeStats.unencoded, nats m.sizeStats.repHist, nats m.sizeStats.defHist,
    toString m.statistics.nullCount, toString m.statistics.distinctCount,
    showOptBytes m.statistics.minValue, showOptBytes m.statistics.maxValue,
    showOptBytes m.statistics.min, showOptBytes m.statistics.max,
    showDots (m.encStats.map fun e => s!"{e.pageType}_{e.encoding}_{e.count}")]

def parseSrcChunkV? (s : String) : Option (PqModel.SpliceMeta.FullMeta × Nat) :=
  match s.splitOn "~" with
  | [l, v] => do
    let (layout, bl) ← parseSrcChunk? l
    some (← parseValues? v layout, bl)
  | _ => none

def spliceAllV (start : Nat) (cs : List (PqModel.SpliceMeta.FullMeta × Nat)) : Option String := do
  let r ← PqModel.SpliceMeta.spliceRowGroupBlooms start cs
  let t := PqModel.SpliceMeta.rowGroupTotals start (r.map (·.1))
  let showB : Option (Nat × Nat) → String := fun b => match b with | none => "n" | some (o, l) => s!"{o}.{l}"
  some s!"{";".intercalate (r.map fun mb => showChunkMeta mb.1.layout ++ "~" ++ showValues mb.1)} {",".intercalate (r.map fun mb => showB mb.2)} rg={t.fileOffset},{t.totalByteSize},{t.totalCompressedSize},{t.numRows}"

/-- `copy.batches <rep:0|1> <cap> <pages>` -> `ok <done|noprogress|fuel> <batch sizes>`
    pages: `;`-joined, one string per source page, one char per value: `1` = repetition level 0
    (`-` = no page); the mirror `copyLoop` of `copyColumnValues` with `len(buf) = cap` -/
def copyBatches (rep : Bool) (cap : Nat) (pages : String) : String :=
  let ps : List (List Bool) := (if pages == "-" then [] else pages.splitOn ";").map fun p => p.toList.map (· == '1')
  let total := (ps.map List.length).sum
  let r := PqModel.CopyValues.copyLoop rep id (total + 2) ps cap []
  let st := match r.2 with | .done => "done" | .noProgress => "noprogress" | .fuel => "fuel"
  s!"ok {st} {showList toString (r.1.map List.length)}"

def handle (toks : List String) : Option String :=
  match toks with
  | ["copy.batches", rep, cap, pages] => some <|
    match parseBool? rep, parseNat? cap with
    | some rep, some cap => copyBatches rep cap pages
    | _, _ => "bad-op"
  | ["copy.splicev", start, chunks] => some <|
    match parseNat? start, (chunks.splitOn ";").mapM parseSrcChunkV? with
    | some st, some cs => match spliceAllV st cs with
      | some r => "ok " ++ r
      | none => "err layout"
    | _, _ => "bad-op"
  | ["copy.choose", v, g, cols, rg] => some <|
    match parseVariant? v, parseCfg? g cols, parseRG? rg with
    | some v, some g, some rg =>
      let steps := plan v g (rg.depth + 1) rg
      s!"ok {showPath (choosePathV v g rg)} {copyCount steps} {reencodeCount steps} {showList showStep steps}"
    | _, _, _ => "bad-op"
  | ["copy.splice", start, chunks] => some <|
    match parseNat? start, (chunks.splitOn ";").mapM parseSrcChunk? with
    | some st, some cs => match spliceAll st cs with
      | some r => "ok " ++ r
      | none => "err layout"
    | _, _ => "bad-op"
  | ["copy.mirror"] => some (match currentMirror with | .asIs => "ok asis" | .repaired => "ok repaired")
  | _ => none

end Driver.Ops.C11
