import Driver.Proto
import PqModel.ColWriterRows

/-! Ops for C11 / colwriter: the mirror of `ColumnWriter` (PqModel/ColWriter.lean).

value   : `s<size>` (repetition level 0, not null) | `c<size>` (repetition level > 0, not null)
          | `n` (repetition level 0, null) | `m` (repetition level > 0, null);
          a list of values is `.`-joined, `-` = empty
kind    : `flat` | `optional` | `repeated`

`colw.run <kind> <bufferSize> <ops>` -> `ok <trace> <final>`
  ops   : `;`-joined `w:<values>` (WriteRowValues) | `f` (Flush) | `x` (Close)
  trace : `;`-joined, after every op `hasBuf,Len,Size,numRows,numPages,totalRowCount,ret`
          (`ret` = rows returned by WriteRowValues, 0 for the others)
  final : after the flush of `writeRowGroup`:
          `pages=<values per page> rows=<rows per page> first=<FirstRowIndex per page> numRows=<n> numValues=<n>`
`colw.rows <kind> <bufferSize> <rows>` -> `ok <batches> <final>`
  rows  : `/`-joined value lists, per row the values of the column; one column of
          `ConcurrentRowGroupWriter.WriteRows(rows)`; batches = values per WriteRowValues call
`colw.rowsmax <kind> <bufferSize> <maxRows> <rows>` -> `ok <groups>`
  `writer.WriteRows(rows)` then the flush of `Close` under `MaxRowsPerRowGroup(maxRows)`;
  groups: `|`-joined `<NumRows>:<values per page>`, one per row group written (`-` = none)
`colw.colmax <kind> <bufferSize> <values>` -> `ok <rg.numRows> <groups>`
  all the values handed to the row group's column writer in one `WriteRowValues`, then the flush -/
namespace Driver.Ops.C11ColWriter
open Driver PqModel.ColWriter

def parseKind? : String → Option Kind
  | "flat" => some .flat | "optional" => some .optional | "repeated" => some .repeated | _ => none

def parseVal? (s : String) : Option Val :=
  match s.toList with
  | ['n'] => some ⟨true, true, 0⟩
  | ['m'] => some ⟨false, true, 0⟩
  | 's' :: ds => (String.ofList ds).toNat?.map fun n => ⟨true, false, n⟩
  | 'c' :: ds => (String.ofList ds).toNat?.map fun n => ⟨false, false, n⟩
  | _ => none

def parseVals? (s : String) : Option (List Val) :=
  if s == "-" then some [] else (s.splitOn ".").mapM parseVal?

def parseOp? (s : String) : Option Op :=
  if s == "f" then some .flush else if s == "x" then some .close else
  match s.splitOn ":" with
  | ["w", vs] => (parseVals? vs).map Op.write
  | _ => none

def showState (k : Kind) (c : CW) (ret : Nat) : String :=
  s!"{if c.buf.isSome then 1 else 0},{bufLen k c.vals},{bufSize k c.vals},{c.numRows},{c.pages.length},{totalRowCount k c},{ret}"

def showFinal (k : Kind) (c : CW) : String :=
  let f := flush k c
  s!"pages={showList toString (f.pages.map List.length)} rows={showList toString (f.pages.map (bufLen k))} first={showList toString f.firstRow} numRows={f.numRows} numValues={f.numValues}"

def traceRun (k : Kind) (bs : Nat) : CW → List Op → List String → CW × List String
  | c, [], acc => (c, acc.reverse)
  | c, op :: ops, acc =>
    let ret := match op with | .write vs => (writeRowValues k bs c vs).2 | _ => 0
    let c' := step k bs c op
    traceRun k bs c' ops (showState k c' ret :: acc)

def showGroups (s : RGW) : String :=
  if s.groups.isEmpty then "-" else
  "|".intercalate (s.groups.map fun g => s!"{g.1}:{showList toString (g.2.map List.length)}")

def handle (toks : List String) : Option String :=
  match toks with
  | ["colw.run", kind, bs, ops] => some <|
    match parseKind? kind, parseNat? bs, (if ops == "-" then some [] else (ops.splitOn ";").mapM parseOp?) with
    | some k, some bs, some ops =>
      let (c, tr) := traceRun k bs fresh ops []
      s!"ok {if tr.isEmpty then "-" else ";".intercalate tr} {showFinal k c}"
    | _, _, _ => "bad-op"
  | ["colw.rows", kind, bs, rows] => some <|
    match parseKind? kind, parseNat? bs, (if rows == "-" then some [] else (rows.splitOn "/").mapM parseVals?) with
    | some k, some bs, some rows =>
      let ops := rowPathOps (rows.length + 1) rows
      s!"ok {showList toString ((writesOf ops).map List.length)} {showFinal k (run k bs fresh ops)}"
    | _, _, _ => "bad-op"
  | ["colw.rowsmax", kind, bs, mx, rows] => some <|
    match parseKind? kind, parseNat? bs, parseNat? mx, (if rows == "-" then some [] else (rows.splitOn "/").mapM parseVals?) with
    | some k, some bs, some mx, some rows =>
      let s := writeRowGroup k (writerWriteRows k bs mx (rows.length + 1) RGW.init rows)
      s!"ok {showGroups s}"
    | _, _, _, _ => "bad-op"
  | ["colw.colmax", kind, bs, vals] => some <|
    match parseKind? kind, parseNat? bs, parseVals? vals with
    | some k, some bs, some vs =>
      let s := cwWrite k bs RGW.init vs
      s!"ok {s.numRows} {showGroups (writeRowGroup k s)}"
    | _, _, _ => "bad-op"
  | _ => none

end Driver.Ops.C11ColWriter
