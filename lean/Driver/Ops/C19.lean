import Driver.Proto
import PqModel.Variant
import PqModel.VariantShred
import PqModel.VariantLevels
import PqModel.VariantCursor

/-! Ops of property C19 (variant encoding).

Value text (one token, no blanks):
```
v ::= n | t | f | i8:<int> | i16:<int> | i32:<int> | i64:<int> | f32:<hex8 bits> | f64:<hex16 bits>
    | d4:<scale>:<int> | d8:<scale>:<int> | d16:<scale>:<hex32, wire order>
    | date:<int> | ts:<int> | tsntz:<int> | time:<int> | tsns:<int> | tsntzns:<int>
    | bin:<hex> | s:<hex of the UTF-8 bytes> | u:<hex32, wire order>
    | [v,v,…] | {<hex key>=v,<hex key>=v,…}
```
(hex may be empty). Ops:
* `variant.enc <v>` → `ok <metadata hex> <value hex>` (MIRROR encoder, dictionary `metaOf v`)
* `variant.dec <metadata hex> <value hex>` → `ok <v>` / `err <class>` (SPEC decoders)
* `variant.canon <v>` → `ok <v with object fields sorted by key>`
* `variant.shredcols <schema> <v>` → `ok <row metadata hex> <col>;<col>;…`: the non-null values every leaf
  column below the variant group receives (`x<hex>` bytes, `i32:`/`i64:`/`f32:`/`f64:`/`b0|b1`), `-` = none
* `variant.cells <g> <r> <rep> <schema> <v>` → `ok <row metadata hex> <col>;<col>;…`: the Dremel cells
  (`<def>.<rep>.<payload>`, payload `-` = null) every leaf column below the variant group receives for one
  occurrence at definition level `g` / repetition depth `r` of the enclosing schema (level MIRROR `emit`)
* `variant.ofcol <ptype> <leaf value>` → `ok <v>` / `err`: MIRROR of `parquetToVariantValue`
* `variant.nav <schema> <path> <v>` → `ok <entry>;<entry>;…` (`ok -` = no entry): the entries the cursor at
  `path` (`/`-separated steps, `k<hex key>` = Field, `e` = Elements, `-` = the root) shows for one row
  shredded by the writer: `M` missing, `N` null, `R<v>` residual, `T<v>` typed, `O<v>` typed object,
  `L<v>` typed list (`<v>` = the value behind the entry in normal form, `E` = not reconstructible);
  MIRROR `navPathCur` over `rootWindow`
* `variant.shred <schema> <v>` → `ok <shredded text> <reconstructed v> <non-null count per leaf column>`
  (logical shredding model) -/
namespace Driver.Ops.C19
open Driver PqModel.Variant

def isDelim (c : Char) : Bool := c == ',' || c == ']' || c == '}' || c == '='

def hexOpt? (s : String) : Option (List UInt8) :=
  if s.isEmpty then some [] else parseHexAux s.toList []

def bv? (n : Nat) (s : String) : Option (BitVec n) := (s.toInt?).map (BitVec.ofInt n)

def hexNat? (s : String) : Option Nat := (hexOpt? s).map fun bs => unLE bs.reverse

def parseScalar (s : String) : Option Prim :=
  match s.splitOn ":" with
  | ["n"] => some .null
  | ["t"] => some (.bool true)
  | ["f"] => some (.bool false)
  | ["i8", x] => (bv? 8 x).map .int8
  | ["i16", x] => (bv? 16 x).map .int16
  | ["i32", x] => (bv? 32 x).map .int32
  | ["i64", x] => (bv? 64 x).map .int64
  | ["f32", x] => if x.length = 8 then (hexNat? x).map fun n => .float (BitVec.ofNat 32 n) else none
  | ["f64", x] => if x.length = 16 then (hexNat? x).map fun n => .double (BitVec.ofNat 64 n) else none
  | ["d4", sc, x] => match sc.toNat?, bv? 32 x with
    | some sc, some x => if sc < 256 then some (.dec4 (UInt8.ofNat sc) x) else none
    | _, _ => none
  | ["d8", sc, x] => match sc.toNat?, bv? 64 x with
    | some sc, some x => if sc < 256 then some (.dec8 (UInt8.ofNat sc) x) else none
    | _, _ => none
  | ["d16", sc, x] => match sc.toNat?, hexOpt? x with
    | some sc, some bs =>
      if sc < 256 ∧ bs.length = 16 then some (.dec16 (UInt8.ofNat sc) (BitVec.ofNat 128 (unLE bs))) else none
    | _, _ => none
  | ["date", x] => (bv? 32 x).map .date
  | ["ts", x] => (bv? 64 x).map .ts
  | ["tsntz", x] => (bv? 64 x).map .tsNtz
  | ["time", x] => (bv? 64 x).map .time
  | ["tsns", x] => (bv? 64 x).map .tsNanos
  | ["tsntzns", x] => (bv? 64 x).map .tsNtzNanos
  | ["bin", x] => (hexOpt? x).map .binary
  | ["s", x] => (hexOpt? x).map .string
  | ["u", x] => match hexOpt? x with
    | some bs => if bs.length = 16 then some (.uuid (BitVec.ofNat 128 (unLE bs.reverse))) else none
    | none => none
  | _ => none

def spanTok (cs : List Char) : List Char × List Char := cs.span (fun c => !isDelim c)

mutual
def parseV : Nat → List Char → Option (Value × List Char)
  | 0, _ => none
  | fuel + 1, cs =>
    match cs with
    | '[' :: ']' :: rest => some (.arr [], rest)
    | '[' :: rest => (parseElems fuel rest).map fun (es, r) => (.arr es, r)
    | '{' :: '}' :: rest => some (.obj [], rest)
    | '{' :: rest => (parseFields fuel rest).map fun (fs, r) => (.obj fs, r)
    | _ =>
      let (tok, rest) := spanTok cs
      (parseScalar (String.ofList tok)).map fun p => (.prim p, rest)
def parseElems : Nat → List Char → Option (List Value × List Char)
  | 0, _ => none
  | fuel + 1, cs =>
    match parseV fuel cs with
    | none => none
    | some (v, ',' :: rest) => (parseElems fuel rest).map fun (vs, r) => (v :: vs, r)
    | some (v, ']' :: rest) => some ([v], rest)
    | some _ => none
def parseFields : Nat → List Char → Option (List (Key × Value) × List Char)
  | 0, _ => none
  | fuel + 1, cs =>
    let (ktok, rest) := spanTok cs
    match hexOpt? (String.ofList ktok), rest with
    | some k, '=' :: rest =>
      match parseV fuel rest with
      | none => none
      | some (v, ',' :: rest) => (parseFields fuel rest).map fun (fs, r) => ((k, v) :: fs, r)
      | some (v, '}' :: rest) => some ([(k, v)], rest)
      | some _ => none
    | _, _ => none
end

def parseValue? (s : String) : Option Value :=
  let cs := s.toList
  match parseV (cs.length + 1) cs with
  | some (v, []) => some v
  | _ => none

def hexE (bs : List UInt8) : String :=
  String.ofList (bs.foldr (fun b acc => hexDigit (b.toNat / 16) :: hexDigit (b.toNat % 16) :: acc) [])

def hexBE (k n : Nat) : String := hexE (leN k n).reverse

def showPrim : Prim → String
  | .null => "n"
  | .bool true => "t"
  | .bool false => "f"
  | .int8 x => s!"i8:{x.toInt}"
  | .int16 x => s!"i16:{x.toInt}"
  | .int32 x => s!"i32:{x.toInt}"
  | .int64 x => s!"i64:{x.toInt}"
  | .float x => "f32:" ++ hexBE 4 x.toNat
  | .double x => "f64:" ++ hexBE 8 x.toNat
  | .dec4 s x => s!"d4:{s.toNat}:{x.toInt}"
  | .dec8 s x => s!"d8:{s.toNat}:{x.toInt}"
  | .dec16 s x => s!"d16:{s.toNat}:" ++ hexE (leN 16 x.toNat)
  | .date x => s!"date:{x.toInt}"
  | .ts x => s!"ts:{x.toInt}"
  | .tsNtz x => s!"tsntz:{x.toInt}"
  | .time x => s!"time:{x.toInt}"
  | .tsNanos x => s!"tsns:{x.toInt}"
  | .tsNtzNanos x => s!"tsntzns:{x.toInt}"
  | .binary b => "bin:" ++ hexE b
  | .string s => "s:" ++ hexE s
  | .uuid x => "u:" ++ hexBE 16 x.toNat

mutual
def showV : Value → String
  | .prim p => showPrim p
  | .arr es => "[" ++ ",".intercalate (showList es) ++ "]"
  | .obj fs => "{" ++ ",".intercalate (showFields fs) ++ "}"
def showList : List Value → List String
  | [] => []
  | e :: es => showV e :: showList es
def showFields : List (Key × Value) → List String
  | [] => []
  | (k, v) :: fs => (hexE k ++ "=" ++ showV v) :: showFields fs
end

/-! shredding schema text: `-` (no typed_value), `p<tag>` primitive column, `[s]` list of `s`,
    `{hexkey=s,…}` object; primitive tags as in `PqModel.Variant.PType`. -/

def ptypeOfString (s : String) : Option PType :=
  match s.splitOn ":" with
  | ["bool"] => some .bool
  | ["i8"] => some .int8
  | ["i16"] => some .int16
  | ["i32"] => some .int32
  | ["i64"] => some .int64
  | ["f32"] => some .float
  | ["f64"] => some .double
  | ["str"] => some .string
  | ["bin"] => some .binary
  | ["date"] => some .date
  | ["uuid"] => some .uuid
  | ["ts"] => some .ts
  | ["tsntz"] => some .tsNtz
  | ["tsns"] => some .tsNanos
  | ["tsntzns"] => some .tsNtzNanos
  | ["time"] => some .time
  | ["d4", p, s] => match p.toNat?, s.toNat? with
    | some p, some s => some (.dec4 p s)
    | _, _ => none
  | ["d8", p, s] => match p.toNat?, s.toNat? with
    | some p, some s => some (.dec8 p s)
    | _, _ => none
  | ["d16", p, s] => match p.toNat?, s.toNat? with
    | some p, some s => some (.dec16 p s)
    | _, _ => none
  | _ => none

mutual
def parseS : Nat → List Char → Option (Schema × List Char)
  | 0, _ => none
  | fuel + 1, cs =>
    match cs with
    | '-' :: rest => some (.untyped, rest)
    | '[' :: rest =>
      match parseS fuel rest with
      | some (s, ']' :: r) => some (.list s, r)
      | _ => none
    | '{' :: rest => (parseSFields fuel rest).map fun (fs, r) => (.obj fs, r)
    | 'p' :: rest =>
      let (tok, r) := spanTok rest
      (ptypeOfString (String.ofList tok)).map fun t => (.prim t, r)
    | _ => none
def parseSFields : Nat → List Char → Option (List (Key × Schema) × List Char)
  | 0, _ => none
  | fuel + 1, cs =>
    let (ktok, rest) := spanTok cs
    match hexOpt? (String.ofList ktok), rest with
    | some k, '=' :: rest =>
      match parseS fuel rest with
      | none => none
      | some (s, ',' :: rest) => (parseSFields fuel rest).map fun (fs, r) => ((k, s) :: fs, r)
      | some (s, '}' :: rest) => some ([(k, s)], rest)
      | some _ => none
    | _, _ => none
end

def parseSchema? (s : String) : Option Schema :=
  let cs := s.toList
  match parseS (cs.length + 1) cs with
  | some (v, []) => some v
  | _ => none

mutual
def showSlot : Slot → String
  | .missing => "_"
  | .mk v t => "(" ++ (match v with | none => "_" | some x => showV x) ++ "|" ++ showTyped t ++ ")"
def showTyped : Typed → String
  | .none => "_"
  | .prim p => showPrim p
  | .list es => "[" ++ ",".intercalate (showSlots es) ++ "]"
  | .obj fs => "{" ++ ",".intercalate (showSlotFields fs) ++ "}"
def showSlots : List Slot → List String
  | [] => []
  | e :: es => showSlot e :: showSlots es
def showSlotFields : List (Key × Slot) → List String
  | [] => []
  | (k, v) :: fs => (hexE k ++ "=" ++ showSlot v) :: showSlotFields fs
end

def showCol : ColVal → String
  | .bool b => if b then "b1" else "b0"
  | .i32 x => s!"i32:{x.toInt}"
  | .i64 x => s!"i64:{x.toInt}"
  | .f32 x => "f32:" ++ hexBE 4 x.toNat
  | .f64 x => "f64:" ++ hexBE 8 x.toNat
  | .bytes b => "x" ++ hexE b

def showLeaf : LeafVal → String
  | .enc b => "x" ++ hexE b
  | .col c => showCol c

mutual
/-- the primitive type of every leaf column below a variant group (`none` = a `value` column) -/
def colTypes : Schema → List (Option PType)
  | .untyped => [none]
  | .prim t => [none, some t]
  | .list e => none :: colTypes e
  | .obj fs => none :: colTypesFields fs
def colTypesFields : List (Key × Schema) → List (Option PType)
  | [] => []
  | (_, s) :: fs => colTypes s ++ colTypesFields fs
end

def showCell (d : Dict) (t : Option PType) (c : Cell) : String :=
  s!"{c.dl}.{c.rl}." ++ match c.pay with
    | .null => "-"
    | .val v => "x" ++ hexE (enc d v)
    | .typ p => match t.bind (fun t => toCol t p) with
      | some cv => showCol cv
      | none => "?"

def showCols (d : Dict) : List (Option PType) → List Col → List String
  | t :: ts, c :: cs => Driver.showList (showCell d t) c :: showCols d ts cs
  | _, _ => []

def parseColVal? (s : String) : Option ColVal :=
  if s.startsWith "x" then (hexOpt? (String.ofList (s.toList.drop 1))).map .bytes
  else match s.splitOn ":" with
    | ["i32", x] => (bv? 32 x).map .i32
    | ["i64", x] => (bv? 64 x).map .i64
    | ["f32", x] => if x.length = 8 then (hexNat? x).map fun n => .f32 (BitVec.ofNat 32 n) else none
    | ["f64", x] => if x.length = 16 then (hexNat? x).map fun n => .f64 (BitVec.ofNat 64 n) else none
    | ["b0"] => some (.bool false)
    | ["b1"] => some (.bool true)
    | _ => none

def parseStep? (s : String) : Option Step :=
  match s.toList with
  | ['e'] => some .elems
  | 'k' :: rest => (hexOpt? (String.ofList rest)).map .field
  | _ => none

def parsePath? (s : String) : Option (List Step) :=
  if s == "-" then some [] else (s.splitOn "/").mapM parseStep?

def showMat (c : Cur) : String :=
  match matCur c with
  | .val v => showV (canon v)
  | _ => "E"

def showCur (c : Cur) : String :=
  match c with
  | .missing => "M"
  | .null => "N"
  | .resid _ => "R" ++ showMat c
  | .typedPrim _ => "T" ++ showMat c
  | .typedObj _ _ _ => "O" ++ showMat c
  | .typedList _ _ => "L" ++ showMat c

def handle (toks : List String) : Option String :=
  match toks with
  | ["variant.enc", txt] => some <|
    match parseValue? txt with
    | none => "bad-op"
    | some v =>
      let r := encSt [] v   -- the literal one-pass mirror (= (metaOf v, encode (metaOf v) v), `encode_one_pass`)
      s!"ok {toHex (encodeMeta r.1)} {toHex r.2}"
  | ["variant.dec", m, v] => some <|
    match parseHex? m, parseHex? v with
    | some mb, some vb =>
      match decodeMeta mb with
      | .error e => s!"err meta:{e}"
      | .ok md =>
        match decode md.strings vb with
        | .error e => s!"err value:{e}"
        | .ok x => s!"ok {showV x}"
    | _, _ => "bad-op"
  | ["variant.canon", txt] => some <|
    match parseValue? txt with
    | none => "bad-op"
    | some v => s!"ok {showV (canon v)}"
  | ["variant.shred", sch, txt] => some <|
    match parseSchema? sch, parseValue? txt with
    | some s, some v =>
      let sl := shred s v
      let cnt := Driver.showList (fun (n : Nat) => toString n) (leafCounts s sl)
      match unshred s sl with
      | some r => s!"ok {showSlot sl} {showV r} {cnt}"
      | none => s!"ok {showSlot sl} invalid {cnt}"
    | _, _ => "bad-op"
  | ["variant.cells", g, r, rep, sch, txt] => some <|
    match g.toNat?, r.toNat?, rep.toNat?, parseSchema? sch, parseValue? txt with
    | some g, some r, some rep, some s, some v =>
      let d := metaOf v
      let cols := emit s g r rep (shred s v)
      s!"ok {toHex (encodeMeta d)} {";".intercalate (showCols d (colTypes s) cols)}"
    | _, _, _, _, _ => "bad-op"
  | ["variant.nav", sch, path, txt] => some <|
    match parseSchema? sch, parsePath? path, parseValue? txt with
    | some s, some p, some v =>
      let es := (navPathCur p (rootWindow s [v])).map showCur
      if es.isEmpty then "ok -" else s!"ok {";".intercalate es}"
    | _, _, _ => "bad-op"
  | ["variant.ofcol", t, c] => some <|
    match ptypeOfString t, parseColVal? c with
    | some t, some c =>
      match ofCol t c with
      | some p => s!"ok {showPrim p}"
      | none => "err"
    | _, _ => "bad-op"
  | ["variant.shredcols", sch, txt] => some <|
    match parseSchema? sch, parseValue? txt with
    | some s, some v =>
      let d := metaOf v
      let cols := leafValues d s (shred s v)
      let colTxt := ";".intercalate (cols.map fun c => Driver.showList showLeaf c)
      s!"ok {toHex (encodeMeta d)} {colTxt}"
    | _, _ => "bad-op"
  | _ => none

end Driver.Ops.C19
