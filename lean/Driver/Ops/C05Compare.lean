import Driver.Proto
import PqModel.CompareTypes

/-! Ops of C05, sub-check `compare`: the literal mirrors of the comparison functions behind `Type.Compare`.
    Numbers travel as unsigned decimal BIT PATTERNS, byte strings as hex (`e` = empty).

    c05c.cmp bool <0|1> <0|1>          -> ok <-1|0|1>   compareBool
    c05c.cmp i32|i64|u32|u64 <a> <b>   -> ok <-1|0|1>   compareInt32/64, compareUint32/64
    c05c.cmp f32|f64 <a> <b>           -> ok <-1|0|1>   compareFloat32/64 (IEEE-754 comparison by value)
    c05c.cmp bytes <hex> <hex>         -> ok <-1|0|1>   bytes.Compare
    c05c.cmp be128 <hex16> <hex16>     -> ok <-1|0|1>   compareBE128
    c05c.cmp less128 <hex16> <hex16>   -> ok <0|1>      lessBE128
    c05c.cmp int<w><s|u> <a> <b>       -> ok <-1|0|1>   (*intType).Compare, payloads as 64-bit patterns
    c05c.arm <type> <asc|desc|type> <a> <b> -> ok <-1|0|1>
        compareRowsFuncOfIndexAscending / …Descending arm of the leaf type, or its Type.Compare; types: int32 uint32
        int64 uint64 float double boolean date timestamp time32 time64 decimal32 decimal64 int<w><s|u> (payload = the
        64-bit field of the Value) | byteArray string flba enum geography bson geometry json interval be128 uuid (hex) -/
namespace Driver.Ops.C05Compare
open Driver PqModel.CompareTypes

def parseBytes? (s : String) : Option (List Nat) :=
  if s == "e" then some [] else (parseHex? s).map (·.map UInt8.toNat)

/-- `int8s` … `int64u` -/
def intKind? : String → Option (Nat × Bool)
  | "int8s" => some (8, true) | "int16s" => some (16, true) | "int32s" => some (32, true) | "int64s" => some (64, true)
  | "int8u" => some (8, false) | "int16u" => some (16, false) | "int32u" => some (32, false) | "int64u" => some (64, false)
  | _ => none

def wordType? : String → Option LeafType
  | "int32" => some .int32 | "uint32" => some .uint32 | "int64" => some .int64 | "uint64" => some .uint64
  | "float" => some .float | "double" => some .double | "boolean" => some .boolean
  | "date" => some .date | "timestamp" => some .timestamp | "time32" => some (.time true) | "time64" => some (.time false)
  | "decimal32" => some .decimalInt32 | "decimal64" => some .decimalInt64
  | k => (intKind? k).map (fun (w, s) => .int w s)

def bytesType? : String → Option LeafType
  | "byteArray" => some .byteArray | "string" => some .string | "flba" => some .fixedLenByteArray
  | "enum" => some .enum | "geography" => some .geography | "bson" => some .bson | "geometry" => some .geometry
  | "json" => some .json | "interval" => some .interval | "be128" => some .be128 | "uuid" => some .uuid
  | _ => none

def armOf? : String → Option (LeafType → Val → Val → Int)
  | "asc" => some armAscending | "desc" => some armDescending | "type" => some typeCompare
  | _ => none

def handle (toks : List String) : Option String :=
  match toks with
  | ["c05c.arm", ty, dir, a, b] => some <|
    match armOf? dir with
    | none => "bad-op"
    | some f =>
      match wordType? ty with
      | some t =>
        match parseNat? a, parseNat? b with
        | some x, some y => s!"ok {f t ⟨BitVec.ofNat 64 x, []⟩ ⟨BitVec.ofNat 64 y, []⟩}"
        | _, _ => "bad-op"
      | none =>
        match bytesType? ty, parseBytes? a, parseBytes? b with
        | some t, some x, some y => s!"ok {f t ⟨BitVec.ofNat 64 x.length, x⟩ ⟨BitVec.ofNat 64 y.length, y⟩}"
        | _, _, _ => "bad-op"
  | ["c05c.cmp", kind, a, b] => some <|
    match kind with
    | "bytes" | "be128" | "less128" =>
      match parseBytes? a, parseBytes? b with
      | some x, some y =>
        if kind == "bytes" then s!"ok {bytesCompare x y}"
        else if kind == "be128" then s!"ok {compareBE128 x y}"
        else s!"ok {if lessBE128 x y then 1 else 0}"
      | _, _ => "bad-op"
    | _ =>
      match parseNat? a, parseNat? b with
      | some x, some y =>
        match kind with
        | "bool" => s!"ok {compareBool (x != 0) (y != 0)}"
        | "i32" => s!"ok {compareInt32 (BitVec.ofNat 32 x) (BitVec.ofNat 32 y)}"
        | "i64" => s!"ok {compareInt64 (BitVec.ofNat 64 x) (BitVec.ofNat 64 y)}"
        | "u32" => s!"ok {compareUint32 (BitVec.ofNat 32 x) (BitVec.ofNat 32 y)}"
        | "u64" => s!"ok {compareUint64 (BitVec.ofNat 64 x) (BitVec.ofNat 64 y)}"
        | "f32" => s!"ok {compareFloat32 (BitVec.ofNat 32 x) (BitVec.ofNat 32 y)}"
        | "f64" => s!"ok {compareFloat64 (BitVec.ofNat 64 x) (BitVec.ofNat 64 y)}"
        | _ =>
          match intKind? kind with
          | some (w, s) => s!"ok {intTypeCompare w s (BitVec.ofNat 64 x) (BitVec.ofNat 64 y)}"
          | none => "bad-op"
      | _, _ => "bad-op"
  | _ => none

end Driver.Ops.C05Compare
