import Driver.Proto
import PqModel.Pool

/-! Line-protocol ops of property C16 (pool ownership model).

`pool.trace <ev>,<ev>,...` with ev = `g<id>` | `r<id>` | `u<id>`: replays buffer-level events (as
recorded by the verif hook of the library) on the model heap; answers `ok <refc after each event>`
or `err <index> <why>` at the first transition the model does not allow.

`pool.run <det> <op> <op> ...`: runs API-level operations on the model (`det` = comma list of the
reader ids that detach, `-` for none) and answers, per op, `<ret>:<npages>:<bug>:<refcounts>`
joined by `;` (ret = page id returned by rp / sl, `n` otherwise).
Op syntax (page arguments are `@k` = the page returned by op number k, 0-based):
  rp:<r>:<within>:<iters>   sk:<r>:<same>   cl:<r>   rt:@k   rl:@k   sl:@k   pv:@k
  vr:<r>:<rounds>   vs:<r>:<same>   vx:<r>:<same> (Reset)   vc:<r>   rg:<r>:<rounds>   cn:<k>   ch:<picks>
  iters  = iter;iter;...  | -        iter  = <transient picks | ->/<page | ->/<r|s|l>
  page   = <ptr 0|1>,<values pick>,<other pick>,...
  rounds = round+round+... | -       round = <within>~<iters>~<yields>
-/
namespace Driver.Ops.C16
open Driver PqModel.Pool

def bugStr : Option Bug → String
  | none => "ok"
  | some .underflow => "underflow"
  | some .refDead => "refdead"

def bool? (s : String) : Option Bool := if s == "1" then some true else if s == "0" then some false else none

/-- buffer-level replay -/
def traceStep (h : Heap) (ev : String) : Except String (Heap × Nat) :=
  match ev.toList with
  | c :: rest =>
    match (String.ofList rest).toNat? with
    | none => .error "bad-event"
    | some b =>
      if c == 'g' then
        if (h.bufs b).inPool then
          let r := h.get b []
          .ok (r.1, (r.1.bufs b).refc)
        else .error "get-of-live-buffer"
      else if c == 'r' then
        if (h.bufs b).refc = 0 then .error "ref-of-released-buffer"
        else let h' := h.ref b; .ok (h', (h'.bufs b).refc)
      else if c == 'u' then
        if (h.bufs b).refc = 0 then .error "unref-below-zero"
        else let h' := h.unref b; .ok (h', (h'.bufs b).refc)
      else .error "bad-event"
  | [] => .error "bad-event"

def traceRun : Heap → List String → Nat → List Nat → Except String (List Nat)
  | _, [], _, acc => .ok acc.reverse
  | h, ev :: rest, i, acc =>
    match traceStep h ev with
    | .error e => .error s!"{i} {e}"
    | .ok (h', rc) => traceRun h' rest (i + 1) (rc :: acc)

def picks? (s : String) : Option (List (BufId × List UInt8)) :=
  (parseList? parseNat? s).map (·.map fun p => (p, []))

def page? (s : String) : Option (Option DecodeSpec) :=
  if s == "-" then some none else
  match splitList s with
  | ptr :: v :: others =>
    match bool? ptr, parseNat? v, others.mapM parseNat? with
    | some ptr, some v, some os => some (some ⟨(v, []), os.map (fun p => (p, [])), ptr⟩)
    | _, _, _ => none
  | _ => none

def action? (s : String) : Option Action :=
  if s == "r" then some .ret else if s == "s" then some .skip else if s == "l" then some .sliceRet else none

def iter? (s : String) : Option Iter :=
  match s.splitOn "/" with
  | [ts, pg, act] =>
    match picks? ts, page? pg, action? act with
    | some ts, some pg, some act => some ⟨ts, pg, act⟩
    | _, _, _ => none
  | _ => none

def iters? (s : String) : Option (List Iter) :=
  if s == "-" then some [] else (s.splitOn ";").mapM iter?

def round? (s : String) : Option Round :=
  match s.splitOn "~" with
  | [w, its, y] =>
    match bool? w, iters? its, bool? y with
    | some w, some its, some y => some ⟨w, its, y⟩
    | _, _, _ => none
  | _ => none

def rounds? (s : String) : Option (List Round) :=
  if s == "-" then some [] else (s.splitOn "+").mapM round?

/-- `@k`: the page returned by op k -/
def pageRef? (rets : List (Option PageId)) (s : String) : Option (Option PageId) :=
  match s.toList with
  | '@' :: rest => (String.ofList rest).toNat?.map fun k => (rets.getD k none)
  | _ => none

/-- parse one op given the pages returned so far; `none` = unparsable. A page handle that resolved
    to no page makes the op a no-op (`churn []`). -/
def op? (rets : List (Option PageId)) (tok : String) : Option Op :=
  let onPage (arg : String) (f : PageId → Op) : Option Op :=
    match pageRef? rets arg with
    | none => none
    | some none => some (.churn [])
    | some (some p) => some (f p)
  match tok.splitOn ":" with
  | ["rp", r, w, its] =>
    match parseNat? r, bool? w, iters? its with
    | some r, some w, some its => some (.readPage r w its)
    | _, _, _ => none
  | ["sk", r, same] => match parseNat? r, bool? same with
    | some r, some b => some (.seekPages r b) | _, _ => none
  | ["cl", r] => (parseNat? r).map .closePages
  | ["rt", p] => onPage p .retain
  | ["rl", p] => onPage p .release
  | ["sl", p] => onPage p .slice
  | ["pv", p] => onPage p .pageValues
  | ["vr", r, rs] => match parseNat? r, rounds? rs with
    | some r, some rs => some (.vrRead r rs) | _, _ => none
  | ["rg", r, rs] => match parseNat? r, rounds? rs with
    | some r, some rs => some (.readGo r rs) | _, _ => none
  | ["vs", r, same] => match parseNat? r, bool? same with
    | some r, some b => some (.vrSeek r b) | _, _ => none
  | ["vx", r, same] => match parseNat? r, bool? same with
    | some r, some b => some (.vrReset r b) | _, _ => none
  | ["vc", r] => (parseNat? r).map .vrClose
  | ["cn", k] => (parseNat? k).map .clone
  | ["ch", ps] => (picks? ps).map .churn
  | _ => none

/-- the page an op hands to the application -/
def opRet (s : State) (op : Op) : Option PageId :=
  match op with
  | .readPage r w its => (s.readPage r .caller w its).2
  | .slice p => if hasCaller s p then some s.npages else none
  | _ => none

def snapshot (s : State) (ret : Option PageId) : String :=
  let rc := (List.range s.heap.nbufs).map fun b => toString (s.heap.bufs b).refc
  let rs := match ret with | some p => toString p | none => "n"
  s!"{rs}:{s.npages}:{bugStr s.heap.bug}:{showList id rc}"

def runOps : State → List String → List (Option PageId) → List String → Option (List String)
  | _, [], _, acc => some acc.reverse
  | s, tok :: rest, rets, acc =>
    match op? rets tok with
    | none => none
    | some op =>
      let ret := opRet s op
      let s' := s.step op
      runOps s' rest (rets ++ [ret]) (snapshot s' ret :: acc)

def handle (toks : List String) : Option String :=
  match toks with
  | ["pool.trace", evs] => some <|
    match traceRun Heap.init (splitList evs) 0 [] with
    | .ok rcs => s!"ok {showList toString rcs}"
    | .error e => s!"err {e}"
  | "pool.run" :: det :: ops => some <|
    match parseList? parseNat? det with
    | none => "bad-op"
    | some ds =>
      match runOps (State.init fun r => ds.contains r) ops [] [] with
      | none => "bad-op"
      | some outs => if outs.isEmpty then "ok -" else "ok " ++ ";".intercalate outs
  | _ => none

end Driver.Ops.C16
