import Driver.Proto
import PqModel.Spec.FileCheck

/-! `file.check <path> <maxRows>`: run the spec-side structural and value-level reader on a file
    on disk. `file.dump <path>`: the Dremel streams the spec reader decodes from the file, one
    column after the other (` ; ` between columns, ` ` between entries, entry = `hex/rep/def` or
    `n/rep/def`, `-` = empty byte string, `?` = column with a codec other than none/snappy). -/
namespace Driver.Ops.C02
open PqModel.Spec

def entryText (t : Triple) : String :=
  (match t.val with | none => "n" | some v => Driver.toHex v) ++ "/" ++ toString t.rep ++ "/" ++ toString t.dl

def columnText : Option (List Triple) → String
  | none => "?"
  | some ts => " ".intercalate (ts.map entryText)

def handleIO (toks : List String) : IO (Option String) := do
  match toks with
  | ["file.check", path, maxRows] =>
    match maxRows.toNat? with
    | none => return some "bad-op"
    | some mr =>
      let d ← try IO.FS.readBinFile path catch _ => return some "err unreadable"
      match checkFile d mr with
      | .error e => return some s!"err {e.replace "\n" " "}"
      | .ok r =>
        if r.problems.isEmpty then return some s!"ok {r.summary}"
        else return some s!"bad {r.summary} | {" ; ".intercalate (r.problems.reverse.map (·.replace "\n" " "))}"
  | ["file.dump", path] =>
    let d ← try IO.FS.readBinFile path catch _ => return some "err unreadable"
    match dumpFile d with
    | .error e => return some s!"err {e.replace "\n" " "}"
    | .ok cols => return some s!"ok {" ; ".intercalate (cols.map columnText)}"
  | _ => return none

end Driver.Ops.C02
