import Driver.Proto
import PqModel.Spec.FileCheck
import PqModel.Spec.FileTail

/-! `file.check <path> <maxRows>`: run the spec-side structural and value-level reader on a file
    on disk. `file.dump <path>`: the Dremel streams the spec reader decodes from the file, one
    column after the other (` ; ` between columns, ` ` between entries, entry = `hex/rep/def` or
    `n/rep/def`, `-` = empty byte string, `?` = column with a codec other than none/snappy).
    `file.meta <path>` → `ok created_by=<hex|none> kv=<keyhex:valhex,…|-> sorting=<rg;rg;…> (rg =
    `idx/d/n+…` or `-`) indexes=<n> layout=<agrees|differs: …>` (spec views of the footer's metadata,
    and the page-index offsets against the mirror of writeFileFooter). -/
namespace Driver.Ops.C02
open PqModel.Spec

def entryText (t : Triple) : String :=
  (match t.val with | none => "n" | some v => Driver.toHex v) ++ "/" ++ toString t.rep ++ "/" ++ toString t.dl

def columnText : Option (List Triple) → String
  | none => "?"
  | some ts => " ".intercalate (ts.map entryText)

def handleIO (toks : List String) : IO (Option String) := do
  match toks with
  | ["file.check", path, maxRows] =>
    match maxRows.toNat? with
    | none => return some "bad-op"
    | some mr =>
      let d ← try IO.FS.readBinFile path catch _ => return some "err unreadable"
      match checkFile d mr with
      | .error e => return some s!"err {e.replace "\n" " "}"
      | .ok r =>
        if r.problems.isEmpty then return some s!"ok {r.summary}"
        else return some s!"bad {r.summary} | {" ; ".intercalate (r.problems.reverse.map (·.replace "\n" " "))}"
  | ["file.dump", path] =>
    let d ← try IO.FS.readBinFile path catch _ => return some "err unreadable"
    match dumpFile d with
    | .error e => return some s!"err {e.replace "\n" " "}"
    | .ok cols => return some s!"ok {" ; ".intercalate (cols.map columnText)}"
  | ["file.meta", path] =>
    let d ← try IO.FS.readBinFile path catch _ => return some "err unreadable"
    match fileMeta d with
    | .error e => return some s!"err {e.replace "\n" " "}"
    | .ok m =>
      let hx := fun (b : ByteArray) => if b.size == 0 then "-" else Driver.toHex b.toList
      let cb := match m.createdBy with | some b => hx b | none => "none"
      let kv := if m.kvs.isEmpty then "-" else ",".intercalate (m.kvs.map fun o => match o with
        | some (k, v) => hx k ++ ":" ++ (match v with | some v => hx v | none => "none")
        | none => "nokey")
      let b01 := fun (b : Bool) => if b then "1" else "0"
      let sorting := ";".intercalate (m.sorting.map fun scs => if scs.isEmpty then "-" else "+".intercalate (scs.map fun o => match o with
        | some (i, dsc, nf) => s!"{i}/{b01 dsc}/{b01 nf}"
        | none => "bad"))
      let layout := if m.layout.isEmpty then "agrees" else "differs: " ++ " ; ".intercalate m.layout
      return some s!"ok created_by={cb} kv={kv} sorting={sorting} indexes={m.indexes} layout={layout}"
  | _ => return none

end Driver.Ops.C02
