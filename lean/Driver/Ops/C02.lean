import Driver.Proto
import PqModel.Spec.FileCheck

/-! `file.check <path> <maxRows>`: run the spec-side structural reader on a file on disk. -/
namespace Driver.Ops.C02
open PqModel.Spec

def handleIO (toks : List String) : IO (Option String) := do
  match toks with
  | ["file.check", path, maxRows] =>
    match maxRows.toNat? with
    | none => return some "bad-op"
    | some mr =>
      let d ← try IO.FS.readBinFile path catch _ => return some "err unreadable"
      match checkFile d mr with
      | .error e => return some s!"err {e.replace "\n" " "}"
      | .ok r =>
        if r.problems.isEmpty then return some s!"ok {r.summary}"
        else return some s!"bad {r.summary} | {" ; ".intercalate (r.problems.reverse.map (·.replace "\n" " "))}"
  | _ => return none

end Driver.Ops.C02
