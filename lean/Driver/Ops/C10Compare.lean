import Driver.Proto
import Driver.Ops.C05Compare
import PqModel.CompareRows

/-! Ops of C10, sub-check `bufless`: the mirror `CompareRows.bufferLess` of the `Less` method of the column buffer
    a leaf type creates, on two values. Type tags and payload encoding as in `c05c.arm` (Driver/Ops/C05Compare.lean):
    word types carry the 64-bit field of the Value as an unsigned decimal, byte types hex (`e` = empty).

    c10c.less <type> <a> <b>   -> ok <0|1>   bufferLess t a b -/
namespace Driver.Ops.C10Compare
open Driver PqModel.CompareTypes PqModel.CompareRows Driver.Ops.C05Compare

def handle (toks : List String) : Option String :=
  match toks with
  | ["c10c.less", ty, a, b] => some <|
    match wordType? ty with
    | some t =>
      match parseNat? a, parseNat? b with
      | some x, some y => s!"ok {if bufferLess t ⟨BitVec.ofNat 64 x, []⟩ ⟨BitVec.ofNat 64 y, []⟩ then 1 else 0}"
      | _, _ => "bad-op"
    | none =>
      match bytesType? ty, parseBytes? a, parseBytes? b with
      | some t, some x, some y =>
        s!"ok {if bufferLess t ⟨BitVec.ofNat 64 x.length, x⟩ ⟨BitVec.ofNat 64 y.length, y⟩ then 1 else 0}"
      | _, _, _ => "bad-op"
  | _ => none

end Driver.Ops.C10Compare
