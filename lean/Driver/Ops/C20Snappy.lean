import Driver.Proto
import PqModel.Spec.SnappyElems

/-! C20 round 6 ops: the Snappy block format on elements (PqModel/Spec/SnappyElems.lean). -/
namespace Driver.Ops.C20Snappy
open Driver PqModel.Spec.BlockCodecs PqModel.Spec.SnappyElems

def showErr : Err → String
  | .fuel => "fuel" | .truncated => "truncated" | .badOffset => "bad-offset"
  | .badLength => "bad-length" | .tooLarge => "too-large"

/-- `L:<hex>` | `C:<kind>:<off>:<len>` -/
def parseElem? (s : String) : Option Elem :=
  match s.splitOn ":" with
  | ["L", x] => (parseHex? x).map .lit
  | ["C", k, o, l] => do
    let k ← parseNat? k
    let o ← parseNat? o
    let l ← parseNat? l
    pure (.copy k o l)
  | _ => none

def bit (b : Bool) : String := if b then "1" else "0"

def countKind (els : List Elem) (k : Nat) : Nat :=
  (els.filter fun e => match e with | .copy k' _ _ => k' == k | _ => false).length

def overlaps (els : List Elem) : Bool :=
  els.any fun e => match e with | .copy _ off len => decide (off < len) | _ => false

def handle (toks : List String) : Option String :=
  match toks with
  /- `snappy.encelems <elem,elem,..|->` → `ok <blockhex> w=<writable> <ok:hex|err:name>`; the last
     field is the spec reader's answer on the block, compared with `applyElems` when writable
     (theorem snappyDec_encBlock) -/
  | ["snappy.encelems", es] => some <|
    match parseList? parseElem? es with
    | none => "bad-op"
    | some els =>
      let blk := encBlock els
      let w := elemsOk els #[]
      match snappyDec blk with
      | .ok y =>
        if !w || y == (applyElems els #[]).toList then s!"ok {toHex blk} w={bit w} ok:{toHex y}"
        else "model-inconsistent"
      | .error er => if w then "model-inconsistent" else s!"ok {toHex blk} w={bit w} err:{showErr er}"
  /- `snappy.parse <blockhex>` → `ok n=<elements> w= canon= len=<announced = produced> ovl= k1= k2= k4= <meaning hex>` -/
  | ["snappy.parse", x] => some <|
    match parseHex? x with
    | none => "bad-op"
    | some blk =>
      match parseBlock blk with
      | none => "err parse"
      | some (want, els) =>
        let w := elemsOk els #[]
        let out := applyElems els #[]
        let meaning := if w then toHex out.toList else "unwritable"
        s!"ok n={els.length} w={bit w} canon={bit (encBlock els == blk)} len={bit (out.size == want)} ovl={bit (overlaps els)} k1={countKind els 1} k2={countKind els 2} k4={countKind els 4} {meaning}"
  | _ => none

end Driver.Ops.C20Snappy
