import Driver.Proto
import PqModel.Aad

namespace Driver.Ops.C18
open Driver PqModel.Aad

def moduleOf? (name : String) (rg col page : Nat) : Option Module :=
  match name with
  | "footer" => some .footer
  | "columnMeta" => some (.columnMeta rg col)
  | "dataPageHeader" => some (.dataPageHeader rg col page)
  | "dataPage" => some (.dataPage rg col page)
  | "dictPageHeader" => some (.dictPageHeader rg col)
  | "dictPage" => some (.dictPage rg col)
  | "bloomHeader" => some (.bloomHeader rg col)
  | "bloomBits" => some (.bloomBits rg col)
  | "columnIndex" => some (.columnIndex rg col)
  | "offsetIndex" => some (.offsetIndex rg col)
  | _ => none

/-- `aad <prefix hex> <fileid hex> <module type> <rg> <col> <page>` -> `ok <aad hex>`
    (ordinals a module type does not carry are ignored) -/
def handle (toks : List String) : Option String :=
  match toks with
  | ["aad", pfx, fu, name, rg, col, page] => some <|
    match parseHex? pfx, parseHex? fu, parseNat? rg, parseNat? col, parseNat? page with
    | some pfx, some fu, some rg, some col, some page =>
      match moduleOf? name rg col page with
      | some m => s!"ok {toHex (m.aad pfx fu)}"
      | none => "bad-op"
    | _, _, _, _, _ => "bad-op"
  | _ => none

end Driver.Ops.C18
