import Driver.Proto
import PqModel.Aad
import PqModel.EncWalk

namespace Driver.Ops.C18
open Driver PqModel.Aad

def moduleOf? (name : String) (rg col page : Nat) : Option Module :=
  match name with
  | "footer" => some .footer
  | "columnMeta" => some (.columnMeta rg col)
  | "dataPageHeader" => some (.dataPageHeader rg col page)
  | "dataPage" => some (.dataPage rg col page)
  | "dictPageHeader" => some (.dictPageHeader rg col)
  | "dictPage" => some (.dictPage rg col)
  | "bloomHeader" => some (.bloomHeader rg col)
  | "bloomBits" => some (.bloomBits rg col)
  | "columnIndex" => some (.columnIndex rg col)
  | "offsetIndex" => some (.offsetIndex rg col)
  | _ => none

/-- `aad <prefix hex> <fileid hex> <module type> <rg> <col> <page>` -> `ok <aad hex>`
    (ordinals a module type does not carry are ignored) -/
def handle (toks : List String) : Option String :=
  match toks with
  | ["aad", pfx, fu, name, rg, col, page] => some <|
    match parseHex? pfx, parseHex? fu, parseNat? rg, parseNat? col, parseNat? page with
    | some pfx, some fu, some rg, some col, some page =>
      match moduleOf? name rg col page with
      | some m => s!"ok {toHex (m.aad pfx fu)}"
      | none => "bad-op"
    | _, _, _, _, _ => "bad-op"
  | _ => none

def envText (e : PqModel.EncWalk.Env) : String := s!"{e.1}:{e.2}"

/-- `file.modules <path>` -> `ok <encfooter 0/1> <footer start> <plain footer bytes> <prefix hex> <file id hex> <off:len,...>`
    (every envelope of the file, in offset order) or `bad ... | problems` / `err <why>` -/
def handleIO (toks : List String) : IO (Option String) := do
  match toks with
  | ["file.modules", path] =>
    let d ← try IO.FS.readBinFile path catch _ => return some "err unreadable"
    match PqModel.EncWalk.walk d with
    | .error e => return some s!"err {e.replace "\n" " "}"
    | .ok w =>
      let mods := w.dataMods ++ w.footerMods
      let line := s!"{if w.encFooter then 1 else 0} {w.footerStart} {w.plainLen} {toHex w.aadPrefix.toList} {toHex w.fileUnique.toList} {showList envText mods}"
      if w.problems.isEmpty then return some s!"ok {line}"
      else return some s!"bad {line} | {" ; ".intercalate w.problems}"
  | _ => return none

end Driver.Ops.C18
