import Driver.Proto
import PqModel.Aad
import PqModel.EncWalk
import PqModel.EncConfig
import PqModel.AadReader
import PqModel.AadFile

namespace Driver.Ops.C18
open Driver PqModel.Aad

def moduleOf? (name : String) (rg col page : Nat) : Option Module :=
  match name with
  | "footer" => some .footer
  | "columnMeta" => some (.columnMeta rg col)
  | "dataPageHeader" => some (.dataPageHeader rg col page)
  | "dataPage" => some (.dataPage rg col page)
  | "dictPageHeader" => some (.dictPageHeader rg col)
  | "dictPage" => some (.dictPage rg col)
  | "bloomHeader" => some (.bloomHeader rg col)
  | "bloomBits" => some (.bloomBits rg col)
  | "columnIndex" => some (.columnIndex rg col)
  | "offsetIndex" => some (.offsetIndex rg col)
  | _ => none

def typeName : ModType → String
  | .footer => "footer" | .columnMeta => "columnMeta" | .dataPage => "dataPage" | .dataPageHeader => "dataPageHeader"
  | .dictPage => "dictPage" | .dictPageHeader => "dictPageHeader" | .bloomHeader => "bloomHeader" | .bloomBits => "bloomBits"
  | .columnIndex => "columnIndex" | .offsetIndex => "offsetIndex"

/-- `kind:rg:col:page` of a slot (ordinals the slot does not carry are 0) -/
def slotText : Module → String
  | .footer => "footer:0:0:0"
  | .columnMeta rg col => s!"columnMeta:{rg}:{col}:0"
  | .dataPageHeader rg col p => s!"dataPageHeader:{rg}:{col}:{p}"
  | .dataPage rg col p => s!"dataPage:{rg}:{col}:{p}"
  | .dictPageHeader rg col => s!"dictPageHeader:{rg}:{col}:0"
  | .dictPage rg col => s!"dictPage:{rg}:{col}:0"
  | .bloomHeader rg col => s!"bloomHeader:{rg}:{col}:0"
  | .bloomBits rg col => s!"bloomBits:{rg}:{col}:0"
  | .columnIndex rg col => s!"columnIndex:{rg}:{col}:0"
  | .offsetIndex rg col => s!"offsetIndex:{rg}:{col}:0"

def wevText (e : WEv) : String :=
  let ords := if e.used.ords.isEmpty then "-" else ".".intercalate (e.used.ords.map toString)
  let fu := match e.fu with | some g => toString g | none => "n"
  s!"{slotText e.slot}:{typeName e.used.t}:{ords}:{fu}"

def parseCols? (s : String) : Option (List Nat) := parseList? parseNat? s

/-- one step of a writer history: `w` | `p:<col>` | `f:<cols>` | `cw:<id>` | `cp:<id>:<col>` |
    `c:<id>:<cols of the writer's own row group>:<cols of the row group>` | `r` -/
def parseWOp? (s : String) : Option WOp :=
  match s.splitOn ":" with
  | ["w"] => some .write
  | ["r"] => some .reset
  | ["p", c] => (parseNat? c).map .page
  | ["f", cs] => (parseCols? cs).map .flush
  | ["cw", i] => (parseNat? i).map .cwrite
  | ["cp", i, c] => match parseNat? i, parseNat? c with
    | some i, some c => some (.cpage i c)
    | _, _ => none
  | ["c", i, a, b] => match parseNat? i, parseCols? a, parseCols? b with
    | some i, some a, some b => some (.commit i a b)
    | _, _, _ => none
  | _ => none

/-- one API call of a reader history: `r` = ReadPage, `s:<row>` = SeekToRow(row), `d` = ReadDictionary -/
def parsePOp? (s : String) : Option POp :=
  match s.splitOn ":" with
  | ["r"] => some .readPage
  | ["d"] => some .readDictionary
  | ["s", row] => (parseNat? row).map .seek
  | _ => none

def presText : PRes × Nat → String
  | (.page i cut, n) => s!"page:{i}:{cut}:{n}"
  | (.eof, n) => s!"eof:{n}"
  | (.done, n) => s!"done:{n}"

/-- `aad.prun <rg> <col> <has dictionary 0/1> <offset index loaded 0/1> <rows per data page> <page is
    dictionary-encoded 0/1, per data page> <call> ...` ->
    `ok <result:…:modules opened so far, per call> <slot opened, in order> <all opened with the slot's arguments 0/1>` -/
def handlePrun (rg col hasDict indexed rows enc : String) (ops : List String) : String :=
  match parseNat? rg, parseNat? col, parseNat? hasDict, parseNat? indexed, parseCols? rows, parseCols? enc, ops.mapM parsePOp? with
  | some rg, some col, some hd, some ix, some rows, some enc, some ops =>
    let pc : PChunk := { c := { rg := rg, col := col, hasDict := hd != 0, npages := rows.length }, rows := rows,
                         dictEnc := enc.map (· != 0), indexed := ix != 0 }
    let out := prun pc ops
    let good := out.1.r.log.all (fun e => e.used == e.slot.used)
    s!"ok {showList presText out.2} {showList (fun (e : Ev) => slotText e.slot) out.1.r.log} {if good then 1 else 0}"
  | _, _, _, _, _, _, _ => "bad-op"

/-- a chunk of a file description: four characters 0/1 = sealed column metadata, column index,
    offset index, bloom filter present -/
def parseFChunk? (s : String) : Option FChunk :=
  match s.toList with
  | [a, b, c, d] =>
    if [a, b, c, d].all (fun x => x == '0' || x == '1') then
      some { sealedMeta := a == '1', hasCI := b == '1', hasOI := c == '1', hasBloom := d == '1' }
    else none
  | _ => none

def parseFOp? (s : String) : Option FOp :=
  match s.splitOn ":" with
  | ["o", skip] => (parseNat? skip).map (fun n => .openFile (n != 0))
  | ["ci", rg, col] => match parseNat? rg, parseNat? col with
    | some rg, some col => some (.columnIndex rg col)
    | _, _ => none
  | ["oi", rg, col] => match parseNat? rg, parseNat? col with
    | some rg, some col => some (.offsetIndex rg col)
    | _, _ => none
  | ["bf", rg, col] => match parseNat? rg, parseNat? col with
    | some rg, some col => some (.bloom rg col)
    | _, _ => none
  | _ => none

/-- `aad.frun <row groups separated by /, chunks by ,> <call> ...` (calls: `o:<skip page index 0/1>`
    OpenFile, `ci:<rg>:<col>` ColumnIndex(), `oi:…` OffsetIndex(), `bf:…` BloomFilter()) ->
    `ok <modules opened so far, per call> <slot opened, in order> <all opened with the slot's arguments 0/1>` -/
def handleFrun (file : String) (ops : List String) : String :=
  match (file.splitOn "/").mapM (fun rg => (rg.splitOn ",").mapM parseFChunk?), ops.mapM parseFOp? with
  | some f, some ops =>
    let out := frun f ops
    let good := out.1.log.all (fun e => e.used == e.slot.used)
    s!"ok {showList toString out.2} {showList (fun (e : Ev) => slotText e.slot) out.1.log} {if good then 1 else 0}"
  | _, _ => "bad-op"

/-- one token of an option structure: `E<id>` / `E-` = `WithEncryption(cfg)` / `WithEncryption(nil)`,
    `S<id>` / `S-` = a configuration struct with / without the field, `O` = any other option,
    `[` … `]` = `NewWriterConfig(…)` whose result is passed on as one struct option -/
def parseCfgTok? (s : String) : Option PqModel.EncConfig.Tok :=
  open PqModel.EncConfig in
  match s with
  | "O" => some (.opt .other)
  | "[" => some .openG
  | "]" => some .closeG
  | "E-" => some (.opt (.withEnc none))
  | "S-" => some (.opt (.config none))
  | _ =>
    if s.startsWith "E" then (parseNat? (s.drop 1).toString).map (fun n => .opt (.withEnc (some n)))
    else if s.startsWith "S" then (parseNat? (s.drop 1).toString).map (fun n => .opt (.config (some n)))
    else none

/-- `enc.config <token> ...` -> `ok <id | ->` (the Encryption / Decryption field after
    `NewWriterConfig` / `NewFileConfig` of the option structure) or `unbalanced` -/
def handleCfg (toks : List String) : String :=
  match toks.mapM parseCfgTok? with
  | none => "bad-op"
  | some ts =>
    match PqModel.EncConfig.runToks ts with
    | none => "unbalanced"
    | some none => "ok -"
    | some (some n) => s!"ok {n}"

/-- `aad <prefix hex> <fileid hex> <module type> <rg> <col> <page>` -> `ok <aad hex>`
    (ordinals a module type does not carry are ignored)

    `aad.wrun <ncols> <dict cols> <bloom cols> <reread cols> <plain footer 0/1> <op> ...` ->
    `ok <generation> <row groups> <pages re-opened> <all re-opens equal their sealing 0/1> <event,...>`:
    the writer state machine of `Aad.lean` run on the history and closed (`wclose`); an event is
    `kind:rg:col:page:<module type passed>:<ordinals passed, dot separated>:<identifier generation | n>` -/
def handle (toks : List String) : Option String :=
  match toks with
  | "enc.config" :: cfg => some (handleCfg cfg)
  | "aad.frun" :: file :: ops => some (handleFrun file ops)
  | "aad.prun" :: rg :: col :: hasDict :: indexed :: rows :: enc :: ops => some (handlePrun rg col hasDict indexed rows enc ops)
  | "aad.wrun" :: ncols :: dict :: bloom :: reread :: plain :: ops => some <|
    match parseNat? ncols, parseCols? dict, parseCols? bloom, parseCols? reread, parseNat? plain, ops.mapM parseWOp? with
    | some ncols, some dict, some bloom, some reread, some plain, some ops =>
      let cfg : WCfg := { ncols := ncols, dict := fun c => dict.contains c, bloom := fun c => bloom.contains c,
                          plainFooter := plain != 0, reread := fun c => reread.contains c }
      let s := wrun cfg ops
      let closed := wflush cfg s []
      let re := closed.reopened
      s!"ok {closed.gen} {closed.nrg} {re.length} {if re.all (fun ab => ab.1 == ab.2) then 1 else 0} {showList wevText (wclose cfg s)}"
    | _, _, _, _, _, _ => "bad-op"
  | ["aad", pfx, fu, name, rg, col, page] => some <|
    match parseHex? pfx, parseHex? fu, parseNat? rg, parseNat? col, parseNat? page with
    | some pfx, some fu, some rg, some col, some page =>
      match moduleOf? name rg col page with
      | some m => s!"ok {toHex (m.aad pfx fu)}"
      | none => "bad-op"
    | _, _, _, _, _ => "bad-op"
  | _ => none

def envText (e : PqModel.EncWalk.Env) : String := s!"{e.1}:{e.2}"

/-- `file.modules <path>` -> `ok <encfooter 0/1> <footer start> <plain footer bytes> <prefix hex> <file id hex> <off:len,...>`
    (every envelope of the file, in offset order) or `bad ... | problems` / `err <why>` -/
def handleIO (toks : List String) : IO (Option String) := do
  match toks with
  | ["file.modules", path] =>
    let d ← try IO.FS.readBinFile path catch _ => return some "err unreadable"
    match PqModel.EncWalk.walk d with
    | .error e => return some s!"err {e.replace "\n" " "}"
    | .ok w =>
      let mods := w.dataMods ++ w.footerMods
      let line := s!"{if w.encFooter then 1 else 0} {w.footerStart} {w.plainLen} {toHex w.aadPrefix.toList} {toHex w.fileUnique.toList} {showList envText mods}"
      if w.problems.isEmpty then return some s!"ok {line}"
      else return some s!"bad {line} | {" ; ".intercalate w.problems}"
  | _ => return none

end Driver.Ops.C18
