import Driver.Proto
import Driver.Ops.C13RowsBuf
import PqModel.RowsRefineCheck

namespace Driver.Ops.C13RowsRefine
open Driver PqModel.RowsBuf PqModel.RowsRefine

/-- rows of the first column chunk: the `total` the checker compares every column with -/
def totalOf (file : List (List Page)) : Nat := ((file.headD []).map (·.numRows)).sum

def bit (b : Bool) : String := if b then "1" else "0"

/-- `c13.rowsrefine <bufsize> <col>/<col>/… <op>,<op>,…` (same input as `c13.rowsbuf`) ->
    `ok total=<t> wf=<0|1> ops=<0|1> aligned=<0|1>`: the decidable hypotheses of
    `Props.C13RowsRefine.rows_are_aligned_buf` on this file and history (`wfFileB`, `opOkB`) and the
    evaluator of its conclusion over the run of the mirror (`alignedRun`; `accepted_runs_are_aligned`
    proves it is 1 whenever `wf` and `ops` are and the file has a column and the buffer a slot) -/
def handle (toks : List String) : Option String :=
  match toks with
  | ["c13.rowsrefine", b, f, ops] => some <|
    match parseNat? b, C13RowsBuf.parseFile? (f.splitOn "/") 0, (ops.splitOn ",").mapM C13RowsBuf.parseOp? with
    | some b, some file, some ops =>
      let total := totalOf file
      s!"ok total={total} wf={bit (wfFileB file total)} ops={bit (ops.all (opOkB total))} " ++
        s!"aligned={bit (alignedRun file b total (init file) ops)}"
    | _, _, _ => "bad-op"
  | _ => none

end Driver.Ops.C13RowsRefine
