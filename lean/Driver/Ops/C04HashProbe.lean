import Driver.Proto
import PqModel.HashProbe

/-! Ops of C04 part "hashprobe" (round 6): the probing tables of `hashprobe/hashprobe.go`, keys as text tokens.

  hp.multi <G> <groups> <batches>
      <batches> = batches separated by `;`, each a comma list of `hash:key` (hash = decimal Nat, `-` = empty
      batch). Runs the MIRROR `multiProbe G` batch after batch from `groups` empty groups, numKeys 0.
      answer: `ok <values of batch 1>;<values of batch 2>… <numKeys> <dump>` | `loop` (a probe walk never ends)
      <dump> = groups separated by `/`, each a comma list of `key=value`, `-` for an empty group

  hp.session <G> <groups0> <maxLen0> <calls>
      <calls> = Probe calls separated by `;`, each `<size>,<maxLen>|<k:h,k:h,…>|<keys>`:
      `size,maxLen` = what the sizing function returns if this call grows, the `k:h` list = the seeded hash
      function in force after this call (0 for a key not listed), `keys` = the probed keys (`-` = none).
      Runs the MIRROR `probeArray G` call after call from an empty table of `groups0` groups.
      answer: `ok <values|len|groups|maxLen>;… <dump>` | `loop`
-/
namespace Driver.Ops.C04HashProbe
open Driver PqModel.HashProbe

def showGroup (g : List (String × Nat)) : String :=
  showList (fun kv => kv.1 ++ "=" ++ toString kv.2) g

def showDump (gs : Groups String) : String := "/".intercalate (gs.map showGroup)

def showNats (xs : List Nat) : String := showList toString xs

/-- `hash:key` -/
def parsePair? (s : String) : Option (Nat × String) :=
  match s.splitOn ":" with
  | [h, k] => (parseNat? h).map fun n => (n, k)
  | _ => none

/-- `key:hash` -/
def parseKH? (s : String) : Option (String × Nat) :=
  match s.splitOn ":" with
  | [k, h] => (parseNat? h).map fun n => (k, n)
  | _ => none

def runMulti (G : Nat) : Groups String → Nat → List (List (Nat × String)) →
    Option (Groups String × Nat × List (List Nat))
  | gs, n, [] => some (gs, n, [])
  | gs, n, b :: rest =>
    match multiProbe G gs n b with
    | none => none
    | some (gs1, n1, vs) =>
      match runMulti G gs1 n1 rest with
      | none => none
      | some (gs2, n2, vss) => some (gs2, n2, vs :: vss)

structure Call where
  size : Nat
  maxLen : Nat
  hashes : List (String × Nat)
  keys : List String

def parseCall? (s : String) : Option Call :=
  match s.splitOn "|" with
  | [szs, khs, ks] =>
    match szs.splitOn ",", parseList? parseKH? khs with
    | [a, b], some kh =>
      match parseNat? a, parseNat? b with
      | some size, some maxLen => some { size := size, maxLen := maxLen, hashes := kh, keys := splitList ks }
      | _, _ => none
    | _, _ => none
  | _ => none

def hashOf (kh : List (String × Nat)) (k : String) : Nat := (kh.lookup k).getD 0

def runSession (G : Nat) : Table String → List Call → Option (Table String × List String)
  | t, [] => some (t, [])
  | t, c :: rest =>
    let h' := hashOf c.hashes
    match probeArray G (fun _ => (c.size, c.maxLen)) h' { t with h := h' } c.keys with
    | none => none
    | some (t1, vs) =>
      let here := s!"{showNats vs}|{t1.len}|{t1.groups.length}|{t1.maxLen}"
      match runSession G t1 rest with
      | none => none
      | some (t2, outs) => some (t2, here :: outs)

def handle (toks : List String) : Option String :=
  match toks with
  | ["hp.multi", g, groups, batches] => some <|
    match parseNat? g, parseNat? groups, (batches.splitOn ";").mapM (parseList? parsePair?) with
    | some G, some n, some bs =>
      match runMulti G (List.replicate n []) 0 bs with
      | none => "loop"
      | some (gs, numKeys, vss) => s!"ok {";".intercalate (vss.map showNats)} {numKeys} {showDump gs}"
    | _, _, _ => "bad-op"
  | ["hp.session", g, groups0, maxLen0, calls] => some <|
    match parseNat? g, parseNat? groups0, parseNat? maxLen0, (calls.splitOn ";").mapM parseCall? with
    | some G, some n, some m, some cs =>
      let t0 : Table String := { len := 0, maxLen := m, h := fun _ => 0, groups := List.replicate n [] }
      match runSession G t0 cs with
      | none => "loop"
      | some (t, outs) => s!"ok {";".intercalate outs} {showDump t.groups}"
    | _, _, _, _ => "bad-op"
  | _ => none

end Driver.Ops.C04HashProbe
