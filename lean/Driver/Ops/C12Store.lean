import Driver.Proto
import PqModel.Props.C12AddDrop
import PqModel.Props.C12Seek

/-! Ops tying the mirrors of Props/C12AddDrop and Props/C12Seek to the code (round 6, fourth wave).

`mask.unmasked <skipAdded 0/1> <cols>`: `cols` = comma list of `<conv.Column(i) | n>:<path missing in the source 0/1>`,
one per target column (`-` = none). Answer `ok <unmasked> | <reads>`: the source columns the mirror of the
un-masking loop of `maskMissingRowGroupColumns` leaves readable, and the ones the mirror of
`conversion.Convert` reads (comma lists, in target column order, duplicates kept).

`seek.store <N> <ptrA>/<ptrB> <ops>`: a `forwardRowSeeker` over a reader of the rows `[0] .. [N-1]`
driven by the history `ops` (`;`-separated: `r<m>A` / `r<m>B` = ReadRows(buffer[:m]), `s<k>` = SeekToRow(k))
with two caller buffers whose slots point at the backing arrays `ptrA`, `ptrB` (array ids; equal ids =
slots sharing storage; array `a` holds the row `[1000+a]` at the start, an id ≥ 500 an empty row). The
storage-level mirrors `fill`, `copyLoop`, `seekBatch false` are threaded through the loop of `ReadRows`
(row.go:256-281; the loop and the position arithmetic are the glue `readLoop` below, value-level
statement: `Fwd.read` / `convert.fwd`). Answer, per op: `ok`/`err` for a seek; for a read
`<n>|<slots>|<rows>`: the count returned, for every slot of A++B the first slot pointing at the same
array (which slots share storage), and what every slot of A++B shows (`-` = empty row). -/
namespace Driver.Ops.C12Store
open Driver PqModel.Props.C12AddDrop PqModel.Props.C12Seek

def parseCol? (s : String) : Option TCol :=
  match s.splitOn ":" with
  | [j, m] =>
    let miss? : Option Bool := if m == "1" then some true else if m == "0" then some false else none
    match miss? with
    | none => none
    | some miss => if j == "n" then some (none, miss) else j.toNat?.map (fun k => (some k, miss))
  | _ => none

structure St where
  p : Nat            -- rows the underlying reader has handed out
  index : Nat        -- forwardRowSeeker.index
  seek : Nat         -- forwardRowSeeker.seek
  heap : Heap Nat

/-- glue (row.go:256-281): the `for` loop of `ReadRows` over a buffer whose slots are `ptr`; the
    underlying reader hands out `min(len(rows), remaining)` rows per call. -/
def readLoop (N : Nat) : Nat → List Nat → St → Nat × List Nat × St
  | 0, ptr, st => (0, ptr, st)
  | fuel + 1, ptr, st =>
    let cnt := min ptr.length (N - st.p)
    let batch : List (List Nat) := (List.range cnt).map (fun i => [st.p + i])
    if cnt > 0 ∧ st.index < st.seek then
      let skip := st.seek - st.index
      if skip ≥ cnt then
        readLoop N fuel ptr { st with p := st.p + cnt, index := st.index + cnt, heap := fill ptr batch st.heap }
      else
        let r := seekBatch false ptr batch skip st.heap
        (cnt - skip, r.1, { st with p := st.p + cnt, index := st.index + cnt, heap := r.2 })
    else
      (cnt, ptr, { st with p := st.p + cnt, index := st.index + cnt, heap := fill ptr batch st.heap })

def firstSame (all : List Nat) (a : Nat) : Nat := (all.findIdx? (· == a)).getD 0

def showRow (r : List Nat) : String := if r.isEmpty then "-" else "+".intercalate (r.map toString)

def showState (a b : List Nat) (h : Heap Nat) : String :=
  let all := a ++ b
  showList (fun x => toString (firstSame all x)) all ++ "|" ++ showList showRow (all.map h)

def storeOps (N : Nat) (a b : List Nat) (st : St) : List String → List String
  | [] => []
  | op :: ops =>
    match op.toList with
    | 's' :: ds =>
      match (String.ofList ds).toNat? with
      | some row =>
        if row ≥ st.index then "ok" :: storeOps N a b { st with seek := row } ops
        else "err" :: storeOps N a b st ops
      | none => ["bad"]
    | 'r' :: ds =>
      match ds.reverse with
      | which :: rds =>
        match (String.ofList rds.reverse).toNat? with
        | some m =>
          let buf := if which == 'A' then a else b
          let (n, ptr', st') := readLoop N (N + 2) (buf.take m) st
          let buf' := ptr' ++ buf.drop m
          let a' := if which == 'A' then buf' else a
          let b' := if which == 'A' then b else buf'
          s!"{n}|{showState a' b' st'.heap}" :: storeOps N a' b' st' ops
        | none => ["bad"]
      | [] => ["bad"]
    | _ => ["bad"]

def handle (toks : List String) : Option String :=
  match toks with
  | ["mask.unmasked", skip, cols] => some <|
    match parseList? parseCol? cols with
    | some cs =>
      if skip == "0" ∨ skip == "1" then
        s!"ok {showList toString (unmasked (skip == "1") cs)} | {showList toString (reads cs)}"
      else "bad-op"
    | none => "bad-op"
  | ["seek.store", total, ptrs, ops] => some <|
    match total.toNat?, ptrs.splitOn "/" with
    | some n, [pa, pb] =>
      match parseList? parseNat? pa, parseList? parseNat? pb with
      | some a, some b =>
        let h0 : Heap Nat := fun x => if x < 500 then [1000 + x] else []
        "ok " ++ ";".intercalate (storeOps n a b { p := 0, index := 0, seek := 0, heap := h0 } (ops.splitOn ";"))
      | _, _ => "bad-op"
    | _, _ => "bad-op"
  | _ => none

end Driver.Ops.C12Store
