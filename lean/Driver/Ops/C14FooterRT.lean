import Driver.Proto
import Driver.Ops.C02Thrift
import Driver.Ops.C14Footer
import PqModel.ThriftWrite
import PqModel.ThriftSkip

/-! Op of C14, footer round trip (theorem `walk_accepts_writer` and its corollaries run on a given tree).

* `thrift.rt <typed tree> <enc 0/1> <junk hex | -> <cut,cut,… | ->` — the composed mirror: the encoder mirror
  `writeStruct` on the typed tree (text form of `thrift.write`), then the decoder's walk mirror on the bytes
  followed by the junk, on the bytes cut at each given length, and the open path on
  `"PAR1" ‖ bytes ‖ junk ‖ le32 ‖ "PAR1"`:
  `ok wf=<0|1> len=<bytes of the encoding> skip=<offset | error class> open=<ok_n | err_…> cuts=<r,r,…>`. -/
namespace Driver.Ops.C14FooterRT
open Driver PqModel.IoFault PqModel.ThriftSkip PqModel.ThriftWrite

def parseCuts (s : String) : List Nat := if s == "-" then [] else (s.splitOn ",").filterMap String.toNat?

def handle (toks : List String) : Option String :=
  match toks with
  | ["thrift.rt", tree, enc, junk, cuts] => some <|
    match Driver.Ops.C02Thrift.parseTree tree, (if junk == "-" then some [] else parseHex? junk) with
    | some (.struct fs), some j =>
      let b := writeStruct fs
      let cs := (parseCuts cuts).map fun m => Driver.Ops.C14Footer.showSkip (skipStruct (b.take m))
      let ow := (Driver.Ops.C14Footer.showWalk (openWalk (enc == "1") (fileWith magicPAR1 (b ++ j)))).replace " " "_"
      s!"ok wf={if WfF 0 fs then 1 else 0} len={b.length} skip={Driver.Ops.C14Footer.showSkip (skipStruct (b ++ j))} open={ow} cuts={",".intercalate cs}"
    | _, _ => "bad-op"
  | _ => none

end Driver.Ops.C14FooterRT
