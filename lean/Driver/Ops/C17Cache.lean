import Driver.Proto
import PqModel.SchemaCache

/-! C17 op for the process-wide schema cache (PqModel/SchemaCache.lean, MIRROR `schemaOf` of
schema.go:198-221): a history of `schemaOf(type, replacements…)` calls of one process, from an empty
cache; one observation per call.

`schemacache.trace <flat 0|1> <nkeys> <call>…` -> `ok <obs> <obs> …`
   call: `<ty>:<r,r,…>`   Go type id (< nkeys) and the ids of the StructTag replacements (`-` = none)
   obs:  `<h|m><res>/<entry>,<entry>,…`
         `h` = the call returned an object that an earlier call had made (cache hit), `m` = its own;
         res = `<n>` the object derived by call n without replacements, `<n>t` with replacements;
         entry (one per type id 0..nkeys-1, after the call) = `-` no entry, else like res.

Objects: the derivation of call n is instantiated as `derive _ rs = (n, rs)`, so that the mirror's
result says WHICH `*Schema` the real call must hand out (pointer identity on the Go side) and under
which replacements the stored one was derived. `flat = 1` runs the refuted variant of
Props/C17Cache (store hoisted out of `if cacheable`); the check asks for `flat = 0`, the code. -/
namespace Driver.Ops.C17Cache
open Driver PqModel.SchemaCache

abbrev Obj := Nat × List Nat

def showObj (o : Obj) : String := toString o.1 ++ (if o.2.isEmpty then "" else "t")

def parseCall (tok : String) : Option (Nat × List Nat) :=
  match tok.splitOn ":" with
  | [ty, rs] =>
    match parseNat? ty, parseList? parseNat? rs with
    | some ty, some rs => some (ty, rs)
    | _, _ => none
  | _ => none

def step (flat : Bool) (nkeys : Nat) (st : Nat × Cache Nat Obj × List String) (i : Nat × List Nat) :
    Nat × Cache Nat Obj × List String :=
  let (n, c, out) := st
  let (res, c') := schemaOf (fun _ rs => ((n, rs) : Obj)) flat c i
  let dump := (List.range nkeys).map fun ty =>
    match lookup c' ty with
    | none => "-"
    | some o => showObj o
  let o := (if res.1 = n then "m" else "h") ++ showObj res ++ "/" ++ ",".intercalate dump
  (n + 1, c', o :: out)

def handle (toks : List String) : Option String :=
  match toks with
  | "schemacache.trace" :: flat :: nkeys :: calls => some <|
    match parseNat? flat, parseNat? nkeys, calls.mapM parseCall with
    | some flat, some nkeys, some calls =>
      if calls.all (fun i => i.1 < nkeys) then
        let (_, _, out) := calls.foldl (step (flat != 0) nkeys) (0, [], [])
        "ok " ++ " ".intercalate out.reverse
      else "bad-arg"
    | _, _, _ => "bad-arg"
  | _ => none

end Driver.Ops.C17Cache
