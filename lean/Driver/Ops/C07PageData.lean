import Driver.Proto
import Driver.Ops.C07
import PqModel.PageDataBuf
import PqModel.PageDataOpt

/-! Ops of the C07 sub-check `pagedata`: the typed column buffers' `Page().Data()` and the filter
    `writePageToFilter` builds from it (mirror `PqModel/PageDataBuf.lean`). -/
namespace Driver.Ops.C07PageData
open Driver PqModel.XxHash PqModel.Bloom PqModel.PageDataBuf Driver.Ops.C07

/-- `r` = Reset, `w:<values>` = one WriteValues batch (`w:-` = empty batch) -/
def parseBufOp? (k : Kind) (s : String) : Option BufOp :=
  if s == "r" then some .reset
  else if s.startsWith "w:" then (parseList? (parseValue? k) (s.drop 2).toString).map .write
  else none

/-- `r` = Reset, `o0`/`o1` = writeBoolean, `b:<0|1,...>` = writeValues batch -/
def parseBoolOp? (s : String) : Option BoolOp :=
  if s == "r" then some .reset
  else if s == "o0" then some (.one false)
  else if s == "o1" then some (.one true)
  else if s.startsWith "b:" then
    (parseList? (fun t => if t == "1" then some true else if t == "0" then some false else none) (s.drop 2).toString).map .batch
  else none

/-- one value of an optional column's batch: `n` = null (definition level 0), `v<value>` = present (level 1) -/
def parseLValue? (k : Kind) (s : String) : Option LValue :=
  if s == "n" then some ⟨0, .boolean false⟩
  else if s.startsWith "v" then (parseValue? k (s.drop 1).toString).map (fun v => ⟨1, v⟩)
  else none

def parseOptOp? (k : Kind) (s : String) : Option OptOp :=
  if s == "r" then some .reset
  else if s.startsWith "w:" then (parseList? (parseLValue? k) (s.drop 2).toString).map .write
  else none

def parseOps? {α} (p : String → Option α) (s : String) : Option (List α) :=
  if s == "-" then some [] else (s.splitOn ";").mapM p

def showData : PageData → String
  | .boolean bits => toHex bits
  | .int32 vs | .float vs => showList (fun v => toString v.toNat) vs
  | .int64 vs | .double vs => showList (fun v => toString v.toNat) vs
  | .int96 d => toHex d
  | .flba d _ => toHex d
  | .byteArray d offs => s!"{toHex d}/{showList toString offs}"

def filterOf (nb : Nat) (pd : PageData) : String :=
  toHex (filterBytes (build nb ((hashWriteStaged pd).map UInt64.toBitVec)))

def showPage (p : BoolPage) : String := s!"{toHex p.bits}.{p.offset}.{p.numValues}"

def handle (toks : List String) : Option String :=
  match toks with
  -- pagedata.buf <kind> <junk byte> <numBlocks> <ops> -> `<Page().Data()> <filter bytes after writePageToFilter>`
  | ["pagedata.buf", k, junk, nb, ops] => some <|
    match parseKind? k, parseU8? junk, parseNat? nb with
    | some k, some junk, some nb =>
      match parseOps? (parseBufOp? k) ops with
      | some ops =>
        let pd := runData junk k ops
        s!"ok {showData pd} {filterOf nb pd}"
      | none => "bad-op"
    | _, _, _ => "bad-op"
  -- pagedata.bool <junk byte> <numBlocks> <ops> <i> <j> <i2> <j2>
  --   -> `<bits> <numValues> <filter> <Slice(i,j): bits.offset.n> <Slice(i,j).Slice(i2,j2)> <filter of the last>`
  | ["pagedata.bool", junk, nb, ops, i, j, i2, j2] => some <|
    match parseU8? junk, parseNat? nb, parseOps? parseBoolOp? ops, parseNat? i, parseNat? j, parseNat? i2, parseNat? j2 with
    | some junk, some nb, some ops, some i, some j, some i2, some j2 =>
      let st := ops.foldl (BoolBuf.step junk) BoolBuf.empty
      let p1 := st.page.slice i j
      let p2 := p1.slice i2 j2
      s!"ok {toHex st.bits} {st.numValues} {filterOf nb st.data} {showPage p1} {showPage p2} {filterOf nb p2.data}"
    | _, _, _, _, _, _, _ => "bad-op"
  -- pagedata.opt <kind> <junk byte> <numBlocks> <ops> (optional column, maxDefinitionLevel 1)
  --   -> `<Page().Data()> <filter bytes>`
  | ["pagedata.opt", k, junk, nb, ops] => some <|
    match parseKind? k, parseU8? junk, parseNat? nb with
    | some k, some junk, some nb =>
      match parseOps? (parseOptOp? k) ops with
      | some ops =>
        let pd := runData junk k (optBaseOps 1 ops)
        s!"ok {showData pd} {filterOf nb pd}"
      | none => "bad-op"
    | _, _, _ => "bad-op"
  -- pagedata.dict <kind> <numBlocks> <inserted values> -> `<dict.Page().Data()> <filter after writePageToFilter(dict.Page())>`
  | ["pagedata.dict", k, nb, vs] => some <|
    match parseKind? k, parseNat? nb with
    | some k, some nb =>
      match parseList? (parseValue? k) vs with
      | some vs => let pd := dictData k vs; s!"ok {showData pd} {filterOf nb pd}"
      | none => "bad-op"
    | _, _ => "bad-op"
  | _ => none

end Driver.Ops.C07PageData
