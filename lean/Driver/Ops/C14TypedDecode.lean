import Driver.Proto
import Driver.Ops.C14Footer
import PqModel.ThriftDecode

/-! Op of C14, the typed thrift decoder.

* `thrift.typed <schema> <hex | ->` — the MIRROR of `thrift.NewDecoder(r).Decode(&v)` (`decStruct`) for a
  struct type described by `<schema>` on a fresh bytes-backed compact reader over the bytes, once with an
  allocator that grants everything and once with one that grants at most `len(bytes)` elements per slice:
  `ok inf=<r> lim=<r>` with `<r>` = `ok:<offset>` | `err:<eof|ueof|overflow|range|bad-type|fuel>` |
  `err:missing:<id>` | `err:oom:<n>`.

  Schema text, tokens joined by `.` (prefix notation): `b y h i l d s` = bool i8 i16 i32 i64 double binary,
  `L <ty>` list, `S <n> (<id> <r|o> <ty>)*n` struct, `U <n> (<id> <ty>)*n` union; the top level must be a
  struct. -/
namespace Driver.Ops.C14TypedDecode
open Driver PqModel.IoFault PqModel.ThriftSkip PqModel.ThriftDecode

mutual
def parseTy : Nat → List String → Option (Ty × List String)
  | 0, _ => none
  | _ + 1, [] => none
  | f + 1, tok :: rest =>
    if tok == "b" then some (.bool, rest)
    else if tok == "y" then some (.i8, rest)
    else if tok == "h" then some (.i16, rest)
    else if tok == "i" then some (.i32, rest)
    else if tok == "l" then some (.i64, rest)
    else if tok == "d" then some (.double, rest)
    else if tok == "s" then some (.binary, rest)
    else if tok == "L" then
      match parseTy f rest with
      | some (e, r) => some (.list e, r)
      | none => none
    else if tok == "S" then
      match rest with
      | n :: r =>
        match n.toNat? with
        | some k =>
          match parseFields f k r with
          | some (fs, r') => some (.struct fs, r')
          | none => none
        | none => none
      | [] => none
    else if tok == "U" then
      match rest with
      | n :: r =>
        match n.toNat? with
        | some k =>
          match parseMembers f k r with
          | some (ms, r') => some (.union ms, r')
          | none => none
        | none => none
      | [] => none
    else none
def parseFields : Nat → Nat → List String → Option (List FieldD × List String)
  | 0, _, _ => none
  | _ + 1, 0, toks => some ([], toks)
  | f + 1, k + 1, id :: rq :: rest =>
    match id.toInt?, parseTy f rest with
    | some i, some (t, r) =>
      if rq == "r" || rq == "o" then
        match parseFields f k r with
        | some (fs, r') => some ((i, rq == "r", t) :: fs, r')
        | none => none
      else none
    | _, _ => none
  | _ + 1, _ + 1, _ => none
def parseMembers : Nat → Nat → List String → Option (List (Int × Ty) × List String)
  | 0, _, _ => none
  | _ + 1, 0, toks => some ([], toks)
  | f + 1, k + 1, id :: rest =>
    match id.toInt?, parseTy f rest with
    | some i, some (t, r) =>
      match parseMembers f k r with
      | some (ms, r') => some ((i, t) :: ms, r')
      | none => none
    | _, _ => none
  | _ + 1, _ + 1, [] => none
end

def parseSchema (s : String) : Option (List FieldD) :=
  let toks := s.splitOn "."
  match parseTy (toks.length + 1) toks with
  | some (.struct fs, []) => some fs
  | _ => none

def showTR (r : TR) : String :=
  match r with
  | .ok n => s!"ok:{n}"
  | .error (.sk e) => "err:" ++ Driver.Ops.C14Footer.showSkErr e
  | .error (.missing id) => s!"err:missing:{id}"
  | .error (.oom n) => s!"err:oom:{n}"

def handle (toks : List String) : Option String :=
  match toks with
  | ["thrift.typed", schema, hex] => some <|
    match parseSchema schema, (if hex == "-" then some [] else parseHex? hex) with
    | some fs, some b =>
      s!"ok inf={showTR (decStruct none fs b)} lim={showTR (decStruct (some b.length) fs b)}"
    | _, _ => "bad-op"
  | _ => none

end Driver.Ops.C14TypedDecode
