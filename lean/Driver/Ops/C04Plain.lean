import Driver.Proto
import PqModel.Plain

/-! Ops of C04 part "plain" (PLAIN, BYTE_STREAM_SPLIT, dictionaries).

  plain.specdec <type> <hex>            SPEC decoder; <type> = int32|int64|int96|float|double (values in decimal,
                                        bit patterns) | bytes (hex values) | flba:<n> (hex values) | bool:<n> (0/1)
  plain.enc <type> <values>             MIRROR encoder (same value syntax); bool: `plain.enc bool:<stalehex> <0/1 list>`
  plain.godec bytes <hex>               MIRROR of the Go BYTE_ARRAY decoder: ok <values> | err | panic
  bss.enc <k> <hexvalues>               MIRROR (elements of k bytes, comma separated hex)
  bss.specdec <k> <hex>                 SPEC decoder -> hex elements
  dict.insert <init> <values>           abstract dictionary: `ok <indexes> <dict>` (tokens compared as text)
  dict.goinsert <init> <values>         MIRROR of the table-driven Go dictionaries (same output)
  dict.insertbool <init> <values>       MIRROR of the boolean dictionary (tokens 0/1)
-/
namespace Driver.Ops.C04Plain
open Driver PqModel.Plain

def fixedWidth? (t : String) : Option Nat :=
  match t with
  | "int32" => some 4 | "float" => some 4
  | "int64" => some 8 | "double" => some 8
  | "int96" => some 12
  | _ => none

def showNats (xs : List Nat) : String := showList toString xs
def showHexes (xs : List Bytes) : String := if xs.isEmpty then "-" else ",".intercalate (xs.map toHex)

/-- "-" = no values; a value "-" inside a list cannot occur, the empty byte string is written "e" -/
def parseHexVal? (s : String) : Option Bytes := if s == "e" then some [] else parseHexAux s.toList []
def showHexVal (b : Bytes) : String := if b.isEmpty then "e" else toHex b
def showHexVals (xs : List Bytes) : String := showList showHexVal xs

def parseBool? (s : String) : Option Bool := if s == "0" then some false else if s == "1" then some true else none
def showBools (xs : List Bool) : String := showList (fun b => if b then "1" else "0") xs

def afterColon? (pre : String) (t : String) : Option String :=
  if t.startsWith pre then some (t.drop pre.length).toString else none

def showDict (r : List String × List Nat) : String := s!"ok {showNats r.2} {showList id r.1}"

def handle (toks : List String) : Option String :=
  match toks with
  | ["plain.specdec", t, hex] => some <|
    match parseHex? hex with
    | none => "bad-op"
    | some bs =>
      match fixedWidth? t with
      | some k => match specDecFixed k bs with
        | some xs => s!"ok {showNats xs}"
        | none => "err malformed"
      | none =>
        if t == "bytes" then
          match specDecByteArray bs with
          | some vs => s!"ok {showHexVals vs}"
          | none => "err malformed"
        else match afterColon? "flba:" t, afterColon? "bool:" t with
        | some n, _ => match parseNat? n with
          | some n => match specDecFixedBytes n bs with
            | some vs => s!"ok {showHexVals vs}"
            | none => "err malformed"
          | none => "bad-op"
        | none, some n => match parseNat? n with
          | some n => match specDecBool n bs with
            | some vs => s!"ok {showBools vs}"
            | none => "err malformed"
          | none => "bad-op"
        | none, none => "bad-op"
  | ["plain.enc", t, vals] => some <|
    match fixedWidth? t with
    | some k => match parseList? parseNat? vals with
      | some xs => if xs.all (· < 2 ^ (8 * k)) then s!"ok {toHex (encFixed k xs)}" else "bad-op"
      | none => "bad-op"
    | none =>
      if t == "bytes" then
        match parseList? parseHexVal? vals with
        | some vs => s!"ok {toHex (encByteArray vs)}"
        | none => "bad-op"
      else if t == "flba" then
        match parseList? parseHexVal? vals with
        | some vs => s!"ok {toHex (encFLBA vs)}"
        | none => "bad-op"
      else match afterColon? "bool:" t with
        | some st => match parseHex? st, parseList? parseBool? vals with
          | some stale, some vs => s!"ok {toHex (encBools stale vs)}"
          | _, _ => "bad-op"
        | none => "bad-op"
  | ["plain.godec", "bytes", hex] => some <|
    match parseHex? hex with
    | none => "bad-op"
    | some bs => match goDecByteArray bs with
      | .ok vs => s!"ok {showHexVals vs}"
      | .err => "err"
      | .panic => "panic"
  | ["bss.enc", k, vals] => some <|
    match parseNat? k, parseList? parseHexVal? vals with
    | some k, some vs => if vs.all (·.length == k) then s!"ok {toHex (bssEnc k vs)}" else "bad-op"
    | _, _ => "bad-op"
  | ["bss.specdec", k, hex] => some <|
    match parseNat? k, parseHex? hex with
    | some k, some bs => match bssSpecDec k bs with
      | some vs => s!"ok {showHexVals vs}"
      | none => "err malformed"
    | _, _ => "bad-op"
  | ["dict.insert", init, vals] => some <| showDict (insertAll (splitList init) (splitList vals))
  | ["dict.goinsert", init, vals] => some <|
    let r := goDictInsertAll (goDictInit (splitList init)) (splitList vals)
    showDict (r.1.values, r.2)
  | ["dict.insertbool", init, vals] => some <|
    match parseList? parseBool? init, parseList? parseBool? vals with
    | some d, some xs => let r := insertAllBool d xs; s!"ok {showNats r.2} {showBools r.1}"
    | _, _ => "bad-op"
  | _ => none

end Driver.Ops.C04Plain
