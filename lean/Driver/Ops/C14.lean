import Driver.Proto
import PqModel.IoFault
import PqModel.IoFaultSrc
import PqModel.IoFaultRead
import PqModel.Bloom

/-! Ops of C14.

* `io.run <cap|-> <failAt|-> <mode> <plan>` — run a write plan through the writer model.
  `cap`: bufio size (`-` = unbuffered). `failAt`: the byte index the sink cannot store (`-` = none).
  `mode`: `full` (= `capacity`) | `short` | `fullsticky` | `shortsticky` | `oneshot` | `oneshotshort`, or
  `call` | `callshort` | `callsticky` (then `failAt` is the index of the sink `Write` call that fails). `plan`: calls separated by `/`, each a
  comma list of operations (`-` = no operation):
  `w<n>` Write of n bytes, `s<n>` WriteString, `h<n>` file header (WriteString iff offset = 0),
  `r<n>` ReadFrom, `t<id>:<n>` store n bytes in store id, `d<id>:<c>` drain store id in chunks of c
  (`d<id>:r` = through ReadFrom), `f` Flush of the buffer; a trailing `!` marks a site that drops
  its error. Payload bytes are position `i mod 251` of the stream of all payloads.
  Answer: `ok <call results 0/1> <index of first reporting call | -1> <bytes held when that call
  returns> <bytes held at the end> <sink trace>` with the trace as `len:n:err` per sink Write.
* `io.runmany <cap|-> <plan> <k:mode;k:mode;…>` — the same plan under several faults:
  `ok a|b|…`, each `<first reporting call> <held when it returns> <result of the last call>`.
* `readat.wrap <want> <n> <err 0/1>` — `readAt` of file.go: `ok <n> <err>`.
* `io.bufio <cap> <failAt|-> <mode> <ops>` — the bufio mirror alone: ops `w<n>` `s<n>` `r<n>` `f`.
  Answer: `ok <n:err per op> <bytes held> <bytes buffered> <sticky 0/1> <sink trace>`.
* `io.copysrc <cap|-> <failAt|-> <mode> <pre> <len> <cut|-> <eof 0/1> <checked 0/1>` — the copy site of
  the verbatim column-chunk path: after a `Write` of `pre` bytes, `copySection` of a `len`-byte
  section whose source stops after `cut` bytes (`-` = never) with io.EOF (`eof` = 1) or another error.
  Answer: `ok <err 0/1> <offset> <bytes accepted by the chain> <bytes held by the sink>`.
* `io.merge2 <seeded 0/1> <src0> <src1> <caps>` — a session of `mergedRowReader2.ReadRows` over two
  scripted sources `rows:failIn:eager:errWithRows` (`rows`, `caps`: comma lists, `-` = empty;
  `failIn`: `-` = never). Answer: `ok <call>|<call>|…`, a call being `<n|e|x>:<rows>` (nil / io.EOF /
  error) with the rows as `a<key>` (input 0) / `b<key>` (input 1) separated by `,` (`-` = none).
* `io.bloomprobe <clearEOF 0/1> <x> <stale hex> <block hex> <n> <n|e|x>` — `bloom.CheckSplitBlock` on a
  pooled block holding `stale`, the `ReadAt` delivering `n` bytes of `block` with that result, the
  key being the low 32 bits `x` of the hash. Answer: `ok <0/1> <n|e|x>`.
* `open.model <enc 0/1> <hex>` / `open.spec …` — trailer stage of OpenFile:
  `ok <footer hex>` | `err <class>`. -/
namespace Driver.Ops.C14
open Driver PqModel.IoFault

def parseFault? (failAt mode : String) : Option Fault := do
  let k ← if failAt == "-" then some none else (parseNat? failAt).map some
  match mode with
  | "full" => some ⟨k, false, false, false⟩       -- = capacity
  | "capacity" => some ⟨k, false, false, false⟩
  | "short" => some ⟨k, true, false, false⟩
  | "fullsticky" => some ⟨k, false, true, false⟩
  | "shortsticky" => some ⟨k, true, true, false⟩
  | "oneshot" => some ⟨k, false, false, true⟩
  | "oneshotshort" => some ⟨k, true, false, true⟩
  | _ => none

/-- n payload bytes starting at stream position `pos` -/
def payload (pos n : Nat) : Bytes := (List.range n).map (fun i => UInt8.ofNat ((pos + i) % 251))

def natAfter? (s : String) : Option Nat := parseNat? (s.drop 1).toString

/-- one op token → (op, payload length consumed) -/
def parseOp? (pos : Nat) (tok : String) : Option (Op × Nat) :=
  let drop := tok.endsWith "!"
  let t := if drop then (tok.dropEnd 1).toString else tok
  let site := if drop then "drop" else "site"
  match t.toList with
  | 'w' :: _ => (natAfter? t).map (fun n => (Op.write site (payload pos n), n))
  | 's' :: _ => (natAfter? t).map (fun n => (Op.writeString site (payload pos n), n))
  | 'h' :: _ => (natAfter? t).map (fun n => (Op.header site (payload pos n), n))
  | 'r' :: _ => (natAfter? t).map (fun n => (Op.readFrom site (payload pos n), n))
  | 't' :: _ =>
    match (t.drop 1).toString.splitOn ":" with
    | [id, n] => do let id ← parseNat? id; let n ← parseNat? n; some (Op.store id (payload pos n), n)
    | _ => none
  | 'd' :: _ =>
    match (t.drop 1).toString.splitOn ":" with
    | [id, "r"] => (parseNat? id).map (fun id => (Op.drain site id none, 0))
    | [id, c] => do let id ← parseNat? id; let c ← parseNat? c; some (Op.drain site id (some c), 0)
    | _ => none
  | ['f'] => some (Op.flushBuf site, 0)
  | _ => none

def parseCall? (pos : Nat) (s : String) : Option (List Op × Nat) :=
  ((splitList s).foldlM (fun (acc : List Op × Nat) tok => do
    let (op, n) ← parseOp? acc.2 tok
    some (op :: acc.1, acc.2 + n)) ([], pos)).map (fun (x : List Op × Nat) => (x.1.reverse, x.2))

def parsePlan? (s : String) : Option (List (List Op)) :=
  ((s.splitOn "/").foldlM (fun (acc : List (List Op) × Nat) c => do
    let (ops, pos) ← parseCall? acc.2 c
    some (ops :: acc.1, pos)) ([], 0)).map (fun (x : List (List Op) × Nat) => x.1.reverse)

def showTrace (t : List (Nat × Nat × Bool)) : String :=
  showList (fun e => s!"{e.1}:{e.2.1}:{if e.2.2 then 1 else 0}") t.reverse

def firstTrue (rs : List Bool) : Int :=
  match rs.findIdx? (· == true) with
  | some i => i
  | none => -1

/-- a sink of the enumeration: by byte offset (`Fault`) or by call index (`CallFault`) -/
inductive AnyFault where
  | off (f : Fault)
  | call (f : CallFault)

def parseAnyFault? (failAt mode : String) : Option AnyFault :=
  match mode with
  | "call" => (parseNat? failAt).map (fun i => .call ⟨i, false, false⟩)
  | "callshort" => (parseNat? failAt).map (fun i => .call ⟨i, true, false⟩)
  | "callsticky" => (parseNat? failAt).map (fun i => .call ⟨i, false, true⟩)
  | _ => (parseFault? failAt mode).map .off

/-- bytes the sink holds when the first reporting call returns (whole history if none reports) -/
def heldAtFirst {σ} (m : SinkM σ) (s0 : σ) (cap : Option Nat) (plan : List (List Op)) (first : Int) : Nat :=
  let pre := if first < 0 then plan else plan.take (first.toNat + 1)
  (runCalls m (fun s => s != "drop") (initW s0 cap) pre).1.u.sk.held.length

def runPlanOn {σ} (m : SinkM σ) (s0 : σ) (cap : Option Nat) (plan : List (List Op)) : String :=
  let r := runCalls m (fun s => s != "drop") (initW s0 cap) plan
  let res := showList (fun b => if b then "1" else "0") r.2
  let first := firstTrue r.2
  s!"ok {res} {first} {heldAtFirst m s0 cap plan first} {r.1.u.sk.held.length} {showTrace r.1.u.sk.trace}"

def runPlan (cap : Option Nat) (f : AnyFault) (plan : List (List Op)) : String :=
  match f with
  | .off f => runPlanOn (faultSink f) false cap plan
  | .call f => runPlanOn (callSink f) (0, false) cap plan

/-- short answer for batches: `<first reporting call> <held when it returns> <result of the last call>` -/
def runPlanShortOn {σ} (m : SinkM σ) (s0 : σ) (cap : Option Nat) (plan : List (List Op)) : String :=
  let r := runCalls m (fun s => s != "drop") (initW s0 cap) plan
  let first := firstTrue r.2
  s!"{first} {heldAtFirst m s0 cap plan first} {if r.2.getLast?.getD false then 1 else 0}"

def runPlanShort (cap : Option Nat) (f : AnyFault) (plan : List (List Op)) : String :=
  match f with
  | .off f => runPlanShortOn (faultSink f) false cap plan
  | .call f => runPlanShortOn (callSink f) (0, false) cap plan

def parseFaultPair? (s : String) : Option AnyFault :=
  match s.splitOn ":" with
  | [k, mode] => parseAnyFault? k mode
  | _ => none

/-- bufio alone: the `s` op is WriteString here -/
def runBufio (cap : Nat) (f : Fault) (ops : List String) : Option String := do
  let m := faultSink f
  let init : Under Bool × Nat × List String := (⟨some ⟨cap, [], false⟩, ⟨false, [], 0, []⟩⟩, 0, [])
  let (u, _, outs) ← ops.foldlM (fun (acc : Under Bool × Nat × List String) tok => do
    let (u, pos, outs) := acc
    match tok.toList with
    | 'w' :: _ => do
      let n ← natAfter? tok
      let r := uWrite m u (payload pos n)
      some (r.1, pos + n, outs ++ [s!"{r.2.n}:{if r.2.err then 1 else 0}"])
    | 's' :: _ => do
      let n ← natAfter? tok
      let r := uWriteString m u (payload pos n)
      some (r.1, pos + n, outs ++ [s!"{r.2.n}:{if r.2.err then 1 else 0}"])
    | 'r' :: _ => do
      let n ← natAfter? tok
      let r := uReadFrom m u (payload pos n)
      some (r.1, pos + n, outs ++ [s!"{r.2.n}:{if r.2.err then 1 else 0}"])
    | ['f'] =>
      let r := uFlush m u
      some (r.1, pos, outs ++ [s!"0:{if r.2.err then 1 else 0}"])
    | _ => none) init
  let buffered := match u.bw with | some b => b.buf.length | none => 0
  some s!"ok {showList id outs} {u.sk.held.length} {buffered} {if u.berr then 1 else 0} {showTrace u.sk.trace}"

def runCopySrcOn {σ} (m : SinkM σ) (s0 : σ) (cap : Option Nat) (pre len : Nat) (f : Option SrcFault)
    (checked : Bool) : String :=
  let w0 := (execOp m (initW s0 cap) (Op.write "site" (payload 0 pre))).1
  let r := copySection m checked w0 (payload pre len) f
  s!"ok {if r.2 then 1 else 0} {r.1.offset} {r.1.u.deliv.length} {r.1.u.sk.held.length}"

def runCopySrc (cap : Option Nat) (sink : AnyFault) (pre len : Nat) (f : Option SrcFault) (checked : Bool) : String :=
  match sink with
  | .off s => runCopySrcOn (faultSink s) false cap pre len f checked
  | .call s => runCopySrcOn (callSink s) (0, false) cap pre len f checked

def showOpen (r : Except OpenErr Bytes) : String :=
  match r with
  | .ok ft => s!"ok {toHex ft}"
  | .error .shortHeader => "err short-header"
  | .error .badHeaderMagic => "err bad-header-magic"
  | .error .shortTrailer => "err short-trailer"
  | .error .badFooterMagic => "err bad-footer-magic"
  | .error .footerBounds => "err footer-bounds"

open PqModel.IoFault.Rd in
def parseSrc? (s : String) : Option Src :=
  match s.splitOn ":" with
  | [rows, failIn, eager, ewr] => do
    let rows ← if rows == "-" then some [] else parseList? parseInt? rows
    let failIn ← if failIn == "-" then some none else (parseNat? failIn).map some
    if !(eager == "0" || eager == "1") || !(ewr == "0" || ewr == "1") then none
    else some ⟨rows, failIn, eager == "1", ewr == "1"⟩
  | _ => none

open PqModel.IoFault.Rd in
def showRes : Res → String
  | .nil => "n"
  | .eof => "e"
  | .err => "x"

open PqModel.IoFault.Rd in
def parseRes? : String → Option Res
  | "n" => some .nil
  | "e" => some .eof
  | "x" => some .err
  | _ => none

open PqModel.IoFault.Rd in
def runMerge2 (seeded : Bool) (s0 s1 : Src) (caps : List Nat) : String :=
  let r := session seeded caps (M2.new s0 s1)
  -- every call but the last answered nil; the last one carries the result of the session
  let n := r.1.length
  let calls := (List.range n).map fun i =>
    let rows := r.1.getD i []
    let res := if i + 1 == n then r.2.1 else Res.nil
    let rs := if rows.isEmpty then "-" else
      ",".intercalate (rows.map fun p => (if p.1 then "b" else "a") ++ toString p.2)
    showRes res ++ ":" ++ rs
  "ok " ++ (if calls.isEmpty then "-" else "|".intercalate calls)

def handle (toks : List String) : Option String :=
  match toks with
  | ["io.run", cap, failAt, mode, plan] => some <|
    match (if cap == "-" then some none else (parseNat? cap).map some), parseAnyFault? failAt mode, parsePlan? plan with
    | some cap, some f, some plan =>
      if cap == some 0 then "bad-op" else runPlan cap f plan
    | _, _, _ => "bad-op"
  | ["io.runmany", cap, plan, faults] => some <|
    match (if cap == "-" then some none else (parseNat? cap).map some), parsePlan? plan,
        (faults.splitOn ";").mapM parseFaultPair? with
    | some cap, some plan, some fs =>
      if cap == some 0 then "bad-op" else "ok " ++ "|".intercalate (fs.map (fun f => runPlanShort cap f plan))
    | _, _, _ => "bad-op"
  | ["readat.wrap", want, n, err] => some <|
    match parseNat? want, parseNat? n with
    | some want, some n =>
      if err == "0" || err == "1" then
        let r := readAtWrap want n (err == "1")
        s!"ok {r.1} {if r.2 then 1 else 0}"
      else "bad-op"
    | _, _ => "bad-op"
  | ["io.bufio", cap, failAt, mode, ops] => some <|
    match parseNat? cap, parseFault? failAt mode with
    | some cap, some f => if cap == 0 then "bad-op" else (runBufio cap f (splitList ops)).getD "bad-op"
    | _, _ => "bad-op"
  | ["io.copysrc", cap, failAt, mode, pre, len, cut, eof, checked] => some <|
    match (if cap == "-" then some none else (parseNat? cap).map some), parseAnyFault? failAt mode,
        parseNat? pre, parseNat? len, (if cut == "-" then some none else (parseNat? cut).map some) with
    | some cap, some sink, some pre, some len, some cut =>
      if cap == some 0 || !(eof == "0" || eof == "1") || !(checked == "0" || checked == "1") then "bad-op"
      else runCopySrc cap sink pre len (cut.map (fun c => ⟨c, eof == "1"⟩)) (checked == "1")
    | _, _, _, _, _ => "bad-op"
  | ["io.merge2", seeded, a, b, caps] => some <|
    match parseSrc? a, parseSrc? b, (if caps == "-" then some [] else parseList? parseNat? caps) with
    | some a, some b, some caps =>
      if !(seeded == "0" || seeded == "1") then "bad-op" else runMerge2 (seeded == "1") a b caps
    | _, _, _ => "bad-op"
  | ["io.bloomprobe", clear, x, stale, blk, n, r] => some <|
    match parseNat? x, parseHex? stale, parseHex? blk, parseNat? n, parseRes? r with
    | some x, some stale, some blk, some n, some r =>
      if !(clear == "0" || clear == "1") then "bad-op"
      else
        let p := PqModel.IoFault.Rd.probe (clear == "1")
          (fun b => PqModel.Bloom.blockCheckGo (PqModel.Bloom.parseWords 8 b) (BitVec.ofNat 32 x)) stale blk n r
        "ok " ++ (if p.1 then "1" else "0") ++ " " ++ showRes p.2
    | _, _, _, _, _ => "bad-op"
  | ["open.model", enc, hex] => some <|
    match parseHex? hex with
    | some b => if enc == "0" || enc == "1" then showOpen (openModel (enc == "1") b) else "bad-op"
    | none => "bad-op"
  | ["open.spec", enc, hex] => some <|
    match parseHex? hex with
    | some b => if enc == "0" || enc == "1" then showOpen (openSpec (enc == "1") b) else "bad-op"
    | none => "bad-op"
  | _ => none

end Driver.Ops.C14
