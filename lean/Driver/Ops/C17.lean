import Driver.Proto
import PqModel.Reset

/-! C17 ops.

`reset.run <mirror> <cols> <sorting> <metadata> <ops>` -> `ok <observation>`

* mirror: `current` | `asis` | `fixed`
* cols: `;`-separated `path|typ|encoding|encodings|codec|histLen`, path = `.`-separated hex strings
  (`-` = empty string), encodings = comma list
* sorting: comma list of `idx:desc:nullsFirst` (0/1) or `-`
* metadata: comma list of `hexkey=hexvalue` or `-`
* ops: `;`-separated (or `-` for none)
    `w:<rows>:<eff>/<eff>/…` eff = `sw,onplain,type,enc,buf,plain,dict,held,pages,filter,rows,values,tcs,locs,bloomlen,geo,hist…`
                             (buf/plain/dict/locs are lengths, held 0/1, geo the geospatial state mask, hist… the histogram values)
    `f:F<n>|C:<offset>:<ndefs>`         flush that failed after n columns flushed their page / committed
    `c:F<n>|C:<offset>:<ndefs>:<footerOk>:<offset2>`   close
    `ch:<offset>:<eff>/<eff>/…`         Close that fails while writing the file header: the column writers
                                        have closed (their rows are pages now), nothing is reset
    `k:<hexkey>:<hexvalue>`             SetKeyValueMetadata
    `s:<n>`                             SortingWriter sorts and writes a chunk whose last row has n values
    `r`                                 Reset
* observation: `cols=<col>;… rows= off= md= sort= rgs= cis= ois= def= fmd=`,
  col = `path|chunkpath|encs|chunkencs|type|enc|sw|onplain|buf|plain|dict|held|pages|filter|rows|values|tcs|locs|bloomlen|hist|geo` -/
namespace Driver.Ops.C17
open Driver PqModel.Reset

def hexStr? (s : String) : Option Str :=
  (parseHex? s).map (·.map (·.toNat))

def showHex (s : Str) : String := toHex (s.map UInt8.ofNat)

def parsePath? (s : String) : Option (List Str) :=
  if s == "" then some [] else (s.splitOn ".").mapM hexStr?

def showPath (p : List Str) : String := ".".intercalate (p.map showHex)

def bit? (s : String) : Option Bool :=
  if s == "1" then some true else if s == "0" then some false else none

def parseCol? (s : String) : Option ColCfg :=
  match s.splitOn "|" with
  | [p, t, e, es, c, h] =>
    match parsePath? p, parseNat? t, parseNat? e, parseList? parseNat? es, parseNat? c, parseNat? h with
    | some p, some t, some e, some es, some c, some h => some ⟨p, t, e, es, c, h⟩
    | _, _, _, _, _, _ => none
  | _ => none

def parseSort? (s : String) : Option SortCol :=
  match s.splitOn ":" with
  | [i, d, n] =>
    match parseNat? i, bit? d, bit? n with
    | some i, some d, some n => some ⟨i, d, n⟩
    | _, _, _ => none
  | _ => none

def parseKV? (s : String) : Option KV :=
  match s.splitOn "=" with
  | [k, v] =>
    match hexStr? k, hexStr? v with
    | some k, some v => some ⟨k, v⟩
    | _, _ => none
  | _ => none

def parseEff? (s : String) : Option ColVol :=
  match (s.splitOn ",").mapM parseNat? with
  | some (sw :: op :: ty :: en :: buf :: pl :: dict :: held :: pages :: fl :: rows :: vals :: tcs :: locs :: bl :: geo :: hist) =>
    some { columnType := ty, encoding := en, hasSwitchedToPlain := sw != 0, onPlainBuffer := op != 0,
           buffered := List.replicate buf 1, plainBuffered := List.replicate pl 1, indexer := [],
           dict := List.replicate dict 1, pageBuffer := if held != 0 then some [] else none,
           numPages := pages, filterLen := fl, numRows := rows, numValues := vals,
           totalUncompressed := 0, totalCompressed := tcs, dataPageOffset := 0, dictPageOffset := 0,
           stats := none, encodingStats := [], bloomOffset := 0, pageLocations := List.replicate locs 1,
           totalUnencoded := 0, levelHist := hist, pageLevelHists := [], bufAllocated := false,
           bloomLength := bl, sizeStats := [], geo := geo }
  | _ => none

def parseFlush? (k off nd : String) : Option FlushKind :=
  match parseNat? off, parseNat? nd with
  | some off, some nd =>
    if k == "C" then some (.committed off (List.replicate nd 1) [1])
    else if k.startsWith "F" then (parseNat? (k.drop 1).toString).map (.failed off (List.replicate nd 1))
    else none
  | _, _ => none

def parseOp? (s : String) : Option Op :=
  match s.splitOn ":" with
  | ["w", rows, effs] =>
    match parseNat? rows, (if effs == "" then some [] else (effs.splitOn "/").mapM parseEff?) with
    | some rows, some effs => some (.write rows effs)
    | _, _ => none
  | ["f", k, off, nd] => (parseFlush? k off nd).map .flush
  | ["c", k, off, nd, ok, off2] =>
    match parseFlush? k off nd, bit? ok, parseNat? off2 with
    | some k, some ok, some off2 => some (.close k ok off2)
    | _, _, _ => none
  | ["ch", off, effs] =>
    match parseNat? off, (if effs == "" then some [] else (effs.splitOn "/").mapM parseEff?) with
    | some off, some effs => some (.closeHeaderFailed effs off)
    | _, _ => none
  | ["k", k, v] =>
    match hexStr? k, hexStr? v with
    | some k, some v => some (.setKV k v)
    | _, _ => none
  | ["s", n] => (parseNat? n).map (fun n => .sortChunk (List.replicate n 1))
  | ["r"] => some .reset
  | _ => none

def b01 (b : Bool) : String := if b then "1" else "0"

def showNats (l : List Nat) : String := showList toString l

def showColObs (c : ColObs) : String :=
  "|".intercalate [showPath c.path, showPath c.chunkPath, showNats c.encodings, showNats c.chunkEncoding,
    toString c.vol.columnType, toString c.vol.encoding, b01 c.vol.hasSwitchedToPlain, b01 c.vol.onPlainBuffer,
    toString c.vol.buffered.length, toString c.vol.plainBuffered.length, toString c.vol.dict.length,
    b01 c.vol.pageBuffer.isSome, toString c.vol.numPages, toString c.vol.filterLen, toString c.vol.numRows,
    toString c.vol.numValues, toString c.vol.totalCompressed, toString c.vol.pageLocations.length,
    toString c.vol.bloomLength, showNats c.vol.levelHist, toString c.vol.geo]

def showObs (o : Obs) : String :=
  s!"cols={";".intercalate (o.cols.map showColObs)} rows={o.numRows} off={o.offset} " ++
  s!"md={showList (fun (kv : KV) => showHex kv.key ++ "=" ++ showHex kv.value) o.metadata} " ++
  s!"sort={showList (fun (c : SortCol) => s!"{c.columnIdx}:{b01 c.descending}:{b01 c.nullsFirst}") o.sorting} " ++
  s!"rgs={o.rowGroups.length} cis={o.columnIndexes.length} ois={o.offsetIndexes.length} " ++
  s!"def={o.deferred.length} fmd={b01 o.fileMetaData.isSome}"

def mirror? (s : String) : Option Mirror :=
  if s == "current" then some current else if s == "asis" then some asIs
  else if s == "fixed" then some fixed else none

def handle (toks : List String) : Option String :=
  match toks with
  | ["reset.run", m, cols, sorting, md, ops] => some <|
    match mirror? m, (cols.splitOn ";").mapM parseCol?, parseList? parseSort? sorting, parseList? parseKV? md,
          (if ops == "-" then some [] else (ops.splitOn ";").mapM parseOp?) with
    | some m, some cols, some sorting, some md, some ops =>
      "ok " ++ showObs (observe m (run m ⟨cols, sorting, md⟩ ops))
    | _, _, _, _, _ => "bad-op"
  | ["reset.mirror"] => some ("ok " ++ currentName)
  | _ => none

end Driver.Ops.C17
