import Driver.Proto
import PqModel.FileCodecsTyped
import PqModel.FileCodecsGo
import PqModel.LogicalTime

/-! C01 ops: one data page of a column of any physical type × value encoding, in the data page v1
body framing or the v2 layout, through the file model's writer (`mkPage` + `pack`: MIRROR encoders)
and reader (`readPage`: SPEC decoders). Values travel as the hex of their bytes (little-endian for
the numeric types, `00`/`01` for booleans). -/
namespace Driver.Ops.C01
open Driver PqModel PqModel.FileModel PqModel.Dremel

def ptype? (s : String) (flen : Nat) : Option PType :=
  match s with
  | "BOOLEAN" => some .boolean
  | "INT32" => some .int32
  | "INT64" => some .int64
  | "INT96" => some .int96
  | "FLOAT" => some .float
  | "DOUBLE" => some .double
  | "BYTE_ARRAY" => some .byteArray
  | "FIXED_LEN_BYTE_ARRAY" => some (.flba flen)
  | _ => none

def venc? (s : String) : Option VEnc :=
  match s with
  | "PLAIN" => some .plain
  | "DELTA_BINARY_PACKED" => some .deltaBinaryPacked
  | "DELTA_LENGTH_BYTE_ARRAY" => some .deltaLengthByteArray
  | "DELTA_BYTE_ARRAY" => some .deltaByteArray
  | "RLE" => some .rle
  | "BYTE_STREAM_SPLIT" => some .byteStreamSplit
  | _ => none

def width (t : PType) : Nat :=
  match t with
  | .boolean => 1
  | .int32 => 4
  | .float => 4
  | .int64 => 8
  | .double => 8
  | .int96 => 12
  | .flba n => n
  | .byteArray => 0

def valOfBytes (t : PType) (bs : List Nat) : Nat :=
  match t with
  | .byteArray => natOfBytes bs
  | _ => Rle.leNat bs

def bytesOfVal (t : PType) (x : Nat) : List Nat :=
  match t with
  | .byteArray => bytesOfNat x
  | _ => Rle.leBytes (width t) x

def hexN (bs : List Nat) : String := toHex (bs.map UInt8.ofNat)
def parseHexN? (s : String) : Option (List Nat) := (parseHex? s).map (·.map UInt8.toNat)

/-- value lists: `_` = no value, otherwise comma-separated hex (`-` = the empty byte string) -/
def parseVals? (s : String) : Option (List (List Nat)) :=
  if s == "_" then some [] else (s.splitOn ",").mapM parseHexN?

def showTriple (t : PType) (x : Triple) : String :=
  (match x.val with | some v => hexN (bytesOfVal t v) | none => "n") ++ "/" ++ toString x.rep ++ "/" ++ toString x.dfn

/-- `c01.enc <ptype> <flba len> <enc> <v1 0/1> <maxrep> <maxdef> <reps> <defs> <vals: hex,...>` ->
    `ok <admissible 0/1> <reps hex> <defs hex> <vals hex>` (v1: the whole body is in the last
    field); `c01.dec <ptype> <flba len> <enc> <v1 0/1> <maxrep> <maxdef> <nvals> <reps hex> <defs hex>
    <vals hex>` -> `ok <triples v/rep/def,...>` or `err`; `c01.decgo` = the same page through the
    reader built from the MIRRORS of the Go decoders (`mkCodecGo`), the recycled decode buffers
    holding `0xA5…` / `7,7,…`. -/
def handle (toks : List String) : Option String :=
  match toks with
  | ["c01.enc", pt, fl, en, v1, mr, md, reps, defs, vals] => some <|
    match parseNat? fl, venc? en, parseNat? mr, parseNat? md, parseList? parseNat? reps, parseList? parseNat? defs,
        parseVals? vals with
    | some fl, some e, some mr, some md, some reps, some defs, some vals =>
      match ptype? pt fl with
      | none => "bad-op"
      | some t =>
        let cs : ColSpec := ⟨t, e⟩
        if !cs.supported then "unsupported" else
        match mkTriples md reps defs (vals.map (valOfBytes t)) with
        | none => "bad-op"
        | some p =>
          let c := mkCodec cs.val (plainOf t) (v1 == "1") (mr, md) id some
          let g := c.pack (mkPage c (mr, md) p false (c.encV (pageVals p)))
          let adm := pageOK c (fun _ => true) cs.val.okP (okSOf (v1 == "1") (mr, md)) (mr, md) p &&
            (pageVals p).all cs.val.okV
          s!"ok {if adm then 1 else 0} {hexN g.reps} {hexN g.defs} {hexN g.vals}"
    | _, _, _, _, _, _, _ => "bad-op"
  | ["c01.dec", pt, fl, en, v1, mr, md, nv, reps, defs, vals] => some <|
    match parseNat? fl, venc? en, parseNat? mr, parseNat? md, parseNat? nv, parseHexN? reps, parseHexN? defs,
        parseHexN? vals with
    | some fl, some e, some mr, some md, some nv, some reps, some defs, some vals =>
      match ptype? pt fl with
      | none => "bad-op"
      | some t =>
        let cs : ColSpec := ⟨t, e⟩
        if !cs.supported then "unsupported" else
        let c := mkCodec cs.val (plainOf t) (v1 == "1") (mr, md) id some
        let g : Page (List Nat) := ⟨nv, reps, defs, false, vals⟩
        match readPage false c (mr, md) [] g with
        | none => "err"
        | some p => s!"ok {showList (showTriple t) p}"
    | _, _, _, _, _, _, _, _ => "bad-op"
  | ["c01.decgo", pt, fl, en, v1, mr, md, nv, reps, defs, vals] => some <|
    match parseNat? fl, venc? en, parseNat? mr, parseNat? md, parseNat? nv, parseHexN? reps, parseHexN? defs,
        parseHexN? vals with
    | some fl, some e, some mr, some md, some nv, some reps, some defs, some vals =>
      match ptype? pt fl with
      | none => "bad-op"
      | some t =>
        let cs : ColSpec := ⟨t, e⟩
        if !cs.supported then "unsupported" else
        let stale : Plain.Bytes := List.replicate 97 0xA5
        let c := mkCodecGo (cs.goVal stale) (goPlainOf t) (List.replicate 13 7) (v1 == "1") (mr, md) id some
        let g : Page (List Nat) := ⟨nv, reps, defs, false, vals⟩
        match readPage false c (mr, md) [] g with
        | none => "err"
        | some p => s!"ok {showList (showTriple t) p}"
    | _, _, _, _, _, _, _, _ => "bad-op"
  | ["c01.time", u, sec, nsec] => some <|
    -- `c01.time <ms|us|ns> <sec> <nsec>` -> `ok <stored int64> <read-back sec> <read-back nsec>`
    match (match u with | "ms" => some LogicalTime.TUnit.milli | "us" => some .micro | "ns" => some .nano | _ => none),
        parseInt? sec, parseNat? nsec with
    | some u, some sec, some nsec =>
      let v := LogicalTime.toUnit u ⟨sec, nsec⟩
      let t := LogicalTime.ofUnit u v
      s!"ok {v.toInt} {t.sec} {t.nsec}"
    | _, _, _ => "bad-op"
  | ["c01.date", sec, nsec] => some <|
    match parseInt? sec, parseNat? nsec with
    | some sec, some nsec =>
      let d := LogicalTime.toDays ⟨sec, nsec⟩
      let t := LogicalTime.ofDays d
      s!"ok {d.toInt} {t.sec} {t.nsec}"
    | _, _ => "bad-op"
  | _ => none

end Driver.Ops.C01
