import Driver.Proto
import Driver.Ops.C14
import PqModel.MergeKFault

/-! Ops of C14, part "kway".

* `io.kway <src>/<src>/... <caps>` — `mergedRowReader.ReadRows` (MIRROR `RdK.MK.readRows`) over the
  scripted sources (format of `io.merge2`: `rows:failIn:eager:errWithRows`), one call per buffer
  length. The consumer keeps calling after an error (at most two more calls) and stops after io.EOF.
  Answer: `ok call|call|...`, a call is `<n|e|x|p>:<input>_<key>,...` (`-` = no rows; `p` = the
  call would index `buffers[-1]`). -/
namespace Driver.Ops.C14Kway
open Driver PqModel.IoFault.Rd PqModel.IoFault.RdK

def showKRes : KRes → String
  | .nil => "n"
  | .eof => "e"
  | .err => "x"
  | .panic => "p"

/-- `after`: calls still allowed once an error has been seen (`none` = no error yet) -/
def runCalls : List Nat → Option Nat → MK → List String
  | [], _, _ => []
  | c :: cs, after, m =>
    if after == some 0 then [] else
    let x := m.readRows c
    let rs := if x.1.1.isEmpty then "-" else
      ",".intercalate (x.1.1.map fun p => toString p.1 ++ "_" ++ toString p.2)
    let line := showKRes x.1.2 ++ ":" ++ rs
    match x.1.2 with
    | .eof => [line]
    | .panic => [line]
    | .err => line :: runCalls cs (some (match after with | none => 2 | some a => a - 1)) x.2
    | .nil => line :: runCalls cs (after.map (· - 1)) x.2

def runKway (srcs : List Src) (caps : List Nat) : String :=
  let calls := runCalls caps none (MK.new srcs)
  "ok " ++ (if calls.isEmpty then "-" else "|".intercalate calls)

def handle (toks : List String) : Option String :=
  match toks with
  | ["io.kway", srcs, caps] => some <|
    match (srcs.splitOn "/").mapM Driver.Ops.C14.parseSrc?, (if caps == "-" then some [] else parseList? parseNat? caps) with
    | some srcs, some caps => runKway srcs caps
    | _, _ => "bad-op"
  | _ => none

end Driver.Ops.C14Kway
