import Driver.Proto
import PqModel.Search

namespace Driver.Ops.C06
open Driver

/-- `find <asc 0/1> <zero-rank> <mins> <maxs> <v>` (bounds: int or `n`) -> `ok <page> <boundary order>`
    (nulls-last compare, as `Search`); `find.nf <nullsFirst 0/1> <asc> <zero-rank> <mins> <maxs> <v>` gives the
    null ordering of the compare function handed to `Find`. -/
def handle (toks : List String) : Option String :=
  match toks with
  | ["find", asc, z, mins, maxs, v] => some <|
    match parseList? parseOptInt? mins, parseList? parseOptInt? maxs, parseInt? v, parseInt? z with
    | some mn, some mx, some v, some z =>
      let ix : PqModel.Search.Index := { mins := mn, maxs := mx }
      if mn.length ≠ mx.length then "bad-op" else
      s!"ok {PqModel.Search.find false (asc == "1") ix v} {PqModel.Search.writerOrder z ix}"
    | _, _, _, _ => "bad-op"
  | ["find.nf", nf, asc, z, mins, maxs, v] => some <|
    match parseList? parseOptInt? mins, parseList? parseOptInt? maxs, parseInt? v, parseInt? z with
    | some mn, some mx, some v, some z =>
      let ix : PqModel.Search.Index := { mins := mn, maxs := mx }
      if mn.length ≠ mx.length || (nf != "0" && nf != "1") then "bad-op" else
      s!"ok {PqModel.Search.find (nf == "1") (asc == "1") ix v} {PqModel.Search.writerOrder z ix}"
    | _, _, _, _ => "bad-op"
  | _ => none

end Driver.Ops.C06
