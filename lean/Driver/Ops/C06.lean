import Driver.Proto
import PqModel.Search

namespace Driver.Ops.C06
open Driver

/-- `find <asc 0/1> <zero-rank> <mins> <maxs> <v>` (bounds: int or `n`) -> `ok <page> <boundary order>` -/
def handle (toks : List String) : Option String :=
  match toks with
  | ["find", asc, z, mins, maxs, v] => some <|
    match parseList? parseOptInt? mins, parseList? parseOptInt? maxs, parseInt? v, parseInt? z with
    | some mn, some mx, some v, some z =>
      let ix : PqModel.Search.Index := { mins := mn, maxs := mx }
      if mn.length ≠ mx.length then "bad-op" else
      s!"ok {PqModel.Search.find (asc == "1") ix v} {PqModel.Search.writerOrder z ix}"
    | _, _, _, _ => "bad-op"
  | _ => none

end Driver.Ops.C06
