import Driver.Proto
import PqModel.SearchMulti
import PqModel.SearchNaN
import PqModel.SearchPages
import PqModel.SearchPagesF

namespace Driver.Ops.C06
open Driver

def parseBit? (s : String) : Option Bool :=
  if s == "1" then some true else if s == "0" then some false else none

/-- one chunk index: `<asc><desc>:<null pages>:<mins>:<maxs>`, e.g. `10:0,0:0,10:9,50` -/
def parseChunk? (s : String) : Option PqModel.Search.Chunk :=
  match s.splitOn ":" with
  | [flags, nulls, mins, maxs] =>
    match flags.toList, parseList? parseBit? nulls, parseList? parseOptInt? mins, parseList? parseOptInt? maxs with
    | [a, d], some ns, some mn, some mx =>
      match parseBit? (String.singleton a), parseBit? (String.singleton d) with
      | some a, some d =>
        if mn.length = mx.length ∧ ns.length = mn.length then
          some { nulls := ns, ix := { mins := mn, maxs := mx }, asc := a, desc := d }
        else none
      | _, _ => none
    | _, _, _, _ => none
  | _ => none

/-- chunks separated by `|`, `-` = no chunk -/
def parseChunks? (s : String) : Option (List PqModel.Search.Chunk) :=
  if s == "-" then some [] else (s.splitOn "|").mapM parseChunk?

/-- float bound: int rank, `n` = null, `nan` -/
def parseFB? (s : String) : Option PqModel.Search.FB :=
  if s == "n" then some .null else if s == "nan" then some .nan else (s.toInt?).map .val

def showBound : PqModel.Search.Bound → String
  | none => "n"
  | some x => toString x

/-- one value of a page: `n` = null, else the bit pattern as an unsigned decimal -/
def parseOptNat? (s : String) : Option (Option Nat) :=
  if s == "n" then some none else (s.toNat?).map some

/-- pages separated by `|`, values by `,`; `-` = no page; a page always has at least one entry -/
def parsePages? (s : String) : Option (List (List (Option Nat))) :=
  if s == "-" then some [] else (s.splitOn "|").mapM (parseList? parseOptNat?)

/-- `pages.find`: the index of the pages' values and `find` for every probe under both null orderings, all in the
    column's own order -/
def pagesFind (signed : Bool) (w : Nat) (pages : List (List (Option Nat))) (probes : List Nat) : String :=
  let ps : List (List (Option (BitVec w))) := pages.map (fun p => p.map (fun o => o.map (BitVec.ofNat w)))
  let ix := PqModel.Search.indexOfPages (PqModel.Search.intBounds signed w) (PqModel.Search.intKey signed w) ps
  let order := PqModel.Search.writerOrder 0 ix
  let finds := fun (nf : Bool) =>
    probes.map (fun v => PqModel.Search.find nf (order == 1) ix (PqModel.Search.intKey signed w (BitVec.ofNat w v)))
  s!"ok {showList toString (finds false)} {showList toString (finds true)} {order} {showList showBound ix.mins} {showList showBound ix.maxs}"

def showFB : PqModel.Search.FB → String
  | .null => "n"
  | .nan => "nan"
  | .val x => toString x

/-- `pages.findf`: the same for FLOAT (`e m = 8 23`) / DOUBLE (`11 52`) bit patterns; probes are non-NaN -/
def pagesFindF (e m : Nat) (pages : List (List (Option Nat))) (probes : List Nat) : String :=
  let ps : List (List (Option (BitVec (1 + e + m)))) := pages.map (fun p => p.map (fun o => o.map (BitVec.ofNat _)))
  let key := PqModel.Stats.fKey e m
  let ix := PqModel.Search.indexOfPagesF (PqModel.Search.floatBounds e m) key (PqModel.Stats.fIsNaN e m) ps
  let order := PqModel.Search.writerOrderF 0 ix
  let finds := fun (nf : Bool) =>
    probes.map (fun v => PqModel.Search.findF nf (order == 1) ix (key (BitVec.ofNat _ v)))
  s!"ok {showList toString (finds false)} {showList toString (finds true)} {order} {showList showFB ix.mins} {showList showFB ix.maxs}"

/-- `find <asc 0/1> <zero-rank> <mins> <maxs> <v>` (bounds: int or `n`) -> `ok <page> <boundary order>`
    (nulls-last compare, as `Search`); `find.nf <nullsFirst 0/1> <asc> <zero-rank> <mins> <maxs> <v>` gives the
    null ordering of the compare function handed to `Find`.
    `find.z2 <nullsFirst> <asc> <zero-rank of mins> <zero-rank of maxs> <mins> <maxs> <v>`: placeholders of null pages differ per list.
    `find.f <nullsFirst> <asc> <zero-rank> <mins> <maxs> <v>`: the same over float bounds (int | `n` | `nan`).
    `multi.find <nullsFirst> <zero-rank> <chunks> <probes>` -> `ok <page per probe> <IsAscending> <IsDescending> <NumPages>
    <NullPage list> <MinValue list> <MaxValue list>` of the multiColumnIndex over the chunk indexes, every
    access through the `mapPageIndex` mirror.
    `pages.find <i32|i64|u32|u64> <pages of values> <probes>` -> `ok <page per probe, nulls last>
    <page per probe, nulls first> <boundary order> <mins> <maxs>`: the column index built from the VALUES of the pages (`indexOfPages`: bounds of the non-null
    values in the column's signed / unsigned order, null pages, the indexer's boundary order) and `find` on it;
    bounds are printed as keys (`n` = null page).
    `pages.findf <f32|f64> <pages of bit patterns> <probes>`: the same for FLOAT / DOUBLE (`indexOfPagesF`: NaN values
    skipped by the bounds, all-NaN page = `nan` bounds, no boundary order with a NaN bound; keys = sign-magnitude ranks). -/
def handle (toks : List String) : Option String :=
  match toks with
  | ["find", asc, z, mins, maxs, v] => some <|
    match parseList? parseOptInt? mins, parseList? parseOptInt? maxs, parseInt? v, parseInt? z with
    | some mn, some mx, some v, some z =>
      let ix : PqModel.Search.Index := { mins := mn, maxs := mx }
      if mn.length ≠ mx.length then "bad-op" else
      s!"ok {PqModel.Search.find false (asc == "1") ix v} {PqModel.Search.writerOrder z ix}"
    | _, _, _, _ => "bad-op"
  | ["find.nf", nf, asc, z, mins, maxs, v] => some <|
    match parseList? parseOptInt? mins, parseList? parseOptInt? maxs, parseInt? v, parseInt? z with
    | some mn, some mx, some v, some z =>
      let ix : PqModel.Search.Index := { mins := mn, maxs := mx }
      if mn.length ≠ mx.length || (nf != "0" && nf != "1") then "bad-op" else
      s!"ok {PqModel.Search.find (nf == "1") (asc == "1") ix v} {PqModel.Search.writerOrder z ix}"
    | _, _, _, _ => "bad-op"
  | ["find.z2", nf, asc, zn, zx, mins, maxs, v] => some <|
    match parseList? parseOptInt? mins, parseList? parseOptInt? maxs, parseInt? v, parseInt? zn, parseInt? zx with
    | some mn, some mx, some v, some zn, some zx =>
      let ix : PqModel.Search.Index := { mins := mn, maxs := mx }
      if mn.length ≠ mx.length || (nf != "0" && nf != "1") then "bad-op" else
      s!"ok {PqModel.Search.find (nf == "1") (asc == "1") ix v} {PqModel.Search.writerOrder2 zn zx ix}"
    | _, _, _, _, _ => "bad-op"
  | ["find.f", nf, asc, z, mins, maxs, v] => some <|
    match parseList? parseFB? mins, parseList? parseFB? maxs, parseInt? v, parseInt? z with
    | some mn, some mx, some v, some z =>
      let ix : PqModel.Search.FIndex := { mins := mn, maxs := mx }
      if mn.length ≠ mx.length || (nf != "0" && nf != "1") then "bad-op" else
      s!"ok {PqModel.Search.findF (nf == "1") (asc == "1") ix v} {PqModel.Search.writerOrderF z ix}"
    | _, _, _, _ => "bad-op"
  | ["multi.find", nf, z, chunks, vs] => some <|
    match parseChunks? chunks, parseList? parseInt? vs, parseInt? z with
    | some cs, some vs, some z =>
      if nf != "0" && nf != "1" then "bad-op" else
      let view := PqModel.Search.multiView cs
      let b := fun (x : Bool) => if x then "1" else "0"
      let finds := vs.map (fun v => PqModel.Search.findMultiGo (nf == "1") z cs v)
      s!"ok {showList toString finds} {b (PqModel.Search.multiIsAscending z cs)} {b (PqModel.Search.multiIsDescending z cs)} {PqModel.Search.total cs} {showList b (PqModel.Search.multiViewNulls cs)} {showList showBound view.mins} {showList showBound view.maxs}"
    | _, _, _ => "bad-op"
  | ["pages.find", kind, pages, vs] => some <|
    match parsePages? pages, parseList? parseNat? vs with
    | some ps, some vs =>
      match kind with
      | "i32" => pagesFind true 32 ps vs
      | "i64" => pagesFind true 64 ps vs
      | "u32" => pagesFind false 32 ps vs
      | "u64" => pagesFind false 64 ps vs
      | _ => "bad-op"
    | _, _ => "bad-op"
  | ["pages.findf", kind, pages, vs] => some <|
    match parsePages? pages, parseList? parseNat? vs with
    | some ps, some vs =>
      match kind with
      | "f32" => pagesFindF 8 23 ps vs
      | "f64" => pagesFindF 11 52 ps vs
      | _ => "bad-op"
    | _, _ => "bad-op"
  | _ => none

end Driver.Ops.C06
