import Driver.Proto
import PqModel.ThriftSkip

/-! Ops of C14, truncated and damaged footers.

* `thrift.skip <hex>` — the MIRROR of `skipStruct` on a fresh `compactBytesReader` over the bytes:
  `ok <offset after the struct>` | `err <eof|ueof|overflow|range|bad-type|fuel>`.
* `thrift.skipcuts <hex>` — the same for every prefix of the bytes, lengths 0..n: the answers without the
  leading `ok`/`err` joined by `,` (`<offset>` or the error class).
* `open.walk <enc 0/1> <hex>` — `OpenFile` up to the decoded footer, footer magic "PAR1", with the walk in
  place of the typed decoder: `ok <bytes of the struct>` | `err trailer:<class>` | `err thrift:<class>` |
  `err trailing:<n>` | `err signed-no-keys`. -/
namespace Driver.Ops.C14Footer
open Driver PqModel.IoFault PqModel.ThriftSkip

def showSkErr : SkErr → String
  | .eof => "eof"
  | .ueof => "ueof"
  | .overflow => "overflow"
  | .range => "range"
  | .badType => "bad-type"
  | .fuel => "fuel"

def showOpenErr : OpenErr → String
  | .shortHeader => "short-header"
  | .badHeaderMagic => "bad-header-magic"
  | .shortTrailer => "short-trailer"
  | .badFooterMagic => "bad-footer-magic"
  | .footerBounds => "footer-bounds"

def showSkip (r : Except SkErr Nat) : String :=
  match r with
  | .ok n => s!"{n}"
  | .error e => showSkErr e

def showWalk (r : Except FootErr Nat) : String :=
  match r with
  | .ok n => s!"ok {n}"
  | .error (.trailer e) => "err trailer:" ++ showOpenErr e
  | .error (.thrift e) => "err thrift:" ++ showSkErr e
  | .error (.trailing n) => s!"err trailing:{n}"
  | .error .signedNoKeys => "err signed-no-keys"

def handle (toks : List String) : Option String :=
  match toks with
  | ["thrift.skip", hex] => some <|
    match parseHex? hex with
    | some b =>
      match skipStruct b with
      | .ok n => s!"ok {n}"
      | .error e => "err " ++ showSkErr e
    | none => "bad-op"
  | ["thrift.skipcuts", hex] => some <|
    match parseHex? hex with
    | some b => "ok " ++ ",".intercalate ((List.range (b.length + 1)).map fun m => showSkip (skipStruct (b.take m)))
    | none => "bad-op"
  | ["open.walk", enc, hex] => some <|
    match parseHex? hex with
    | some b => if enc == "0" || enc == "1" then showWalk (openWalk (enc == "1") b) else "bad-op"
    | none => "bad-op"
  | _ => none

end Driver.Ops.C14Footer
