import Driver.Proto
import PqModel.WriteOwn

/-! Line-protocol op of the write-side model of C16.

`own.run <shape> <arrays> <rowarrays> <batches>`
  shape     postfix, comma separated: `S<id>:<failAt>` sink, `R<id>` row buffer, `F<asIs>:<id>:<k>`,
            `T<id>:<k>`, `D<id>:<k>` (wrap the writer on top of the stack), `M` (pops b, then a)
  arrays    the caller's `[]Value` backing arrays 1..n: `v.v.v;v.v` (array 0 is the dummy, `-` = none)
  rowarrays the caller's `[]Row` backing arrays 2..: arrays separated by `|`, each a `;` list of row
            headers `arr:off:len:cap` over its whole capacity (`e` = an array of capacity 0, `-` = none;
            `[]Row` arrays 0 and 1 are the dummies)
  batches   comma list of `[]Row` slice headers `arr:off:len:cap` (one `WriteRows` call each, `-` = none)
answers `ok <n:err,...> <leaf>+<leaf>... <arrays 1..n after the history> <rowarrays after the history>`
where a leaf is `S<id>[batch|batch]` (batch = rows joined by `;`, row = values joined by `.`, `e` = empty
row) or `R<id>[row;row]`.

The caller-supplied functions are fixed functions of the first value h of a row (0 if none):
  pred k      (h + k) % 3 ≠ 0
  same k a b  ha / (2 + k % 2) = hb / (2 + k % 2)
  tr k        (h + k) % 7 = 0 → skip, = 1 → twice, = 6 and k ≥ 100 → fail, else copy -/
namespace Driver.Ops.C16Write
open Driver PqModel.WriteOwn

def hd (vs : List Val) : Nat := vs.head?.getD 0

def beh : Beh where
  pred := fun k vs => (hd vs + k) % 3 != 0
  same := fun k a b => hd a / (2 + k % 2) == hd b / (2 + k % 2)
  tr := fun k vs =>
    let x := (hd vs + k) % 7
    if x == 0 then .skip else if x == 1 then .twice else if x == 6 && k ≥ 100 then .fail else .copy

def nats? (sep : String) (s : String) : Option (List Nat) :=
  if s == "-" || s == "e" then some [] else (s.splitOn sep).mapM parseNat?

def shapeTok (stack : List Shape) (tok : String) : Option (List Shape) :=
  match tok.toList with
  | 'S' :: rest => do
    let [id, f] ← nats? ":" (String.ofList rest) | none
    some (.sink id f :: stack)
  | 'R' :: rest => do
    let id ← parseNat? (String.ofList rest)
    some (.rowbuf id :: stack)
  | 'F' :: rest => do
    let [a, id, k] ← nats? ":" (String.ofList rest) | none
    match stack with
    | inner :: st => some (.filter (a == 1) id k inner :: st)
    | [] => none
  | 'T' :: rest => do
    let [id, k] ← nats? ":" (String.ofList rest) | none
    match stack with
    | inner :: st => some (.transform id k inner :: st)
    | [] => none
  | 'D' :: rest => do
    let [id, k] ← nats? ":" (String.ofList rest) | none
    match stack with
    | inner :: st => some (.dedupe id k inner :: st)
    | [] => none
  | ['M'] =>
    match stack with
    | b :: a :: st => some (.multi a b :: st)
    | _ => none
  | _ => none

def shape? (s : String) : Option Shape :=
  match (s.splitOn ",").foldlM shapeTok [] with
  | some [sh] => some sh
  | _ => none

def maxId : Shape → Nat
  | .sink id _ => id
  | .rowbuf id => id
  | .filter _ id _ inner => max id (maxId inner)
  | .transform id _ inner => max id (maxId inner)
  | .dedupe id _ inner => max id (maxId inner)
  | .multi a b => max (maxId a) (maxId b)

def hdr? (s : String) : Option Hdr :=
  match nats? ":" s with
  | some [a, o, l, c] => some ⟨a, o, l, c⟩
  | _ => none

def rhdr? (s : String) : Option RHdr :=
  match nats? ":" s with
  | some [a, o, l, c] => some ⟨a, o, l, c⟩
  | _ => none

def rowArray? (s : String) : Option (List Hdr) :=
  if s == "e" then some [] else (s.splitOn ";").mapM hdr?

def showRow (vs : List Val) : String := if vs.isEmpty then "e" else ".".intercalate (vs.map toString)

def showHdr (h : Hdr) : String := s!"{h.arr}:{h.off}:{h.len}:{h.cap}"

def showRowArray (hs : List Hdr) : String := if hs.isEmpty then "e" else ";".intercalate (hs.map showHdr)

def leaves (st : St) (m : Mem) (rm : RMem) : Shape → List String
  | .sink id _ => [s!"S{id}[" ++ "|".intercalate ((st.node id).got.map fun b => ";".intercalate (b.map showRow)) ++ "]"]
  | .rowbuf id => [s!"R{id}[" ++ ";".intercalate ((rowsOf rm (st.node id).slots).map fun h => showRow (row m h)) ++ "]"]
  | .filter _ _ _ inner => leaves st m rm inner
  | .transform _ _ inner => leaves st m rm inner
  | .dedupe _ _ inner => leaves st m rm inner
  | .multi a b => leaves st m rm a ++ leaves st m rm b

def handle (toks : List String) : Option String :=
  match toks with
  | ["own.run", shS, arrS, rowS, batS] => some <|
    match shape? shS, (if arrS == "-" then some [] else (arrS.splitOn ";").mapM (nats? ".")),
          (if rowS == "-" then some [] else (rowS.splitOn "|").mapM rowArray?),
          (if batS == "-" then some [] else (batS.splitOn ",").mapM rhdr?) with
    | some sh, some arrs, some rarrs, some bats =>
      let m0 : Mem := [] :: arrs
      let rm0 : RMem := (false, []) :: (true, []) :: rarrs.map fun hs => (false, hs)
      let st0 : St := List.replicate (maxId sh + 1) {}
      let r := run beh sh bats st0 m0 rm0
      let rets := ",".intercalate (r.rets.map fun (n, e) => s!"{n}:{if e then 1 else 0}")
      let mem := ";".intercalate (((r.m.drop 1).take arrs.length).map showRow)
      let rmem := "|".intercalate (((r.rm.drop 2).take rarrs.length).map fun x => showRowArray x.2)
      s!"ok {if rets.isEmpty then "-" else rets} {"+".intercalate (leaves r.st r.m r.rm sh)} {if mem.isEmpty then "-" else mem} {if rmem.isEmpty then "-" else rmem}"
    | _, _, _, _ => "err parse"
  | _ => none

end Driver.Ops.C16Write
