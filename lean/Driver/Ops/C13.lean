import Driver.Proto
import PqModel.PageLoad
import PqModel.PageReaders

namespace Driver.Ops.C13
open Driver PqModel.Crc PqModel.PageLoad PqModel.PageReaders

def hex32 (v : BitVec 32) : String :=
  let n := v.toNat
  String.ofList ((List.range 8).map fun i => hexDigit ((n >>> (4 * (7 - i))) % 16))

def parseHex32? (s : String) : Option (BitVec 32) :=
  if s.length != 8 then none else
  (parseHex? s).map fun bs => bs.foldl (fun acc b => (acc <<< 8) ||| BitVec.ofNat 32 b.toNat) 0#32

def parsePath? : String → Option Path
  | "sequential" => some .sequential
  | "afterSeek" => some .afterSeek
  | "lazyDictionary" => some .lazyDictionary
  | "readDictionaryAPI" => some .readDictionaryAPI
  | _ => none

/-- a chunk's script: `p` = a page, `x` = a failure (corrupted), `e` = io.EOF -/
def parseScript? (s : String) : Option Script :=
  s.toList.mapM fun c =>
    if c = 'p' then some (.page { kind := .dataV2, body := [] })
    else if c = 'x' then some (.fail .corrupted)
    else if c = 'e' then some .eof
    else none

/-- MIRROR of the returning guard of `columnPages.ReadPage` / `multiPages.ReadPage`:
    `err == nil || err != io.EOF` (the same list `Props/FactsCheckC13.concat_guards_as_mirrored` compares
    with the source) -/
def concatGuard (s : Sit) : Bool := holds s ["err==nil", "err!=EOF", "or"] == some true

def parseKind? : String → Option PageKind
  | "dict" => some .dictionary
  | "v1" => some .dataV1
  | "v2" => some .dataV2
  | _ => none

/-- * `crc32 <hex>` -> `ok <crc as 8 hex digits>` (byte-wise `Crc.crc32`)
    * `crc32.bits <hex>` -> the same through the bit-serial `Crc.crcBits`
    * `crc32.update <crc hex8> <hex>` -> `crc32.Update(crc, IEEETable, data)`
    * `c13.load <path> <dict|v1|v2> <compressedSize> <header crc hex8> <stream hex>` ->
      `ok <body hex>` | `err corrupted` | `err io` (mirror `PageLoad.load current`)
    * `c13.concat <script>/<script>/…` (one script per row group, `-` = empty) ->
      `ok pages=<n> err=<none|corrupted|io>`: `PageReaders.drain` of the concatenating reader -/
def handle (toks : List String) : Option String :=
  match toks with
  | ["crc32", h] => some <|
    match parseHex? h with
    | some bs => s!"ok {hex32 (crc32 bs)}"
    | none => "bad-op"
  | ["crc32.bits", h] => some <|
    match parseHex? h with
    | some bs => s!"ok {hex32 (crcBits (bytesToBits bs))}"
    | none => "bad-op"
  | ["crc32.update", c, h] => some <|
    match parseHex32? c, parseHex? h with
    | some c, some bs => s!"ok {hex32 (crc32Update c bs)}"
    | _, _ => "bad-op"
  | ["c13.load", p, k, n, c, h] => some <|
    match parsePath? p, parseKind? k, parseNat? n, parseHex32? c, parseHex? h with
    | some p, some k, some n, some c, some bs =>
      match load current p { kind := k, compressedSize := n, crc := c } bs with
      | .ok pg => s!"ok {toHex pg.body}"
      | .error .corrupted => "err corrupted"
      | .error .io => "err io"
    | _, _, _, _, _ => "bad-op"
  | ["c13.concat", scripts] => some <|
    match (scripts.splitOn "/").mapM (fun t => if t = "-" then some [] else parseScript? t) with
    | some cs =>
      let (ps, e) := drain concatGuard (fuelFor cs) cs
      let es := match e with
        | none => "none"
        | some .corrupted => "corrupted"
        | some .io => "io"
      s!"ok pages={ps.length} err={es}"
    | none => "bad-op"
  | _ => none

end Driver.Ops.C13
