import Driver.Proto
import PqModel.PageLoad

namespace Driver.Ops.C13
open Driver PqModel.Crc PqModel.PageLoad

def hex32 (v : BitVec 32) : String :=
  let n := v.toNat
  String.ofList ((List.range 8).map fun i => hexDigit ((n >>> (4 * (7 - i))) % 16))

def parseHex32? (s : String) : Option (BitVec 32) :=
  if s.length != 8 then none else
  (parseHex? s).map fun bs => bs.foldl (fun acc b => (acc <<< 8) ||| BitVec.ofNat 32 b.toNat) 0#32

def parsePath? : String → Option Path
  | "sequential" => some .sequential
  | "afterSeek" => some .afterSeek
  | "lazyDictionary" => some .lazyDictionary
  | "readDictionaryAPI" => some .readDictionaryAPI
  | _ => none

def parseKind? : String → Option PageKind
  | "dict" => some .dictionary
  | "v1" => some .dataV1
  | "v2" => some .dataV2
  | _ => none

/-- * `crc32 <hex>` -> `ok <crc as 8 hex digits>` (byte-wise `Crc.crc32`)
    * `crc32.bits <hex>` -> the same through the bit-serial `Crc.crcBits`
    * `crc32.update <crc hex8> <hex>` -> `crc32.Update(crc, IEEETable, data)`
    * `c13.load <path> <dict|v1|v2> <compressedSize> <header crc hex8> <stream hex>` ->
      `ok <body hex>` | `err corrupted` | `err io` (mirror `PageLoad.load current`) -/
def handle (toks : List String) : Option String :=
  match toks with
  | ["crc32", h] => some <|
    match parseHex? h with
    | some bs => s!"ok {hex32 (crc32 bs)}"
    | none => "bad-op"
  | ["crc32.bits", h] => some <|
    match parseHex? h with
    | some bs => s!"ok {hex32 (crcBits (bytesToBits bs))}"
    | none => "bad-op"
  | ["crc32.update", c, h] => some <|
    match parseHex32? c, parseHex? h with
    | some c, some bs => s!"ok {hex32 (crc32Update c bs)}"
    | _, _ => "bad-op"
  | ["c13.load", p, k, n, c, h] => some <|
    match parsePath? p, parseKind? k, parseNat? n, parseHex32? c, parseHex? h with
    | some p, some k, some n, some c, some bs =>
      match load current p { kind := k, compressedSize := n, crc := c } bs with
      | .ok pg => s!"ok {toHex pg.body}"
      | .error .corrupted => "err corrupted"
      | .error .io => "err io"
    | _, _, _, _, _ => "bad-op"
  | _ => none

end Driver.Ops.C13
