import Driver.Proto
import PqModel.Dremel

/-! Ops for C03/C01: Dremel shredding of an abstract value.
    Node text: `F` leaf | `G(a,b)` group | `O(x)` optional | `R(x)` repeated
    Val text:  `P<id>` prim | `S(a,b)` struct | `N` none | `J(x)` some | `L(a,b)` list (`L()` empty) -/
namespace Driver.Ops.C03
open Driver PqModel.Dremel

mutual
partial def parseNode : List Char → Option (Node × List Char)
  | 'F' :: r => some (.leaf, r)
  | 'O' :: '(' :: r => do
    let (n, r) ← parseNode r
    match r with | ')' :: r => some (.opt n, r) | _ => none
  | 'R' :: '(' :: r => do
    let (n, r) ← parseNode r
    match r with | ')' :: r => some (.rpt n, r) | _ => none
  | 'G' :: '(' :: r => do
    let (fs, r) ← parseFields r
    some (.group fs, r)
  | _ => none
partial def parseFields : List Char → Option (Fields × List Char)
  | ')' :: r => some (.nil, r)
  | cs => do
    let (n, r) ← parseNode cs
    match r with
    | ',' :: r => do
      let (fs, r) ← parseFields r
      some (.cons n fs, r)
    | ')' :: r => some (.cons n .nil, r)
    | _ => none
end

def takeDigits : List Char → List Char → (List Char × List Char)
  | c :: r, acc => if c.isDigit then takeDigits r (c :: acc) else (acc.reverse, c :: r)
  | [], acc => (acc.reverse, [])

mutual
partial def parseVal : List Char → Option (Val × List Char)
  | 'N' :: r => some (.none, r)
  | 'P' :: r =>
    let (ds, r) := takeDigits r []
    match (String.ofList ds).toNat? with
    | some n => some (.prim n, r)
    | none => none
  | 'J' :: '(' :: r => do
    let (v, r) ← parseVal r
    match r with | ')' :: r => some (.some v, r) | _ => none
  | 'S' :: '(' :: r => do
    let (vs, r) ← parseVals r
    some (.struct vs, r)
  | 'L' :: '(' :: r => do
    let (vs, r) ← parseVals r
    some (.list vs, r)
  | _ => none
partial def parseVals : List Char → Option (List Val × List Char)
  | ')' :: r => some ([], r)
  | cs => do
    let (v, r) ← parseVal cs
    match r with
    | ',' :: r => do
      let (vs, r) ← parseVals r
      some (v :: vs, r)
    | ')' :: r => some ([v], r)
    | _ => none
end

def showTriple (t : Triple) : String :=
  (match t.val with | some x => toString x | none => "n") ++ "/" ++ toString t.rep ++ "/" ++ toString t.dfn

def showCols (cs : Cols) : String :=
  ";".intercalate (cs.map fun c => " ".intercalate (c.map showTriple))

def showVal : Val → String
  | .prim x => s!"P{x}"
  | .none => "N"
  | .some v => "J(" ++ showVal v ++ ")"
  | .struct vs => "S(" ++ ",".intercalate (vs.attach.map fun ⟨v, _⟩ => showVal v) ++ ")"
  | .list vs => "L(" ++ ",".intercalate (vs.attach.map fun ⟨v, _⟩ => showVal v) ++ ")"

/-- `shred <node> <val>` → `ok <conf 0/1> <wf 0/1> <cols> | <assembled val>`; cols use `|` between rows' worth? no: one value -/
def handle (toks : List String) : Option String :=
  match toks with
  | ["shred", ns, vs] => some <|
    match parseNode ns.toList, parseVal vs.toList with
    | some (n, []), some (v, []) =>
      let cols := shredN n 0 0 0 v
      let back := asmN n 0 0 cols
      s!"ok {if confN n v then 1 else 0} {if wfN n then 1 else 0} {showCols cols} {showVal back}"
    | _, _ => "bad-op"
  | _ => none

end Driver.Ops.C03
