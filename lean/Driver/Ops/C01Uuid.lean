import Driver.Proto
import PqModel.LogicalUuid

/-! C01 op of the UUID text mirrors (PqModel/LogicalUuid.lean).

`c01.uuid <typed|reflect> <hex of the text, - = empty>` -> `ok <hex of the 16 stored bytes> <hex of the text read back>`
or `panic` (the write path refuses the text) -/
namespace Driver.Ops.C01Uuid
open Driver PqModel.LogicalUuid

def hexOf (b : List Nat) : String := toHex (b.map UInt8.ofNat)

def handle (toks : List String) : Option String :=
  match toks with
  | ["c01.uuid", p, h] => some <|
    match parseHex? h with
    | some bs =>
      let s := bs.map (·.toNat)
      let w := if p == "typed" then uuidWriteTyped s else uuidWriteReflect s
      if p != "typed" && p != "reflect" then "bad-op" else
      match w with
      | none => "panic"
      | some u => s!"ok {hexOf u} {hexOf (uuidString u)}"
    | none => "bad-op"
  | _ => none

end Driver.Ops.C01Uuid
