import Driver.Proto
import Driver.Ops.C03
import PqModel.TypedPath

/-! Op for C03 (typed write path model).
    TNode text: `F` required leaf | `Z` optional non-pointer leaf | `S(a,b)` struct | `P(x)` pointer |
                `R(x)` slice on a repeated node | `L(x)` slice with the list tag | `Q(x)` optional + list |
                `M(k,v)` map | `W(k,v)` map with the optional tag |
                `T(a,b)` non-pointer struct with the optional tag
    Val text as in `Driver.Ops.C03`. -/
namespace Driver.Ops.C03Typed
open Driver PqModel.Dremel PqModel.TypedPath

mutual
partial def parseT : List Char → Option (TNode × List Char)
  | 'F' :: r => some (.leaf, r)
  | 'Z' :: r => some (.optLeaf, r)
  | 'P' :: '(' :: r => do
    let (n, r) ← parseT r
    match r with | ')' :: r => some (.ptr n, r) | _ => none
  | 'R' :: '(' :: r => do
    let (n, r) ← parseT r
    match r with | ')' :: r => some (.slice n, r) | _ => none
  | 'L' :: '(' :: r => do
    let (n, r) ← parseT r
    match r with | ')' :: r => some (.list n, r) | _ => none
  | 'Q' :: '(' :: r => do
    let (n, r) ← parseT r
    match r with | ')' :: r => some (.optList n, r) | _ => none
  | 'S' :: '(' :: r => do
    let (fs, r) ← parseTF r
    some (.struct fs, r)
  | 'T' :: '(' :: r => do
    let (fs, r) ← parseTF r
    some (.optStruct fs, r)
  | 'M' :: '(' :: r => do
    let (kn, r) ← parseT r
    match r with
    | ',' :: r => do
      let (vn, r) ← parseT r
      match r with | ')' :: r => some (.map kn vn, r) | _ => none
    | _ => none
  | 'W' :: '(' :: r => do
    let (kn, r) ← parseT r
    match r with
    | ',' :: r => do
      let (vn, r) ← parseT r
      match r with | ')' :: r => some (.optMap kn vn, r) | _ => none
    | _ => none
  | _ => none
partial def parseTF : List Char → Option (TFields × List Char)
  | ')' :: r => some (.nil, r)
  | cs => do
    let (n, r) ← parseT cs
    match r with
    | ',' :: r => do
      let (fs, r) ← parseTF r
      some (.cons n fs, r)
    | ')' :: r => some (.cons n .nil, r)
    | _ => none
end

/-- `typed.write <tnode> <val> … <val>` → `ok <cols>`: one `Write(batch)` through the typed model. -/
def handle (toks : List String) : Option String :=
  match toks with
  | "typed.write" :: ts :: vals => some <|
    match parseT ts.toList, vals.mapM (fun v => match C03.parseVal v.toList with | some (x, []) => some x | _ => none) with
    | some (n, []), some batch => s!"ok {C03.showCols (typedWrite n batch)}"
    | _, _ => "bad-op"
  | _ => none

end Driver.Ops.C03Typed
