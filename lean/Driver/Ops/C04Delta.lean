import Driver.Proto
import PqModel.DeltaGo
import PqModel.DeltaKernel

/-! Ops of C04 / DELTA encodings.

* `delta.specdec32 <hex>` / `delta.specdec64 <hex>` -> `ok <signed ints> <remaining hex>` | `err <class>`
* `delta.enc32 <signed ints>` / `delta.enc64 <signed ints>` -> `ok <hex>`   (mirror of the Go encoder down to the word-level OR of encodeMiniBlockInt32/64: `mirrorEncodeK`)
* `dlba.specdec <hex>` / `dba.specdec <hex>` -> `ok <values> <remaining hex>` | `err <class>`
* `dlba.enc <values>` / `dba.enc <values>` -> `ok <hex>`
* `dba.encflba <size> <hex>` -> `ok <hex>`; `dlba.encraw <src hex> <offsets>` -> `ok <hex>` (raw Go API input)
* `delta.godec32 <hex>` / `delta.godec64 <hex>` -> `ok <signed ints>` | `err <class>`  (mirror of the Go decoder)
* `dlba.godec <hex>` -> `ok <data hex> <offsets>` | `err <class>`; `dba.godec <hex>` -> `ok <values>` | `err <class>`
Value lists: comma separated hex strings, `e` = empty value, `-` = empty list. -/
namespace Driver.Ops.C04Delta
open Driver PqModel.Delta

def bytesIn (bs : List UInt8) : List Nat := bs.map UInt8.toNat
def bytesOut (bs : List Nat) : String := toHex (bs.map UInt8.ofNat)

def errName : Err → String
  | .truncated => "truncated"
  | .badHeader => "badheader"
  | .badWidth => "badwidth"
  | .negativeLength => "neglen"
  | .badPrefix => "badprefix"
  | .countMismatch => "count"
  | .fuel => "fuel"

def showInts {n : Nat} (xs : List (BitVec n)) : String := showList (fun x => toString x.toInt) xs

def parseVal? (s : String) : Option (List Nat) :=
  if s == "e" then some [] else (parseHexAux s.toList []).map bytesIn

def showVal (v : List Nat) : String := if v.isEmpty then "e" else bytesOut v

def showVals (vs : List (List Nat)) : String := showList showVal vs

def decInts {n : Nat} (r : Except Err (List (BitVec n) × List Nat)) : String :=
  match r with
  | .ok (xs, rest) => s!"ok {showInts xs} {bytesOut rest}"
  | .error e => s!"err {errName e}"

def decVals (r : Except Err (List (List Nat) × List Nat)) : String :=
  match r with
  | .ok (vs, rest) => s!"ok {showVals vs} {bytesOut rest}"
  | .error e => s!"err {errName e}"

def goErrName : GoErr → String
  | .eof => "eof" | .overflow => "overflow" | .badHeader => "badheader" | .negative => "negative"
  | .tooLarge => "toolarge" | .tooMany => "toomany" | .firstRange => "firstrange" | .missing => "missing"
  | .overwide => "overwide" | .negLength => "neglen" | .lengthOOB => "lenoob" | .negPrefix => "negprefix"
  | .prefixOOB => "prefixoob" | .countMismatch => "count"

def goInts {n : Nat} (r : Except GoErr (List (BitVec n) × List Nat)) : String :=
  match r with
  | .ok (xs, _) => s!"ok {showInts xs}"
  | .error e => s!"err {goErrName e}"

def handle (toks : List String) : Option String :=
  match toks with
  | ["delta.godec32", h] => some <|
    match parseHex? h with
    | some bs => goInts (goDecode32 (bytesIn bs))
    | none => "bad-op"
  | ["delta.godec64", h] => some <|
    match parseHex? h with
    | some bs => goInts (goDecode64 (bytesIn bs))
    | none => "bad-op"
  | ["dlba.godec", h] => some <|
    match parseHex? h with
    | some bs =>
      match goDecodeDLBA (bytesIn bs) with
      | .ok (data, os) => s!"ok {bytesOut data} {showList toString os}"
      | .error e => s!"err {goErrName e}"
    | none => "bad-op"
  | ["dba.godec", h] => some <|
    match parseHex? h with
    | some bs =>
      match goDecodeDBA (bytesIn bs) with
      | .ok vs => s!"ok {showVals vs}"
      | .error e => s!"err {goErrName e}"
    | none => "bad-op"
  | ["delta.specdec32", h] => some <|
    match parseHex? h with
    | some bs => decInts (specDecode32 (bytesIn bs))
    | none => "bad-op"
  | ["delta.specdec64", h] => some <|
    match parseHex? h with
    | some bs => decInts (specDecode64 (bytesIn bs))
    | none => "bad-op"
  | ["delta.enc32", vs] => some <|
    match parseList? parseInt? vs with
    | some xs => s!"ok {bytesOut (mirrorEncodeK (xs.map (BitVec.ofInt 32)))}"
    | none => "bad-op"
  | ["delta.enc64", vs] => some <|
    match parseList? parseInt? vs with
    | some xs => s!"ok {bytesOut (mirrorEncodeK (xs.map (BitVec.ofInt 64)))}"
    | none => "bad-op"
  | ["dlba.specdec", h] => some <|
    match parseHex? h with
    | some bs => decVals (specDecodeDLBA (bytesIn bs))
    | none => "bad-op"
  | ["dba.specdec", h] => some <|
    match parseHex? h with
    | some bs => decVals (specDecodeDBA (bytesIn bs))
    | none => "bad-op"
  | ["dlba.enc", vs] => some <|
    match parseList? parseVal? vs with
    | some xs => s!"ok {bytesOut (mirrorEncodeDLBA xs)}"
    | none => "bad-op"
  | ["dba.enc", vs] => some <|
    match parseList? parseVal? vs with
    | some xs => s!"ok {bytesOut (mirrorEncodeDBA xs)}"
    | none => "bad-op"
  | ["dlba.encraw", h, offs] => some <|
    match parseHex? h, parseList? parseNat? offs with
    | some bs, some os => s!"ok {bytesOut (mirrorEncodeDLBARaw (bytesIn bs) os)}"
    | _, _ => "bad-op"
  | ["dba.encflba", size, h] => some <|
    match parseNat? size, parseHex? h with
    | some sz, some bs => s!"ok {bytesOut (mirrorEncodeFLBA sz (bytesIn bs))}"
    | _, _ => "bad-op"
  | _ => none

end Driver.Ops.C04Delta
