import Driver.Proto
import PqModel.DeltaGo
import PqModel.DeltaKernel
import PqModel.DeltaConf
import PqModel.DeltaUnpack
import PqModel.DeltaAmd64

/-! Ops of C04 / DELTA encodings.

* `delta.specdec32 <hex>` / `delta.specdec64 <hex>` -> `ok <signed ints> <remaining hex>` | `err <class>`
* `delta.enc32 <signed ints>` / `delta.enc64 <signed ints>` -> `ok <hex>`   (mirror of the Go encoder down to the word-level OR of encodeMiniBlockInt32/64: `mirrorEncodeK`)
* `dlba.specdec <hex>` / `dba.specdec <hex>` -> `ok <values> <remaining hex>` | `err <class>`
* `dlba.enc <values>` / `dba.enc <values>` -> `ok <hex>`
* `dba.encflba <size> <hex>` -> `ok <hex>`; `dlba.encraw <src hex> <offsets>` -> `ok <hex>` (raw Go API input)
* `delta.godec32 <hex>` / `delta.godec64 <hex>` -> `ok <signed ints>` | `err <class>`  (mirror of the Go decoder)
* `dlba.godec <hex>` -> `ok <data hex> <offsets>` | `err <class>`; `dba.godec <hex>` -> `ok <values>` | `err <class>`
* `delta.godecrest32 <hex>` / `delta.godecrest64 <hex>` -> `ok <signed ints> <number of unread bytes>` | `err <class>`
  (the rest `decodeInt32/64` hand back: what DELTA_LENGTH_BYTE_ARRAY / DELTA_BYTE_ARRAY continue with)
* `delta.conf32 <block size> <miniblocks> <total> <first> <blocks>` / `delta.conf64 …` -> `ok <hex> <signed ints>` |
  `notok` (the description is not a well-formed `ConfStream`): bytes and meaning of a stream of the conformant
  family (PqModel/DeltaConf.lean). `<blocks>`: `-` or blocks separated by `|`, each `<min delta>:<minis>:<stale>`,
  `<minis>` separated by `;`, each `<width>/<packed values>`; `<stale>` = width bytes of the unneeded miniblocks.
* `dba.godecflbaamd64 <size> <hex>` -> as `dba.godecamd64` for `DecodeFixedLenByteArray` (wrapper `amd64FlbaVals`)
* `dba.godecamd64 <hex>` -> `ok <values>` | `err <class>`: mirror of `DecodeByteArray` as the assembly build runs it
  (amd64 Go wrapper with the AVX2 kernels replaced by their contract, PqModel/DeltaAmd64.lean)
* `delta.unpack32 <width> <n> <hex>` / `delta.unpack64 …` -> `ok <unsigned values>`: the mirror of the portable
  `bitpack.Unpack` kernel (`goUnpackInt32` / `goUnpackInt64`) reading `n` values
Value lists: comma separated hex strings, `e` = empty value, `-` = empty list. -/
namespace Driver.Ops.C04Delta
open Driver PqModel.Delta

def bytesIn (bs : List UInt8) : List Nat := bs.map UInt8.toNat
def bytesOut (bs : List Nat) : String := toHex (bs.map UInt8.ofNat)

def errName : Err → String
  | .truncated => "truncated"
  | .badHeader => "badheader"
  | .badWidth => "badwidth"
  | .negativeLength => "neglen"
  | .badPrefix => "badprefix"
  | .countMismatch => "count"
  | .fuel => "fuel"

def showInts {n : Nat} (xs : List (BitVec n)) : String := showList (fun x => toString x.toInt) xs

def parseVal? (s : String) : Option (List Nat) :=
  if s == "e" then some [] else (parseHexAux s.toList []).map bytesIn

def showVal (v : List Nat) : String := if v.isEmpty then "e" else bytesOut v

def showVals (vs : List (List Nat)) : String := showList showVal vs

def decInts {n : Nat} (r : Except Err (List (BitVec n) × List Nat)) : String :=
  match r with
  | .ok (xs, rest) => s!"ok {showInts xs} {bytesOut rest}"
  | .error e => s!"err {errName e}"

def decVals (r : Except Err (List (List Nat) × List Nat)) : String :=
  match r with
  | .ok (vs, rest) => s!"ok {showVals vs} {bytesOut rest}"
  | .error e => s!"err {errName e}"

def goErrName : GoErr → String
  | .eof => "eof" | .overflow => "overflow" | .badHeader => "badheader" | .negative => "negative"
  | .tooLarge => "toolarge" | .tooMany => "toomany" | .firstRange => "firstrange" | .missing => "missing"
  | .overwide => "overwide" | .negLength => "neglen" | .lengthOOB => "lenoob" | .negPrefix => "negprefix"
  | .prefixOOB => "prefixoob" | .countMismatch => "count"

def goInts {n : Nat} (r : Except GoErr (List (BitVec n) × List Nat)) : String :=
  match r with
  | .ok (xs, _) => s!"ok {showInts xs}"
  | .error e => s!"err {goErrName e}"

def goIntsRest {n : Nat} (r : Except GoErr (List (BitVec n) × List Nat)) : String :=
  match r with
  | .ok (xs, rest) => s!"ok {showInts xs} {rest.length}"
  | .error e => s!"err {goErrName e}"

def parseMini? (s : String) : Option ConfMini :=
  match s.splitOn "/" with
  | [w, vs] =>
    match parseNat? w, parseList? parseNat? vs with
    | some w, some vs => some ⟨w, vs⟩
    | _, _ => none
  | _ => none

def parseBlock? (s : String) : Option ConfBlock :=
  match s.splitOn ":" with
  | [md, ms, st] =>
    match parseInt? md, (if ms == "-" then some [] else (ms.splitOn ";").mapM parseMini?), parseList? parseNat? st with
    | some md, some ms, some st => some { minD := BitVec.ofInt 64 md, minis := ms, stale := st }
    | _, _, _ => none
  | _ => none

def parseBlocks? (s : String) : Option (List ConfBlock) :=
  if s == "-" then some [] else (s.splitOn "|").mapM parseBlock?

def confOp (n : Nat) (bs m t f blocks : String) : String :=
  match parseNat? bs, parseNat? m, parseNat? t, parseInt? f, parseBlocks? blocks with
  | some bs, some m, some t, some f, some blocks =>
    let s : ConfStream n := { blockSize := bs, minis := m, total := t, first := BitVec.ofInt n f, blocks := blocks }
    if s.OK then s!"ok {bytesOut s.bytes} {showInts s.values}" else "notok"
  | _, _, _, _, _ => "bad-op"

def handle (toks : List String) : Option String :=
  match toks with
  | ["delta.conf32", bs, m, t, f, blocks] => some (confOp 32 bs m t f blocks)
  | ["delta.conf64", bs, m, t, f, blocks] => some (confOp 64 bs m t f blocks)
  | ["dba.godecamd64", h] => some <|
    match parseHex? h with
    | some bs =>
      match goDecodeDBAamd64 (bytesIn bs) with
      | .ok vs => s!"ok {showVals vs}"
      | .error e => s!"err {goErrName e}"
    | none => "bad-op"
  | ["dba.godecflbaamd64", sz, h] => some <|
    match parseNat? sz, parseHex? h with
    | some sz, some bs =>
      match goDecodeFLBAamd64 sz (bytesIn bs) with
      | .ok vs => s!"ok {showVals vs}"
      | .error e => s!"err {goErrName e}"
    | _, _ => "bad-op"
  | ["delta.unpack32", w, n, h] => some <|
    match parseNat? w, parseNat? n, parseHex? h with
    | some w, some n, some bs => s!"ok {showList toString (PqModel.Rle.goUnpackInt32 w n (bytesIn bs))}"
    | _, _, _ => "bad-op"
  | ["delta.unpack64", w, n, h] => some <|
    match parseNat? w, parseNat? n, parseHex? h with
    | some w, some n, some bs => s!"ok {showList toString (goUnpackInt64 w n (bytesIn bs))}"
    | _, _, _ => "bad-op"
  | ["delta.godecrest32", h] => some <|
    match parseHex? h with
    | some bs => goIntsRest (goDecode32 (bytesIn bs))
    | none => "bad-op"
  | ["delta.godecrest64", h] => some <|
    match parseHex? h with
    | some bs => goIntsRest (goDecode64 (bytesIn bs))
    | none => "bad-op"
  | ["delta.godec32", h] => some <|
    match parseHex? h with
    | some bs => goInts (goDecode32 (bytesIn bs))
    | none => "bad-op"
  | ["delta.godec64", h] => some <|
    match parseHex? h with
    | some bs => goInts (goDecode64 (bytesIn bs))
    | none => "bad-op"
  | ["dlba.godec", h] => some <|
    match parseHex? h with
    | some bs =>
      match goDecodeDLBA (bytesIn bs) with
      | .ok (data, os) => s!"ok {bytesOut data} {showList toString os}"
      | .error e => s!"err {goErrName e}"
    | none => "bad-op"
  | ["dba.godec", h] => some <|
    match parseHex? h with
    | some bs =>
      match goDecodeDBA (bytesIn bs) with
      | .ok vs => s!"ok {showVals vs}"
      | .error e => s!"err {goErrName e}"
    | none => "bad-op"
  | ["delta.specdec32", h] => some <|
    match parseHex? h with
    | some bs => decInts (specDecode32 (bytesIn bs))
    | none => "bad-op"
  | ["delta.specdec64", h] => some <|
    match parseHex? h with
    | some bs => decInts (specDecode64 (bytesIn bs))
    | none => "bad-op"
  | ["delta.enc32", vs] => some <|
    match parseList? parseInt? vs with
    | some xs => s!"ok {bytesOut (mirrorEncodeK (xs.map (BitVec.ofInt 32)))}"
    | none => "bad-op"
  | ["delta.enc64", vs] => some <|
    match parseList? parseInt? vs with
    | some xs => s!"ok {bytesOut (mirrorEncodeK (xs.map (BitVec.ofInt 64)))}"
    | none => "bad-op"
  | ["dlba.specdec", h] => some <|
    match parseHex? h with
    | some bs => decVals (specDecodeDLBA (bytesIn bs))
    | none => "bad-op"
  | ["dba.specdec", h] => some <|
    match parseHex? h with
    | some bs => decVals (specDecodeDBA (bytesIn bs))
    | none => "bad-op"
  | ["dlba.enc", vs] => some <|
    match parseList? parseVal? vs with
    | some xs => s!"ok {bytesOut (mirrorEncodeDLBA xs)}"
    | none => "bad-op"
  | ["dba.enc", vs] => some <|
    match parseList? parseVal? vs with
    | some xs => s!"ok {bytesOut (mirrorEncodeDBA xs)}"
    | none => "bad-op"
  | ["dlba.encraw", h, offs] => some <|
    match parseHex? h, parseList? parseNat? offs with
    | some bs, some os => s!"ok {bytesOut (mirrorEncodeDLBARaw (bytesIn bs) os)}"
    | _, _ => "bad-op"
  | ["dba.encflba", size, h] => some <|
    match parseNat? size, parseHex? h with
    | some sz, some bs => s!"ok {bytesOut (mirrorEncodeFLBA sz (bytesIn bs))}"
    | _, _ => "bad-op"
  | _ => none

end Driver.Ops.C04Delta
