import Driver.Proto
import PqModel.Codec
import PqModel.Lz4Encode
import PqModel.Spec.BlockCodecs
import PqModel.Spec.Inflate
import PqModel.Spec.InflateFixed
import PqModel.Spec.InflateMatch

/-! C20 ops: run the pool model of compress/compress.go over a history with the toy stream
family plugged in (the Go side plugs the same toy streams into the real
`compress.Compressor`/`compress.Decompressor` and compares the stream-level event traces), and
the lz4 grow-and-retry loop. -/
namespace Driver.Ops.C20
open Driver PqModel.Codec

def parseBool? (s : String) : Option Bool :=
  if s == "1" then some true else if s == "0" then some false else none

def parseOptNat? (s : String) : Option (Option Nat) :=
  if s == "n" then some none else (parseNat? s).map some

def parseOptByte? (s : String) : Option (Option UInt8) :=
  if s == "n" then some none else (parseNat? s).bind fun n => if n < 256 then some (some (UInt8.ofNat n)) else none

/-- `h,s,n,chunk,e,fw,fc` -/
def parseCfg? (s : String) : Option ToyCfg :=
  match s.splitOn "," with
  | [h, st, n, ch, e, fw, fc] => do
    let h ← parseBool? h
    let st ← parseBool? st
    let n ← parseBool? n
    let ch ← parseNat? ch
    let e ← parseBool? e
    let fw ← parseOptByte? fw
    let fc ← parseOptByte? fc
    pure ⟨h, st, n, ch, e, fw, fc⟩
  | _ => none

def parseCall? (s : String) : Option Call :=
  match s.splitOn ":" with
  | [k, p, c, x] => do
    let p ← parseOptNat? p
    let c ← parseNat? c
    let x ← parseHex? x
    match k with
    | "e" => pure (.encode p c x)
    | "d" => pure (.decode p c x)
    | "eb" => pure (.encBegin p c x)
    | "db" => pure (.decBegin p c x)
    | _ => none
  | ["ee", k] => (parseNat? k).map .encEnd
  | ["de", k] => (parseNat? k).map .decEnd
  | _ => none

def showStatus : RStatus → String
  | .more => "m" | .eof => "e" | .fail => "f"

def showEv : Ev → String
  | .getNew i => s!"N{i}"
  | .getReuse i => s!"U{i}"
  | .newFail => "NF"
  | .resetFail i => s!"UF{i}"
  | .read n g st => s!"R{n}.{g}.{showStatus st}"
  | .resetNil ok => if ok then "Z1" else "Z0"
  | .write n ok => s!"W{n}.{if ok then 1 else 0}"
  | .close ok => if ok then "C1" else "C0"
  | .resetDiscard => "X"
  | .put i => s!"P{i}"
  | .drop i => s!"D{i}"

def showOutcome : Option Outcome → String
  | none => "-"
  | some (.ok b) => s!"ok:{toHex b}"
  | some (.err b) => s!"err:{toHex b}"
  | some .panic => "panic"
  | some .hang => "hang"

def isEncCall : Call → Bool
  | .encode .. | .encBegin .. | .encEnd .. => true
  | _ => false

/-- one segment per call: `<idle ids of the pool the call uses, before>|<events>|<outcome>` -/
def runTrace (C : Codec ToyW ToyR) : CState ToyW ToyR → List Call → List String
  | _, [] => []
  | s, c :: cs =>
    let r := step C s c
    let idle := if isEncCall c then s.c.idle.map (·.id) else s.d.idle.map (·.id)
    s!"{showList toString idle}|{showList showEv r.evs}|{showOutcome r.out}" :: runTrace C r.st cs

def showErr : PqModel.Spec.BlockCodecs.Err → String
  | .fuel => "fuel" | .truncated => "truncated" | .badOffset => "bad-offset"
  | .badLength => "bad-length" | .tooLarge => "too-large"

def blockOp (x : String) (f : List UInt8 → Except PqModel.Spec.BlockCodecs.Err (List UInt8)) : String :=
  match parseHex? x with
  | none => "bad-op"
  | some b => match f b with
    | .ok out => s!"ok {toHex out}"
    | .error e => s!"err {showErr e}"

def showInflateErr : PqModel.Spec.Inflate.Err → String
  | .fuel => "fuel" | .truncated => "truncated" | .badBlockType => "bad-block-type"
  | .badStoredLen => "bad-stored-len" | .badCode => "bad-code" | .badSymbol => "bad-symbol"
  | .badDistance => "bad-distance" | .badLengths => "bad-lengths" | .oversubscribed => "oversubscribed"
  | .noEndOfBlock => "no-end-of-block" | .badMagic => "bad-magic" | .badMethod => "bad-method"
  | .badFlags => "bad-flags" | .badHeaderCrc => "bad-header-crc" | .badCrc => "bad-crc"
  | .badSize => "bad-size"

def inflateOp (x : String) (f : List UInt8 → Except PqModel.Spec.Inflate.Err (List UInt8)) : String :=
  match parseHex? x with
  | none => "bad-op"
  | some b => match f b with
    | .ok out => s!"ok {toHex out}"
    | .error e => s!"err {showInflateErr e}"

/-- instrumentation only (not part of the spec): the BTYPE of every block the spec reader walks
through, for the coverage histogram of the check -/
def blockTypes : Nat → PqModel.Spec.Inflate.BitReader → Array UInt8 → List Nat → List Nat
  | 0, _, _, acc => acc.reverse
  | fuel + 1, r, out, acc =>
    match PqModel.Spec.Inflate.readBit r with
    | .error _ => acc.reverse
    | .ok (final, r1) =>
      match PqModel.Spec.Inflate.readBits 2 r1 with
      | .error _ => acc.reverse
      | .ok (t, r2) =>
        match PqModel.Spec.Inflate.block t r2 out with
        | .error _ => (t :: acc).reverse
        | .ok (r3, out3) => if final then (t :: acc).reverse else blockTypes fuel r3 out3 (t :: acc)

def handle (toks : List String) : Option String :=
  match toks with
  /- `inflate.btypes <gzip member without optional header fields>`: block types met -/
  | ["inflate.btypes", x] => some <|
    match parseHex? x with
    | none => "bad-op"
    | some b =>
      match b with
      | _ :: _ :: _ :: flg :: _ :: _ :: _ :: _ :: _ :: _ :: d =>
        if flg != 0 then "ok -" else s!"ok {showList toString (blockTypes (8 * d.length + 1) ⟨[], d⟩ #[] [])}"
      | _ => "ok -"
  /- spec readers of PqModel/Spec/Inflate.lean (RFC 1951 / RFC 1952) and the stored-block
     reference encoder -/
  | ["gzip.decode", x] => some <| inflateOp x PqModel.Spec.Inflate.gunzip
  | ["inflate.decode", x] => some <| inflateOp x PqModel.Spec.Inflate.inflate
  | ["inflate.fixedenc", x] => some <| inflateOp x (fun b => .ok (PqModel.Spec.Inflate.fixedLiterals b))
  /- greedy LZ77 + fixed-Huffman reference encoder with window `w` (proved: inflate_deflateFixed_id) -/
  | ["inflate.lz77enc", w, x] => some <|
    match parseNat? w with
    | some w => inflateOp x (fun b => .ok (PqModel.Spec.Inflate.deflateFixed w b))
    | none => "bad-op"
  | ["gzip.stored", x] => some <| inflateOp x (fun b => .ok (PqModel.Spec.Inflate.gzipStored b))
  | "codec.run" :: cfg :: pol :: fuel :: ops => some <|
    match parseCfg? cfg, parseNat? fuel, ops.mapM parseCall? with
    | some cfg, some fuel, some calls =>
      if pol == "beforefix" then
        "ok " ++ " ".intercalate (runTrace (toyCodec cfg .beforeFix fuel) .init calls)
      else if pol == "fixed" then
        "ok " ++ " ".intercalate (runTrace (toyCodec cfg .fixed fuel) .init calls)
      else "bad-op"
    | _, _, _ => "bad-op"
  | ["codec.toyenc", x] => some <|
    match parseHex? x with
    | some x => s!"ok {toHex (toyEnc x)}"
    | none => "bad-op"
  /- `codec.lz4 <cap(dst)> <len(src)> <need> <fuel>`: compress/lz4/lz4.go Decode loop (as it
     stands) against a block decoder that succeeds exactly when `len(dst) ≥ need`
     (`need = 0-1` style: pass a huge need for a malformed source) -/
  | ["codec.lz4", dc, sl, need, fuel] => some <|
    match parseNat? dc, parseNat? sl, parseNat? need, parseNat? fuel with
    | some dc, some sl, some need, some fuel =>
      let L : Lz4Impl := ⟨fun _ n => if need ≤ n then .ok [] else .error .short⟩
      match lz4Decode L fuel dc (List.replicate sl 0) with
      | some (some _, len) => s!"ok {len}"
      | some (none, len) => s!"ok err {len}"
      | none => "ok none"
    | _, _, _, _ => "bad-op"
  /- `codec.lz4encbuf <cap(dst)> <len(src)>`: compress/lz4/lz4.go Encode, length of the buffer
     handed to CompressBlock = capacity of the slice Encode returns -/
  | ["codec.lz4encbuf", dc, sl] => some <|
    match parseNat? dc, parseNat? sl with
    | some dc, some sl => s!"ok {(lz4Encode ⟨fun _ _ => none⟩ dc (List.replicate sl 0)).2}"
    | _, _ => "bad-op"
  /- spec block decoders / reference encoders of PqModel/Spec/BlockCodecs.lean -/
  | ["codec.snappydec", x] => some <| blockOp x PqModel.Spec.BlockCodecs.snappyDec
  | ["codec.lz4dec", x] => some <| blockOp x PqModel.Spec.BlockCodecs.lz4Dec
  | ["codec.snappyenc", x] => some <| blockOp x (fun b => .ok (PqModel.Spec.BlockCodecs.snappyEncRle b))
  | ["codec.snappyenclit", x] => some <| blockOp x (fun b => .ok (PqModel.Spec.BlockCodecs.snappyEncLit b))
  | ["codec.lz4enc", x] => some <| blockOp x (fun b => .ok (PqModel.Spec.BlockCodecs.lz4EncSimple b))
  | _ => none

end Driver.Ops.C20
