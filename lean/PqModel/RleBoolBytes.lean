import PqModel.RlePackLemmas

/-! # Byte-level MIRROR of the repaired boolean decoder `decodeBits` (C04, part rle)

`Rle.goDecodeBitsLoop` models `dst` as a bit list. Here `dst` is the byte slice the Go code works on
(`appendBitsAt`, `appendBitRun`, `resize`), with the content of the slice's spare capacity as an
explicit argument `stale` (by absolute position; after a `grow` the Go memory is zero there, which
is the instance `stale = []`). Fixed-width byte operations are written with the arithmetic they
denote, each time said in the doc comment. Everything in the first section is MIRROR; the lemmas
below relate it to `Bits.bitsToBytes` (SPEC-side packing of a bit list). -/
namespace PqModel.Rle
open PqModel.Bits

/-! ## MIRROR -/

/-- MIRROR rle.go:552-564 `resize` / `grow`: a prefix of `dst` when it shrinks, otherwise `dst`
followed by whatever the spare capacity holds (`stale`, by absolute position; zeros past its end and
after a `grow`). -/
def goResize (stale dst : List Nat) (size : Nat) : List Nat :=
  if size ≤ dst.length then dst.take size
  else dst ++ (List.range (size - dst.length)).map (fun k => stale.getD (dst.length + k) 0)

/-- MIRROR rle.go:310-314, the loop of `appendBitsAt` and the store after it:
`for k, b := range src { dst[i+k] = carry | b<<shift; carry = b >> (8 - shift) }; dst[i+len(src)] = carry`.
Returns the bytes stored at `dst[i:]`. `b<<shift` is a byte (`* 2^s % 256`), its low `s` bits are
zero and `carry < 2^s`: the OR is a sum. -/
def goShiftLoop (s : Nat) : Nat → List Nat → List Nat
  | carry, [] => [carry]
  | carry, b :: bs => (carry + b * 2 ^ s % 256) :: goShiftLoop s (b / 2 ^ (8 - s)) bs

/-- MIRROR rle.go:301-316 `appendBitsAt(dst, nbits, src)`. Every byte of the resized slice from
index `i` on is stored by the loop, so the result is `dst[:i]` followed by the stored bytes.
`dst[i] & (1<<shift - 1)` = `dst[i] % 2^shift`. -/
def goAppendBitsAt (stale dst : List Nat) (nbits : Nat) (src : List Nat) : List Nat :=
  if nbits % 8 = 0 then dst ++ src else
  let i := nbits / 8
  let d := goResize stale dst (i + 1 + src.length)
  d.take i ++ goShiftLoop (nbits % 8) (d.getD i 0 % 2 ^ (nbits % 8)) src

/-- MIRROR rle.go:318-335 `appendBitRun(dst, nbits, bit, count)`. `fill := -bit` (0x00 / 0xFF);
`mask := byte(0xFF) << shift`; `dst[i]&^mask` = `dst[i] % 2^shift`, `fill&mask` = `fill` with its
low `shift` bits cleared (`fill / 2^shift * 2^shift`), the two parts are disjoint (sum);
`bytealg.Broadcast(dst[i:], fill)`; `dst[len(dst)-1] &= 1<<rem - 1` = `% 2^rem` with
`rem = total % 8`. -/
def goAppendBitRun (stale dst : List Nat) (nbits bit count : Nat) : List Nat :=
  let fill := if bit = 1 then 255 else 0
  let total := nbits + count
  let d := goResize stale dst ((total + 7) / 8)
  let i := nbits / 8
  let s := nbits % 8
  let d1 := if s ≠ 0 then d.set i (d.getD i 0 % 2 ^ s + fill / 2 ^ s * 2 ^ s) else d
  let i1 := if s ≠ 0 then i + 1 else i
  let d2 := d1.take i1 ++ List.replicate (d1.length - i1) fill
  if total % 8 ≠ 0 then d2.set (d2.length - 1) (d2.getD (d2.length - 1) 0 % 2 ^ (total % 8)) else d2

/-- MIRROR rle.go:250-299 `decodeBits` (loop), byte level: `dst` is the byte slice, `nbits` the number
of values it holds. Same framing as `goDecodeBitsLoop` (empty run skipped without its value, missing
RLE value byte read as 0, `word & 1` = `% 2`). -/
def goDecodeBitsBytesLoop (stale : List Nat) : Nat → List Nat → Nat → List Nat → Except Err (List Nat)
  | 0, dst, _, src => if src.isEmpty then .ok dst else .error .fuel
  | f + 1, dst, nbits, src =>
    if src.isEmpty then .ok dst else
    match goUvarint 0 src with
    | none => .error .truncHeader
    | some (u, rest) =>
      if u / 2 = 0 then goDecodeBitsBytesLoop stale f dst nbits rest
      else if u / 2 > 2 ^ 31 - 1 then .error .runTooLong
      else if u % 2 = 1 then
        if rest.length < u / 2 then .error .truncBitPacked
        else goDecodeBitsBytesLoop stale f (goAppendBitsAt stale dst nbits (rest.take (u / 2)))
          (nbits + 8 * (u / 2)) (rest.drop (u / 2))
      else
        goDecodeBitsBytesLoop stale f (goAppendBitRun stale dst nbits (rest.headD 0 % 2) (u / 2))
          (nbits + u / 2) (rest.drop 1)

/-- MIRROR `decodeBits(dst[:0], src)` over a buffer whose capacity holds `stale` -/
def goDecodeBitsBytes (stale src : List Nat) : Except Err (List Nat) :=
  goDecodeBitsBytesLoop stale (src.length + 1) [] 0 src

/-- MIRROR rle.go:68-82 `DecodeBoolean`, byte level -/
def goDecodeBooleanBytes (stale src : List Nat) : Except Err (List Nat) :=
  if src.length = 4 then .ok [] else
  if src.length < 4 then .error .truncPrefix else
  if (src.drop 4).length < leNat (src.take 4) then .error .truncPrefix else
  goDecodeBitsBytes stale ((src.drop 4).take (leNat (src.take 4)))

/-! ## list plumbing -/

theorem set_at_len {α} (y : α) : ∀ (P : List α) (x : α) (T : List α),
    (P ++ x :: T).set P.length y = P ++ y :: T
  | [], _, _ => rfl
  | p :: P, x, T => by simp [set_at_len y P x T]

theorem getD_at_len {α} (d : α) : ∀ (P : List α) (x : α) (T : List α), (P ++ x :: T).getD P.length d = x
  | [], _, _ => rfl
  | p :: P, x, T => by
    have := getD_at_len d P x T
    simp only [List.cons_append, List.length_cons, List.getD_cons_succ]
    exact this

theorem goResize_grow (stale dst : List Nat) (size : Nat) (h : dst.length ≤ size) :
    ∃ T, T.length = size - dst.length ∧ goResize stale dst size = dst ++ T := by
  by_cases he : size ≤ dst.length
  · have : size = dst.length := by omega
    subst this
    exact ⟨[], by simp, by simp [goResize]⟩
  · exact ⟨(List.range (size - dst.length)).map (fun k => stale.getD (dst.length + k) 0), by simp,
      by simp only [goResize, he, if_false]⟩

theorem bytes_ext (a b : List Nat) (hl : a.length = b.length) (ha : ∀ x ∈ a, x < 256)
    (hb : ∀ x ∈ b, x < 256) (h : leNat a = leNat b) : a = b := by
  rw [← leBytes_leNat a ha, ← leBytes_leNat b hb, hl, h]

theorem bitsToBytes_length' (f : Nat) (bits : List Bool) (hf : (bits.length + 7) / 8 ≤ f) :
    (bitsToBytes f bits).length = (bits.length + 7) / 8 := by
  rw [bitsToBytes_leBytes_gen f bits hf, leBytes_length]

/-- a bit list as whole bytes followed by a partial byte -/
theorem bitsToBytes_split (bits : List Bool) (f : Nat) (hf : (bits.length + 7) / 8 ≤ f) :
    bitsToBytes f bits = bitsToBytes (bits.length / 8) (bits.take (8 * (bits.length / 8))) ++
      bitsToBytes 1 (bits.drop (8 * (bits.length / 8))) := by
  have hA : (bits.take (8 * (bits.length / 8))).length = 8 * (bits.length / 8) := by
    rw [List.length_take]; omega
  have hR : (bits.drop (8 * (bits.length / 8))).length = bits.length % 8 := by
    rw [List.length_drop]; omega
  have := bitsToBytes_append_aligned (bits.length / 8) (bits.length / 8 + 1) _ (bits.drop (8 * (bits.length / 8))) hA
    (by rw [hR]; omega)
  rw [List.take_append_drop] at this
  rw [bitsToBytes_fuel f (bits.length / 8 + 1) bits hf (by omega), this]
  congr 2
  omega

theorem bitsToBytes_one (R : List Bool) (hne : R ≠ []) (h8 : R.length ≤ 8) : bitsToBytes 1 R = [fromBits R] := by
  cases R with
  | nil => exact absurd rfl hne
  | cons b bs =>
    simp only [bitsToBytes, List.isEmpty_cons, Bool.false_eq_true, if_false]
    rw [List.take_of_length_le h8]

/-! ## `appendBitsAt` appends the bits of the source bytes -/

theorem goShiftLoop_length (s : Nat) : ∀ (c : Nat) (src : List Nat), (goShiftLoop s c src).length = src.length + 1
  | _, [] => rfl
  | c, b :: bs => by simp [goShiftLoop, goShiftLoop_length s _ bs]

theorem goShiftLoop_spec (s : Nat) (h1 : 1 ≤ s) (h7 : s ≤ 7) : ∀ (src : List Nat) (c : Nat), c < 2 ^ s →
    (∀ b ∈ src, b < 256) →
    leNat (goShiftLoop s c src) = c + 2 ^ s * leNat src ∧ ∀ x ∈ goShiftLoop s c src, x < 256
  | [], c, hc, _ => by
    have : 2 ^ s ≤ 2 ^ 7 := Nat.pow_le_pow_right (by decide) h7
    refine ⟨by simp [goShiftLoop, leNat], ?_⟩
    intro x hx; simp [goShiftLoop] at hx; subst hx
    have : (2 : Nat) ^ 7 = 128 := by decide
    omega
  | b :: bs, c, hc, hb => by
    have hb0 := hb b (by simp)
    have hs : s = 1 ∨ s = 2 ∨ s = 3 ∨ s = 4 ∨ s = 5 ∨ s = 6 ∨ s = 7 := by omega
    have hcarry : b / 2 ^ (8 - s) < 2 ^ s := by
      rcases hs with rfl | rfl | rfl | rfl | rfl | rfl | rfl <;> simp only [Nat.reducePow, Nat.reduceSub] <;> omega
    obtain ⟨ih1, ih2⟩ := goShiftLoop_spec s h1 h7 bs (b / 2 ^ (8 - s)) hcarry (fun x hx => hb x (by simp [hx]))
    refine ⟨?_, ?_⟩
    · simp only [goShiftLoop, leNat, ih1]
      generalize leNat bs = L
      rcases hs with rfl | rfl | rfl | rfl | rfl | rfl | rfl <;>
        simp only [Nat.reducePow, Nat.reduceSub] at hc ⊢ <;> omega
    · intro x hx
      simp only [goShiftLoop, List.mem_cons] at hx
      rcases hx with rfl | hx
      · rcases hs with rfl | rfl | rfl | rfl | rfl | rfl | rfl <;>
          simp only [Nat.reducePow] at hc ⊢ <;> omega
      · exact ih2 x hx

theorem goAppendBitsAt_eq (stale : List Nat) (bits : List Bool) (src : List Nat) (hb : ∀ b ∈ src, b < 256) :
    goAppendBitsAt stale (bitsToBytes bits.length bits) bits.length src =
      bitsToBytes (bits.length + 8 * src.length) (bits ++ bytesToBits src) := by
  by_cases hs : bits.length % 8 = 0
  · -- byte aligned: plain append
    have hk : bits.length = 8 * (bits.length / 8) := by omega
    simp only [goAppendBitsAt, hs, if_true]
    rw [bitsToBytes_append_aligned (bits.length / 8) _ bits (bytesToBits src) hk
      (by rw [bytesToBits_length]; omega)]
    rw [bitsToBytes_bytesToBits src hb _ (by omega)]
    rw [bitsToBytes_fuel bits.length (bits.length / 8) bits (by omega) (by omega)]
  · -- partial last byte: shift the source in
    have h1 : 1 ≤ bits.length % 8 := by omega
    have h7 : bits.length % 8 ≤ 7 := by omega
    let A := bits.take (8 * (bits.length / 8))
    let R := bits.drop (8 * (bits.length / 8))
    have hA : A.length = 8 * (bits.length / 8) := by
      show (bits.take _).length = _; rw [List.length_take]; omega
    have hR : R.length = bits.length % 8 := by
      show (bits.drop _).length = _; rw [List.length_drop]; omega
    have hRne : R ≠ [] := by intro h; rw [h] at hR; simp at hR; omega
    have hP : (bitsToBytes (bits.length / 8) A).length = bits.length / 8 := by
      rw [bitsToBytes_length' _ _ (by omega), hA]; omega
    have hdst : bitsToBytes bits.length bits = bitsToBytes (bits.length / 8) A ++ [fromBits R] := by
      rw [bitsToBytes_split bits _ (by omega), bitsToBytes_one R hRne (by omega)]
    obtain ⟨T, hT, hres⟩ := goResize_grow stale (bitsToBytes bits.length bits)
      (bits.length / 8 + 1 + src.length) (by rw [hdst, List.length_append, hP]; simp)
    simp only [goAppendBitsAt, hs, if_false]
    rw [hres, hdst, List.append_assoc, List.singleton_append]
    have e1 : (bitsToBytes (bits.length / 8) A ++ fromBits R :: T).take (bits.length / 8) =
        bitsToBytes (bits.length / 8) A := List.take_left' hP
    have e2 : (bitsToBytes (bits.length / 8) A ++ fromBits R :: T).getD (bits.length / 8) 0 = fromBits R := by
      have := getD_at_len 0 (bitsToBytes (bits.length / 8) A) (fromBits R) T
      rwa [hP] at this
    have hRlt : fromBits R < 2 ^ (bits.length % 8) := by rw [← hR]; exact fromBits_lt R
    rw [e1, e2, Nat.mod_eq_of_lt hRlt]
    -- the spec side
    have hbits : bits ++ bytesToBits src = A ++ (R ++ bytesToBits src) := by
      rw [← List.append_assoc]; show _ = (bits.take _ ++ bits.drop _) ++ _; rw [List.take_append_drop]
    rw [hbits, bitsToBytes_append_aligned (bits.length / 8) _ A _ hA
      (by rw [List.length_append, hR, bytesToBits_length]; omega)]
    congr 1
    obtain ⟨hnum, hlt⟩ := goShiftLoop_spec (bits.length % 8) h1 h7 src (fromBits R) hRlt hb
    have hlenX : (R ++ bytesToBits src).length = bits.length % 8 + 8 * src.length := by
      rw [List.length_append, hR, bytesToBits_length]
    rw [bitsToBytes_leBytes_gen _ _ (by rw [hlenX]; omega), hlenX]
    have hk : (bits.length % 8 + 8 * src.length + 7) / 8 = src.length + 1 := by omega
    rw [hk, fromBits_append, fromBits_bytesToBits src hb, hR, ← hnum, ← goShiftLoop_length (bits.length % 8) (fromBits R) src]
    exact (leBytes_leNat _ hlt).symm

/-! ## `appendBitRun` appends `count` copies of the bit -/

/-- `-bit` -/
def fillOf (b : Bool) : Nat := if b then 255 else 0

theorem fromBits_replicate_small (b : Bool) (r : Nat) (hr : r ≤ 8) :
    fromBits (List.replicate r b) = fillOf b % 2 ^ r := by
  have : r = 0 ∨ r = 1 ∨ r = 2 ∨ r = 3 ∨ r = 4 ∨ r = 5 ∨ r = 6 ∨ r = 7 ∨ r = 8 := by omega
  rcases this with rfl | rfl | rfl | rfl | rfl | rfl | rfl | rfl | rfl <;> cases b <;> decide

/-- SPEC side: the bytes of `8q + r` equal bits -/
theorem bitsToBytes_replicate (b : Bool) : ∀ (q r f : Nat), r < 8 → q + 1 ≤ f →
    bitsToBytes f (List.replicate (8 * q + r) b) =
      List.replicate q (fillOf b) ++ (if r ≠ 0 then [fillOf b % 2 ^ r] else [])
  | 0, r, f, hr, hf => by
    by_cases h0 : r = 0
    · subst h0; simp [bitsToBytes_nil]
    · simp only [Nat.mul_zero, Nat.zero_add, List.replicate_zero, List.nil_append, h0, ne_eq,
        not_false_eq_true, if_true]
      rw [bitsToBytes_fuel f 1 _ (by simp only [List.length_replicate]; omega)
        (by simp only [List.length_replicate]; omega)]
      rw [bitsToBytes_one _ (by intro h; have := congrArg List.length h; simp at this; omega)
        (by simp only [List.length_replicate]; omega)]
      rw [fromBits_replicate_small b r (by omega)]
  | q + 1, r, f, hr, hf => by
    have e : List.replicate (8 * (q + 1) + r) b = List.replicate 8 b ++ List.replicate (8 * q + r) b := by
      rw [List.replicate_append_replicate]; congr 1; omega
    rw [e, bitsToBytes_append_aligned 1 f _ _ (by simp) (by simp only [List.length_replicate]; omega)]
    rw [bitsToBytes_one _ (by simp) (by simp), bitsToBytes_replicate b q r (f - 1) hr (by omega)]
    rw [fromBits_replicate_small b 8 (by omega)]
    have : fillOf b % 2 ^ 8 = fillOf b := by cases b <;> decide
    rw [this, List.replicate_succ]
    simp

theorem mask_last (X : List Nat) (z m : Nat) :
    (X ++ [z]).set ((X ++ [z]).length - 1) ((X ++ [z]).getD ((X ++ [z]).length - 1) 0 % m) = X ++ [z % m] := by
  have e : (X ++ [z]).length - 1 = X.length := by simp
  rw [e, getD_at_len, set_at_len]

/-- Go side, byte-aligned start -/
theorem goAppendBitRun_aligned (stale dst : List Nat) (b : Bool) (q r : Nat) (hr : r < 8) (hc : 1 ≤ 8 * q + r) :
    goAppendBitRun stale dst (8 * dst.length) (b2n b) (8 * q + r) =
      dst ++ (List.replicate q (fillOf b) ++ (if r ≠ 0 then [fillOf b % 2 ^ r] else [])) := by
  have hfill : (if b2n b = 1 then 255 else 0) = fillOf b := by cases b <;> simp [b2n, fillOf]
  have hs : 8 * dst.length % 8 = 0 := by omega
  have hi : 8 * dst.length / 8 = dst.length := by omega
  have hK : (8 * dst.length + (8 * q + r) + 7) / 8 = dst.length + (q + if r ≠ 0 then 1 else 0) := by
    split <;> omega
  obtain ⟨T, hT, hres⟩ := goResize_grow stale dst ((8 * dst.length + (8 * q + r) + 7) / 8) (by rw [hK]; omega)
  have hrem : (8 * dst.length + (8 * q + r)) % 8 = r := by omega
  simp only [goAppendBitRun, hs, hi, hfill, hrem, ne_eq, not_true_eq_false, if_false]
  rw [hres, List.take_left' rfl, List.length_append, hT, hK]
  have e : dst.length + (dst.length + (q + if r ≠ 0 then 1 else 0) - dst.length) - dst.length =
      q + if r ≠ 0 then 1 else 0 := by omega
  rw [e]
  by_cases h0 : r = 0
  · simp [h0]
  · simp only [h0, ne_eq, not_false_eq_true, if_true]
    have e2 : dst ++ List.replicate (q + 1) (fillOf b) = (dst ++ List.replicate q (fillOf b)) ++ [fillOf b] := by
      rw [List.replicate_succ', List.append_assoc]
    rw [e2, mask_last, List.append_assoc]

/-- Go side, start inside a byte: `dst = P ++ [x]`, `s` bits of `x` in use -/
theorem goAppendBitRun_partial_short (stale P : List Nat) (x s : Nat) (b : Bool) (count : Nat)
    (hs1 : 1 ≤ s) (hc : 1 ≤ count) (hsc : s + count < 8) :
    goAppendBitRun stale (P ++ [x]) (8 * P.length + s) (b2n b) count =
      P ++ [(x % 2 ^ s + fillOf b / 2 ^ s * 2 ^ s) % 2 ^ (s + count)] := by
  have hfill : (if b2n b = 1 then 255 else 0) = fillOf b := by cases b <;> simp [b2n, fillOf]
  have hs : (8 * P.length + s) % 8 = s := by omega
  have hi : (8 * P.length + s) / 8 = P.length := by omega
  have hK : (8 * P.length + s + count + 7) / 8 = P.length + 1 := by omega
  have hrem : (8 * P.length + s + count) % 8 = s + count := by omega
  have hs0 : ¬ s = 0 := by omega
  have hsc0 : ¬ s + count = 0 := by omega
  simp only [goAppendBitRun, hs, hi, hfill, hrem, hK, ne_eq, hs0, hsc0, not_false_eq_true, if_true]
  have hres : goResize stale (P ++ [x]) (P.length + 1) = P ++ [x] := by
    simp only [goResize, List.length_append, List.length_singleton, Nat.le_refl, if_true]
    exact List.take_of_length_le (by simp)
  rw [hres, getD_at_len, set_at_len]
  have e1 : (P ++ [x % 2 ^ s + fillOf b / 2 ^ s * 2 ^ s]).take (P.length + 1) =
      P ++ [x % 2 ^ s + fillOf b / 2 ^ s * 2 ^ s] := by
    apply List.take_of_length_le; simp
  have e2 : (P ++ [x % 2 ^ s + fillOf b / 2 ^ s * 2 ^ s]).length - (P.length + 1) = 0 := by simp
  rw [e1, e2, List.replicate_zero, List.append_nil, mask_last]

theorem goAppendBitRun_partial_long (stale P : List Nat) (x s : Nat) (b : Bool) (q r : Nat)
    (hs1 : 1 ≤ s) (hs7 : s ≤ 7) (hr : r < 8) :
    goAppendBitRun stale (P ++ [x]) (8 * P.length + s) (b2n b) (8 - s + (8 * q + r)) =
      P ++ [x % 2 ^ s + fillOf b / 2 ^ s * 2 ^ s] ++
        (List.replicate q (fillOf b) ++ (if r ≠ 0 then [fillOf b % 2 ^ r] else [])) := by
  have hfill : (if b2n b = 1 then 255 else 0) = fillOf b := by cases b <;> simp [b2n, fillOf]
  have hs : (8 * P.length + s) % 8 = s := by omega
  have hi : (8 * P.length + s) / 8 = P.length := by omega
  have hK : (8 * P.length + s + (8 - s + (8 * q + r)) + 7) / 8 = P.length + 1 + (q + if r ≠ 0 then 1 else 0) := by
    split <;> omega
  have hrem : (8 * P.length + s + (8 - s + (8 * q + r))) % 8 = r := by omega
  have hs0 : ¬ s = 0 := by omega
  obtain ⟨T, hT, hres⟩ := goResize_grow stale (P ++ [x])
    ((8 * P.length + s + (8 - s + (8 * q + r)) + 7) / 8) (by rw [hK]; simp)
  simp only [goAppendBitRun, hs, hi, hfill, hrem, ne_eq, hs0, not_false_eq_true, if_true]
  rw [hres, List.append_assoc, List.singleton_append, getD_at_len, set_at_len]
  have hT' : T.length = q + if r ≠ 0 then 1 else 0 := by
    rw [hT, hK]; simp only [List.length_append, List.length_singleton]; omega
  have e1 : (P ++ (x % 2 ^ s + fillOf b / 2 ^ s * 2 ^ s) :: T).take (P.length + 1) =
      P ++ [x % 2 ^ s + fillOf b / 2 ^ s * 2 ^ s] := by
    have : P ++ (x % 2 ^ s + fillOf b / 2 ^ s * 2 ^ s) :: T = (P ++ [x % 2 ^ s + fillOf b / 2 ^ s * 2 ^ s]) ++ T := by
      simp
    rw [this]; exact List.take_left' (by simp)
  have e2 : (P ++ (x % 2 ^ s + fillOf b / 2 ^ s * 2 ^ s) :: T).length - (P.length + 1) =
      q + if r ≠ 0 then 1 else 0 := by
    simp only [List.length_append, List.length_cons, hT']; omega
  rw [e1, e2]
  by_cases h0 : r = 0
  · simp [h0]
  · simp only [h0, ne_eq, not_false_eq_true, if_true]
    have e3 : P ++ [x % 2 ^ s + fillOf b / 2 ^ s * 2 ^ s] ++ List.replicate (q + 1) (fillOf b) =
        (P ++ [x % 2 ^ s + fillOf b / 2 ^ s * 2 ^ s] ++ List.replicate q (fillOf b)) ++ [fillOf b] := by
      rw [List.replicate_succ', ← List.append_assoc]
    rw [e3, mask_last]
    simp

/-- the first byte of a run that starts `s` bits into a byte -/
theorem first_byte_fill (R : List Bool) (b : Bool) (hR1 : 1 ≤ R.length) (hR7 : R.length ≤ 7) :
    fromBits (R ++ List.replicate (8 - R.length) b) =
      fromBits R % 2 ^ R.length + fillOf b / 2 ^ R.length * 2 ^ R.length := by
  have hlt := fromBits_lt R
  rw [fromBits_append, fromBits_replicate_small b _ (by omega), Nat.mod_eq_of_lt hlt]
  have hs : R.length = 1 ∨ R.length = 2 ∨ R.length = 3 ∨ R.length = 4 ∨ R.length = 5 ∨ R.length = 6 ∨
      R.length = 7 := by omega
  generalize R.length = s at hs hlt ⊢
  rcases hs with rfl | rfl | rfl | rfl | rfl | rfl | rfl <;> cases b <;> simp [fillOf]

theorem short_byte_fill (R : List Bool) (b : Bool) (count : Nat) (hR1 : 1 ≤ R.length) (hc : 1 ≤ count)
    (hsc : R.length + count < 8) :
    fromBits (R ++ List.replicate count b) =
      (fromBits R % 2 ^ R.length + fillOf b / 2 ^ R.length * 2 ^ R.length) % 2 ^ (R.length + count) := by
  have hlt := fromBits_lt R
  rw [fromBits_append, fromBits_replicate_small b _ (by omega), Nat.mod_eq_of_lt hlt]
  have hs : R.length = 1 ∨ R.length = 2 ∨ R.length = 3 ∨ R.length = 4 ∨ R.length = 5 ∨ R.length = 6 := by omega
  have hcs : count = 1 ∨ count = 2 ∨ count = 3 ∨ count = 4 ∨ count = 5 ∨ count = 6 := by omega
  generalize R.length = s at hs hlt hsc ⊢
  generalize fromBits R = x at hlt ⊢
  rcases hs with rfl | rfl | rfl | rfl | rfl | rfl <;> rcases hcs with rfl | rfl | rfl | rfl | rfl | rfl <;>
    first
    | (exfalso; omega)
    | (cases b <;> simp only [fillOf, Nat.reducePow, Nat.reduceAdd, Nat.reduceDiv, Nat.reduceMul, Nat.reduceMod,
        if_true, if_false, Bool.false_eq_true] at hlt ⊢ <;> omega)

theorem goAppendBitRun_eq (stale : List Nat) (bits : List Bool) (b : Bool) (count : Nat) (hc : 1 ≤ count) :
    goAppendBitRun stale (bitsToBytes bits.length bits) bits.length (b2n b) count =
      bitsToBytes (bits.length + count) (bits ++ List.replicate count b) := by
  by_cases hs : bits.length % 8 = 0
  · -- the run starts on a byte boundary
    have hk : bits.length = 8 * (bits.length / 8) := by omega
    have hlen : (bitsToBytes bits.length bits).length = bits.length / 8 := by
      rw [bitsToBytes_length' _ _ (by omega)]; omega
    obtain ⟨q, r, hr, rfl⟩ : ∃ q r, r < 8 ∧ count = 8 * q + r := ⟨count / 8, count % 8, by omega, by omega⟩
    have hn : bits.length = 8 * (bitsToBytes bits.length bits).length := by rw [hlen]; exact hk
    have := goAppendBitRun_aligned stale (bitsToBytes bits.length bits) b q r hr hc
    rw [← hn] at this
    rw [this, bitsToBytes_append_aligned (bits.length / 8) _ bits _ hk
      (by simp only [List.length_replicate]; omega)]
    rw [bitsToBytes_fuel bits.length (bits.length / 8) bits (by omega) (by omega)]
    rw [bitsToBytes_replicate b q r _ hr (by omega)]
  · have h1 : 1 ≤ bits.length % 8 := by omega
    have h7 : bits.length % 8 ≤ 7 := by omega
    let A := bits.take (8 * (bits.length / 8))
    let R := bits.drop (8 * (bits.length / 8))
    have hA : A.length = 8 * (bits.length / 8) := by
      show (bits.take _).length = _; rw [List.length_take]; omega
    have hR : R.length = bits.length % 8 := by
      show (bits.drop _).length = _; rw [List.length_drop]; omega
    have hRne : R ≠ [] := by intro h; rw [h] at hR; simp at hR; omega
    have hP : (bitsToBytes (bits.length / 8) A).length = bits.length / 8 := by
      rw [bitsToBytes_length' _ _ (by omega), hA]; omega
    have hdst : bitsToBytes bits.length bits = bitsToBytes (bits.length / 8) A ++ [fromBits R] := by
      rw [bitsToBytes_split bits _ (by omega), bitsToBytes_one R hRne (by omega)]
    have hn : bits.length = 8 * (bitsToBytes (bits.length / 8) A).length + R.length := by
      rw [hP, hR]; omega
    have hbits : ∀ X : List Bool, bits ++ X = A ++ (R ++ X) := by
      intro X
      rw [← List.append_assoc]; show _ = (bits.take _ ++ bits.drop _) ++ _; rw [List.take_append_drop]
    rw [hdst]
    by_cases hsc : R.length + count < 8
    · have := goAppendBitRun_partial_short stale (bitsToBytes (bits.length / 8) A) (fromBits R) R.length b count
        (by omega) hc hsc
      rw [← hn] at this
      rw [this, hbits, bitsToBytes_append_aligned (bits.length / 8) _ A _ hA
        (by simp only [List.length_append, List.length_replicate]; omega)]
      congr 1
      rw [bitsToBytes_fuel _ 1 _ (by simp only [List.length_append, List.length_replicate]; omega)
        (by simp only [List.length_append, List.length_replicate]; omega)]
      rw [bitsToBytes_one _ (by simp [hRne]) (by simp only [List.length_append, List.length_replicate]; omega)]
      rw [short_byte_fill R b count (by omega) hc hsc]
    · obtain ⟨q, r, hr, hcount⟩ : ∃ q r, r < 8 ∧ count = 8 - R.length + (8 * q + r) :=
        ⟨(count - (8 - R.length)) / 8, (count - (8 - R.length)) % 8, by omega, by omega⟩
      have := goAppendBitRun_partial_long stale (bitsToBytes (bits.length / 8) A) (fromBits R) R.length b q r
        (by omega) (by omega) hr
      rw [← hn, ← hcount] at this
      rw [this, hbits]
      have hrep : List.replicate count b = List.replicate (8 - R.length) b ++ List.replicate (8 * q + r) b := by
        rw [List.replicate_append_replicate, ← hcount]
      rw [hrep, ← List.append_assoc R]
      rw [bitsToBytes_append_aligned (bits.length / 8) _ A _ hA
        (by simp only [List.length_append, List.length_replicate]; omega)]
      rw [List.append_assoc]
      congr 1
      rw [bitsToBytes_append_aligned 1 _ (R ++ List.replicate (8 - R.length) b) _
        (by simp only [List.length_append, List.length_replicate]; omega)
        (by simp only [List.length_replicate]; omega)]
      rw [bitsToBytes_one _ (by simp [hRne]) (by simp only [List.length_append, List.length_replicate]; omega)]
      rw [first_byte_fill R b (by omega) (by omega)]
      rw [bitsToBytes_replicate b q r _ hr (by omega)]

/-! ## the byte-level loop computes the bytes of the bit-level loop -/

theorem goUvarint_rest_mem : ∀ (src : List Nat) (i u : Nat) (rest : List Nat),
    goUvarint i src = some (u, rest) → ∀ b ∈ rest, b ∈ src
  | [], _, _, _, h => by simp [goUvarint] at h
  | x :: xs, i, u, rest, h => by
    simp only [goUvarint] at h
    split at h
    · simp at h
    · split at h
      · split at h
        · simp at h
        · simp only [Option.some.injEq, Prod.mk.injEq] at h
          intro b hb; rw [← h.2] at hb; simp [hb]
      · cases hr : goUvarint (i + 1) xs with
        | none => rw [hr] at h; simp at h
        | some p =>
          obtain ⟨v, r⟩ := p
          rw [hr] at h
          simp only [Option.some.injEq, Prod.mk.injEq] at h
          intro b hb; rw [← h.2] at hb
          have := goUvarint_rest_mem xs (i + 1) v r hr b hb
          simp [this]

theorem b2n_mod2 (x : Nat) : b2n (x % 2 == 1) = x % 2 := by
  have : x % 2 = 0 ∨ x % 2 = 1 := by omega
  rcases this with e | e <;> simp [b2n, e]

theorem goDecodeBitsBytesLoop_eq (stale : List Nat) : ∀ (fuel : Nat) (bits : List Bool) (src : List Nat),
    (∀ b ∈ src, b < 256) →
    goDecodeBitsBytesLoop stale fuel (bitsToBytes bits.length bits) bits.length src =
      (goDecodeBitsLoop fuel bits src).map (fun bs => bitsToBytes bs.length bs)
  | 0, bits, src, _ => by
    simp only [goDecodeBitsBytesLoop, goDecodeBitsLoop]
    split <;> rfl
  | f + 1, bits, src, hb => by
    simp only [goDecodeBitsBytesLoop, goDecodeBitsLoop]
    split
    · rfl
    · cases hu : goUvarint 0 src with
      | none => rfl
      | some p =>
        obtain ⟨u, rest⟩ := p
        have hrest : ∀ b ∈ rest, b < 256 := fun b hb' => hb b (goUvarint_rest_mem src 0 u rest hu b hb')
        simp only []
        split
        · exact goDecodeBitsBytesLoop_eq stale f bits rest hrest
        · split
          · rfl
          · split
            · split
              · rfl
              · rename_i hlen
                have htl : (rest.take (u / 2)).length = u / 2 := by rw [List.length_take]; omega
                have hl : (bits ++ bytesToBits (rest.take (u / 2))).length = bits.length + 8 * (u / 2) := by
                  rw [List.length_append, bytesToBits_length, htl]
                have := goAppendBitsAt_eq stale bits (rest.take (u / 2))
                  (fun b hb' => hrest b (List.mem_of_mem_take hb'))
                rw [htl, ← hl] at this
                rw [this, ← hl]
                exact goDecodeBitsBytesLoop_eq stale f _ _ (fun b hb' => hrest b (List.mem_of_mem_drop hb'))
            · rename_i h0 _ _
              have hl : (bits ++ List.replicate (u / 2) (rest.headD 0 % 2 == 1)).length = bits.length + u / 2 := by
                rw [List.length_append, List.length_replicate]
              have := goAppendBitRun_eq stale bits (rest.headD 0 % 2 == 1) (u / 2) (by omega)
              rw [b2n_mod2, ← hl] at this
              rw [this, ← hl]
              exact goDecodeBitsBytesLoop_eq stale f _ _ (fun b hb' => hrest b (List.mem_of_mem_drop hb'))

/-- `decodeBits` at byte level returns the bytes of the bit-level mirror, on EVERY input (malformed
ones and errors included), whatever the destination's spare capacity held. -/
theorem goDecodeBitsBytes_eq (stale src : List Nat) (hb : ∀ b ∈ src, b < 256) :
    goDecodeBitsBytes stale src = goDecodeBits src := by
  have := goDecodeBitsBytesLoop_eq stale (src.length + 1) [] src hb
  simp only [List.length_nil, bitsToBytes] at this
  simp only [goDecodeBitsBytes, goDecodeBits, this]

theorem goDecodeBooleanBytes_eq (stale src : List Nat) (hb : ∀ b ∈ src, b < 256) :
    goDecodeBooleanBytes stale src = goDecodeBoolean src := by
  simp only [goDecodeBooleanBytes, goDecodeBoolean]
  rw [goDecodeBitsBytes_eq stale _ (fun b hb' => hb b (List.mem_of_mem_drop (List.mem_of_mem_take hb')))]

end PqModel.Rle
