import PqModel.VariantShred
import PqModel.LogicalDecimal

/-!
# DECIMAL carriers of a shredded typed_value column (property C19, round 7)

A shredding schema chosen by someone else may put a DECIMAL typed_value on any of the physical layouts
the format allows: INT32, INT64, FIXED_LEN_BYTE_ARRAY(n) for n = 1..16, BYTE_ARRAY. `VariantShred.lean`
tags decimal columns by the width the Go writer picks (dec4/dec8/dec16); here the carrier is explicit.

SPEC side (LogicalTypes.md, DECIMAL: "two's complement using big-endian byte order", FLBA(n): exactly n
bytes): `toCarrier` / `ofCarrier`, which ARE C01's `writeDecimal (some n)` / `readDecimal`
(LogicalDecimal.lean), so `decimal_flba_read_write` / `decimal_flba_domain` give their round trip and exact
domain.

MIRROR side: `decToCol` = the three decimal cases of `variantToParquetValue`
(variant_shredded_write.go:283-304) with the carrier as a parameter, `decOfCol` = the DECIMAL case of
`parquetToVariantValue` (variant_shredded_read.go:523-536). The flag `slip` is the seeded variant C19-7a
(guard `Length() == 16` relaxed to `<= 16`, value `be[:Length()]`, the HIGH-order end).
-/
namespace PqModel.Variant.Carrier
open PqModel.Stats PqModel.LogicalDecimal PqModel.Variant

/-- physical type of a DECIMAL typed_value column -/
inductive Phys
  | int32 | int64 | flba (n : Nat) | ba
  deriving DecidableEq

structure DecCol where
  phys : Phys
  prec : Nat
  scale : Nat

/-- leaf value of a DECIMAL column (bytes as `List Nat`, the representation of LogicalDecimal.lean) -/
inductive CV
  | i32 (x : BitVec 32)
  | i64 (x : BitVec 64)
  | bytes (b : List Nat)
  deriving DecidableEq

/-- SPEC: the n-byte big-endian two's complement of `x`; `none` = `x` does not fit the carrier -/
def toCarrier (n : Nat) (x : Int) : Option (List Nat) := writeDecimal (some n) x
/-- SPEC: the integer a carrier value stands for (sign extension) -/
def ofCarrier (b : List Nat) : Int := readDecimal b

/-- MIRROR variant_shredded_write.go:315-322 `littleEndianToBigEndian16` of the 16 value bytes -/
def be16 (x : BitVec 128) : List Nat := beFixed 16 x.toNat

/-- MIRROR variant_shredded_write.go:283-304, cases PrimitiveDecimal4/8/16 of `variantToParquetValue`
    (`none` = no match, the value goes to the residual `value` column). `slip = true` is seed C19-7a. -/
def decToCol (slip : Bool) (c : DecCol) : Prim → Option CV
  | .dec4 sc x =>
    match c.phys with
    | .int32 => if c.scale = sc.toNat && fitsPrec 19 c.prec x.toInt then some (.i32 x) else none
    | _ => none
  | .dec8 sc x =>
    match c.phys with
    | .int64 => if c.scale = sc.toNat && fitsPrec 19 c.prec x.toInt then some (.i64 x) else none
    | _ => none
  | .dec16 sc x =>
    if c.scale = sc.toNat && fitsPrec 39 c.prec x.toInt then
      match c.phys with
      | .ba => some (.bytes (be16 x))
      | .flba n =>
        if slip then (if n ≤ 16 then some (.bytes ((be16 x).take n)) else none)
        else (if n = 16 then some (.bytes (be16 x)) else none)
      | _ => none
    else none
  | _ => none

/-- MIRROR variant_shredded_read.go:523-536, DECIMAL case of `parquetToVariantValue` with
    `bigEndianToLittleEndian16` (551-562): INT32 reads as decimal4, INT64 as decimal8, any binary
    carrier of at most 16 bytes as the sign-extended decimal16. -/
def decOfCol (c : DecCol) : CV → Option Prim
  | .i32 x => match c.phys with
    | .int32 => some (.dec4 (UInt8.ofNat c.scale) x)
    | _ => none
  | .i64 x => match c.phys with
    | .int64 => some (.dec8 (UInt8.ofNat c.scale) x)
    | _ => none
  | .bytes b => match c.phys with
    | .flba _ | .ba =>
      if b.length ≤ 16 then some (.dec16 (UInt8.ofNat c.scale) (BitVec.ofInt 128 (readDecimal b))) else none
    | _ => none

/-- the leaf value has the shape the column's physical type asks for -/
def wellTyped (c : DecCol) : CV → Bool
  | .i32 _ => c.phys == .int32
  | .i64 _ => c.phys == .int64
  | .bytes b => match c.phys with
    | .flba n => b.length == n
    | .ba => true
    | _ => false

/-- SPEC choice a carrier-aware writer may make for a decimal16 on FLBA(n): shred exactly when the
    value fits n bytes (and scale / precision agree), otherwise the residual column. -/
def specDec16Flba (c : DecCol) (n : Nat) (sc : UInt8) (x : BitVec 128) : Option (List Nat) :=
  if c.scale = sc.toNat && fitsPrec 39 c.prec x.toInt then toCarrier n x.toInt else none

/-! ### lemmas -/

theorem be16_isBytes (x : BitVec 128) : IsBytes (be16 x) := beFixed_isBytes _ _
theorem be16_length (x : BitVec 128) : (be16 x).length = 16 := beFixed_length _ _

theorem be16_isNeg (x : BitVec 128) : isNeg (be16 x) = decide (2 ^ 127 ≤ x.toNat) := by
  have hx := x.isLt
  simp only [be16, beFixed, isNeg]
  congr 1
  apply propext
  have : (256 : Nat) ^ 15 = 2 ^ 120 := by decide
  rw [this]
  constructor <;> intro h <;> omega

/-- the 16 big-endian bytes read back as the signed value -/
theorem readDecimal_be16 (x : BitVec 128) : readDecimal (be16 x) = x.toInt := by
  rw [readDecimal_eq_spec _ (be16_isBytes x), decimalValue_eq, be16_isNeg, be16_length]
  have hv : beUnsigned (be16 x) = x.toNat := by
    rw [be16, beFixed_value]; exact Nat.mod_eq_of_lt (by have := x.isLt; omega)
  rw [hv, BitVec.toInt_eq_toNat_cond]
  have hx := x.isLt
  have h256 : (256 : Nat) ^ 16 = 2 ^ 128 := by decide
  rw [h256]
  by_cases h : 2 ^ 127 ≤ x.toNat
  · have h2 : ¬ 2 * x.toNat < 2 ^ 128 := by omega
    simp only [h, decide_true, if_true, h2, if_false]
  · have h2 : 2 * x.toNat < 2 ^ 128 := by omega
    simp only [h, decide_false, h2, if_true, Bool.false_eq_true, if_false]
    omega

end PqModel.Variant.Carrier
