/-! # Pool — ownership protocol of the refcounted, pooled page buffers (property C16)

MIRROR of the protocol in `buffer.go` (refcounted `buffer[T]`, `bufferPool.get/put`, `bufferedPage`
`Retain/Release/ReleaseAndDetachValues/Slice`), `file.go` (`FilePages.ReadPage` with the `lastPage`
cache, `SeekToRow`, `Close`) and `column_chunk.go` (`columnChunkValueReader`, `clear`, `detach`),
plus GHOST state that the Go code does not have: who owns which reference (`held`), references
dropped on purpose without a decrement (`leak`), the caller-visible slices that point into pooled
storage (`aliases`) and the caller-owned copies (`goVals`).

What replaces the runtime: `sync.Pool` and the GC are a set of pooled buffers; `get` may hand out
ANY pooled buffer (the `pick` argument is the nondeterministic choice) and overwrites it; putting a
buffer in the pool overwrites it with 0xA5 (the verif poison hook). Decoding is abstracted to
"the buffer now holds these bytes". -/
namespace PqModel.Pool

abbrev BufId := Nat
abbrev PageId := Nat
abbrev RdrId := Nat

def poison : UInt8 := 0xA5

def upd {α : Type} (f : Nat → α) (i : Nat) (v : α) : Nat → α := fun j => if j = i then v else f j

@[simp] theorem upd_same {α : Type} (f : Nat → α) (i : Nat) (v : α) : upd f i v i = v := by simp [upd]
theorem upd_other {α : Type} (f : Nat → α) {i j : Nat} (v : α) (h : j ≠ i) : upd f i v j = f j := by
  simp [upd, h]

/-! ## The heap of refcounted buffers -/

/-- `buffer[T]` (buffer.go:476-482) + pool membership. `puts` is ghost (puts since the last get). -/
structure Buf where
  refc   : Nat
  inPool : Bool
  puts   : Nat
  data   : List UInt8
deriving DecidableEq, Repr

/-- what the panics of buffer.go would report -/
inductive Bug where
  | underflow  -- "BUG: buffer reference count underflow" (unref of a buffer with refc 0)
  | refDead    -- "BUG: buffer reference count overflow" (ref of a buffer with refc 0)
deriving DecidableEq, Repr

/-- Buffers `≥ nbufs` have never been handed out: they stand for what `pool.Get`'s `newT` makes. -/
structure Heap where
  bufs  : BufId → Buf
  nbufs : Nat
  bug   : Option Bug

def Heap.init : Heap := { bufs := fun _ => ⟨0, true, 0, []⟩, nbufs := 0, bug := none }

/-- MIRROR buffer.ref (buffer.go:494-499) -/
def Heap.ref (h : Heap) (b : BufId) : Heap :=
  if (h.bufs b).refc = 0 then { h with bug := some .refDead }
  else { h with bufs := upd h.bufs b { h.bufs b with refc := (h.bufs b).refc + 1 } }

/-- MIRROR buffer.unref (buffer.go:501-514): at zero the storage goes back to the slice pool
    (`data.Reset`, poisoned by the verif hook) and the buffer to `bufferPool.put` -/
def Heap.unref (h : Heap) (b : BufId) : Heap :=
  if (h.bufs b).refc = 0 then { h with bug := some .underflow }
  else if (h.bufs b).refc = 1 then
    { h with bufs := upd h.bufs b ⟨0, true, (h.bufs b).puts + 1, List.replicate (h.bufs b).data.length poison⟩ }
  else { h with bufs := upd h.bufs b { h.bufs b with refc := (h.bufs b).refc - 1 } }

/-- MIRROR bufferPool.get (buffer.go:527-549) / put (buffer.go:551-559): any pooled buffer (`pick`), else a new one; the
    reference count is stored as 1 and the storage is overwritten (`d` = what gets decoded into it) -/
def Heap.get (h : Heap) (pick : BufId) (d : List UInt8) : Heap × BufId :=
  let b := if (h.bufs pick).inPool then pick else h.nbufs
  ({ h with bufs := upd h.bufs b ⟨1, false, 0, d⟩, nbufs := max h.nbufs (b + 1) }, b)

def Heap.refAll (h : Heap) (bs : List BufId) : Heap := bs.foldl Heap.ref h
def Heap.unrefAll (h : Heap) (bs : List BufId) : Heap := bs.foldl Heap.unref h

def Heap.getAll (h : Heap) : List (BufId × List UInt8) → Heap × List BufId
  | [] => (h, [])
  | (pick, d) :: rest =>
    let r := h.get pick d
    let r' := Heap.getAll r.1 rest
    (r'.1, r.2 :: r'.2)

/-- well-formed heap: pooled = refcount zero; at most one put per get; unused ids are pristine -/
structure HW (h : Heap) : Prop where
  pool  : ∀ b, (h.bufs b).inPool = true ↔ (h.bufs b).refc = 0
  puts  : ∀ b, (h.bufs b).puts ≤ 1 ∧ ((h.bufs b).inPool = false → (h.bufs b).puts = 0)
  fresh : ∀ b, h.nbufs ≤ b → (h.bufs b).refc = 0

theorem HW_init : HW Heap.init := ⟨by simp [Heap.init], by simp [Heap.init], by simp [Heap.init]⟩

theorem notPool_of_pos {h : Heap} (hw : HW h) {b : BufId} (h1 : 1 ≤ (h.bufs b).refc) :
    (h.bufs b).inPool = false := by
  cases hp : (h.bufs b).inPool with
  | false => rfl
  | true => have := (hw.pool b).1 hp; omega

theorem ref_spec {h : Heap} (hw : HW h) {b0 : BufId} (h1 : 1 ≤ (h.bufs b0).refc) :
    HW (h.ref b0) ∧ (h.ref b0).bug = h.bug ∧ (h.ref b0).nbufs = h.nbufs ∧
    ∀ b, ((h.ref b0).bufs b).refc = (h.bufs b).refc + (if b = b0 then 1 else 0) ∧
         ((h.ref b0).bufs b).data = (h.bufs b).data := by
  have hne : ¬ (h.bufs b0).refc = 0 := by omega
  have e : h.ref b0 = { h with bufs := upd h.bufs b0 { h.bufs b0 with refc := (h.bufs b0).refc + 1 } } := by
    simp [Heap.ref, hne]
  rw [e]
  refine ⟨⟨?_, ?_, ?_⟩, rfl, rfl, ?_⟩
  · intro b
    by_cases hb : b = b0
    · subst hb; simp; exact notPool_of_pos hw h1
    · simp [upd_other _ _ hb]; exact hw.pool b
  · intro b
    by_cases hb : b = b0
    · subst hb; simpa using hw.puts b
    · simpa [upd_other _ _ hb] using hw.puts b
  · intro b hb
    by_cases hb0 : b = b0
    · subst hb0; have := hw.fresh b hb; omega
    · simpa [upd_other _ _ hb0] using hw.fresh b hb
  · intro b
    by_cases hb : b = b0
    · subst hb; simp
    · simp [upd_other _ _ hb, hb]

theorem unref_spec {h : Heap} (hw : HW h) {b0 : BufId} (h1 : 1 ≤ (h.bufs b0).refc) :
    HW (h.unref b0) ∧ (h.unref b0).bug = h.bug ∧ (h.unref b0).nbufs = h.nbufs ∧
    ∀ b, ((h.unref b0).bufs b).refc = (h.bufs b).refc - (if b = b0 then 1 else 0) ∧
         (1 ≤ ((h.unref b0).bufs b).refc → ((h.unref b0).bufs b).data = (h.bufs b).data) := by
  have hne : ¬ (h.bufs b0).refc = 0 := by omega
  by_cases h11 : (h.bufs b0).refc = 1
  · have e : h.unref b0 = { h with bufs := upd h.bufs b0 ⟨0, true, (h.bufs b0).puts + 1, List.replicate (h.bufs b0).data.length poison⟩ } := by
      simp [Heap.unref, h11]
    rw [e]
    have hnp : (h.bufs b0).inPool = false := notPool_of_pos hw h1
    refine ⟨⟨?_, ?_, ?_⟩, rfl, rfl, ?_⟩
    · intro b
      by_cases hb : b = b0
      · subst hb; simp
      · simp [upd_other _ _ hb]; exact hw.pool b
    · intro b
      by_cases hb : b = b0
      · subst hb; have := (hw.puts b).2 hnp; simp; omega
      · simpa [upd_other _ _ hb] using hw.puts b
    · intro b hb
      by_cases hb0 : b = b0
      · subst hb0; simp
      · simpa [upd_other _ _ hb0] using hw.fresh b hb
    · intro b
      by_cases hb : b = b0
      · subst hb; simp; omega
      · simp [upd_other _ _ hb, hb]
  · have e : h.unref b0 = { h with bufs := upd h.bufs b0 { h.bufs b0 with refc := (h.bufs b0).refc - 1 } } := by
      simp [Heap.unref, hne, h11]
    rw [e]
    refine ⟨⟨?_, ?_, ?_⟩, rfl, rfl, ?_⟩
    · intro b
      by_cases hb : b = b0
      · subst hb; simp
        refine ⟨fun hp => ?_, fun hz => ?_⟩
        · have := notPool_of_pos hw h1; rw [this] at hp; cases hp
        · omega
      · simp [upd_other _ _ hb]; exact hw.pool b
    · intro b
      by_cases hb : b = b0
      · subst hb; simpa using hw.puts b
      · simpa [upd_other _ _ hb] using hw.puts b
    · intro b hb
      by_cases hb0 : b = b0
      · subst hb0; have := hw.fresh b hb; omega
      · simpa [upd_other _ _ hb0] using hw.fresh b hb
    · intro b
      by_cases hb : b = b0
      · subst hb; simp
      · simp [upd_other _ _ hb, hb]

theorem get_spec {h : Heap} (hw : HW h) (pick : BufId) (d : List UInt8) :
    HW (h.get pick d).1 ∧ (h.get pick d).1.bug = h.bug ∧ h.nbufs ≤ (h.get pick d).1.nbufs ∧
    (h.bufs (h.get pick d).2).refc = 0 ∧ (h.get pick d).1.bufs (h.get pick d).2 = ⟨1, false, 0, d⟩ ∧
    ∀ b, b ≠ (h.get pick d).2 → (h.get pick d).1.bufs b = h.bufs b := by
  generalize hb0 : (if (h.bufs pick).inPool then pick else h.nbufs) = b0
  have e : h.get pick d = ({ h with bufs := upd h.bufs b0 ⟨1, false, 0, d⟩, nbufs := max h.nbufs (b0 + 1) }, b0) := by
    simp [Heap.get, hb0]
  have hz : (h.bufs b0).refc = 0 := by
    by_cases hp : (h.bufs pick).inPool = true
    · simp [hp] at hb0; subst hb0; exact (hw.pool _).1 hp
    · simp [hp] at hb0; subst hb0; exact hw.fresh _ (Nat.le_refl _)
  rw [e]
  refine ⟨⟨?_, ?_, ?_⟩, rfl, ?_, hz, by simp, ?_⟩
  · intro b
    by_cases hb : b = b0
    · subst hb; simp
    · simp [upd_other _ _ hb]; exact hw.pool b
  · intro b
    by_cases hb : b = b0
    · subst hb; simp
    · simpa [upd_other _ _ hb] using hw.puts b
  · intro b hb
    have hb' : b ≠ b0 := by simp at hb; omega
    have : h.nbufs ≤ b := by simp at hb; omega
    simpa [upd_other _ _ hb'] using hw.fresh b this
  · simp; omega
  · intro b hb; simp at hb; simp [upd_other _ _ hb]

theorem refAll_spec (bs : List BufId) : ∀ {h : Heap}, HW h → (∀ b, b ∈ bs → 1 ≤ (h.bufs b).refc) →
    HW (h.refAll bs) ∧ (h.refAll bs).bug = h.bug ∧ (h.refAll bs).nbufs = h.nbufs ∧
    ∀ b, ((h.refAll bs).bufs b).refc = (h.bufs b).refc + bs.count b ∧
         ((h.refAll bs).bufs b).data = (h.bufs b).data := by
  induction bs with
  | nil => intro h hw _; exact ⟨hw, rfl, rfl, fun b => by simp [Heap.refAll]⟩
  | cons x xs ih =>
    intro h hw hpos
    have s1 := ref_spec hw (hpos x (by simp))
    have hpos' : ∀ b, b ∈ xs → 1 ≤ ((h.ref x).bufs b).refc := by
      intro b hb; have := (s1.2.2.2 b).1; have := hpos b (by simp [hb]); omega
    have s2 := ih s1.1 hpos'
    have e : h.refAll (x :: xs) = (h.ref x).refAll xs := by simp [Heap.refAll]
    rw [e]
    refine ⟨s2.1, by rw [s2.2.1, s1.2.1], by rw [s2.2.2.1, s1.2.2.1], ?_⟩
    intro b
    have a1 := s1.2.2.2 b
    have a2 := s2.2.2.2 b
    refine ⟨?_, by rw [a2.2, a1.2]⟩
    rw [a2.1, a1.1, List.count_cons]
    by_cases hb : b = x
    · subst hb; simp; omega
    · have : (x == b) = false := by simp; exact fun h => hb h.symm
      simp [hb, this]

theorem unrefAll_spec (bs : List BufId) : ∀ {h : Heap}, HW h → (∀ b, bs.count b ≤ (h.bufs b).refc) →
    HW (h.unrefAll bs) ∧ (h.unrefAll bs).bug = h.bug ∧ (h.unrefAll bs).nbufs = h.nbufs ∧
    ∀ b, ((h.unrefAll bs).bufs b).refc = (h.bufs b).refc - bs.count b ∧
         (1 ≤ ((h.unrefAll bs).bufs b).refc → ((h.unrefAll bs).bufs b).data = (h.bufs b).data) := by
  induction bs with
  | nil => intro h hw _; exact ⟨hw, rfl, rfl, fun b => by simp [Heap.unrefAll]⟩
  | cons x xs ih =>
    intro h hw hle
    have hx : 1 ≤ (h.bufs x).refc := by have := hle x; simp at this; omega
    have s1 := unref_spec hw hx
    have hle' : ∀ b, xs.count b ≤ ((h.unref x).bufs b).refc := by
      intro b
      have a := (s1.2.2.2 b).1
      have c := hle b
      rw [List.count_cons] at c
      by_cases hb : b = x
      · subst hb; simp at c; simp at a; omega
      · have : (x == b) = false := by simp; exact fun h => hb h.symm
        simp [this] at c; simp [hb] at a; omega
    have s2 := ih s1.1 hle'
    have e : h.unrefAll (x :: xs) = (h.unref x).unrefAll xs := by simp [Heap.unrefAll]
    rw [e]
    refine ⟨s2.1, by rw [s2.2.1, s1.2.1], by rw [s2.2.2.1, s1.2.2.1], ?_⟩
    intro b
    have a1 := s1.2.2.2 b
    have a2 := s2.2.2.2 b
    have c := hle' b
    constructor
    · rw [a2.1, a1.1, List.count_cons]
      by_cases hb : b = x
      · subst hb; simp; omega
      · have : (x == b) = false := by simp; exact fun h => hb h.symm
        simp [hb, this]
    · intro hp
      rw [a2.2 hp]
      apply a1.2
      rw [a2.1] at hp; omega

theorem getAll_spec (specs : List (BufId × List UInt8)) : ∀ {h : Heap}, HW h →
    HW (h.getAll specs).1 ∧ (h.getAll specs).1.bug = h.bug ∧ h.nbufs ≤ (h.getAll specs).1.nbufs ∧
    (h.getAll specs).2.Nodup ∧
    (∀ b, b ∈ (h.getAll specs).2 → (h.bufs b).refc = 0 ∧ ((h.getAll specs).1.bufs b).refc = 1) ∧
    (∀ b, b ∉ (h.getAll specs).2 → (h.getAll specs).1.bufs b = h.bufs b) := by
  induction specs with
  | nil => intro h hw; simp [Heap.getAll]; exact hw
  | cons sp rest ih =>
    intro h hw
    obtain ⟨pick, d⟩ := sp
    have s1 := get_spec hw pick d
    have s2 := ih s1.1
    generalize hr : h.get pick d = r at s1 s2
    have e : h.getAll ((pick, d) :: rest) = ((r.1.getAll rest).1, r.2 :: (r.1.getAll rest).2) := by
      simp [Heap.getAll, hr]
    rw [e]
    obtain ⟨hw1, hb1, hn1, hz1, hv1, ho1⟩ := s1
    obtain ⟨hw2, hb2, hn2, hnd2, hin2, hout2⟩ := s2
    have hnotin : r.2 ∉ (r.1.getAll rest).2 := by
      intro hm; have := (hin2 _ hm).1; rw [hv1] at this; simp at this
    refine ⟨hw2, by rw [hb2, hb1], Nat.le_trans hn1 hn2, ?_, ?_, ?_⟩
    · exact List.nodup_cons.2 ⟨hnotin, hnd2⟩
    · intro b hb
      simp at hb
      rcases hb with hb | hb
      · subst hb
        refine ⟨hz1, ?_⟩
        rw [hout2 _ hnotin, hv1]
      · have hne : b ≠ r.2 := fun hh => hnotin (hh ▸ hb)
        have := hin2 b hb
        rw [ho1 b hne] at this; exact this
    · intro b hb
      simp at hb
      rw [hout2 b hb.2, ho1 b hb.1]

/-! ## Pages, references, readers -/

/-- MIRROR `bufferedPage` (buffer.go:567-573): the buffer backing the values, and the other buffers
    (offsets, definition and repetition levels). `ptr`: Values read from the page point into
    `values` (byte arrays / fixed-length byte arrays that are not dictionary-indexed). -/
structure Page where
  values : BufId
  others : List BufId
  ptr    : Bool
deriving DecidableEq, Repr

def Page.all (p : Page) : List BufId := p.values :: p.others

/-- GHOST who holds a reference on a page object -/
inductive Owner where
  | caller             -- the application (a page returned by ReadPage / Slice, or Retain)
  | last (r : RdrId)   -- FilePages.lastPage of reader r
  | cur (r : RdrId)    -- columnChunkValueReader.page of reader r
deriving DecidableEq, Repr

structure Claim where
  owner : Owner
  page  : PageId
deriving DecidableEq, Repr

/-- GHOST documented lifetime of a caller-visible slice into pooled storage -/
inductive Life where
  | page (p : PageId)          -- values read from page p: while the caller holds a reference on p
  | call (r : RdrId) (g : Nat) -- values returned by a value reader without detach: until the reader
                               -- leaves the page (which only a later call on the same reader does)
  | forever                    -- rows returned by a row reader (detached values buffer)
deriving DecidableEq, Repr

structure Alias where
  buf  : BufId
  life : Life
  snap : List UInt8   -- what the caller saw when it got the slice
deriving DecidableEq, Repr

/-- MIRROR the fields of `FilePages` (file.go:1078-1105) and `columnChunkValueReader`
    (column_chunk.go:84-89) that take part in the protocol; `gen` is ghost -/
structure Rdr where
  lastPage  : Option PageId
  serveLast : Bool
  closed    : Bool
  cur       : Option PageId
  gen       : Nat
deriving DecidableEq, Repr

structure State where
  heap    : Heap
  pages   : PageId → Page
  npages  : Nat
  rdrs    : RdrId → Rdr
  det     : RdrId → Bool        -- columnChunkValueReader.detach (row_group.go:218-227), fixed per reader
  held    : List Claim          -- ghost
  leak    : BufId → Nat         -- ghost: references given up without a decrement (ReleaseAndDetachValues)
  aliases : List Alias          -- ghost
  goVals  : List (List UInt8)   -- caller-owned memory: strings / []byte made by AssignValue and Clone

def State.init (det : RdrId → Bool) : State :=
  { heap := Heap.init, pages := fun _ => ⟨0, [], false⟩, npages := 0,
    rdrs := fun _ => ⟨none, false, false, none, 0⟩, det := det, held := [], leak := fun _ => 0,
    aliases := [], goVals := [] }

def occ (pg : Page) (b : BufId) : Nat := pg.all.count b

/-- number of references the holders of `held` have on buffer b -/
def refs (held : List Claim) (pages : PageId → Page) (b : BufId) : Nat :=
  (held.map fun c => occ (pages c.page) b).sum

theorem refs_cons (c : Claim) (h : List Claim) (pages : PageId → Page) (b : BufId) :
    refs (c :: h) pages b = occ (pages c.page) b + refs h pages b := by simp [refs]

theorem refs_erase {c : Claim} {h : List Claim} (pages : PageId → Page) (b : BufId) (hc : c ∈ h) :
    refs h pages b = occ (pages c.page) b + refs (h.erase c) pages b := by
  induction h with
  | nil => cases hc
  | cons x xs ih =>
    by_cases hx : x = c
    · subst hx; simp [refs]
    · have hc' : c ∈ xs := by
        rcases List.mem_cons.1 hc with h1 | h1
        · exact absurd h1.symm hx
        · exact h1
      have hbeq : (x == c) = false := by simp [hx]
      rw [List.erase_cons, hbeq]
      simp only [Bool.false_eq_true, if_false]
      rw [refs_cons, refs_cons, ih hc']; omega

theorem occ_le_refs {c : Claim} {h : List Claim} (pages : PageId → Page) (b : BufId) (hc : c ∈ h) :
    occ (pages c.page) b ≤ refs h pages b := by
  rw [refs_erase pages b hc]; omega

theorem refs_congr {h : List Claim} {pages pages' : PageId → Page} (b : BufId)
    (hp : ∀ c, c ∈ h → pages' c.page = pages c.page) : refs h pages' b = refs h pages b := by
  induction h with
  | nil => rfl
  | cons x xs ih =>
    rw [refs_cons, refs_cons, hp x (by simp), ih (fun c hc => hp c (by simp [hc]))]

theorem occ_pos {pg : Page} {b : BufId} (hb : b ∈ pg.all) : 1 ≤ occ pg b := by
  simp only [occ]; exact List.count_pos_iff.2 hb

/-! ## Steps on pages (buffer.go:575-631) with their ghost bookkeeping -/

/-- MIRROR bufferedPage.Slice = newBufferedPage on the same buffers (buffer.go:575-598) -/
def State.slice (s : State) (o : Owner) (p : PageId) : State :=
  { s with heap := s.heap.refAll (s.pages p).all,
           pages := upd s.pages s.npages (s.pages p), npages := s.npages + 1,
           held := ⟨o, s.npages⟩ :: s.held }

/-- MIRROR bufferedPage.Retain (buffer.go:600-606) -/
def State.retain (s : State) (o : Owner) (p : PageId) : State :=
  { s with heap := s.heap.refAll (s.pages p).all, held := ⟨o, p⟩ :: s.held }

/-- MIRROR bufferedPage.Release (buffer.go:608-614) -/
def State.release (s : State) (o : Owner) (p : PageId) : State :=
  { s with heap := s.heap.unrefAll (s.pages p).all, held := s.held.erase ⟨o, p⟩ }

/-- MIRROR bufferedPage.ReleaseAndDetachValues (buffer.go:616-631): the values buffer is not
    decremented (it is left to the garbage collector) -/
def State.detachRel (s : State) (o : Owner) (p : PageId) : State :=
  { s with heap := s.heap.unrefAll (s.pages p).others, held := s.held.erase ⟨o, p⟩,
           leak := upd s.leak (s.pages p).values (s.leak (s.pages p).values + 1) }

/-- nondeterministic content of one page decode: which pooled buffers `get` hands out and what
    is decoded into them -/
structure DecodeSpec where
  values : BufId × List UInt8
  others : List (BufId × List UInt8)
  ptr    : Bool

/-- MIRROR Column.decodeDataPage + newBufferedPage (column.go:852-922, buffer.go:575-588), net
    effect: every buffer of the new page has been got (1), referenced by the page (2) and released
    by the deferred unref (1) -/
def State.decode (s : State) (o : Owner) (d : DecodeSpec) : State :=
  { s with heap := (s.heap.getAll (d.values :: d.others)).1,
           pages := upd s.pages s.npages
             ⟨(s.heap.getAll (d.values :: d.others)).2.headD 0, (s.heap.getAll (d.values :: d.others)).2.tail, d.ptr⟩,
           npages := s.npages + 1, held := ⟨o, s.npages⟩ :: s.held }

/-- a buffer that is got and released inside one library call (compressed page bytes of
    FilePages.readPage file.go:1447-1479, decompression and level scratch, writer page buffers) -/
def State.transient (s : State) (t : BufId × List UInt8) : State :=
  { s with heap := (s.heap.get t.1 t.2).1.unref (s.heap.get t.1 t.2).2 }

/-! ## Invariant -/

def Alias.live (s : State) (a : Alias) : Prop :=
  match a.life with
  | .page p => (⟨.caller, p⟩ : Claim) ∈ s.held
  | .call r g => (s.rdrs r).gen = g
  | .forever => True

def aliasOk (s : State) (a : Alias) : Prop :=
  match a.life with
  | .page p => p < s.npages ∧ (s.pages p).values = a.buf
  | .call r g => g ≤ (s.rdrs r).gen ∧
      ((s.rdrs r).gen = g → ∃ p, (s.rdrs r).cur = some p ∧ (s.pages p).values = a.buf)
  | .forever => 1 ≤ s.leak a.buf ∨
      ∃ r p, (s.rdrs r).cur = some p ∧ (s.pages p).values = a.buf ∧ s.det r = true

/-- everything but the content clause -/
structure Inv0 (s : State) : Prop where
  hw     : HW s.heap
  nobug  : s.heap.bug = none
  count  : ∀ b, (s.heap.bufs b).refc = refs s.held s.pages b + s.leak b
  claims : ∀ c, c ∈ s.held → c.page < s.npages
  last   : ∀ r p, (s.rdrs r).lastPage = some p → (⟨.last r, p⟩ : Claim) ∈ s.held
  cur    : ∀ r p, (s.rdrs r).cur = some p → (⟨.cur r, p⟩ : Claim) ∈ s.held
  ok     : ∀ a, a ∈ s.aliases → aliasOk s a

structure Inv (s : State) : Prop extends Inv0 s where
  data : ∀ a, a ∈ s.aliases → a.live s → (s.heap.bufs a.buf).data = a.snap

theorem claim_pos {s : State} (i : Inv0 s) {c : Claim} (hc : c ∈ s.held) {b : BufId}
    (hb : b ∈ (s.pages c.page).all) : 1 ≤ (s.heap.bufs b).refc := by
  have h1 := occ_le_refs s.pages b hc
  have h2 := occ_pos hb
  have := i.count b; omega

/-- a live alias points into a buffer somebody holds a reference on -/
theorem live_pos {s : State} (i : Inv0 s) {a : Alias} (ha : a ∈ s.aliases) (hl : a.live s) :
    1 ≤ (s.heap.bufs a.buf).refc := by
  have ok := i.ok a ha
  unfold aliasOk at ok
  unfold Alias.live at hl
  split at ok
  · next p hp =>
    rw [hp] at hl
    have := claim_pos i hl (b := a.buf) (by simp [Page.all, ok.2])
    exact this
  · next r g hp =>
    rw [hp] at hl
    obtain ⟨p, hc, hv⟩ := ok.2 hl
    exact claim_pos i (i.cur r p hc) (b := a.buf) (by simp [Page.all, hv])
  · rcases ok with h | ⟨r, p, hc, hv, _⟩
    · have := i.count a.buf; omega
    · exact claim_pos i (i.cur r p hc) (b := a.buf) (by simp [Page.all, hv])

/-- frame of a step that touches only the heap, new page objects, references and `leak` -/
structure Frame (s s' : State) : Prop where
  np   : s.npages ≤ s'.npages
  pg   : ∀ p, p < s.npages → s'.pages p = s.pages p
  cg   : ∀ r, (s'.rdrs r).cur = (s.rdrs r).cur ∧ (s'.rdrs r).gen = (s.rdrs r).gen
  det  : s'.det = s.det
  leak : ∀ b, s.leak b ≤ s'.leak b
  al   : s'.aliases = s.aliases
  go   : s'.goVals = s.goVals

theorem Frame.refl (s : State) : Frame s s :=
  ⟨Nat.le_refl _, fun _ _ => rfl, fun _ => ⟨rfl, rfl⟩, rfl, fun _ => Nat.le_refl _, rfl, rfl⟩

theorem Frame.trans {s s' s'' : State} (a : Frame s s') (b : Frame s' s'') : Frame s s'' :=
  ⟨Nat.le_trans a.np b.np, fun p hp => by rw [b.pg p (Nat.lt_of_lt_of_le hp a.np), a.pg p hp],
   fun r => ⟨by rw [(b.cg r).1, (a.cg r).1], by rw [(b.cg r).2, (a.cg r).2]⟩, by rw [b.det, a.det], fun x => Nat.le_trans (a.leak x) (b.leak x),
   by rw [b.al, a.al], by rw [b.go, a.go]⟩

theorem cur_lt {s : State} (i : Inv0 s) {r : RdrId} {p : PageId} (h : (s.rdrs r).cur = some p) :
    p < s.npages := i.claims _ (i.cur r p h)

theorem aliasOk_frame {s s' : State} (i : Inv0 s) (f : Frame s s') {a : Alias} (h : aliasOk s a) :
    aliasOk s' a := by
  unfold aliasOk at h ⊢
  split
  · next p hp =>
    rw [hp] at h; simp only at h
    exact ⟨Nat.lt_of_lt_of_le h.1 f.np, by rw [f.pg p h.1]; exact h.2⟩
  · next r g hp =>
    rw [hp] at h; simp only at h
    rw [(f.cg r).2, (f.cg r).1]
    refine ⟨h.1, fun hg => ?_⟩
    obtain ⟨p, hc, hv⟩ := h.2 hg
    exact ⟨p, hc, by rw [f.pg p (cur_lt i hc)]; exact hv⟩
  · next hp =>
    rw [hp] at h; simp only at h
    rcases h with h | ⟨r, p, hc, hv, hd⟩
    · exact Or.inl (Nat.le_trans h (f.leak _))
    · exact Or.inr ⟨r, p, by rw [(f.cg r).1]; exact hc, by rw [f.pg p (cur_lt i hc)]; exact hv, by rw [f.det]; exact hd⟩

/-- the content clause carries over a step whose changed buffers had, or end with, refcount zero -/
theorem data_step {s s' : State} (i : Inv s) (i' : Inv0 s') (hal : s'.aliases = s.aliases)
    (hlive : ∀ a, a ∈ s.aliases → a.live s' → a.live s)
    (hfr : ∀ b, 1 ≤ (s.heap.bufs b).refc → 1 ≤ (s'.heap.bufs b).refc →
      (s'.heap.bufs b).data = (s.heap.bufs b).data) : Inv s' := by
  refine { toInv0 := i', data := ?_ }
  intro a ha hl
  have ha0 : a ∈ s.aliases := hal ▸ ha
  have hl0 := hlive a ha0 hl
  rw [hfr a.buf (live_pos i.toInv0 ha0 hl0) (live_pos i' ha hl)]
  exact i.data a ha0 hl0

theorem live_of_held {s s' : State} (hr : ∀ r, (s'.rdrs r).gen = (s.rdrs r).gen) (a : Alias)
    (hh : ∀ p, a.life = .page p → (⟨.caller, p⟩ : Claim) ∈ s'.held → (⟨.caller, p⟩ : Claim) ∈ s.held)
    (hl : a.live s') : a.live s := by
  unfold Alias.live at hl ⊢
  split
  · next p hp => rw [hp] at hl; exact hh p hp hl
  · next r g hp => rw [hp] at hl; simp only at hl; rw [hr] at hl; exact hl
  · trivial

theorem retain_inv {s : State} (i : Inv s) {o o' : Owner} {p : PageId}
    (hc : (⟨o', p⟩ : Claim) ∈ s.held) (hcal : o = .caller → (⟨.caller, p⟩ : Claim) ∈ s.held) :
    Inv (s.retain o p) ∧ Frame s (s.retain o p) := by
  have hpos : ∀ b, b ∈ (s.pages p).all → 1 ≤ (s.heap.bufs b).refc :=
    fun b hb => claim_pos i.toInv0 hc hb
  have sp := refAll_spec (s.pages p).all i.hw hpos
  have fr : Frame s (s.retain o p) :=
    ⟨Nat.le_refl _, fun _ _ => rfl, fun _ => ⟨rfl, rfl⟩, rfl, fun _ => Nat.le_refl _, rfl, rfl⟩
  have i0 : Inv0 (s.retain o p) := {
    hw := sp.1
    nobug := by show (s.heap.refAll _).bug = none; rw [sp.2.1]; exact i.nobug
    count := by
      intro b
      show ((s.heap.refAll _).bufs b).refc = refs (⟨o, p⟩ :: s.held) s.pages b + s.leak b
      rw [(sp.2.2.2 b).1, refs_cons, i.count b]; simp only [occ]; omega
    claims := by
      intro c hc'
      rcases List.mem_cons.1 hc' with h | h
      · subst h; exact i.claims ⟨o', p⟩ hc
      · exact i.claims c h
    last := fun r q h => List.mem_cons_of_mem _ (i.last r q h)
    cur := fun r q h => List.mem_cons_of_mem _ (i.cur r q h)
    ok := fun a ha => aliasOk_frame i.toInv0 fr (i.ok a ha) }
  refine ⟨data_step i i0 rfl (fun a _ => live_of_held (s := s) (s' := s.retain o p) (fun _ => rfl) a ?_) ?_, fr⟩
  · intro q _ hq
    rcases List.mem_cons.1 hq with h | h
    · injection h with h1 h2; subst h2; exact hcal h1.symm
    · exact h
  · intro b _ _; exact (sp.2.2.2 b).2

theorem release_inv {s : State} (i : Inv s) {o : Owner} {p : PageId}
    (hc : (⟨o, p⟩ : Claim) ∈ s.held)
    (hl : ∀ r, o = .last r → (s.rdrs r).lastPage ≠ some p)
    (hcu : ∀ r, o = .cur r → (s.rdrs r).cur ≠ some p) :
    Inv (s.release o p) ∧ Frame s (s.release o p) := by
  have hle : ∀ b, (s.pages p).all.count b ≤ (s.heap.bufs b).refc := by
    intro b
    have h1 := occ_le_refs s.pages b hc
    have := i.count b; simp only [occ] at h1; omega
  have sp := unrefAll_spec (s.pages p).all i.hw hle
  have fr : Frame s (s.release o p) :=
    ⟨Nat.le_refl _, fun _ _ => rfl, fun _ => ⟨rfl, rfl⟩, rfl, fun _ => Nat.le_refl _, rfl, rfl⟩
  have i0 : Inv0 (s.release o p) := {
    hw := sp.1
    nobug := by show (s.heap.unrefAll _).bug = none; rw [sp.2.1]; exact i.nobug
    count := by
      intro b
      show ((s.heap.unrefAll _).bufs b).refc = refs (s.held.erase ⟨o, p⟩) s.pages b + s.leak b
      have h1 := refs_erase s.pages b hc
      rw [(sp.2.2.2 b).1, i.count b, h1]; simp only [occ]; omega
    claims := fun c hc' => i.claims c (List.mem_of_mem_erase hc')
    last := by
      intro r q h
      have hm := i.last r q h
      refine (List.mem_erase_of_ne ?_).2 hm
      intro he; injection he with h1 h2
      subst h2; exact hl r h1.symm h
    cur := by
      intro r q h
      have hm := i.cur r q h
      refine (List.mem_erase_of_ne ?_).2 hm
      intro he; injection he with h1 h2
      subst h2; exact hcu r h1.symm h
    ok := fun a ha => aliasOk_frame i.toInv0 fr (i.ok a ha) }
  refine ⟨data_step i i0 rfl (fun a _ => live_of_held (s := s) (s' := s.release o p) (fun _ => rfl) a (fun q _ hq => List.mem_of_mem_erase hq)) ?_, fr⟩
  intro b _ h2; exact (sp.2.2.2 b).2 h2

theorem detachRel_inv {s : State} (i : Inv s) {o : Owner} {p : PageId}
    (hc : (⟨o, p⟩ : Claim) ∈ s.held)
    (hl : ∀ r, o = .last r → (s.rdrs r).lastPage ≠ some p)
    (hcu : ∀ r, o = .cur r → (s.rdrs r).cur ≠ some p) :
    Inv (s.detachRel o p) ∧ Frame s (s.detachRel o p) ∧ 1 ≤ (s.detachRel o p).leak (s.pages p).values := by
  have hocc : ∀ b, occ (s.pages p) b = (s.pages p).others.count b + (if (s.pages p).values = b then 1 else 0) := by
    intro b; simp only [occ, Page.all, List.count_cons]
    by_cases h : (s.pages p).values = b <;> simp [h]
  have hle : ∀ b, (s.pages p).others.count b ≤ (s.heap.bufs b).refc := by
    intro b
    have h1 : occ (s.pages p) b ≤ _ := occ_le_refs s.pages b hc
    have := i.count b; have := hocc b; omega
  have sp := unrefAll_spec (s.pages p).others i.hw hle
  have hleak : ∀ b, (s.detachRel o p).leak b = s.leak b + (if (s.pages p).values = b then 1 else 0) := by
    intro b
    show upd s.leak (s.pages p).values (s.leak (s.pages p).values + 1) b = _
    by_cases h : (s.pages p).values = b
    · subst h; simp
    · rw [upd_other _ _ (fun hh => h hh.symm)]; simp [h]
  have fr : Frame s (s.detachRel o p) :=
    ⟨Nat.le_refl _, fun _ _ => rfl, fun _ => ⟨rfl, rfl⟩, rfl, fun b => by rw [hleak b]; omega, rfl, rfl⟩
  have i0 : Inv0 (s.detachRel o p) := {
    hw := sp.1
    nobug := by show (s.heap.unrefAll _).bug = none; rw [sp.2.1]; exact i.nobug
    count := by
      intro b
      show ((s.heap.unrefAll _).bufs b).refc = refs (s.held.erase ⟨o, p⟩) s.pages b + (s.detachRel o p).leak b
      have h1 := refs_erase s.pages b hc
      have h2 := hocc b
      rw [(sp.2.2.2 b).1, i.count b, h1, hleak b]; simp only at h2 ⊢; omega
    claims := fun c hc' => i.claims c (List.mem_of_mem_erase hc')
    last := by
      intro r q h
      have hm := i.last r q h
      refine (List.mem_erase_of_ne ?_).2 hm
      intro he; injection he with h1 h2
      subst h2; exact hl r h1.symm h
    cur := by
      intro r q h
      have hm := i.cur r q h
      refine (List.mem_erase_of_ne ?_).2 hm
      intro he; injection he with h1 h2
      subst h2; exact hcu r h1.symm h
    ok := fun a ha => aliasOk_frame i.toInv0 fr (i.ok a ha) }
  refine ⟨data_step i i0 rfl (fun a _ => live_of_held (s := s) (s' := s.detachRel o p) (fun _ => rfl) a
    (fun q _ hq => List.mem_of_mem_erase hq)) ?_, fr, ?_⟩
  · intro b _ h2; exact (sp.2.2.2 b).2 h2
  · rw [hleak]; simp

/-- `release` together with an update of the reader fields (used by `clear`) -/
theorem release_gen {s : State} (i : Inv s) {o : Owner} {p : PageId}
    (hc : (⟨o, p⟩ : Claim) ∈ s.held) (rd : RdrId → Rdr)
    (hl : ∀ r q, (rd r).lastPage = some q → (⟨.last r, q⟩ : Claim) ∈ s.held.erase ⟨o, p⟩)
    (hcu : ∀ r q, (rd r).cur = some q → (⟨.cur r, q⟩ : Claim) ∈ s.held.erase ⟨o, p⟩)
    (hok : ∀ a, a ∈ s.aliases → aliasOk { s.release o p with rdrs := rd } a)
    (hlive : ∀ a, a ∈ s.aliases → a.live { s.release o p with rdrs := rd } → a.live s) :
    Inv { s.release o p with rdrs := rd } := by
  have hle : ∀ b, (s.pages p).all.count b ≤ (s.heap.bufs b).refc := by
    intro b
    have h1 := occ_le_refs s.pages b hc
    have := i.count b; simp only [occ] at h1; omega
  have sp := unrefAll_spec (s.pages p).all i.hw hle
  have i0 : Inv0 { s.release o p with rdrs := rd } := {
    hw := sp.1
    nobug := by show (s.heap.unrefAll _).bug = none; rw [sp.2.1]; exact i.nobug
    count := by
      intro b
      show ((s.heap.unrefAll _).bufs b).refc = refs (s.held.erase ⟨o, p⟩) s.pages b + s.leak b
      have h1 := refs_erase s.pages b hc
      rw [(sp.2.2.2 b).1, i.count b, h1]; simp only [occ]; omega
    claims := fun c hc' => i.claims c (List.mem_of_mem_erase hc')
    last := hl
    cur := hcu
    ok := hok }
  refine data_step i i0 rfl hlive ?_
  intro b _ h2; exact (sp.2.2.2 b).2 h2

/-- `ReleaseAndDetachValues` together with an update of the reader fields (used by `clear`) -/
theorem detachRel_gen {s : State} (i : Inv s) {o : Owner} {p : PageId}
    (hc : (⟨o, p⟩ : Claim) ∈ s.held) (rd : RdrId → Rdr)
    (hl : ∀ r q, (rd r).lastPage = some q → (⟨.last r, q⟩ : Claim) ∈ s.held.erase ⟨o, p⟩)
    (hcu : ∀ r q, (rd r).cur = some q → (⟨.cur r, q⟩ : Claim) ∈ s.held.erase ⟨o, p⟩)
    (hok : ∀ a, a ∈ s.aliases → aliasOk { s.detachRel o p with rdrs := rd } a)
    (hlive : ∀ a, a ∈ s.aliases → a.live { s.detachRel o p with rdrs := rd } → a.live s) :
    Inv { s.detachRel o p with rdrs := rd } := by
  have hocc : ∀ b, occ (s.pages p) b = (s.pages p).others.count b + (if (s.pages p).values = b then 1 else 0) := by
    intro b; simp only [occ, Page.all, List.count_cons]
    by_cases h : (s.pages p).values = b <;> simp [h]
  have hle : ∀ b, (s.pages p).others.count b ≤ (s.heap.bufs b).refc := by
    intro b
    have h1 : occ (s.pages p) b ≤ _ := occ_le_refs s.pages b hc
    have := i.count b; have := hocc b; omega
  have sp := unrefAll_spec (s.pages p).others i.hw hle
  have hleak : ∀ b, (s.detachRel o p).leak b = s.leak b + (if (s.pages p).values = b then 1 else 0) := by
    intro b
    show upd s.leak (s.pages p).values (s.leak (s.pages p).values + 1) b = _
    by_cases h : (s.pages p).values = b
    · subst h; simp
    · rw [upd_other _ _ (fun hh => h hh.symm)]; simp [h]
  have i0 : Inv0 { s.detachRel o p with rdrs := rd } := {
    hw := sp.1
    nobug := by show (s.heap.unrefAll _).bug = none; rw [sp.2.1]; exact i.nobug
    count := by
      intro b
      show ((s.heap.unrefAll _).bufs b).refc = refs (s.held.erase ⟨o, p⟩) s.pages b + (s.detachRel o p).leak b
      have h1 := refs_erase s.pages b hc
      have h2 := hocc b
      rw [(sp.2.2.2 b).1, i.count b, h1, hleak b]; simp only at h2 ⊢; omega
    claims := fun c hc' => i.claims c (List.mem_of_mem_erase hc')
    last := hl
    cur := hcu
    ok := hok }
  refine data_step i i0 rfl hlive ?_
  intro b _ h2; exact (sp.2.2.2 b).2 h2

theorem detachRel_leak (s : State) (o : Owner) (p : PageId) (b : BufId) :
    (s.detachRel o p).leak b = s.leak b + (if (s.pages p).values = b then 1 else 0) := by
  show upd s.leak (s.pages p).values (s.leak (s.pages p).values + 1) b = _
  by_cases h : (s.pages p).values = b
  · subst h; simp
  · rw [upd_other _ _ (fun hh => h hh.symm)]; simp [h]

theorem page_alias_lt {s : State} (i : Inv0 s) {a : Alias} (ha : a ∈ s.aliases) {q : PageId}
    (hq : a.life = .page q) : q < s.npages := by
  have := i.ok a ha; unfold aliasOk at this; rw [hq] at this; exact this.1

theorem slice_inv {s : State} (i : Inv s) (o : Owner) {o' : Owner} {p : PageId}
    (hc : (⟨o', p⟩ : Claim) ∈ s.held) :
    Inv (s.slice o p) ∧ Frame s (s.slice o p) := by
  have hpos : ∀ b, b ∈ (s.pages p).all → 1 ≤ (s.heap.bufs b).refc :=
    fun b hb => claim_pos i.toInv0 hc hb
  have sp := refAll_spec (s.pages p).all i.hw hpos
  have hpg : ∀ q, q < s.npages → upd s.pages s.npages (s.pages p) q = s.pages q :=
    fun q hq => upd_other _ _ (Nat.ne_of_lt hq)
  have fr : Frame s (s.slice o p) :=
    ⟨Nat.le_succ _, hpg, fun _ => ⟨rfl, rfl⟩, rfl, fun _ => Nat.le_refl _, rfl, rfl⟩
  have i0 : Inv0 (s.slice o p) := {
    hw := sp.1
    nobug := by show (s.heap.refAll _).bug = none; rw [sp.2.1]; exact i.nobug
    count := by
      intro b
      show ((s.heap.refAll _).bufs b).refc =
        refs (⟨o, s.npages⟩ :: s.held) (upd s.pages s.npages (s.pages p)) b + s.leak b
      rw [(sp.2.2.2 b).1, refs_cons, i.count b,
        refs_congr b (fun c hc' => hpg c.page (i.claims c hc'))]
      simp only [upd_same, occ]; omega
    claims := by
      intro c hc'
      show c.page < s.npages + 1
      rcases List.mem_cons.1 hc' with h | h
      · subst h; exact Nat.lt_succ_self _
      · exact Nat.lt_succ_of_lt (i.claims c h)
    last := fun r q h => List.mem_cons_of_mem _ (i.last r q h)
    cur := fun r q h => List.mem_cons_of_mem _ (i.cur r q h)
    ok := fun a ha => aliasOk_frame i.toInv0 fr (i.ok a ha) }
  refine ⟨data_step i i0 rfl (fun a ha => live_of_held (s := s) (s' := s.slice o p) (fun _ => rfl) a ?_) ?_, fr⟩
  · intro q hq hm
    rcases List.mem_cons.1 hm with h | h
    · have h2 : q = s.npages := congrArg Claim.page h
      have hlt := page_alias_lt i.toInv0 ha hq
      rw [h2] at hlt; exact absurd hlt (Nat.lt_irrefl _)
    · exact h
  · intro b _ _; exact (sp.2.2.2 b).2

theorem headD_tail {l : List Nat} (h : l ≠ []) : l.headD 0 :: l.tail = l := by
  cases l with
  | nil => exact absurd rfl h
  | cons x xs => rfl

theorem getAll_ne_nil (h : Heap) (x : BufId × List UInt8) (xs : List (BufId × List UInt8)) :
    (h.getAll (x :: xs)).2 ≠ [] := by
  obtain ⟨a, b⟩ := x; simp [Heap.getAll]

theorem decode_inv {s : State} (i : Inv s) (o : Owner) (d : DecodeSpec) :
    Inv (s.decode o d) ∧ Frame s (s.decode o d) := by
  have sp := getAll_spec (d.values :: d.others) i.hw
  generalize hids : (s.heap.getAll (d.values :: d.others)).2 = ids at sp
  have hne : ids ≠ [] := hids ▸ getAll_ne_nil s.heap d.values d.others
  obtain ⟨hw', hbug, _, hnd, hin, hout⟩ := sp
  have hall : (⟨(s.heap.getAll (d.values :: d.others)).2.headD 0,
      (s.heap.getAll (d.values :: d.others)).2.tail, d.ptr⟩ : Page).all = ids := by
    rw [hids]; exact headD_tail hne
  have hpg : ∀ q, q < s.npages → (s.decode o d).pages q = s.pages q :=
    fun q hq => upd_other _ _ (Nat.ne_of_lt hq)
  have fr : Frame s (s.decode o d) :=
    ⟨Nat.le_succ _, hpg, fun _ => ⟨rfl, rfl⟩, rfl, fun _ => Nat.le_refl _, rfl, rfl⟩
  have i0 : Inv0 (s.decode o d) := {
    hw := hw'
    nobug := by show (s.heap.getAll _).1.bug = none; rw [hbug]; exact i.nobug
    count := by
      intro b
      show ((s.heap.getAll (d.values :: d.others)).1.bufs b).refc =
        refs (⟨o, s.npages⟩ :: s.held) (s.decode o d).pages b + s.leak b
      rw [refs_cons, refs_congr b (fun c hc' => hpg c.page (i.claims c hc'))]
      have hocc : occ ((s.decode o d).pages s.npages) b = ids.count b := by
        show occ (upd s.pages s.npages _ s.npages) b = _
        rw [upd_same]; simp only [occ]; rw [hall]
      show _ = occ ((s.decode o d).pages s.npages) b + _ + _
      rw [hocc]
      by_cases hb : b ∈ ids
      · have h1 := hin b hb
        have h2 := i.count b
        rw [h1.2, hnd.count, if_pos hb]; omega
      · rw [hout b hb, hnd.count, if_neg hb, i.count b]; omega
    claims := by
      intro c hc'
      show c.page < s.npages + 1
      rcases List.mem_cons.1 hc' with h | h
      · subst h; exact Nat.lt_succ_self _
      · exact Nat.lt_succ_of_lt (i.claims c h)
    last := fun r q h => List.mem_cons_of_mem _ (i.last r q h)
    cur := fun r q h => List.mem_cons_of_mem _ (i.cur r q h)
    ok := fun a ha => aliasOk_frame i.toInv0 fr (i.ok a ha) }
  refine ⟨data_step i i0 rfl (fun a ha => live_of_held (s := s) (s' := s.decode o d) (fun _ => rfl) a ?_) ?_, fr⟩
  · intro q hq hm
    rcases List.mem_cons.1 hm with h | h
    · have h2 : q = s.npages := congrArg Claim.page h
      have hlt := page_alias_lt i.toInv0 ha hq
      rw [h2] at hlt; exact absurd hlt (Nat.lt_irrefl _)
    · exact h
  · intro b h1 _
    have hb : b ∉ ids := fun hb => by have := (hin b hb).1; omega
    show ((s.heap.getAll (d.values :: d.others)).1.bufs b).data = _
    rw [hout b hb]

theorem transient_inv {s : State} (i : Inv s) (t : BufId × List UInt8) :
    Inv (s.transient t) ∧ Frame s (s.transient t) := by
  have g := get_spec i.hw t.1 t.2
  generalize hr : s.heap.get t.1 t.2 = r at g
  obtain ⟨hw1, hb1, _, hz1, hv1, ho1⟩ := g
  have h1 : 1 ≤ (r.1.bufs r.2).refc := by rw [hv1]; exact Nat.le_refl _
  have u := unref_spec hw1 h1
  have e : s.transient t = { s with heap := r.1.unref r.2 } := by simp [State.transient, hr]
  rw [e]
  have fr : Frame s { s with heap := r.1.unref r.2 } :=
    ⟨Nat.le_refl _, fun _ _ => rfl, fun _ => ⟨rfl, rfl⟩, rfl, fun _ => Nat.le_refl _, rfl, rfl⟩
  have hrefc : ∀ b, ((r.1.unref r.2).bufs b).refc = (s.heap.bufs b).refc := by
    intro b
    rw [(u.2.2.2 b).1]
    by_cases hb : b = r.2
    · subst hb; rw [hv1, hz1]; simp
    · rw [ho1 b hb]; simp [hb]
  have i0 : Inv0 { s with heap := r.1.unref r.2 } := {
    hw := u.1
    nobug := by show (r.1.unref r.2).bug = none; rw [u.2.1, hb1]; exact i.nobug
    count := by intro b; show ((r.1.unref r.2).bufs b).refc = _; rw [hrefc b]; exact i.count b
    claims := i.claims
    last := i.last
    cur := i.cur
    ok := fun a ha => aliasOk_frame i.toInv0 fr (i.ok a ha) }
  refine ⟨data_step i i0 rfl (fun a _ hl => hl) ?_, fr⟩
  intro b hp hp'
  have hb : b ≠ r.2 := fun hb => by subst hb; omega
  show ((r.1.unref r.2).bufs b).data = _
  rw [(u.2.2.2 b).2 hp', ho1 b hb]

/-! ## FilePages (file.go:1078-1660) -/

def State.setRdr (s : State) (r : RdrId) (x : Rdr) : State := { s with rdrs := upd s.rdrs r x }

theorem setRdr_inv {s : State} (i : Inv s) (r : RdrId) (x : Rdr)
    (hcur : x.cur = (s.rdrs r).cur) (hgen : x.gen = (s.rdrs r).gen)
    (hlast : ∀ p, x.lastPage = some p → (⟨.last r, p⟩ : Claim) ∈ s.held) :
    Inv (s.setRdr r x) ∧ Frame s (s.setRdr r x) := by
  have hcg : ∀ r', ((s.setRdr r x).rdrs r').cur = (s.rdrs r').cur ∧
      ((s.setRdr r x).rdrs r').gen = (s.rdrs r').gen := by
    intro r'
    show (upd s.rdrs r x r').cur = _ ∧ (upd s.rdrs r x r').gen = _
    by_cases h : r' = r
    · subst h; rw [upd_same]; exact ⟨hcur, hgen⟩
    · rw [upd_other _ _ h]; exact ⟨rfl, rfl⟩
  have fr : Frame s (s.setRdr r x) :=
    ⟨Nat.le_refl _, fun _ _ => rfl, hcg, rfl, fun _ => Nat.le_refl _, rfl, rfl⟩
  have i0 : Inv0 (s.setRdr r x) := {
    hw := i.hw
    nobug := i.nobug
    count := i.count
    claims := i.claims
    last := by
      intro r' p h
      have h' : (upd s.rdrs r x r').lastPage = some p := h
      by_cases hr : r' = r
      · subst hr; rw [upd_same] at h'; exact hlast p h'
      · rw [upd_other _ _ hr] at h'; exact i.last r' p h'
    cur := by
      intro r' p h
      rw [(hcg r').1] at h; exact i.cur r' p h
    ok := fun a ha => aliasOk_frame i.toInv0 fr (i.ok a ha) }
  exact ⟨data_step i i0 rfl (fun a _ => live_of_held (s := s) (s' := s.setRdr r x)
    (fun r' => (hcg r').2) a (fun _ _ h => h)) (fun _ _ _ => rfl), fr⟩

/-- MIRROR `Release(f.lastPage); f.lastPage = nil` (file.go:1133-1134, 1270-1272, 1650-1651) -/
def State.releaseLast (s : State) (r : RdrId) : State :=
  match (s.rdrs r).lastPage with
  | none => s
  | some p => (s.release (.last r) p).setRdr r { s.rdrs r with lastPage := none }

theorem releaseLast_inv {s : State} (i : Inv s) (r : RdrId) :
    Inv (s.releaseLast r) ∧ Frame s (s.releaseLast r) ∧ (s.releaseLast r).npages = s.npages ∧
    (∀ c, c ∈ s.held → (∀ p, c ≠ ⟨.last r, p⟩) → c ∈ (s.releaseLast r).held) := by
  unfold State.releaseLast
  split
  · exact ⟨i, Frame.refl s, rfl, fun c hc _ => hc⟩
  · next p hp =>
    -- same final state as clearing the field first
    have e : (s.release (.last r) p).setRdr r { s.rdrs r with lastPage := none } =
        (s.setRdr r { s.rdrs r with lastPage := none }).release (.last r) p := rfl
    rw [e]
    have a := setRdr_inv i r { s.rdrs r with lastPage := none } rfl rfl (fun q h => by cases h)
    have hm : (⟨.last r, p⟩ : Claim) ∈ (s.setRdr r { s.rdrs r with lastPage := none }).held := i.last r p hp
    have b := release_inv a.1 hm
      (by
        intro r' hr'; injection hr' with hr'; subst hr'
        show (upd s.rdrs r _ r).lastPage ≠ some p
        rw [upd_same]; simp)
      (by intro r' hr'; cases hr')
    refine ⟨b.1, a.2.trans b.2, rfl, ?_⟩
    intro c hc hne
    exact (List.mem_erase_of_ne (hne p)).2 hc

/-- MIRROR `f.lastPage = page; Retain(page)` (file.go:1274-1276) -/
def State.retainLast (s : State) (r : RdrId) (p : PageId) : State :=
  (s.retain (.last r) p).setRdr r { s.rdrs r with lastPage := some p }

theorem retainLast_inv {s : State} (i : Inv s) (r : RdrId) {o : Owner} {p : PageId}
    (hc : (⟨o, p⟩ : Claim) ∈ s.held) :
    Inv (s.retainLast r p) ∧ Frame s (s.retainLast r p) ∧ (s.retainLast r p).npages = s.npages ∧
    (∀ c, c ∈ s.held → c ∈ (s.retainLast r p).held) := by
  have a := retain_inv i (o := .last r) hc (fun h => by cases h)
  have b := setRdr_inv a.1 r { s.rdrs r with lastPage := some p } rfl rfl
    (fun q h => by
      have : p = q := by simpa using h
      subst this; exact List.mem_cons_self)
  exact ⟨b.1, a.2.trans b.2, rfl, fun c hc => List.mem_cons_of_mem _ hc⟩

inductive Action where
  | ret       -- return the decoded page (file.go:1279-1299)
  | skip      -- the page lies before the row that was seeked to: Release, next page (file.go:1292-1295, 1310-1312)
  | sliceRet  -- return a Slice of it and Release the page (file.go:1301-1304, 1313-1318)
deriving DecidableEq, Repr

/-- one turn of the loop of FilePages.ReadPage -/
structure Iter where
  transients : List (BufId × List UInt8)  -- page bytes read from the file, decompression scratch, ...
  page       : Option DecodeSpec          -- none: a dictionary page (decoded into garbage-collected memory)
  action     : Action

def State.transients (s : State) (ts : List (BufId × List UInt8)) : State := ts.foldl State.transient s

theorem transients_inv (ts : List (BufId × List UInt8)) : ∀ {s : State}, Inv s →
    Inv (s.transients ts) ∧ Frame s (s.transients ts) := by
  induction ts with
  | nil => intro s i; exact ⟨i, Frame.refl s⟩
  | cons t ts ih =>
    intro s i
    have a := transient_inv i t
    have b := ih a.1
    exact ⟨b.1, a.2.trans b.2⟩

/-- MIRROR one turn of the loop of FilePages.ReadPage (file.go:1192-1321) for a consumer `o` -/
def State.iter (s : State) (r : RdrId) (o : Owner) (it : Iter) : State × Option PageId :=
  let s1 := s.transients it.transients
  match it.page with
  | none => (s1, none)
  | some d =>
    let np := s1.npages
    let s4 := ((s1.decode o d).releaseLast r).retainLast r np
    match it.action with
    | .ret => (s4, some np)
    | .skip => (s4.release o np, none)
    | .sliceRet => ((s4.slice o np).release o np, some s4.npages)

structure Post (s : State) (o : Owner) (res : State × Option PageId) : Prop where
  inv : Inv res.1
  fr  : Frame s res.1
  ret : ∀ q, res.2 = some q → (⟨o, q⟩ : Claim) ∈ res.1.held ∧ s.npages ≤ q

theorem iter_post {s : State} (i : Inv s) (r : RdrId) {o : Owner} (ho : ∀ r', o ≠ .last r')
    (it : Iter) : Post s o (s.iter r o it) := by
  have t := transients_inv it.transients i
  unfold State.iter
  cases hpage : it.page with
  | none => exact ⟨t.1, t.2, fun q h => by cases h⟩
  | some d =>
    simp only
    generalize hs1 : s.transients it.transients = s1 at t
    have a := decode_inv t.1 o d
    have hm2 : (⟨o, s1.npages⟩ : Claim) ∈ (s1.decode o d).held := List.mem_cons_self
    have b := releaseLast_inv a.1 r
    have hm3 := b.2.2.2 _ hm2 (fun p h => ho r (congrArg Claim.owner h))
    have c := retainLast_inv b.1 r hm3
    have hm4 := c.2.2.2 _ hm3
    generalize hs4 : ((s1.decode o d).releaseLast r).retainLast r s1.npages = s4 at c hm4
    have f4 : Frame s s4 := t.2.trans (a.2.trans (b.2.1.trans c.2.1))
    have hn4 : s4.npages = s1.npages + 1 := by rw [c.2.2.1, b.2.2.1]; rfl
    have hn1 : s.npages ≤ s1.npages := t.2.np
    -- the consumer's own current page is an older page object
    have hcur : ∀ (s' : State), Frame s s' → ∀ r', o = .cur r' → (s'.rdrs r').cur ≠ some s1.npages := by
      intro s' f r' _ h
      rw [(f.cg r').1] at h
      have := cur_lt i.toInv0 h
      exact absurd (Nat.lt_of_lt_of_le this hn1) (Nat.lt_irrefl _)
    have hlast : ∀ (s' : State) r', o = .last r' → (s'.rdrs r').lastPage ≠ some s1.npages := by
      intro s' r' h; exact absurd h (ho r')
    cases it.action with
    | ret => exact ⟨c.1, f4, fun q h => by cases h; exact ⟨hm4, hn1⟩⟩
    | skip =>
      have e := release_inv c.1 hm4 (hlast s4) (hcur s4 f4)
      exact ⟨e.1, f4.trans e.2, fun q h => by cases h⟩
    | sliceRet =>
      have d5 := slice_inv c.1 o hm4
      have hm5 : (⟨o, s1.npages⟩ : Claim) ∈ (s4.slice o s1.npages).held := List.mem_cons_of_mem _ hm4
      have hm5' : (⟨o, s4.npages⟩ : Claim) ∈ (s4.slice o s1.npages).held := List.mem_cons_self
      have e := release_inv d5.1 hm5 (hlast _) (hcur _ (f4.trans d5.2))
      refine ⟨e.1, f4.trans (d5.2.trans e.2), fun q h => ?_⟩
      cases h
      refine ⟨(List.mem_erase_of_ne ?_).2 hm5', by rw [hn4]; exact Nat.le_succ_of_le hn1⟩
      intro hh
      have : s4.npages = s1.npages := congrArg Claim.page hh
      rw [hn4] at this; exact absurd this (Nat.succ_ne_self _)

def State.loop (s : State) (r : RdrId) (o : Owner) : List Iter → State × Option PageId
  | [] => (s, none)   -- io.EOF or a decoding error
  | it :: rest =>
    match (s.iter r o it).2 with
    | some q => ((s.iter r o it).1, some q)
    | none => State.loop (s.iter r o it).1 r o rest

theorem loop_post (its : List Iter) : ∀ {s : State}, Inv s → ∀ (r : RdrId) {o : Owner},
    (∀ r', o ≠ .last r') → Post s o (s.loop r o its) := by
  induction its with
  | nil => intro s i r o _; exact ⟨i, Frame.refl s, fun q h => by cases h⟩
  | cons it rest ih =>
    intro s i r o ho
    have a := iter_post i r ho it
    unfold State.loop
    cases h : (s.iter r o it).2 with
    | some q => exact ⟨a.inv, a.fr, fun q' h' => by cases h'; exact a.ret q h⟩
    | none =>
      have b := ih a.inv r ho
      exact ⟨b.inv, a.fr.trans b.fr, fun q h' =>
        ⟨(b.ret q h').1, Nat.le_trans a.fr.np (b.ret q h').2⟩⟩

/-- MIRROR FilePages.ReadPage (file.go:1169-1322); the cached-page preamble is file.go:1178-1190. `within`: the row seeked to lies in the cached
    page (`f.skip < numRows`); `its`: the turns of the loop until a page is returned. -/
def State.readPage (s : State) (r : RdrId) (o : Owner) (within : Bool) (its : List Iter) :
    State × Option PageId :=
  if (s.rdrs r).closed then (s, none) else
  match (s.rdrs r).serveLast, (s.rdrs r).lastPage with
  | true, some lp =>
    let s1 := s.setRdr r { s.rdrs r with serveLast := false }
    if within then (s1.slice o lp, some s1.npages) else s1.loop r o its
  | _, _ => s.loop r o its

theorem readPage_post {s : State} (i : Inv s) (r : RdrId) {o : Owner}
    (ho : ∀ r', o ≠ .last r') (within : Bool) (its : List Iter) :
    Post s o (s.readPage r o within its) := by
  unfold State.readPage
  split
  · exact ⟨i, Frame.refl s, fun q h => by cases h⟩
  · split
    · next hs hl =>
      have a := setRdr_inv i r { s.rdrs r with serveLast := false } rfl rfl (fun p h => i.last r p h)
      simp only
      split
      · have hm : (⟨.last r, _⟩ : Claim) ∈ (s.setRdr r { s.rdrs r with serveLast := false }).held := i.last r _ hl
        have b := slice_inv a.1 o hm
        exact ⟨b.1, a.2.trans b.2, fun q h => by cases h; exact ⟨List.mem_cons_self, Nat.le_refl _⟩⟩
      · have b := loop_post its a.1 r ho
        exact ⟨b.inv, a.2.trans b.fr, fun q h => ⟨(b.ret q h).1, Nat.le_trans a.2.np (b.ret q h).2⟩⟩
    · exact loop_post its i r ho

/-- MIRROR FilePages.SeekToRow (file.go:1550-1636), the part that matters for ownership: nothing
    is released; when the row lies in the cached page the flag is set (file.go:1591-1595) -/
def State.seekPages (s : State) (r : RdrId) (same : Bool) : State :=
  if (s.rdrs r).closed then s
  else if same && (s.rdrs r).lastPage.isSome then s.setRdr r { s.rdrs r with serveLast := true }
  else s

theorem seekPages_inv {s : State} (i : Inv s) (r : RdrId) (same : Bool) :
    Inv (s.seekPages r same) ∧ Frame s (s.seekPages r same) := by
  unfold State.seekPages
  split
  · exact ⟨i, Frame.refl s⟩
  · split
    · exact setRdr_inv i r _ rfl rfl (fun p h => i.last r p h)
    · exact ⟨i, Frame.refl s⟩

/-- MIRROR FilePages.Close (file.go:1639-1657) -/
def State.closePages (s : State) (r : RdrId) : State :=
  (s.releaseLast r).setRdr r { (s.releaseLast r).rdrs r with closed := true, serveLast := false }

theorem closePages_inv {s : State} (i : Inv s) (r : RdrId) :
    Inv (s.closePages r) ∧ Frame s (s.closePages r) := by
  have a := releaseLast_inv i r
  have b := setRdr_inv a.1 r { (s.releaseLast r).rdrs r with closed := true, serveLast := false } rfl rfl
    (fun p h => a.1.last r p h)
  exact ⟨b.1, a.2.1.trans b.2⟩

/-! ## columnChunkValueReader (column_chunk.go:84-163) -/

/-- MIRROR columnChunkValueReader.clear (column_chunk.go:91-101) -/
def State.clearCur (s : State) (r : RdrId) : State :=
  match (s.rdrs r).cur with
  | none => s
  | some p =>
    if s.det r then
      { s.detachRel (.cur r) p with
        rdrs := upd s.rdrs r { s.rdrs r with cur := none, gen := (s.rdrs r).gen + 1 } }
    else
      { s.release (.cur r) p with
        rdrs := upd s.rdrs r { s.rdrs r with cur := none, gen := (s.rdrs r).gen + 1 } }

theorem clear_ok {s s' : State} (_i : Inv0 s) {r : RdrId} {p : PageId} (hcur : (s.rdrs r).cur = some p)
    (hn : s'.npages = s.npages) (hp : s'.pages = s.pages) (hd : s'.det = s.det)
    (hr : s'.rdrs = upd s.rdrs r { s.rdrs r with cur := none, gen := (s.rdrs r).gen + 1 })
    (hleak : ∀ b, s.leak b ≤ s'.leak b) (hdl : s.det r = true → 1 ≤ s'.leak (s.pages p).values)
    {a : Alias} (ha : aliasOk s a) : aliasOk s' a := by
  unfold aliasOk at ha ⊢
  split
  · next q hq => rw [hq] at ha; simp only at ha; rw [hn, hp]; exact ha
  · next r' g hq =>
    rw [hq] at ha; simp only at ha
    rw [hr]
    by_cases h : r' = r
    · subst h; rw [upd_same]; simp only
      exact ⟨Nat.le_succ_of_le ha.1, fun hg => by have := ha.1; omega⟩
    · rw [upd_other _ _ h, hp]; exact ha
  · next hq =>
    rw [hq] at ha; simp only at ha
    rcases ha with h | ⟨r', q, hc, hv, hdt⟩
    · exact Or.inl (Nat.le_trans h (hleak _))
    · by_cases h : r' = r
      · subst h
        rw [hcur] at hc; injection hc with hc; subst hc
        left; rw [← hv]; exact hdl hdt
      · right; refine ⟨r', q, ?_, by rw [hp]; exact hv, by rw [hd]; exact hdt⟩
        rw [hr, upd_other _ _ h]; exact hc

theorem clear_live {s s' : State} (i : Inv0 s) {r : RdrId}
    (hr : s'.rdrs = upd s.rdrs r { s.rdrs r with cur := none, gen := (s.rdrs r).gen + 1 })
    (hh : ∀ c, c ∈ s'.held → c ∈ s.held) {a : Alias} (ha : a ∈ s.aliases) (hl : a.live s') :
    a.live s := by
  have ok := i.ok a ha
  unfold aliasOk at ok
  unfold Alias.live at hl ⊢
  split
  · next q hq => rw [hq] at hl; exact hh _ hl
  · next r' g hq =>
    rw [hq] at hl ok; simp only at hl ok
    rw [hr] at hl
    by_cases h : r' = r
    · subst h; rw [upd_same] at hl; simp only at hl; have := ok.1; omega
    · rw [upd_other _ _ h] at hl; exact hl
  · trivial

theorem clearCur_inv {s : State} (i : Inv s) (r : RdrId) : Inv (s.clearCur r) := by
  unfold State.clearCur
  split
  · exact i
  · next p hcur =>
    have hc := i.cur r p hcur
    have hl : ∀ r' q, (upd s.rdrs r { s.rdrs r with cur := none, gen := (s.rdrs r).gen + 1 } r').lastPage = some q →
        (⟨.last r', q⟩ : Claim) ∈ s.held.erase ⟨.cur r, p⟩ := by
      intro r' q h
      have h' : (s.rdrs r').lastPage = some q := by
        by_cases hr : r' = r
        · subst hr; rw [upd_same] at h; exact h
        · rw [upd_other _ _ hr] at h; exact h
      exact (List.mem_erase_of_ne (fun he => by cases he)).2 (i.last r' q h')
    have hcu : ∀ r' q, (upd s.rdrs r { s.rdrs r with cur := none, gen := (s.rdrs r).gen + 1 } r').cur = some q →
        (⟨.cur r', q⟩ : Claim) ∈ s.held.erase ⟨.cur r, p⟩ := by
      intro r' q h
      by_cases hr : r' = r
      · subst hr; rw [upd_same] at h; cases h
      · rw [upd_other _ _ hr] at h
        refine (List.mem_erase_of_ne (fun he => ?_)).2 (i.cur r' q h)
        injection he with h1 _; injection h1 with h1; exact hr h1
    split
    · next hdet =>
      refine detachRel_gen i hc _ hl hcu (fun a ha => ?_) (fun a ha hlv => ?_)
      · exact clear_ok (s' := { s.detachRel (.cur r) p with
            rdrs := upd s.rdrs r { s.rdrs r with cur := none, gen := (s.rdrs r).gen + 1 } })
          i.toInv0 hcur rfl rfl rfl rfl
          (fun b => by show s.leak b ≤ (s.detachRel (.cur r) p).leak b; rw [detachRel_leak]; omega)
          (fun _ => by show 1 ≤ (s.detachRel (.cur r) p).leak _; rw [detachRel_leak]; simp)
          (i.ok a ha)
      · exact clear_live i.toInv0 rfl (fun c hm => List.mem_of_mem_erase hm) ha hlv
    · next hdet =>
      refine release_gen i hc _ hl hcu (fun a ha => ?_) (fun a ha hlv => ?_)
      · exact clear_ok (s' := { s.release (.cur r) p with
            rdrs := upd s.rdrs r { s.rdrs r with cur := none, gen := (s.rdrs r).gen + 1 } })
          i.toInv0 hcur rfl rfl rfl rfl (fun b => Nat.le_refl _)
          (fun h => absurd h hdet) (i.ok a ha)
      · exact clear_live i.toInv0 rfl (fun c hm => List.mem_of_mem_erase hm) ha hlv

/-- `r.page = p` (column_chunk.go:131-137) -/
def State.setCur (s : State) (r : RdrId) (q : PageId) : State :=
  { s with rdrs := upd s.rdrs r { s.rdrs r with cur := some q } }

theorem setCur_inv {s : State} (i : Inv s) {r : RdrId} {q : PageId} (hnone : (s.rdrs r).cur = none)
    (hc : (⟨.cur r, q⟩ : Claim) ∈ s.held) : Inv (s.setCur r q) := by
  have hgen : ∀ r', ((s.setCur r q).rdrs r').gen = (s.rdrs r').gen := by
    intro r'
    show (upd s.rdrs r _ r').gen = _
    by_cases h : r' = r
    · subst h; rw [upd_same]
    · rw [upd_other _ _ h]
  have i0 : Inv0 (s.setCur r q) := {
    hw := i.hw, nobug := i.nobug, count := i.count, claims := i.claims
    last := by
      intro r' p h
      have h' : (upd s.rdrs r { s.rdrs r with cur := some q } r').lastPage = some p := h
      by_cases hr : r' = r
      · subst hr; rw [upd_same] at h'; exact i.last r' p h'
      · rw [upd_other _ _ hr] at h'; exact i.last r' p h'
    cur := by
      intro r' p h
      have h' : (upd s.rdrs r { s.rdrs r with cur := some q } r').cur = some p := h
      by_cases hr : r' = r
      · subst hr; rw [upd_same] at h'; injection h' with h'; subst h'; exact hc
      · rw [upd_other _ _ hr] at h'; exact i.cur r' p h'
    ok := by
      intro a ha
      have ok := i.ok a ha
      unfold aliasOk at ok ⊢
      split
      · next p hp => rw [hp] at ok; exact ok
      · next r' g hp =>
        rw [hp] at ok; simp only at ok
        show g ≤ (upd s.rdrs r _ r').gen ∧ ((upd s.rdrs r _ r').gen = g → ∃ p, (upd s.rdrs r _ r').cur = some p ∧ _)
        by_cases hr : r' = r
        · subst hr; rw [upd_same]; simp only
          refine ⟨ok.1, fun hg => ?_⟩
          obtain ⟨p, hcp, _⟩ := ok.2 hg
          rw [hnone] at hcp; cases hcp
        · rw [upd_other _ _ hr]; exact ok
      · next hp =>
        rw [hp] at ok; simp only at ok
        rcases ok with h | ⟨r', p, hcp, hv, hd⟩
        · exact Or.inl h
        · right
          have hr : r' ≠ r := fun h => by subst h; rw [hnone] at hcp; cases hcp
          exact ⟨r', p, by show (upd s.rdrs r _ r').cur = some p; rw [upd_other _ _ hr]; exact hcp, hv, hd⟩ }
  exact data_step i i0 rfl (fun a _ => live_of_held (s := s) (s' := s.setCur r q) hgen a (fun _ _ h => h))
    (fun _ _ _ => rfl)

/-- MIRROR `if r.values == nil { p, err := r.pages.ReadPage(); ...; r.page = p }` (column_chunk.go:130-138) -/
def State.fetch (s : State) (r : RdrId) (within : Bool) (its : List Iter) : State :=
  match (s.rdrs r).cur with
  | some _ => s
  | none =>
    match (s.readPage r (.cur r) within its).2 with
    | some q => (s.readPage r (.cur r) within its).1.setCur r q
    | none => (s.readPage r (.cur r) within its).1

theorem fetch_inv {s : State} (i : Inv s) (r : RdrId) (within : Bool) (its : List Iter) :
    Inv (s.fetch r within its) := by
  unfold State.fetch
  split
  · exact i
  · next hnone =>
    have a := readPage_post i r (o := .cur r) (fun r' h => by cases h) within its
    split
    · next q hq =>
      exact setCur_inv a.inv (by rw [(a.fr.cg r).1]; exact hnone) (a.ret q hq).1
    · exact a.inv

theorem addAlias_inv {s : State} (i : Inv s) (a : Alias) (hok : aliasOk s a)
    (hsnap : (s.heap.bufs a.buf).data = a.snap) : Inv { s with aliases := a :: s.aliases } := by
  refine { hw := i.hw, nobug := i.nobug, count := i.count, claims := i.claims, last := i.last,
           cur := i.cur, ok := ?_, data := ?_ }
  · intro a' ha'
    rcases List.mem_cons.1 ha' with h | h
    · subst h; exact hok
    · exact i.ok a' h
  · intro a' ha' hl
    rcases List.mem_cons.1 ha' with h | h
    · subst h; exact hsnap
    · exact i.data a' h hl

/-- the value reader returns Values of its current page (column_chunk.go:140-143): for a
    pointer-carrying page they point into the values buffer -/
def State.aliasCur (s : State) (r : RdrId) : State :=
  match (s.rdrs r).cur with
  | none => s
  | some p =>
    if (s.pages p).ptr then
      { s with aliases := ⟨(s.pages p).values, if s.det r then .forever else .call r (s.rdrs r).gen,
                           (s.heap.bufs (s.pages p).values).data⟩ :: s.aliases }
    else s

theorem aliasCur_inv {s : State} (i : Inv s) (r : RdrId) : Inv (s.aliasCur r) := by
  unfold State.aliasCur
  split
  · exact i
  · next p hp =>
    split
    · refine addAlias_inv i _ ?_ rfl
      unfold aliasOk
      by_cases hd : s.det r = true
      · simp only [hd, if_true]; exact Or.inr ⟨r, p, hp, rfl, hd⟩
      · simp only [hd]; exact ⟨Nat.le_refl _, fun _ => ⟨p, hp, rfl⟩⟩
    · exact i

/-- one turn of the loop of columnChunkValueReader.ReadValues -/
structure Round where
  within : Bool
  its    : List Iter
  yields : Bool   -- the current page still has values (return them) / is exhausted (clear, next turn)

/-- MIRROR columnChunkValueReader.ReadValues (column_chunk.go:123-150) -/
def State.vrRead (s : State) (r : RdrId) : List Round → State
  | [] => s
  | rd :: rest =>
    match ((s.fetch r rd.within rd.its).rdrs r).cur with
    | none => s.fetch r rd.within rd.its   -- ReadPage failed or io.EOF: the error is returned
    | some _ =>
      if rd.yields then (s.fetch r rd.within rd.its).aliasCur r
      else State.vrRead ((s.fetch r rd.within rd.its).clearCur r) r rest

theorem vrRead_inv (rounds : List Round) : ∀ {s : State}, Inv s → ∀ r, Inv (s.vrRead r rounds) := by
  induction rounds with
  | nil => intro s i r; exact i
  | cons rd rest ih =>
    intro s i r
    have a := fetch_inv i r rd.within rd.its
    unfold State.vrRead
    split
    · exact a
    · split
      · exact aliasCur_inv a r
      · exact ih (clearCur_inv a r) r

/-- MIRROR columnChunkValueReader.SeekToRow / Reset (column_chunk.go:103-111, 152-161) -/
def State.vrSeek (s : State) (r : RdrId) (same : Bool) : State := (s.seekPages r same).clearCur r

/-- MIRROR columnChunkValueReader.Close (column_chunk.go:113-122) -/
def State.vrClose (s : State) (r : RdrId) : State := (s.closePages r).clearCur r

/-- MIRROR byteArrayType.AssignValue (type_byte_array.go:57-81): `string(v)` / `copyBytes(v)`
    allocate caller-owned memory and copy the bytes of the current page's values buffer -/
def State.copyCur (s : State) (r : RdrId) : State :=
  match (s.rdrs r).cur with
  | none => s
  | some p => { s with goVals := s.goVals ++ [(s.heap.bufs (s.pages p).values).data] }

/-- MIRROR Value.Clone / Row.Clone (value.go:882-889): copy of what alias number k points to -/
def State.cloneAlias (s : State) (k : Nat) : State :=
  match s.aliases[k]? with
  | none => s
  | some a => { s with goVals := s.goVals ++ [(s.heap.bufs a.buf).data] }

theorem goVals_inv {s : State} (i : Inv s) (g : List (List UInt8)) : Inv { s with goVals := g } :=
  { hw := i.hw, nobug := i.nobug, count := i.count, claims := i.claims, last := i.last, cur := i.cur,
    ok := i.ok, data := i.data }

/-! ## Operations of the application and of unrelated library activity -/

inductive Op where
  /- pages API of a column chunk -/
  | readPage (r : RdrId) (within : Bool) (its : List Iter)  -- Pages.ReadPage, page handed to the caller
  | seekPages (r : RdrId) (same : Bool)                     -- Pages.SeekToRow
  | closePages (r : RdrId)                                  -- Pages.Close
  | retain (p : PageId)                                     -- parquet.Retain(page)
  | release (p : PageId)                                    -- parquet.Release(page)
  | slice (p : PageId)                                      -- page.Slice(i, j)
  | pageValues (p : PageId)                                 -- page.Values().ReadValues(...)
  /- value reader / row reader of a column -/
  | vrRead (r : RdrId) (rounds : List Round)                -- ReadValues / one column's part of ReadRows
  | vrSeek (r : RdrId) (same : Bool)                        -- SeekToRow
  | vrReset (r : RdrId) (same : Bool)                       -- Reset of a value / row reader (rewind): SeekToRow(0) then clear;
                                                            -- the reader keeps its `det` flag (column_chunk.go:103-111)
  | vrClose (r : RdrId)                                     -- Close
  | readGo (r : RdrId) (rounds : List Round)                -- GenericReader.Read / Read[T]: read, then AssignValue
  | clone (k : Nat)                                         -- Value.Clone / Row.Clone
  /- anything else in the process that uses the pools: other readers' scratch buffers, writers -/
  | churn (ts : List (BufId × List UInt8))

def hasCaller (s : State) (p : PageId) : Bool := decide ((⟨.caller, p⟩ : Claim) ∈ s.held)

def State.step (s : State) : Op → State
  | .readPage r within its => (s.readPage r .caller within its).1
  | .seekPages r same => s.seekPages r same
  | .closePages r => s.closePages r
  | .retain p => if hasCaller s p then s.retain .caller p else s
  | .release p => if hasCaller s p then s.release .caller p else s
  | .slice p => if hasCaller s p then s.slice .caller p else s
  | .pageValues p =>
    if hasCaller s p && (s.pages p).ptr then
      { s with aliases := ⟨(s.pages p).values, .page p, (s.heap.bufs (s.pages p).values).data⟩ :: s.aliases }
    else s
  | .vrRead r rounds => s.vrRead r rounds
  | .vrSeek r same => s.vrSeek r same
  | .vrReset r same => s.vrSeek r same
  | .vrClose r => s.vrClose r
  | .readGo r rounds => (s.vrRead r rounds).copyCur r
  | .clone k => s.cloneAlias k
  | .churn ts => s.transients ts

def State.run (s : State) (ops : List Op) : State := ops.foldl State.step s

theorem Inv_init (det : RdrId → Bool) : Inv (State.init det) :=
  { hw := HW_init, nobug := rfl, count := fun _ => rfl, claims := fun _ h => (by cases h),
    last := fun _ _ h => (by cases h), cur := fun _ _ h => (by cases h),
    ok := fun _ h => (by cases h), data := fun _ h => (by cases h) }

theorem step_inv {s : State} (i : Inv s) (op : Op) : Inv (s.step op) := by
  cases op with
  | readPage r within its => exact (readPage_post i r (o := .caller) (fun r' h => by cases h) within its).inv
  | seekPages r same => exact (seekPages_inv i r same).1
  | closePages r => exact (closePages_inv i r).1
  | retain p =>
    show Inv (if hasCaller s p then s.retain .caller p else s)
    split
    · next h =>
      have hm : (⟨.caller, p⟩ : Claim) ∈ s.held := by simpa [hasCaller] using h
      exact (retain_inv i hm (fun _ => hm)).1
    · exact i
  | release p =>
    show Inv (if hasCaller s p then s.release .caller p else s)
    split
    · next h =>
      have hm : (⟨.caller, p⟩ : Claim) ∈ s.held := by simpa [hasCaller] using h
      exact (release_inv i hm (fun r h => by cases h) (fun r h => by cases h)).1
    · exact i
  | slice p =>
    show Inv (if hasCaller s p then s.slice .caller p else s)
    split
    · next h =>
      have hm : (⟨.caller, p⟩ : Claim) ∈ s.held := by simpa [hasCaller] using h
      exact (slice_inv i .caller hm).1
    · exact i
  | pageValues p =>
    show Inv (if hasCaller s p && (s.pages p).ptr then
      { s with aliases := ⟨(s.pages p).values, .page p, (s.heap.bufs (s.pages p).values).data⟩ :: s.aliases }
      else s)
    split
    · next h =>
      have hm : (⟨.caller, p⟩ : Claim) ∈ s.held := by
        simp [hasCaller] at h; exact h.1
      exact addAlias_inv i _ ⟨i.claims _ hm, rfl⟩ rfl
    · exact i
  | vrRead r rounds => exact vrRead_inv rounds i r
  | vrSeek r same => exact clearCur_inv (seekPages_inv i r same).1 r
  | vrReset r same => exact clearCur_inv (seekPages_inv i r same).1 r
  | vrClose r => exact clearCur_inv (closePages_inv i r).1 r
  | readGo r rounds =>
    have a := vrRead_inv rounds i r
    show Inv ((s.vrRead r rounds).copyCur r)
    unfold State.copyCur
    split
    · exact a
    · exact goVals_inv a _
  | clone k =>
    show Inv (s.cloneAlias k)
    unfold State.cloneAlias
    split
    · exact i
    · exact goVals_inv i _
  | churn ts => exact (transients_inv ts i).1

theorem run_inv (ops : List Op) : ∀ {s : State}, Inv s → Inv (s.run ops) := by
  induction ops with
  | nil => intro s i; exact i
  | cons op rest ih => intro s i; exact ih (step_inv i op)

/-! ## Lifetimes end only by the caller's own calls

`Stable q r s s'`: the step from s to s' keeps the caller's reference on page `q` and does not
end the lifetime generation of reader `r`. No invariant is needed: it is read off the definitions. -/

structure Stable (q : PageId) (r : RdrId) (s s' : State) : Prop where
  np   : s.npages ≤ s'.npages
  keep : q < s.npages → (⟨.caller, q⟩ : Claim) ∈ s.held → (⟨.caller, q⟩ : Claim) ∈ s'.held
  gen  : (s'.rdrs r).gen = (s.rdrs r).gen
  go   : ∃ l, s'.goVals = s.goVals ++ l
  al   : ∃ l, s'.aliases = l ++ s.aliases

theorem Stable.refl (q : PageId) (r : RdrId) (s : State) : Stable q r s s :=
  ⟨Nat.le_refl _, fun _ h => h, rfl, ⟨[], (List.append_nil _).symm⟩, ⟨[], rfl⟩⟩

theorem Stable.trans {q : PageId} {r : RdrId} {s s' s'' : State} (a : Stable q r s s')
    (b : Stable q r s' s'') : Stable q r s s'' :=
  ⟨Nat.le_trans a.np b.np, fun hq h => b.keep (Nat.lt_of_lt_of_le hq a.np) (a.keep hq h),
   by rw [b.gen, a.gen], by
     obtain ⟨l1, h1⟩ := a.go; obtain ⟨l2, h2⟩ := b.go
     exact ⟨l1 ++ l2, by rw [h2, h1, List.append_assoc]⟩, by
     obtain ⟨l1, h1⟩ := a.al; obtain ⟨l2, h2⟩ := b.al
     exact ⟨l2 ++ l1, by rw [h2, h1, List.append_assoc]⟩⟩

theorem transient_stable (q : PageId) (r : RdrId) (s : State) (t : BufId × List UInt8) :
    Stable q r s (s.transient t) := ⟨Nat.le_refl _, fun _ h => h, rfl, ⟨[], (List.append_nil _).symm⟩, ⟨[], rfl⟩⟩

theorem transients_stable (q : PageId) (r : RdrId) (ts : List (BufId × List UInt8)) :
    ∀ s : State, Stable q r s (s.transients ts) := by
  induction ts with
  | nil => intro s; exact Stable.refl q r s
  | cons t ts ih => intro s; exact (transient_stable q r s t).trans (ih _)

theorem decode_stable (q : PageId) (r : RdrId) (s : State) (o : Owner) (d : DecodeSpec) :
    Stable q r s (s.decode o d) := ⟨Nat.le_succ _, fun _ h => List.mem_cons_of_mem _ h, rfl, ⟨[], (List.append_nil _).symm⟩, ⟨[], rfl⟩⟩

theorem slice_stable (q : PageId) (r : RdrId) (s : State) (o : Owner) (p : PageId) :
    Stable q r s (s.slice o p) := ⟨Nat.le_succ _, fun _ h => List.mem_cons_of_mem _ h, rfl, ⟨[], (List.append_nil _).symm⟩, ⟨[], rfl⟩⟩

theorem retain_stable (q : PageId) (r : RdrId) (s : State) (o : Owner) (p : PageId) :
    Stable q r s (s.retain o p) := ⟨Nat.le_refl _, fun _ h => List.mem_cons_of_mem _ h, rfl, ⟨[], (List.append_nil _).symm⟩, ⟨[], rfl⟩⟩

theorem release_stable (q : PageId) (r : RdrId) (s : State) (o : Owner) (p : PageId)
    (hne : o = .caller → p ≠ q) : Stable q r s (s.release o p) :=
  ⟨Nat.le_refl _, fun _ h => (List.mem_erase_of_ne (fun he => by
      injection he with h1 h2; exact hne h1.symm h2.symm)).2 h, rfl, ⟨[], (List.append_nil _).symm⟩, ⟨[], rfl⟩⟩

theorem setRdr_stable (q : PageId) (r : RdrId) (s : State) (r' : RdrId) (x : Rdr)
    (hg : x.gen = (s.rdrs r').gen) : Stable q r s (s.setRdr r' x) := by
  refine ⟨Nat.le_refl _, fun _ h => h, ?_, ⟨[], (List.append_nil _).symm⟩, ⟨[], rfl⟩⟩
  show (upd s.rdrs r' x r).gen = _
  by_cases h : r = r'
  · subst h; rw [upd_same]; exact hg
  · rw [upd_other _ _ h]

theorem releaseLast_stable (q : PageId) (r : RdrId) (s : State) (r' : RdrId) :
    Stable q r s (s.releaseLast r') := by
  unfold State.releaseLast
  split
  · exact Stable.refl q r s
  · exact (release_stable q r s _ _ (fun h => by cases h)).trans (setRdr_stable q r _ r' _ rfl)

theorem retainLast_stable (q : PageId) (r : RdrId) (s : State) (r' : RdrId) (p : PageId) :
    Stable q r s (s.retainLast r' p) :=
  (retain_stable q r s _ _).trans (setRdr_stable q r _ r' _ rfl)

theorem iter_stable (q : PageId) (r : RdrId) (s : State) (r' : RdrId) (o : Owner) (it : Iter) :
    Stable q r s (s.iter r' o it).1 := by
  have t := transients_stable q r it.transients s
  unfold State.iter
  cases it.page with
  | none => exact t
  | some d =>
    simp only
    generalize s.transients it.transients = s1 at t
    have a : Stable q r s (((s1.decode o d).releaseLast r').retainLast r' s1.npages) :=
      t.trans ((decode_stable q r s1 o d).trans
        ((releaseLast_stable q r _ r').trans (retainLast_stable q r _ r' _)))
    cases it.action with
    | ret => exact a
    | skip =>
      refine ⟨a.np, fun hq h => ?_, a.gen, a.go, a.al⟩
      exact (release_stable q r _ o s1.npages (fun _ hh => by
        have := t.np; rw [hh] at this; exact absurd (Nat.lt_of_lt_of_le hq this) (Nat.lt_irrefl _))).keep
        (Nat.lt_of_lt_of_le hq a.np) (a.keep hq h)
    | sliceRet =>
      have b := a.trans (slice_stable q r _ o s1.npages)
      refine ⟨b.np, fun hq h => ?_, b.gen, b.go, b.al⟩
      exact (release_stable q r _ o s1.npages (fun _ hh => by
        have := t.np; rw [hh] at this; exact absurd (Nat.lt_of_lt_of_le hq this) (Nat.lt_irrefl _))).keep
        (Nat.lt_of_lt_of_le hq b.np) (b.keep hq h)

theorem loop_stable (q : PageId) (r : RdrId) (r' : RdrId) (o : Owner) (its : List Iter) :
    ∀ s : State, Stable q r s (s.loop r' o its).1 := by
  induction its with
  | nil => intro s; exact Stable.refl q r s
  | cons it rest ih =>
    intro s
    have a := iter_stable q r s r' o it
    unfold State.loop
    split
    · exact a
    · exact a.trans (ih _)

theorem readPage_stable (q : PageId) (r : RdrId) (s : State) (r' : RdrId) (o : Owner) (within : Bool)
    (its : List Iter) : Stable q r s (s.readPage r' o within its).1 := by
  unfold State.readPage
  split
  · exact Stable.refl q r s
  · split
    · simp only
      split
      · exact (setRdr_stable q r s r' { s.rdrs r' with serveLast := false } rfl).trans (slice_stable q r _ o _)
      · exact (setRdr_stable q r s r' { s.rdrs r' with serveLast := false } rfl).trans (loop_stable q r r' o its _)
    · exact loop_stable q r r' o its s

theorem seekPages_stable (q : PageId) (r : RdrId) (s : State) (r' : RdrId) (same : Bool) :
    Stable q r s (s.seekPages r' same) := by
  unfold State.seekPages
  split
  · exact Stable.refl q r s
  · split
    · exact setRdr_stable q r s r' _ rfl
    · exact Stable.refl q r s

theorem closePages_stable (q : PageId) (r : RdrId) (s : State) (r' : RdrId) :
    Stable q r s (s.closePages r') :=
  (releaseLast_stable q r s r').trans (setRdr_stable q r _ r' _ rfl)

theorem clearCur_stable (q : PageId) (r : RdrId) (s : State) {r' : RdrId} (hr : r ≠ r') :
    Stable q r s (s.clearCur r') := by
  unfold State.clearCur
  split
  · exact Stable.refl q r s
  · split
    · refine ⟨Nat.le_refl _, fun _ h => (List.mem_erase_of_ne (fun he => by cases he)).2 h, ?_, ⟨[], (List.append_nil _).symm⟩, ⟨[], rfl⟩⟩
      show (upd s.rdrs r' _ r).gen = _
      rw [upd_other _ _ hr]
    · refine ⟨Nat.le_refl _, fun _ h => (List.mem_erase_of_ne (fun he => by cases he)).2 h, ?_, ⟨[], (List.append_nil _).symm⟩, ⟨[], rfl⟩⟩
      show (upd s.rdrs r' _ r).gen = _
      rw [upd_other _ _ hr]

theorem setCur_stable (q : PageId) (r : RdrId) (s : State) (r' : RdrId) (p : PageId) :
    Stable q r s (s.setCur r' p) := setRdr_stable q r s r' _ rfl

theorem fetch_stable (q : PageId) (r : RdrId) (s : State) (r' : RdrId) (within : Bool) (its : List Iter) :
    Stable q r s (s.fetch r' within its) := by
  unfold State.fetch
  split
  · exact Stable.refl q r s
  · split
    · exact (readPage_stable q r s r' _ within its).trans (setCur_stable q r _ r' _)
    · exact readPage_stable q r s r' _ within its

theorem aliasCur_stable (q : PageId) (r : RdrId) (s : State) (r' : RdrId) :
    Stable q r s (s.aliasCur r') := by
  unfold State.aliasCur
  split
  · exact Stable.refl q r s
  · split
    · exact ⟨Nat.le_refl _, fun _ h => h, rfl, ⟨[], (List.append_nil _).symm⟩, ⟨[_], rfl⟩⟩
    · exact Stable.refl q r s

theorem vrRead_stable (q : PageId) (r : RdrId) {r' : RdrId} (hr : r ≠ r') (rounds : List Round) :
    ∀ s : State, Stable q r s (s.vrRead r' rounds) := by
  induction rounds with
  | nil => intro s; exact Stable.refl q r s
  | cons rd rest ih =>
    intro s
    have a := fetch_stable q r s r' rd.within rd.its
    unfold State.vrRead
    split
    · exact a
    · split
      · exact a.trans (aliasCur_stable q r _ r')
      · exact a.trans ((clearCur_stable q r _ hr).trans (ih _))

/-- the calls on a value reader r: only they can end the lifetime of Values it returned -/
def Op.onReader (r : RdrId) : Op → Bool
  | .vrRead r' _ => r' == r
  | .vrSeek r' _ => r' == r
  | .vrReset r' _ => r' == r
  | .vrClose r' => r' == r
  | .readGo r' _ => r' == r
  | _ => false

theorem step_stable (q : PageId) (r : RdrId) (s : State) (op : Op) (hrel : op ≠ .release q)
    (hrd : op.onReader r = false) : Stable q r s (s.step op) := by
  cases op with
  | readPage r' within its => exact readPage_stable q r s r' _ within its
  | seekPages r' same => exact seekPages_stable q r s r' same
  | closePages r' => exact closePages_stable q r s r'
  | retain p =>
    show Stable q r s (if hasCaller s p then s.retain .caller p else s)
    split
    · exact retain_stable q r s _ _
    · exact Stable.refl q r s
  | release p =>
    show Stable q r s (if hasCaller s p then s.release .caller p else s)
    split
    · exact release_stable q r s _ _ (fun _ h => hrel (by rw [h]))
    · exact Stable.refl q r s
  | slice p =>
    show Stable q r s (if hasCaller s p then s.slice .caller p else s)
    split
    · exact slice_stable q r s _ _
    · exact Stable.refl q r s
  | pageValues p =>
    show Stable q r s (if hasCaller s p && (s.pages p).ptr then
      { s with aliases := ⟨(s.pages p).values, .page p, (s.heap.bufs (s.pages p).values).data⟩ :: s.aliases }
      else s)
    split
    · exact ⟨Nat.le_refl _, fun _ h => h, rfl, ⟨[], (List.append_nil _).symm⟩, ⟨[_], rfl⟩⟩
    · exact Stable.refl q r s
  | vrRead r' rounds =>
    have hne : r ≠ r' := fun h => by simp [Op.onReader, h] at hrd
    exact vrRead_stable q r hne rounds s
  | vrSeek r' same =>
    have hne : r ≠ r' := fun h => by simp [Op.onReader, h] at hrd
    exact (seekPages_stable q r s r' same).trans (clearCur_stable q r _ hne)
  | vrReset r' same =>
    have hne : r ≠ r' := fun h => by simp [Op.onReader, h] at hrd
    exact (seekPages_stable q r s r' same).trans (clearCur_stable q r _ hne)
  | vrClose r' =>
    have hne : r ≠ r' := fun h => by simp [Op.onReader, h] at hrd
    exact (closePages_stable q r s r').trans (clearCur_stable q r _ hne)
  | readGo r' rounds =>
    have hne : r ≠ r' := fun h => by simp [Op.onReader, h] at hrd
    have a := vrRead_stable q r hne rounds s
    show Stable q r s ((s.vrRead r' rounds).copyCur r')
    unfold State.copyCur
    split
    · exact a
    · obtain ⟨l, hl⟩ := a.go
      exact ⟨a.np, a.keep, a.gen, ⟨l ++ [_], by
        show (s.vrRead r' rounds).goVals ++ [_] = s.goVals ++ (l ++ [_])
        rw [hl, List.append_assoc]⟩, a.al⟩
  | clone k =>
    show Stable q r s (s.cloneAlias k)
    unfold State.cloneAlias
    split
    · exact Stable.refl q r s
    · exact ⟨Nat.le_refl _, fun _ h => h, rfl, ⟨[_], rfl⟩, ⟨[], rfl⟩⟩
  | churn ts => exact transients_stable q r ts s

/-! ## Caller-owned copies are never touched again -/

def Op.rdr : Op → RdrId
  | .vrRead r _ => r
  | .vrSeek r _ => r
  | .vrReset r _ => r
  | .vrClose r => r
  | .readGo r _ => r
  | _ => 0

def Op.pg : Op → PageId
  | .release p => p
  | _ => 0

theorem release_fresh (op : Op) : op ≠ .release (op.pg + 1) := by
  cases op <;> simp [Op.pg]

theorem onReader_fresh (op : Op) : op.onReader (op.rdr + 1) = false := by
  cases op <;> simp [Op.onReader, Op.rdr]

theorem step_goVals (s : State) (op : Op) : ∃ l, (s.step op).goVals = s.goVals ++ l :=
  (step_stable (op.pg + 1) (op.rdr + 1) s op (release_fresh op) (onReader_fresh op)).go

theorem run_goVals (ops : List Op) : ∀ s : State, ∃ l, (s.run ops).goVals = s.goVals ++ l := by
  induction ops with
  | nil => intro s; exact ⟨[], (List.append_nil _).symm⟩
  | cons op rest ih =>
    intro s
    obtain ⟨l1, h1⟩ := step_goVals s op
    obtain ⟨l2, h2⟩ := ih (s.step op)
    exact ⟨l1 ++ l2, by show ((s.step op).run rest).goVals = _; rw [h2, h1, List.append_assoc]⟩

end PqModel.Pool
