import PqModel.DeltaConf

/-! # SPEC: conformant DELTA_LENGTH_BYTE_ARRAY and DELTA_BYTE_ARRAY streams built from ANY conformant
DELTA_BINARY_PACKED length streams (property C04, part delta)

* DELTA_LENGTH_BYTE_ARRAY of `vs`: any conformant INT32 stream whose meaning is the lengths of `vs`,
  then the bytes of `vs`.
* DELTA_BYTE_ARRAY of `vs`: any conformant INT32 stream of prefix lengths `ps` where each prefix is
  SOME shared prefix with the previous value (`prefixesOK`; the text says "the prefix length", writers
  differ in how hard they search, so the longest one is not required), then the
  DELTA_LENGTH_BYTE_ARRAY stream of the suffixes.

Both the spec decoder and the mirror of the (portable) Go decoder return `vs` on every such
stream — this covers length streams whose last block has unneeded miniblocks with stale non-zero
widths followed by the value bytes: a decoder that consumed a body for an unneeded miniblock
would read the value bytes at the wrong place. -/
namespace PqModel.Delta
open PqModel.Bits

/-- the INT32 lengths of `vs` -/
def lensOf (vs : List (List Nat)) : List (BitVec 32) := vs.map fun v => BitVec.ofNat 32 v.length

theorem lensOf_eq (vs : List (List Nat)) : lensOf vs = (vs.map List.length).map (BitVec.ofNat 32) := by
  simp [lensOf, List.map_map, Function.comp_def]

theorem natLens_lensOf (vs : List (List Nat)) (h : ∀ v ∈ vs, v.length < 2 ^ 31) :
    natLens (lensOf vs) = .ok (vs.map List.length) := by
  rw [lensOf_eq]
  exact natLens_ofNat _ (by
    intro l hl
    obtain ⟨v, hv, rfl⟩ := List.mem_map.mp hl
    exact h v hv)

/-- DELTA_LENGTH_BYTE_ARRAY, spec decoder, any conformant length stream -/
theorem specDecodeDLBA_conf (s : ConfStream 32) (vs : List (List Nat)) (tail : List Nat) (hs : s.OK)
    (hv : s.values = lensOf vs) (h31 : ∀ v ∈ vs, v.length < 2 ^ 31) :
    specDecodeDLBA (s.bytes ++ (vs.flatten ++ tail)) = .ok (vs, tail) := by
  simp only [specDecodeDLBA, specDecode_conf (by decide : 32 ≤ 64) s _ hs, hv, natLens_lensOf vs h31]
  exact splitLens_flatten vs tail

/-- DELTA_LENGTH_BYTE_ARRAY, Go decoder (mirror of `LengthByteArrayEncoding.DecodeByteArray`): the
concatenated values and their offsets; whatever follows the values is ignored. Limits: those of
`decodeInt32`, and 4 GiB of values (`uint32` offsets). -/
theorem goDecodeDLBA_conf (s : ConfStream 32) (vs : List (List Nat)) (tail : List Nat) (hs : s.OK)
    (hv : s.values = lensOf vs) (h31 : ∀ v ∈ vs, v.length < 2 ^ 31)
    (hbs : s.blockSize ≤ 65536) (ht : s.total < 2 ^ 31) (hb : vs.flatten.length < 2 ^ 32) :
    goDecodeDLBA (s.bytes ++ (vs.flatten ++ tail)) = .ok (vs.flatten, offsetsFrom 0 vs) := by
  obtain ⟨hpos, hlens⟩ := natLens_ok (natLens_lensOf vs h31)
  have ho := goLengthOffsets_of (lensOf vs) vs 0 hpos hlens (by omega)
  have hlast := offsetsFrom_last vs 0
  simp only [Nat.zero_add] at hlast
  have hnt : ¬ ((vs.flatten ++ tail).length < vs.flatten.length) := by simp
  simp only [goDecodeDLBA, goDecode_conf (Or.inl rfl) s _ hs hbs ht, hv, ho, hlast, hnt, if_false]
  rw [List.take_left' rfl]

/-- SPEC. `ps` are admissible prefix lengths for `vs`: the first `p` bytes of the previous value
(none before the first value) are the first `p` bytes of the value. -/
def prefixesOK : List Nat → List Nat → List (List Nat) → Prop
  | _, [], [] => True
  | prev, p :: ps, v :: vs => (p ≤ prev.length ∧ prev.take p = v.take p) ∧ prefixesOK v ps vs
  | _, _, _ => False

instance prefixesOK.dec : ∀ (prev ps : List Nat) (vs : List (List Nat)), Decidable (prefixesOK prev ps vs)
  | _, [], [] => by unfold prefixesOK; infer_instance
  | prev, p :: ps, v :: vs => by
    unfold prefixesOK
    exact @instDecidableAnd _ _ _ (prefixesOK.dec v ps vs)
  | _, [], _ :: _ => by unfold prefixesOK; infer_instance
  | _, _ :: _, [] => by unfold prefixesOK; infer_instance

/-- SPEC. the suffixes that go with the prefix lengths -/
def cutSuffixes : List Nat → List (List Nat) → List (List Nat)
  | p :: ps, v :: vs => v.drop p :: cutSuffixes ps vs
  | _, _ => []

theorem joinPrefix_any : ∀ (vs : List (List Nat)) (ps prev : List Nat), prefixesOK prev ps vs →
    joinPrefix prev ps (cutSuffixes ps vs) = .ok vs
  | [], [], _, _ => by simp [joinPrefix, cutSuffixes]
  | [], _ :: _, _, h => by simp [prefixesOK] at h
  | _ :: _, [], _, h => by simp [prefixesOK] at h
  | v :: vs, p :: ps, prev, h => by
    obtain ⟨⟨hle, hpv⟩, hrest⟩ := h
    have hnt : ¬ (prev.length < p) := by omega
    have hv : prev.take p ++ v.drop p = v := by rw [hpv, List.take_append_drop]
    simp only [cutSuffixes, joinPrefix, hnt, if_false, hv, joinPrefix_any vs ps v hrest]

theorem prefixesOK_length : ∀ (vs : List (List Nat)) (ps prev : List Nat), prefixesOK prev ps vs →
    ps.length = vs.length
  | [], [], _, _ => rfl
  | [], _ :: _, _, h => by simp [prefixesOK] at h
  | _ :: _, [], _, h => by simp [prefixesOK] at h
  | v :: vs, p :: ps, prev, h => by
    simp only [List.length_cons, prefixesOK_length vs ps v h.2]

theorem prefixesOK_lt : ∀ (vs : List (List Nat)) (ps prev : List Nat), prefixesOK prev ps vs →
    (∀ v ∈ vs, v.length < 2 ^ 31) → ∀ p ∈ ps, p < 2 ^ 31
  | [], [], _, _, _ => by simp
  | [], _ :: _, _, h, _ => by simp [prefixesOK] at h
  | _ :: _, [], _, h, _ => by simp [prefixesOK] at h
  | v :: vs, p :: ps, prev, h, hl => by
    obtain ⟨⟨hle, hpv⟩, hrest⟩ := h
    intro q hq
    simp only [List.mem_cons] at hq
    rcases hq with rfl | hq
    · have h1 : (prev.take q).length = q := by simp only [List.length_take]; omega
      have h2 : (v.take q).length ≤ v.length := by simp only [List.length_take]; omega
      have := hl v (by simp)
      rw [hpv] at h1
      omega
    · exact prefixesOK_lt vs ps v hrest (fun w hw => hl w (by simp [hw])) q hq

theorem cutSuffixes_lt : ∀ (vs : List (List Nat)) (ps : List Nat), (∀ v ∈ vs, v.length < 2 ^ 31) →
    ∀ s ∈ cutSuffixes ps vs, s.length < 2 ^ 31
  | [], ps, _ => by cases ps <;> simp [cutSuffixes]
  | v :: vs, [], _ => by simp [cutSuffixes]
  | v :: vs, p :: ps, hl => by
    intro s hs
    simp only [cutSuffixes, List.mem_cons] at hs
    rcases hs with rfl | hs
    · have := hl v (by simp)
      simp only [List.length_drop]; omega
    · exact cutSuffixes_lt vs ps (fun w hw => hl w (by simp [hw])) s hs

theorem cutSuffixes_length : ∀ (vs : List (List Nat)) (ps : List Nat), ps.length = vs.length →
    (cutSuffixes ps vs).length = vs.length
  | [], ps, _ => by cases ps <;> simp [cutSuffixes]
  | v :: vs, [], h => by simp at h
  | v :: vs, p :: ps, h => by
    simp only [cutSuffixes, List.length_cons] at h ⊢
    rw [cutSuffixes_length vs ps (by omega)]

/-- DELTA_BYTE_ARRAY, spec decoder: any conformant prefix-length stream `sp` (meaning `ps`,
admissible for `vs`), any conformant suffix-length stream `ss`, the suffix bytes. -/
theorem specDecodeDBA_conf (sp ss : ConfStream 32) (ps : List Nat) (vs : List (List Nat)) (tail : List Nat)
    (hsp : sp.OK) (hss : ss.OK) (hpv : sp.values = ps.map (BitVec.ofNat 32))
    (hp : prefixesOK [] ps vs) (hsv : ss.values = lensOf (cutSuffixes ps vs))
    (h31 : ∀ v ∈ vs, v.length < 2 ^ 31) :
    specDecodeDBA (sp.bytes ++ (ss.bytes ++ ((cutSuffixes ps vs).flatten ++ tail))) = .ok (vs, tail) := by
  have hd := specDecodeDLBA_conf ss (cutSuffixes ps vs) tail hss hsv (cutSuffixes_lt vs ps h31)
  simp only [specDecodeDBA, specDecode_conf (by decide : 32 ≤ 64) sp _ hsp, hpv,
    natLens_ofNat ps (prefixesOK_lt vs ps [] hp h31), hd, joinPrefix_any vs ps [] hp]

/-- DELTA_BYTE_ARRAY, Go decoder (mirror of the portable `ByteArrayEncoding.DecodeByteArray` /
`DecodeFixedLenByteArray`), within the limits of `decodeInt32`. -/
theorem goDecodeDBA_conf (sp ss : ConfStream 32) (ps : List Nat) (vs : List (List Nat)) (tail : List Nat)
    (hsp : sp.OK) (hss : ss.OK) (hpv : sp.values = ps.map (BitVec.ofNat 32))
    (hp : prefixesOK [] ps vs) (hsv : ss.values = lensOf (cutSuffixes ps vs))
    (h31 : ∀ v ∈ vs, v.length < 2 ^ 31)
    (hb1 : sp.blockSize ≤ 65536) (ht1 : sp.total < 2 ^ 31) (hb2 : ss.blockSize ≤ 65536) (ht2 : ss.total < 2 ^ 31) :
    goDecodeDBA (sp.bytes ++ (ss.bytes ++ ((cutSuffixes ps vs).flatten ++ tail))) = .ok vs := by
  have hplt := prefixesOK_lt vs ps [] hp h31
  have hslt := cutSuffixes_lt vs ps h31
  obtain ⟨hppos, hpn⟩ := natLens_ok (natLens_ofNat ps hplt)
  obtain ⟨hspos, hsn⟩ := natLens_ok (natLens_lensOf (cutSuffixes ps vs) hslt)
  have hlen := prefixesOK_length vs ps [] hp
  have hcount : ¬ ((ps.map (BitVec.ofNat 32)).length ≠ (lensOf (cutSuffixes ps vs)).length) := by
    simp only [lensOf, List.length_map, cutSuffixes_length vs ps hlen]; omega
  simp only [goDecodeDBA, goDecode_conf (Or.inl rfl) sp _ hsp hb1 ht1, hpv,
    goDecode_conf (Or.inl rfl) ss _ hss hb2 ht2, hsv, hcount, if_false]
  exact goJoin_of _ _ [] _ (cutSuffixes ps vs) tail vs hppos hspos
    (by rw [← hsn]; exact splitLens_flatten _ tail) (by rw [← hpn]; exact joinPrefix_any vs ps [] hp)

end PqModel.Delta
