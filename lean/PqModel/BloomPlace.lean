import PqModel.BloomWriter
import PqModel.ThriftWriteProofs

/-! # Where the writer puts bloom filter sections, and what the reader finds there (C07)

MIRROR of
* the filter loop at the end of `writeRowGroup` (`writer.go:1659-1733`, "for i, c := range rg.columns": verbatim
  copied section / built section, written inline or buffered in `w.deferredBloomFilters`);
* `writeDeferredBloomFilters` (`writer.go:1299-1320`), run by `Close` before the page indexes and the footer;
* `writeBloomFilter` (`writer.go:2455-2507`): thrift header + bitset, or two AES-GCM module envelopes
  (`encryptModule`, `encrypt.go:170-195`) for an encrypted column;
* `readBloomFilter` (`file.go:1037-1090`; the eager loop of `OpenFile`, `file.go:252-310`, decodes the
  same header at the same offset), `readDecryptedEnvelopeFrom` (`file.go:1532-1544`), `decryptModule`
  (`encrypt.go:201-230`), `newBloomFilter` (`bloom.go:79-127`) and `newBloomFilterFromBytes`
  (`bloom.go:134-163`).

The thrift header bytes are those of the `PqModel.ThriftWrite` mirror of the compact encoder; they are
read back with the SPEC reader `PqModel.Spec.readStruct`. AES-GCM is abstract (`sealM`/`openM` with
the round trip as a hypothesis), gzip as in `BloomWriter.lean`.

Two levels: `step` works on offsets and lengths only (this is what L2 runs against the footers of real
files), `stepB` carries the bytes along and *uses `step`* for every number, so that the theorems about
bytes are theorems about the offsets `step` computes. -/
namespace PqModel.BloomPlace
open PqModel.Bloom PqModel.BloomWriter PqModel.ThriftWrite PqModel.Spec

/-! ## 1. offsets and lengths -/

/-- `BloomFilterOffset`, `BloomFilterLength` of a column chunk's metadata -/
structure Loc where
  off : Nat
  len : Nat
  deriving DecidableEq, Repr

abbrev MetaTab := Nat → Nat → Option Loc

/-- `w.rowGroups[rg].Columns[col].MetaData.BloomFilterOffset/Length = ...` -/
def setLoc (m : MetaTab) (rg col : Nat) (l : Loc) : MetaTab :=
  fun r c => if r = rg ∧ c = col then some l else m r c

/-- the placement-relevant part of `writer` -/
structure PState where
  /-- `w.writer.offset` -/
  offset : Nat
  /-- `w.deferredBloomFilters`: row group, column, number of buffered bytes -/
  deferred : List (Nat × Nat × Nat)
  tab : MetaTab

inductive Ev where
  /-- anything else written to the file (magic, pages) -/
  | data (n : Nat)
  /-- one iteration of the filter loop of `writeRowGroup` for a column that has a filter section of
      `len` bytes (copied or built); `deferred` = `DeferredBloomFiltersBuffers != nil` -/
  | filter (rg col len : Nat) (deferred : Bool)
  /-- `writeDeferredBloomFilters` -/
  | flush
  deriving Repr

/-- MIRROR `writeDeferredBloomFilters`, writer.go:1299-1320: for each buffered filter, in order,
    `bloomFilterOffset := w.writer.offset`, the buffer is appended (`ReadFrom`),
    `BloomFilterLength = w.writer.offset - bloomFilterOffset`. -/
def flushDeferred : List (Nat × Nat × Nat) → Nat → MetaTab → Nat × MetaTab
  | [], off, m => (off, m)
  | (rg, col, len) :: rest, off, m => flushDeferred rest (off + len) (setLoc m rg col ⟨off, len⟩)

/-- the SEEDED slip (C07-3b): the recorded offset is read once before the loop and never advanced -/
def flushDeferredStuck (first : Nat) : List (Nat × Nat × Nat) → Nat → MetaTab → Nat × MetaTab
  | [], off, m => (off, m)
  | (rg, col, len) :: rest, off, m => flushDeferredStuck first rest (off + len) (setLoc m rg col ⟨first, len⟩)

def step (s : PState) : Ev → PState
  | .data n => { s with offset := s.offset + n }
  | .filter rg col len true => { s with deferred := s.deferred ++ [(rg, col, len)] }
  | .filter rg col len false =>
    { s with offset := s.offset + len, tab := setLoc s.tab rg col ⟨s.offset, len⟩ }
  | .flush =>
    let r := flushDeferred s.deferred s.offset s.tab
    { offset := r.1, deferred := [], tab := r.2 }

def stepStuck (s : PState) : Ev → PState
  | .flush =>
    let r := flushDeferredStuck s.offset s.deferred s.offset s.tab
    { offset := r.1, deferred := [], tab := r.2 }
  | e => step s e

def pinit : PState := { offset := 0, deferred := [], tab := fun _ _ => none }

def run (evs : List Ev) : PState := evs.foldl step pinit

/-! ## 2. the same with the bytes -/

inductive EvB where
  | data (bs : List UInt8)
  | filter (rg col : Nat) (sect : List UInt8) (deferred : Bool)
  | flush

def EvB.toEv : EvB → Ev
  | .data bs => .data bs.length
  | .filter rg col s d => .filter rg col s.length d
  | .flush => .flush

abbrev Buffered := Nat × Nat × List UInt8

def bkey (b : Buffered) : Nat × Nat := (b.1, b.2.1)

structure BState where
  p : PState
  /-- everything written to the file so far -/
  out : List UInt8
  /-- the buffers of `w.deferredBloomFilters` -/
  bufs : List Buffered

def stepB (s : BState) (e : EvB) : BState :=
  { p := step s.p e.toEv,
    out := match e with
      | .data bs => s.out ++ bs
      | .filter _ _ sect false => s.out ++ sect
      | .filter _ _ _ true => s.out
      | .flush => s.out ++ s.bufs.flatMap (·.2.2),
    bufs := match e with
      | .filter rg col sect true => s.bufs ++ [(rg, col, sect)]
      | .flush => []
      | _ => s.bufs }

def binit : BState := { p := pinit, out := [], bufs := [] }

def runB (s : BState) (evs : List EvB) : BState := evs.foldl stepB s

/-- the filter sections an event list writes -/
def filtersOf : List EvB → List Buffered
  | [] => []
  | .filter rg col sect _ :: es => (rg, col, sect) :: filtersOf es
  | _ :: es => filtersOf es

theorem runB_p (s : BState) (evs : List EvB) : (runB s evs).p = (evs.map EvB.toEv).foldl step s.p := by
  induction evs generalizing s with
  | nil => rfl
  | cons e es ih => simp only [runB, List.foldl_cons, List.map_cons] at ih ⊢; rw [ih]; rfl

/-! ### lemmas on file regions -/

theorem fileSection_prefix (out post : List UInt8) (off len : Nat) (h : off + len ≤ out.length) :
    fileSection (out ++ post) off len = fileSection out off len := by
  unfold fileSection
  rw [List.drop_append_of_le_length (by omega)]
  rw [List.take_append_of_le_length (by simp only [List.length_drop]; omega)]

theorem fileSection_at_end (out sect post : List UInt8) :
    fileSection (out ++ (sect ++ post)) out.length sect.length = sect := by
  unfold fileSection
  rw [List.drop_left' rfl, List.take_left' rfl]

theorem key_inj_of_nodup {l : List Buffered} (h : (l.map bkey).Nodup) {a b : Buffered}
    (ha : a ∈ l) (hb : b ∈ l) (hk : bkey a = bkey b) : a = b := by
  induction l with
  | nil => cases ha
  | cons x xs ih =>
    simp only [List.map_cons, List.nodup_cons] at h
    rcases List.mem_cons.mp ha with rfl | ha'
    · rcases List.mem_cons.mp hb with rfl | hb'
      · rfl
      · exact absurd (hk ▸ List.mem_map_of_mem hb') h.1
    · rcases List.mem_cons.mp hb with rfl | hb'
      · exact absurd (hk ▸ List.mem_map_of_mem ha') h.1
      · exact ih h.2 ha' hb'

/-- a chunk's metadata names a region of the file that holds exactly `sect` -/
def Names (m : MetaTab) (file : List UInt8) (b : Buffered) : Prop :=
  ∃ l, m b.1 b.2.1 = some l ∧ l.len = b.2.2.length ∧ l.off + l.len ≤ file.length ∧
    fileSection file l.off l.len = b.2.2

theorem Names.grow {m : MetaTab} {file : List UInt8} {b : Buffered} (h : Names m file b) (post : List UInt8) :
    Names m (file ++ post) b := by
  obtain ⟨l, h1, h2, h3, h4⟩ := h
  refine ⟨l, h1, h2, by simp only [List.length_append]; omega, ?_⟩
  rw [fileSection_prefix _ _ _ _ h3, h4]

theorem Names.setOther {m : MetaTab} {file : List UInt8} {b : Buffered} (h : Names m file b)
    (rg col : Nat) (l' : Loc) (hk : bkey b ≠ (rg, col)) : Names (setLoc m rg col l') file b := by
  obtain ⟨l, h1, h2, h3, h4⟩ := h
  refine ⟨l, ?_, h2, h3, h4⟩
  unfold setLoc
  split
  · rename_i hc
    exact absurd (by unfold bkey; rw [hc.1, hc.2]) hk
  · exact h1

/-- the loop of `writeDeferredBloomFilters` over buffers with pairwise distinct (row group, column) -/
theorem flushDeferred_spec : ∀ (bufs : List Buffered) (out : List UInt8) (m : MetaTab),
    (bufs.map bkey).Nodup →
    let r := flushDeferred (bufs.map (fun b => (b.1, b.2.1, b.2.2.length))) out.length m
    r.1 = (out ++ bufs.flatMap (·.2.2)).length ∧
    (∀ b ∈ bufs, Names r.2 (out ++ bufs.flatMap (·.2.2)) b) ∧
    (∀ rg col, (∀ b ∈ bufs, bkey b ≠ (rg, col)) → r.2 rg col = m rg col) := by
  intro bufs
  induction bufs with
  | nil =>
    intro out m _
    simp [flushDeferred]
  | cons b rest ih =>
    intro out m hnd
    simp only [List.map_cons, List.nodup_cons] at hnd
    obtain ⟨rg, col, sect⟩ := b
    have ih' := ih (out ++ sect) (setLoc m rg col ⟨out.length, sect.length⟩) hnd.2
    simp only [List.length_append] at ih'
    simp only [List.map_cons, flushDeferred, List.flatMap_cons]
    have hassoc : out ++ sect ++ rest.flatMap (·.2.2) = out ++ (sect ++ rest.flatMap (·.2.2)) :=
      List.append_assoc _ _ _
    rw [hassoc] at ih'
    obtain ⟨i1, i2, i3⟩ := ih'
    refine ⟨by rw [i1]; simp only [List.length_append]; omega, ?_, ?_⟩
    · intro b hb
      rcases List.mem_cons.mp hb with rfl | hb'
      · have hnot : ∀ b' ∈ rest, bkey b' ≠ (rg, col) := by
          intro b' hb' he
          exact hnd.1 (by have := List.mem_map_of_mem (f := bkey) hb'; rw [he] at this; exact this)
        refine ⟨⟨out.length, sect.length⟩, ?_, rfl, ?_, ?_⟩
        · rw [i3 rg col hnot]; simp [setLoc]
        · simp only [List.length_append]; omega
        · exact fileSection_at_end out sect _
      · exact i2 b hb'
    · intro rg' col' hno
      rw [i3 rg' col' (fun b hb => hno b (List.mem_cons_of_mem _ hb))]
      unfold setLoc
      split
      · rename_i hc
        exact absurd (by unfold bkey; simp [hc.1, hc.2]) (hno (rg, col, sect) (List.mem_cons_self ..))
      · rfl

/-- invariant of the byte-level writer after the filter sections `done` went through the loop -/
structure InvB (s : BState) (done : List Buffered) : Prop where
  off : s.p.offset = s.out.length
  defer : s.p.deferred = s.bufs.map (fun b => (b.1, b.2.1, b.2.2.length))
  bufsDone : s.bufs.Sublist done
  placed : ∀ b ∈ done, b ∈ s.bufs ∨ Names s.p.tab s.out b

theorem InvB.step {s : BState} {done : List Buffered} (inv : InvB s done) (e : EvB)
    (hnd : ((done ++ filtersOf [e]).map bkey).Nodup) : InvB (stepB s e) (done ++ filtersOf [e]) := by
  cases e with
  | data bs =>
    simp only [filtersOf, List.append_nil] at hnd ⊢
    refine ⟨?_, inv.defer, inv.bufsDone, ?_⟩
    · simp [stepB, EvB.toEv, PqModel.BloomPlace.step, inv.off]
    · intro b hb
      rcases inv.placed b hb with h | h
      · exact Or.inl h
      · exact Or.inr (h.grow bs)
  | filter rg col sect d =>
    simp only [filtersOf] at hnd ⊢
    have hfresh : ∀ b ∈ done, bkey b ≠ (rg, col) := by
      intro b hb he
      have hin : b ∈ done ++ [(rg, col, sect)] := List.mem_append_left _ hb
      have hin2 : (rg, col, sect) ∈ done ++ [(rg, col, sect)] := List.mem_append_right _ (List.mem_singleton.mpr rfl)
      have heq := key_inj_of_nodup hnd hin hin2 (by simpa [bkey] using he)
      -- then the key occurs twice
      rw [List.map_append, List.nodup_append] at hnd
      exact hnd.2.2 _ (List.mem_map_of_mem hb) _ (List.mem_map_of_mem (List.mem_singleton.mpr rfl)) (heq ▸ rfl)
    cases d with
    | true =>
      refine ⟨inv.off, ?_, ?_, ?_⟩
      · simp [stepB, EvB.toEv, PqModel.BloomPlace.step, inv.defer]
      · exact List.Sublist.append inv.bufsDone (List.Sublist.refl _)
      · intro b hb
        rcases List.mem_append.mp hb with hb | hb
        · rcases inv.placed b hb with h | h
          · exact Or.inl (by simp only [stepB]; exact List.mem_append_left _ h)
          · exact Or.inr h
        · exact Or.inl (by simp only [stepB]; exact List.mem_append_right _ hb)
    | false =>
      refine ⟨?_, inv.defer, ?_, ?_⟩
      · simp [stepB, EvB.toEv, PqModel.BloomPlace.step, inv.off]
      · exact inv.bufsDone.trans (List.sublist_append_left _ _)
      · intro b hb
        rcases List.mem_append.mp hb with hb | hb
        · rcases inv.placed b hb with h | h
          · exact Or.inl h
          · right
            have := (h.grow sect).setOther rg col ⟨s.p.offset, sect.length⟩ (hfresh b hb)
            simpa [stepB, EvB.toEv, PqModel.BloomPlace.step] using this
        · right
          rw [List.mem_singleton.mp hb]
          refine ⟨⟨s.out.length, sect.length⟩, ?_, rfl, ?_, ?_⟩
          · simp [stepB, EvB.toEv, PqModel.BloomPlace.step, setLoc, inv.off]
          · simp [stepB]
          · have := fileSection_at_end s.out sect []
            simpa [stepB] using this
  | flush =>
    simp only [filtersOf, List.append_nil] at hnd ⊢
    have hbn : (s.bufs.map bkey).Nodup := (inv.bufsDone.map bkey).nodup hnd
    have spec := flushDeferred_spec s.bufs s.out s.p.tab hbn
    simp only at spec
    obtain ⟨f1, f2, f3⟩ := spec
    refine ⟨?_, by simp [stepB, EvB.toEv, PqModel.BloomPlace.step], List.nil_sublist _, ?_⟩
    · simp only [stepB, EvB.toEv, PqModel.BloomPlace.step, inv.defer, inv.off]
      exact f1
    · intro b hb
      right
      simp only [stepB, EvB.toEv, PqModel.BloomPlace.step, inv.defer, inv.off]
      by_cases hin : b ∈ s.bufs
      · exact f2 b hin
      · rcases inv.placed b hb with h | h
        · exact absurd h hin
        · have hno : ∀ b' ∈ s.bufs, bkey b' ≠ (b.1, b.2.1) := by
            intro b' hb' he
            have := key_inj_of_nodup hnd (inv.bufsDone.subset hb') hb he
            exact hin (this ▸ hb')
          obtain ⟨l, h1, h2, h3, h4⟩ := h.grow (s.bufs.flatMap (·.2.2))
          exact ⟨l, by rw [f3 b.1 b.2.1 hno]; exact h1, h2, h3, h4⟩

theorem filtersOf_cons (e : EvB) (es : List EvB) : filtersOf (e :: es) = filtersOf [e] ++ filtersOf es := by
  cases e <;> rfl

theorem filtersOf_append (es es' : List EvB) : filtersOf (es ++ es') = filtersOf es ++ filtersOf es' := by
  induction es with
  | nil => rfl
  | cons e es ih => rw [List.cons_append, filtersOf_cons, ih, filtersOf_cons e es, List.append_assoc]

theorem InvB.run : ∀ (evs : List EvB) (s : BState) (done : List Buffered), InvB s done →
    ((done ++ filtersOf evs).map bkey).Nodup → InvB (runB s evs) (done ++ filtersOf evs) := by
  intro evs
  induction evs with
  | nil => intro s done inv _; simpa [runB, filtersOf] using inv
  | cons e es ih =>
    intro s done inv hnd
    rw [filtersOf_cons, ← List.append_assoc] at hnd ⊢
    have hnd1 : ((done ++ filtersOf [e]).map bkey).Nodup :=
      ((List.sublist_append_left _ _).map bkey).nodup hnd
    exact ih (stepB s e) _ (inv.step e hnd1) hnd

theorem InvB.init : InvB binit [] :=
  ⟨rfl, rfl, List.Sublist.refl _, by intro b hb; cases hb⟩

/-- what `Close` leaves: all events, then `writeDeferredBloomFilters` -/
def closed (evs : List EvB) : BState := runB binit (evs ++ [.flush])

theorem closed_bufs (evs : List EvB) : (closed evs).bufs = [] := by
  simp [closed, runB, List.foldl_append, stepB]

/-! ## 3. the bytes of one section, and reading them back -/

def unionOf (k : Nat) : WVal := .struct [({ id := k }, .struct [])]

/-- the `format.BloomFilterHeader` the writer encodes (`bloomFilterHeader`, bloom.go): NumBytes,
    SplitBlockAlgorithm, XxHash, Uncompressed | Gzip (union members 1 | 2) -/
def headerTree (numBytes : Nat) (gzip : Bool) : List (FMeta × WVal) :=
  [ ({ id := 1, required := true }, .i32 numBytes),
    ({ id := 2, required := true }, unionOf 1),
    ({ id := 3, required := true }, unionOf 1),
    ({ id := 4, required := true }, unionOf (if gzip then 2 else 1)) ]

/-- MIRROR: the compact-protocol bytes of the header (`thrift.NewEncoder(...).Encode(&h)`) -/
def headerBytes (numBytes : Nat) (gzip : Bool) : List UInt8 := writeStruct (headerTree numBytes gzip)

def unionTag : Option TVal → Option Nat
  | some (.struct ((k, _) :: _)) => some k
  | _ => none

/-- SPEC reading of the header tree + MIRROR of `isSplitBlockAlgorithm`, `isXxHash` and the
    compression switch of `newBloomFilter`: anything else gives no filter -/
def headerOfTree (t : TVal) : Option (Nat × Bool) :=
  match TVal.int? (t.field? 1), unionTag (t.field? 2), unionTag (t.field? 3), unionTag (t.field? 4) with
  | some n, some 1, some 1, some 1 => if 0 ≤ n then some (n.toNat, false) else none
  | some n, some 1, some 1, some 2 => if 0 ≤ n then some (n.toNat, true) else none
  | _, _, _, _ => none

def parseHeader (file : ByteArray) (pos : Nat) : Option ((Nat × Bool) × Nat) :=
  match readStruct file pos with
  | .ok (t, pos') => (headerOfTree t).map (·, pos')
  | .error _ => none

theorem parseHeader_headerBytes (nb : Nat) (gz : Bool) (hnb : nb < 2147483648) (pre rest : List UInt8) :
    parseHeader ⟨(pre ++ (headerBytes nb gz ++ rest)).toArray⟩ pre.length =
      some ((nb, gz), pre.length + (headerBytes nb gz).length) := by
  have hw : WfF 0 (headerTree nb gz) = true := by
    cases gz <;> simp [headerTree, unionOf, WfF, WfT, FMeta.omitted] <;> omega
  unfold parseHeader headerBytes
  rw [readStruct_writeStruct _ _ _ hw]
  cases gz <;>
    simp [headerOfTree, headerTree, unionOf, eraseF, erase, FMeta.omitted, TVal.field?, TVal.int?, unionTag]

theorem putUvarint_length_le : ∀ (f x : Nat), (putUvarint f x).length ≤ f + 1
  | 0, x => by simp [putUvarint]
  | f + 1, x => by
    unfold putUvarint
    split
    · simp
    · have := putUvarint_length_le f (x / 128)
      simp only [List.length_cons]; omega

theorem headerBytes_length_lt (nb : Nat) (gz : Bool) : (headerBytes nb gz).length < 64 := by
  have := putUvarint_length_le 9 (PqModel.Delta.zigzag64 (BitVec.ofNat 64 nb))
  cases gz <;>
    simp [headerBytes, headerTree, unionOf, writeStruct, writeFields, writeVal, fieldHeader, fcode, FMeta.omitted,
      varintBytes, uvarintBytes] <;> omega

/-- MIRROR `writeBloomFilter`, writer.go:2455-2475 and 2501-2506 (unencrypted): header with `NumBytes = len(filterBytes)`, then the bytes -/
def plainSection (s : Stored) : List UInt8 :=
  headerBytes s.numBytes (s.compression == .gzip) ++ s.payload

/-- MIRROR `readBloomFilter` (file.go:1072-1083, unencrypted branch) + `newBloomFilter` (bloom.go:79-127): the header is decoded
    at `BloomFilterOffset`; the filter is the section of `NumBytes` bytes that follows it. -/
def readFilterAt (file : List UInt8) (off : Nat) : Option Stored :=
  match parseHeader ⟨file.toArray⟩ off with
  | some ((nb, gz), pos) =>
    some { compression := if gz then .gzip else .uncompressed, numBytes := nb, payload := file.drop pos }
  | none => none

theorem store_numBytes (enc : List UInt8 → List UInt8) (gz : Bool) (filter : List UInt8) :
    (store enc gz filter).numBytes = (store enc gz filter).payload.length := by
  cases gz <;> rfl

theorem store_compression (enc : List UInt8 → List UInt8) (gz : Bool) (filter : List UInt8) :
    ((store enc gz filter).compression == .gzip) = gz := by
  cases gz <;> rfl

theorem readCheck_more_payload (dec : List UInt8 → Option (List UInt8)) (s : Stored) (rest : List UInt8)
    (hn : s.numBytes = s.payload.length) (h : BitVec 64) :
    readCheck dec { s with payload := s.payload ++ rest } h = readCheck dec s h := by
  simp only [readCheck, hn, List.take_left' rfl, List.take_length]

/-- reading at the start of a plain section gives back the stored filter's answers -/
theorem read_plain_section (enc : List UInt8 → List UInt8) (dec : List UInt8 → Option (List UInt8))
    (gz : Bool) (filter : List UInt8) (hsz : (store enc gz filter).numBytes < 2147483648)
    (pre rest : List UInt8) (h : BitVec 64) :
    (readFilterAt (pre ++ (plainSection (store enc gz filter) ++ rest)) pre.length).bind
        (fun s => readCheck dec s h) = readCheck dec (store enc gz filter) h := by
  unfold readFilterAt plainSection
  rw [List.append_assoc, parseHeader_headerBytes _ _ hsz]
  simp only [Option.bind_some]
  rw [← List.append_assoc pre, List.drop_left' (by simp)]
  have := readCheck_more_payload dec (store enc gz filter) rest (store_numBytes enc gz filter) h
  rw [← this]
  cases gz <;> rfl

/-! ### encrypted columns: two AES-GCM module envelopes -/

def le32 (n : Nat) : List UInt8 :=
  [UInt8.ofNat (n % 256), UInt8.ofNat (n / 256 % 256), UInt8.ofNat (n / 65536 % 256), UInt8.ofNat (n / 16777216 % 256)]

/-- MIRROR `encryptModule`, encrypt.go:170-195: 4-byte little-endian length of `nonce ‖ ciphertext ‖ tag`, then that -/
def envelope (body : List UInt8) : List UInt8 := le32 body.length ++ body

/-- MIRROR `readDecryptedEnvelopeFrom` (file.go:1532-1544) + the length checks of `decryptModule`
    (encrypt.go:201-211):
    the module body and what follows it -/
def readEnvelope (bs : List UInt8) : Option (List UInt8 × List UInt8) :=
  match bs with
  | b0 :: b1 :: b2 :: b3 :: rest =>
    let n := b0.toNat + 256 * b1.toNat + 65536 * b2.toNat + 16777216 * b3.toNat
    if n ≤ rest.length ∧ 28 ≤ n then some (rest.take n, rest.drop n) else none
  | _ => none

theorem readEnvelope_envelope (body rest : List UInt8) (h1 : 28 ≤ body.length) (h2 : body.length < 4294967296) :
    readEnvelope (envelope body ++ rest) = some (body, rest) := by
  have e : ∀ x, (UInt8.ofNat x).toNat = x % 256 := fun x => by simp
  simp only [envelope, le32, List.cons_append, List.nil_append, readEnvelope, e]
  have hn : body.length % 256 % 256 + 256 * (body.length / 256 % 256 % 256) +
      65536 * (body.length / 65536 % 256 % 256) + 16777216 * (body.length / 16777216 % 256 % 256) = body.length := by
    omega
  rw [hn]
  simp only [List.length_append, Nat.le_add_right, h1, and_self, if_true, List.take_left' rfl, List.drop_left' rfl]

/-- AES-GCM under the key of the column and the AAD of the module (`bits` = bitset module, else header
    module; row group and column ordinals): `sealM` gives nonce ‖ ciphertext ‖ tag. Not modelled. -/
structure Aead where
  sealM : Bool → Nat → Nat → List UInt8 → List UInt8
  openM : Bool → Nat → Nat → List UInt8 → Option (List UInt8)

/-- ASSUMPTION on AES-GCM: opening what was sealed under the same AAD gives it back; 12-byte nonce and
    16-byte tag around a ciphertext as long as the plaintext -/
structure AeadOk (a : Aead) : Prop where
  roundTrip : ∀ m rg col p, a.openM m rg col (a.sealM m rg col p) = some p
  length : ∀ m rg col p, (a.sealM m rg col p).length = p.length + 28

/-- MIRROR `writeBloomFilter`, writer.go:2477-2499 (encrypted column): header module, then bitset module -/
def encSection (a : Aead) (rg col : Nat) (s : Stored) : List UInt8 :=
  envelope (a.sealM false rg col (headerBytes s.numBytes (s.compression == .gzip))) ++
    envelope (a.sealM true rg col s.payload)

/-- MIRROR `readBloomFilter` (file.go:1055-1070, `c.decryptionKey != nil`) + `newBloomFilterFromBytes` (bloom.go:134-163) +
    `FileBloomFilter.Check`: both modules are opened, a gzip bitset is decompressed eagerly, the filter
    is probed with the length of the (decompressed) bitset. `sizeOf` is that choice of size (the
    code: the length of the bytes probed). -/
def readEncCheckWith (sizeOf : Nat → List UInt8 → Nat) (a : Aead) (dec : List UInt8 → Option (List UInt8))
    (rg col : Nat) (file : List UInt8) (off : Nat) (h : BitVec 64) : Option Bool :=
  match readEnvelope (file.drop off) with
  | none => none
  | some (hdrBody, rest1) =>
    match a.openM false rg col hdrBody with
    | none => none
    | some hdrPlain =>
      match parseHeader ⟨hdrPlain.toArray⟩ 0 with
      | none => none
      | some ((nb, gz), _) =>
        match readEnvelope rest1 with
        | none => none
        | some (bitsBody, _) =>
          match a.openM true rg col bitsBody with
          | none => none
          | some bits =>
            if gz then
              match dec bits with
              | some d => some (checkSplitBlock d (sizeOf nb d) h)
              | none => none
            else some (checkSplitBlock bits bits.length h)

/-- length of an encrypted section: two envelopes, each 4 + 12 + plaintext + 16 bytes -/
def encSectionLength (numBytes : Nat) (gzip : Bool) : Nat :=
  (4 + ((headerBytes numBytes gzip).length + 28)) + (4 + (numBytes + 28))

theorem encSection_length (a : Aead) (ok : AeadOk a) (rg col : Nat) (s : Stored) (hn : s.numBytes = s.payload.length) :
    (encSection a rg col s).length = encSectionLength s.numBytes (s.compression == .gzip) := by
  simp only [encSection, envelope, le32, List.length_append, List.length_cons, List.length_nil, ok.length,
    encSectionLength, hn]

def readEncCheck := readEncCheckWith (fun _ d => d.length)

/-- the SEEDED slip (C07-3a): the gzip branch sizes the filter by `header.NumBytes` (the compressed length) -/
def readEncCheckCompressedSize := readEncCheckWith (fun nb _ => nb)

theorem read_enc_section_with (sizeOf : Nat → List UInt8 → Nat) (a : Aead) (ok : AeadOk a)
    (enc : List UInt8 → List UInt8) (dec : List UInt8 → Option (List UInt8))
    (gz : Bool) (filter : List UInt8) (hsz : (store enc gz filter).numBytes < 2147483648)
    (rg col : Nat) (pre rest : List UInt8) (h : BitVec 64) :
    readEncCheckWith sizeOf a dec rg col (pre ++ (encSection a rg col (store enc gz filter) ++ rest)) pre.length h =
      (if gz then
        match dec (enc filter) with
        | some d => some (checkSplitBlock d (sizeOf (enc filter).length d) h)
        | none => none
      else some (checkSplitBlock filter filter.length h)) := by
  have hl1 := ok.length false rg col (headerBytes (store enc gz filter).numBytes ((store enc gz filter).compression == .gzip))
  have hl2 := ok.length true rg col (store enc gz filter).payload
  have hpl := store_numBytes enc gz filter
  have hb := headerBytes_length_lt (store enc gz filter).numBytes ((store enc gz filter).compression == .gzip)
  unfold readEncCheckWith encSection
  rw [List.drop_left' rfl, List.append_assoc, readEnvelope_envelope _ _ (by omega) (by omega)]
  simp only [ok.roundTrip]
  have hp := parseHeader_headerBytes (store enc gz filter).numBytes ((store enc gz filter).compression == .gzip) hsz [] []
  simp only [List.nil_append, List.append_nil, List.length_nil, Nat.zero_add] at hp
  rw [hp]
  simp only
  rw [readEnvelope_envelope _ _ (by omega) (by omega)]
  simp only [ok.roundTrip, store_compression]
  cases gz <;> simp [store]

end PqModel.BloomPlace
