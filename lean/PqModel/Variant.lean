/-!
# Variant binary encoding (property C19)

* `Value`, `Prim`: the variant value tree (nested inductive; objects are insertion-ordered field
  lists, exactly what `variant.MakeObject` receives; equality "up to field order" is equality of
  `canon`, the key-sorted normal form).
* MIRROR (transliterates `variant/encoding.go`, `variant/metadata.go`, `variant/types.go`):
  `offsetSizeCode`, `leN` (= `writeUint`), `encPrim`, `buildArray`, `buildObject`, `enc`,
  `metaOf` (= the `MetadataBuilder.Add` calls of the encoder, in DFS order), `encodeMeta`
  (= `MetadataBuilder.AppendTo`).
* SPEC (written from the Parquet Variant encoding format — header byte = basic_type in the low two
  bits and a 6-bit value_header; little-endian sizes, offsets and field ids; self-delimiting
  values; the reader rules quoted in the Go comments): `utf8Valid`, `decPrim`, `decArrayWith`,
  `decObjectWith`, `decodeF`/`decode`, `decodeMeta`.

Everything is total; the decoder recurses on explicit fuel (`data.length + 1` at top level).
-/
namespace PqModel.Variant

abbrev Bytes := List UInt8
abbrev Key := Bytes
/-- metadata dictionary: the interned field names in id order -/
abbrev Dict := List Key

/-- Primitive payloads. Fixed-width payloads carry the raw bits (two's complement / IEEE bits). -/
inductive Prim
  | null
  | bool (b : Bool)
  | int8 (x : BitVec 8)
  | int16 (x : BitVec 16)
  | int32 (x : BitVec 32)
  | int64 (x : BitVec 64)
  | double (x : BitVec 64)
  | dec4 (scale : UInt8) (x : BitVec 32)
  | dec8 (scale : UInt8) (x : BitVec 64)
  | dec16 (scale : UInt8) (x : BitVec 128)
  | date (x : BitVec 32)
  | ts (x : BitVec 64)
  | tsNtz (x : BitVec 64)
  | float (x : BitVec 32)
  | binary (b : Bytes)
  | string (s : Bytes)
  | time (x : BitVec 64)
  | tsNanos (x : BitVec 64)
  | tsNtzNanos (x : BitVec 64)
  | uuid (x : BitVec 128)
  deriving DecidableEq

inductive Value
  | prim (p : Prim)
  | arr (es : List Value)
  | obj (fs : List (Key × Value))

/-! ## little-endian integers -/

/-- MIRROR metadata.go:260-273 `writeUint` (truncating, `k` bytes, little-endian). -/
def leN : Nat → Nat → Bytes
  | 0, _ => []
  | k + 1, n => UInt8.ofNat (n % 256) :: leN k (n / 256)

/-- SPEC: value of a little-endian byte string. -/
def unLE : Bytes → Nat
  | [] => 0
  | b :: bs => b.toNat + 256 * unLE bs

/-- `fits w n`: `n` is representable in `w` bytes. -/
def fits (w n : Nat) : Prop := n < 256 ^ w

instance (w n : Nat) : Decidable (fits w n) := by unfold fits; infer_instance

/-- MIRROR types.go:79-90 `offsetSizeCode`. -/
def offsetSizeCode (maxVal : Nat) : Nat :=
  if maxVal ≤ 0xFF then 0 else if maxVal ≤ 0xFFFF then 1 else if maxVal ≤ 0xFFFFFF then 2 else 3

/-- width in bytes chosen for values up to `maxVal` (`offsetSize (offsetSizeCode maxVal)`). -/
def widthOf (maxVal : Nat) : Nat := offsetSizeCode maxVal + 1

/-! ## key order, sorting -/

/-- byte-wise lexicographic `<` (Go string comparison). -/
def keyLt : Key → Key → Bool
  | [], [] => false
  | [], _ :: _ => true
  | _ :: _, [] => false
  | a :: as, b :: bs => if a < b then true else if b < a then false else keyLt as bs

/-- insertion into a list sorted by `key` (before the first element that is not smaller). -/
def insertBy {α : Type} (key : α → Key) (a : α) : List α → List α
  | [] => [a]
  | b :: bs => if keyLt (key b) (key a) then b :: insertBy key a bs else a :: b :: bs

/-- MIRROR encoding.go:400-402 `sort.Slice(entries, name <)`: any comparison sort gives this
    result when the names are pairwise distinct (which `wf` demands; with duplicate names Go's
    unstable sort is unspecified and the decoder rejects the object anyway). -/
def isort {α : Type} (key : α → Key) : List α → List α
  | [] => []
  | a :: as => insertBy key a (isort key as)

/-! ## MIRROR: encoder -/

/-- MIRROR encoding.go:163-166 `makeHeader`: `byte(basic) | (valueHeader << 2)` on a byte. -/
def mkHeader (basic vh : Nat) : UInt8 := UInt8.ofNat (basic + 4 * (vh % 64))

def beN (k n : Nat) : Bytes := (leN k n).reverse

/-- MIRROR encoding.go:51-161 `encodePrimitive` (= `encodeValuePrimitive`, 250-325). -/
def encPrim : Prim → Bytes
  | .null => [mkHeader 0 0]
  | .bool true => [mkHeader 0 1]
  | .bool false => [mkHeader 0 2]
  | .int8 x => mkHeader 0 3 :: leN 1 x.toNat
  | .int16 x => mkHeader 0 4 :: leN 2 x.toNat
  | .int32 x => mkHeader 0 5 :: leN 4 x.toNat
  | .int64 x => mkHeader 0 6 :: leN 8 x.toNat
  | .double x => mkHeader 0 7 :: leN 8 x.toNat
  | .dec4 s x => mkHeader 0 8 :: s :: leN 4 x.toNat
  | .dec8 s x => mkHeader 0 9 :: s :: leN 8 x.toNat
  | .dec16 s x => mkHeader 0 10 :: s :: leN 16 x.toNat
  | .date x => mkHeader 0 11 :: leN 4 x.toNat
  | .ts x => mkHeader 0 12 :: leN 8 x.toNat
  | .tsNtz x => mkHeader 0 13 :: leN 8 x.toNat
  | .float x => mkHeader 0 14 :: leN 4 x.toNat
  | .binary b => mkHeader 0 15 :: (leN 4 b.length ++ b)
  | .string s =>
    if s.length ≤ 63 then mkHeader 1 s.length :: s
    else mkHeader 0 16 :: (leN 4 s.length ++ s)
  | .time x => mkHeader 0 17 :: leN 8 x.toNat
  | .tsNanos x => mkHeader 0 18 :: leN 8 x.toNat
  | .tsNtzNanos x => mkHeader 0 19 :: leN 8 x.toNat
  | .uuid x => mkHeader 0 20 :: beN 16 x.toNat

/-- running start offsets `acc, acc+l0, acc+l0+l1, …` (one per element, without the end). -/
def startsOf : Nat → List Nat → List Nat
  | _, [] => []
  | acc, l :: ls => acc :: startsOf (acc + l) ls

/-- the `n+1` offsets written by `buildArrayBytes`/`buildObjectBytes`. -/
def offsetsOf (lens : List Nat) : List Nat := startsOf 0 lens ++ [lens.sum]

def numElems (n : Nat) : Bytes := if n > 255 then leN 4 n else leN 1 n

/-- MIRROR encoding.go:533-612 `buildArrayBytes`: `children` are the encoded elements. -/
def buildArray (children : List Bytes) : Bytes :=
  let n := children.length
  let lens := children.map List.length
  let total := lens.sum
  let code := offsetSizeCode total
  let large := if n > 255 then 1 else 0
  UInt8.ofNat (3 + 4 * code + 16 * large) ::
    (numElems n ++ ((offsetsOf lens).flatMap (leN (code + 1)) ++ children.flatten))

/-- one object field after encoding (encoding.go:235-240 `encodedField`). -/
structure Entry where
  id : Nat
  name : Key
  bytes : Bytes

/-- MIRROR encoding.go:735-838 `buildObjectBytes`: `entries` already sorted by name. -/
def buildObject (entries : List Entry) : Bytes :=
  let n := entries.length
  let maxID := (entries.map (·.id)).foldl max 0
  let lens := entries.map (·.bytes.length)
  let total := lens.sum
  let idCode := offsetSizeCode maxID
  let code := offsetSizeCode total
  let large := if n > 255 then 1 else 0
  UInt8.ofNat (2 + 4 * code + 16 * idCode + 64 * large) ::
    (numElems n ++ ((entries.map (·.id)).flatMap (leN (idCode + 1)) ++
      ((offsetsOf lens).flatMap (leN (code + 1)) ++ (entries.map (·.bytes)).flatten)))

/-- MIRROR metadata.go:120-142 `MetadataBuilder.Add` seen from outside: index of `k`. -/
def findIdx (k : Key) : Dict → Nat
  | [] => 0
  | x :: xs => if x = k then 0 else findIdx k xs + 1

mutual
/-- MIRROR encoding.go:18-48 `Encode` / 327-407 `encodeValue`, `encodeValueArray`,
    `encodeValueObject`, with the dictionary ids looked up in the final dictionary `d`
    (ids returned by `Add` are stable, so this equals the id returned while encoding). -/
def enc (d : Dict) : Value → Bytes
  | .prim p => encPrim p
  | .arr es => buildArray (encList d es)
  | .obj fs => buildObject (isort (·.name) (encFields d fs))
def encList (d : Dict) : List Value → List Bytes
  | [] => []
  | e :: es => enc d e :: encList d es
def encFields (d : Dict) : List (Key × Value) → List Entry
  | [] => []
  | (k, v) :: fs => ⟨findIdx k d, k, enc d v⟩ :: encFields d fs
end

def addKey (d : Dict) (k : Key) : Dict := if k ∈ d then d else d ++ [k]

mutual
/-- MIRROR: the sequence of `e.b.Add(f.Name)` calls of `encodeValueObject` (encoding.go:385-398):
    each field name is interned, then the field value is encoded (depth first), in field order. -/
def collect : Dict → Value → Dict
  | d, .prim _ => d
  | d, .arr es => collectList d es
  | d, .obj fs => collectFields d fs
def collectList : Dict → List Value → Dict
  | d, [] => d
  | d, e :: es => collectList (collect d e) es
def collectFields : Dict → List (Key × Value) → Dict
  | d, [] => d
  | d, (k, v) :: fs => collectFields (collect (addKey d k) v) fs
end

mutual
/-- MIRROR, literal one-pass form of `encodeValue`/`encodeValueArray`/`encodeValueObject`
    (encoding.go:327-407): the `MetadataBuilder` is threaded through the traversal, `Add` returns the
    index of the (possibly new) name, children are encoded in field order, then the entries are
    sorted by name. `encSt_eq` (VariantLemmas) shows it equals the two-pass form `(collect, enc)`. -/
def encSt : Dict → Value → Dict × Bytes
  | d, .prim p => (d, encPrim p)
  | d, .arr es =>
    let r := encStList d es
    (r.1, buildArray r.2)
  | d, .obj fs =>
    let r := encStFields d fs
    (r.1, buildObject (isort (·.name) r.2))
def encStList : Dict → List Value → Dict × List Bytes
  | d, [] => (d, [])
  | d, e :: es =>
    let r1 := encSt d e
    let r2 := encStList r1.1 es
    (r2.1, r1.2 :: r2.2)
def encStFields : Dict → List (Key × Value) → Dict × List Entry
  | d, [] => (d, [])
  | d, (k, v) :: fs =>
    let d0 := addKey d k
    let r1 := encSt d0 v
    let r2 := encStFields r1.1 fs
    (r2.1, ⟨findIdx k d0, k, r1.2⟩ :: r2.2)
end

/-- the dictionary a fresh `MetadataBuilder` holds after `Encode(&b, v)`. -/
def metaOf (v : Value) : Dict := collect [] v

def encode (d : Dict) (v : Value) : Bytes := enc d v

/-- MIRROR metadata.go:127-129: the builder's `unsorted` flag — some entry compares below its
    predecessor. -/
def sortedFlag : Dict → Bool
  | a :: b :: rest => !(keyLt b a) && sortedFlag (b :: rest)
  | _ => true

/-- MIRROR metadata.go:188-224 `MetadataBuilder.AppendTo`. -/
def encodeMeta (d : Dict) : Bytes :=
  let n := d.length
  let lens := d.map List.length
  let total := lens.sum
  let osc := offsetSizeCode (max total n)
  let w := osc + 1
  UInt8.ofNat (1 + 16 * (if sortedFlag d then 1 else 0) + 64 * osc) ::
    (leN w n ++ ((offsetsOf lens).flatMap (leN w) ++ d.flatten))

/-! ## SPEC: decoder -/

def isCont (b : UInt8) : Bool := 0x80 ≤ b && b ≤ 0xBF

/-- SPEC (RFC 3629 / Unicode table 3-7): well-formed UTF-8 byte sequences — no overlong forms,
    no surrogates, nothing above U+10FFFF. -/
def utf8Valid : Bytes → Bool
  | [] => true
  | b0 :: rest =>
    if b0 < 0x80 then utf8Valid rest
    else if b0 < 0xC2 then false
    else if b0 < 0xE0 then
      match rest with
      | b1 :: r => isCont b1 && utf8Valid r
      | _ => false
    else if b0 < 0xF0 then
      match rest with
      | b1 :: b2 :: r =>
        (if b0 = 0xE0 then 0xA0 ≤ b1 && b1 ≤ 0xBF
         else if b0 = 0xED then 0x80 ≤ b1 && b1 ≤ 0x9F
         else isCont b1) && isCont b2 && utf8Valid r
      | _ => false
    else if b0 < 0xF5 then
      match rest with
      | b1 :: b2 :: b3 :: r =>
        (if b0 = 0xF0 then 0x90 ≤ b1 && b1 ≤ 0xBF
         else if b0 = 0xF4 then 0x80 ≤ b1 && b1 ≤ 0x8F
         else isCont b1) && isCont b2 && isCont b3 && utf8Valid r
      | _ => false
    else false

/-- read `k` bytes as a little-endian unsigned integer. -/
def readUInt (k : Nat) (bs : Bytes) : Option (Nat × Bytes) :=
  if k ≤ bs.length then some (unLE (bs.take k), bs.drop k) else none

def readMany (k : Nat) : Nat → Bytes → Option (List Nat × Bytes)
  | 0, bs => some ([], bs)
  | n + 1, bs =>
    match readUInt k bs with
    | none => none
    | some (x, r) =>
      match readMany k n r with
      | none => none
      | some (xs, r') => some (x :: xs, r')

/-- cut `data` at consecutive offsets: slice `i` is `[offs[i], offs[i+1])`; offsets must be
    non-decreasing and inside the data. -/
def sliceAll (data : Bytes) : List Nat → Option (List Bytes)
  | a :: b :: rest =>
    if a ≤ b ∧ b ≤ data.length then
      match sliceAll data (b :: rest) with
      | some ss => some ((data.drop a).take (b - a) :: ss)
      | none => none
    else none
  | _ => some []

def allOk {α : Type} : List (Except String α) → Except String (List α)
  | [] => .ok []
  | .ok a :: rest =>
    match allOk rest with
    | .ok as => .ok (a :: as)
    | .error e => .error e
  | .error e :: _ => .error e

def allSome {α : Type} : List (Option α) → Option (List α)
  | [] => some []
  | some a :: rest =>
    match allSome rest with
    | some as => some (a :: as)
    | none => none
  | none :: _ => none

/-- the fixed-width payload of `k` bytes after the header -/
def fixed (k : Nat) (body : Bytes) : Except String Nat :=
  match readUInt k body with
  | some (x, _) => .ok x
  | none => .error "truncated"

/-- length-prefixed payload (4-byte little-endian length) -/
def lenPrefixed (body : Bytes) : Except String Bytes :=
  match readUInt 4 body with
  | none => .error "truncated"
  | some (n, r) => if n ≤ r.length then .ok (r.take n) else .error "truncated"

/-- SPEC: primitive of type id `t` (the 6-bit value_header of basic_type 0); table of primitive
    type ids 0..20 and their payload layouts. -/
def decPrim (t : Nat) (body : Bytes) : Except String Prim :=
  match t with
  | 0 => .ok .null
  | 1 => .ok (.bool true)
  | 2 => .ok (.bool false)
  | 3 => (fixed 1 body).map fun n => .int8 (BitVec.ofNat 8 n)
  | 4 => (fixed 2 body).map fun n => .int16 (BitVec.ofNat 16 n)
  | 5 => (fixed 4 body).map fun n => .int32 (BitVec.ofNat 32 n)
  | 6 => (fixed 8 body).map fun n => .int64 (BitVec.ofNat 64 n)
  | 7 => (fixed 8 body).map fun n => .double (BitVec.ofNat 64 n)
  | 8 =>
    match body with
    | s :: r => (fixed 4 r).map fun n => .dec4 s (BitVec.ofNat 32 n)
    | [] => .error "truncated"
  | 9 =>
    match body with
    | s :: r => (fixed 8 r).map fun n => .dec8 s (BitVec.ofNat 64 n)
    | [] => .error "truncated"
  | 10 =>
    match body with
    | s :: r => (fixed 16 r).map fun n => .dec16 s (BitVec.ofNat 128 n)
    | [] => .error "truncated"
  | 11 => (fixed 4 body).map fun n => .date (BitVec.ofNat 32 n)
  | 12 => (fixed 8 body).map fun n => .ts (BitVec.ofNat 64 n)
  | 13 => (fixed 8 body).map fun n => .tsNtz (BitVec.ofNat 64 n)
  | 14 => (fixed 4 body).map fun n => .float (BitVec.ofNat 32 n)
  | 15 => (lenPrefixed body).map .binary
  | 16 =>
    match lenPrefixed body with
    | .ok s => if utf8Valid s then .ok (.string s) else .error "utf8"
    | .error e => .error e
  | 17 => (fixed 8 body).map fun n => .time (BitVec.ofNat 64 n)
  | 18 => (fixed 8 body).map fun n => .tsNanos (BitVec.ofNat 64 n)
  | 19 => (fixed 8 body).map fun n => .tsNtzNanos (BitVec.ofNat 64 n)
  | 20 =>
    if 16 ≤ body.length then .ok (.uuid (BitVec.ofNat 128 (unLE (body.take 16).reverse)))
    else .error "truncated"
  | _ => .error "unknown-primitive"

/-- SPEC: short string, `len` = value_header (0..63) -/
def decShort (len : Nat) (body : Bytes) : Except String Prim :=
  if len ≤ body.length then
    if utf8Valid (body.take len) then .ok (.string (body.take len)) else .error "utf8"
  else .error "truncated"

/-- SPEC: array. value_header = `is_large << 2 | offset_size_minus_one`; `num_elements` (1 or 4
    bytes), `num_elements+1` offsets, then the element values; element `i` occupies
    `[offset[i], offset[i+1])` of the value area. `dec` decodes one nested value. -/
def decArrayWith (dec : Bytes → Except String Value) (vh : Nat) (body : Bytes) :
    Except String Value :=
  let w := vh % 4 + 1
  let large := (vh / 4) % 2
  match readUInt (if large = 1 then 4 else 1) body with
  | none => .error "truncated"
  | some (n, r1) =>
    if r1.length / w ≤ n then .error "count" else
    match readMany w (n + 1) r1 with
    | none => .error "truncated"
    | some (offs, r3) =>
      match sliceAll r3 offs with
      | none => .error "offset"
      | some slices =>
        match allOk (slices.map dec) with
        | .ok vs => .ok (.arr vs)
        | .error e => .error e

/-- SPEC: object. value_header = `is_large << 4 | field_id_size_minus_one << 2 |
    field_offset_size_minus_one`; `num_elements`, the field ids, `num_elements+1` offsets (the last
    one is the size of the value area), then the values. Field `i` starts at `offset[i]` and is
    self-delimiting (offsets need not be monotone); names come from the dictionary and must be
    pairwise distinct. -/
def decObjectWith (dec : Bytes → Except String Value) (d : Dict) (vh : Nat) (body : Bytes) :
    Except String Value :=
  let offW := vh % 4 + 1
  let idW := (vh / 4) % 4 + 1
  let large := (vh / 16) % 2
  match readUInt (if large = 1 then 4 else 1) body with
  | none => .error "truncated"
  | some (n, r1) =>
    if r1.length / (idW + offW) < n then .error "count" else
    match readMany idW n r1 with
    | none => .error "truncated"
    | some (ids, r2) =>
      match readMany offW (n + 1) r2 with
      | none => .error "truncated"
      | some (offs, r3) =>
        let total := offs.getLastD 0
        if total > r3.length then .error "offset" else
        let region := r3.take total
        match allSome (ids.map (d[·]?)) with
        | none => .error "field-id"
        | some names =>
          if ¬ names.Nodup then .error "duplicate-field" else
          match allOk ((offs.take n).map fun o => dec (region.drop o)) with
          | .ok vs => .ok (.obj (names.zip vs))
          | .error e => .error e

/-- SPEC: one value = header byte (basic_type in the low two bits, value_header in the upper six)
    followed by the payload. -/
def decodeF : Nat → Dict → Bytes → Except String Value
  | 0, _, _ => .error "depth"
  | fuel + 1, d, data =>
    match data with
    | [] => .error "empty"
    | h :: body =>
      let vh := h.toNat / 4
      match h.toNat % 4 with
      | 0 => (decPrim vh body).map .prim
      | 1 => (decShort vh body).map .prim
      | 2 => decObjectWith (decodeF fuel d) d vh body
      | _ => decArrayWith (decodeF fuel d) vh body

/-- SPEC decoder of a value against a dictionary. Every nesting level consumes at least two bytes,
    so `data.length + 1` levels of fuel are never exhausted. -/
def decode (d : Dict) (data : Bytes) : Except String Value := decodeF (data.length + 1) d data

/-- decoded metadata -/
structure Meta where
  strings : Dict
  sorted : Bool
  deriving DecidableEq

/-- SPEC: metadata = header (version in bits 0-3, must be 1; sorted_strings bit 4;
    offset_size_minus_one bits 6-7), dictionary_size, dictionary_size+1 offsets, string bytes. -/
def decodeMeta (data : Bytes) : Except String Meta :=
  match data with
  | [] => .error "empty"
  | h :: body =>
    if h.toNat % 16 ≠ 1 then .error "version" else
    let sorted := (h.toNat / 16) % 2 = 1
    let w := h.toNat / 64 + 1
    match readUInt w body with
    | none => .error "truncated"
    | some (n, r1) =>
      if r1.length / w ≤ n then .error "count" else
      match readMany w (n + 1) r1 with
      | none => .error "truncated"
      | some (offs, r3) =>
        match sliceAll r3 offs with
        | none => .error "offset"
        | some strs =>
          if strs.all utf8Valid then .ok ⟨strs, sorted⟩ else .error "utf8"

/-- MIRROR value.go:74-76 `Float` + encoding.go:81 `math.Float32bits(float32(v.f64))`: a float32 is kept
    as float64 inside `variant.Value`; widening and narrowing again keeps every bit pattern except that
    the conversion instructions (amd64 CVTSS2SD, arm64 FCVT) set the quiet bit of a signalling NaN. -/
def goFloat32Image (x : BitVec 32) : BitVec 32 :=
  if x &&& 0x7f800000#32 = 0x7f800000#32 ∧ x &&& 0x007fffff#32 ≠ 0#32 then x ||| 0x00400000#32 else x

/-! ## key-sorted normal form, depth, well-formedness -/

mutual
/-- normal form: object fields sorted by key at every level. Two values are equal up to field
    order (Go `Value.Equal`) iff their normal forms are equal. -/
def canon : Value → Value
  | .prim p => .prim p
  | .arr es => .arr (canonList es)
  | .obj fs => .obj (isort (·.1) (canonFields fs))
def canonList : List Value → List Value
  | [] => []
  | e :: es => canon e :: canonList es
def canonFields : List (Key × Value) → List (Key × Value)
  | [] => []
  | (k, v) :: fs => (k, canon v) :: canonFields fs
end

mutual
def depth : Value → Nat
  | .prim _ => 0
  | .arr es => depthList es + 1
  | .obj fs => depthFields fs + 1
def depthList : List Value → Nat
  | [] => 0
  | e :: es => max (depth e) (depthList es)
def depthFields : List (Key × Value) → Nat
  | [] => 0
  | (_, v) :: fs => max (depth v) (depthFields fs)
end

def wfPrim : Prim → Bool
  | .string s => utf8Valid s
  | _ => true

def keysOf (fs : List (Key × Value)) : List Key := fs.map (·.1)

mutual
/-- structural well-formedness against a dictionary: strings and keys are UTF-8, the keys of one
    object are pairwise distinct and interned in `d`. -/
def wfV (d : Dict) : Value → Bool
  | .prim p => wfPrim p
  | .arr es => wfList d es
  | .obj fs => wfFields d fs && decide ((keysOf fs).Nodup)
def wfList (d : Dict) : List Value → Bool
  | [] => true
  | e :: es => wfV d e && wfList d es
def wfFields (d : Dict) : List (Key × Value) → Bool
  | [] => true
  | (k, v) :: fs => utf8Valid k && decide (k ∈ d) && wfV d v && wfFields d fs
end


mutual
/-- all object keys of a value, depth first -/
def allKeys : Value → List Key
  | .prim _ => []
  | .arr es => allKeysList es
  | .obj fs => allKeysFields fs
def allKeysList : List Value → List Key
  | [] => []
  | e :: es => allKeys e ++ allKeysList es
def allKeysFields : List (Key × Value) → List Key
  | [] => []
  | (k, v) :: fs => k :: (allKeys v ++ allKeysFields fs)
end

mutual
/-- dictionary-independent well-formedness: every string and key is valid UTF-8 and the keys of
    each object are pairwise distinct (what `variant.Decode` demands of any encoding). -/
def wf : Value → Bool
  | .prim p => wfPrim p
  | .arr es => wfL es
  | .obj fs => wfF fs && decide ((keysOf fs).Nodup)
def wfL : List Value → Bool
  | [] => true
  | e :: es => wf e && wfL es
def wfF : List (Key × Value) → Bool
  | [] => true
  | (k, v) :: fs => utf8Valid k && wf v && wfF fs
end

end PqModel.Variant
