import PqModel.FileModel
import PqModel.Rle
import PqModel.Plain
import PqModel.Delta

/-! # Concrete codecs for the C01 file model, assembled from the C04 models

Definitions only (glue between the byte representations of the C04 models — `List Nat` for RLE and
DELTA, `List UInt8` for PLAIN — and the `List Nat` values of the Dremel model). That they satisfy
`ColCodec.OK` is proved in `Props/C01.lean` from the C04 theorems. -/
namespace PqModel.FileModel
open PqModel

/-- levels `≤ m`: hybrid RLE at width `bits.Len(m)` — MIRROR encoder `Rle.encodeLevels` -/
def rleEncL (m : Nat) (xs : List Nat) : List Nat :=
  match Rle.encodeLevels (Rle.maxLen [m]) xs with
  | .ok b => b
  | .error _ => []

/-- SPEC decoder `Rle.specDecode` at the same width, told the value count of the page header -/
def rleDecL (m cnt : Nat) (bs : List Nat) : Option (List Nat) :=
  match Rle.specDecode (Rle.maxLen [m]) cnt bs with
  | .ok xs => some xs
  | .error _ => none

/-- the value domain of an INT64 column (values are bit patterns) -/
def isInt64 (x : Nat) : Bool := decide (x < 2 ^ 64)

/-- PLAIN INT64 — MIRROR encoder `Plain.encFixedBV 8` -/
def plainInt64Enc (xs : List Nat) : List Nat :=
  (Plain.encFixedBV 8 (xs.map (BitVec.ofNat 64))).map UInt8.toNat

/-- SPEC decoder `Plain.specDecFixedBV 8`; the page must hold exactly `cnt` values -/
def plainInt64Dec (cnt : Nat) (bs : List Nat) : Option (List Nat) :=
  ((Plain.specDecFixedBV 8 (bs.map UInt8.ofNat)).map (·.map BitVec.toNat)).bind fun ys =>
    if ys.length = cnt then some ys else none

/-- DELTA_BINARY_PACKED INT64 — MIRROR encoder `Delta.mirrorEncode64` -/
def deltaInt64Enc (xs : List Nat) : List Nat := Delta.mirrorEncode64 (xs.map (BitVec.ofNat 64))

/-- SPEC decoder `Delta.specDecode64`; nothing may trail the stream, `cnt` values expected -/
def deltaInt64Dec (cnt : Nat) (bs : List Nat) : Option (List Nat) :=
  match Delta.specDecode64 bs with
  | .ok (ys, []) => if ys.length = cnt then some (ys.map BitVec.toNat) else none
  | _ => none

/-- RLE_DICTIONARY index pages — MIRROR encoder `Rle.encodeDict` -/
def rleIdxEnc (xs : List Nat) : List Nat :=
  match Rle.encodeDict xs with
  | .ok b => b
  | .error _ => []

/-- SPEC decoder `Rle.specDecodeDict` -/
def rleIdxDec (cnt : Nat) (bs : List Nat) : Option (List Nat) :=
  match Rle.specDecodeDict cnt bs with
  | .ok xs => some xs
  | .error _ => none

/-- storage layout of a data page over byte sections: the compressor is applied to the value
    section, and to the two level sections too when `lvComp` (data page v2 stores the levels
    uncompressed: `lvComp = false`; v1 compresses levels and values). The single compressed body of
    v1 with its two 4-byte length prefixes is a further instance of `pack`/`unpack`, not spelled out
    here. -/
def packSections (lvComp : Bool) (comp : List Nat → List Nat) (p : Page (List Nat)) : Page (List Nat) :=
  { p with reps := if lvComp then comp p.reps else p.reps
           defs := if lvComp then comp p.defs else p.defs
           vals := comp p.vals }

def unpackSections (lvComp : Bool) (decomp : List Nat → Option (List Nat)) (g : Page (List Nat)) :
    Option (Page (List Nat)) :=
  (if lvComp then decomp g.reps else some g.reps).bind fun r =>
  (if lvComp then decomp g.defs else some g.defs).bind fun d =>
  (decomp g.vals).map fun v => { g with reps := r, defs := d, vals := v }

/-- An INT64 column as parquet-go writes it: RLE levels, values PLAIN or DELTA_BINARY_PACKED,
    PLAIN dictionary page, RLE_DICTIONARY indexes (32-bit), any compressor. -/
def int64Codec (delta lvComp : Bool) (comp : List Nat → List Nat) (decomp : List Nat → Option (List Nat)) :
    ColCodec (List Nat) (Page (List Nat)) where
  encL := rleEncL
  decL := rleDecL
  okV := isInt64
  encV := if delta then deltaInt64Enc else plainInt64Enc
  decV := if delta then deltaInt64Dec else plainInt64Dec
  encD := plainInt64Enc
  decD := plainInt64Dec
  dictLimit := 2 ^ 32
  encI := rleIdxEnc
  decI := rleIdxDec
  comp := comp
  decomp := decomp
  pack := packSections lvComp comp
  unpack := unpackSections lvComp decomp

end PqModel.FileModel
