import PqModel.RowsRefineStream
import PqModel.RowsRefineSeek

/-! Refinement `RowsBuf` → `RowsState`, part 2: the simulation. `Rel` relates a state of the
    buffer-level mirror of `rowGroupRows` to a state of the abstract mirror; every `ReadRows` /
    `SeekToRow` / `Reset` of `RowsBuf` is the same operation of `RowsState` for SOME behaviour `fails`
    of the column readers (the one that lets no column fail when the call succeeds, the one that lets
    exactly the column fail whose read failed when it does not), and `Rel` holds again afterwards. -/
namespace PqModel.RowsRefine
open PqModel.RowsBuf

/-! ### rows of a well-formed stream -/

theorem takeWhile_all_append (p : Val → Bool) : ∀ (g rest : List Val), (∀ w ∈ g, p w = true) →
    (g ++ rest).takeWhile p = g ++ rest.takeWhile p
  | [], _, _ => by simp
  | x :: g, rest, h => by
    have hx : p x = true := h x (by simp)
    simp only [List.cons_append, List.takeWhile_cons, hx, if_true]
    rw [takeWhile_all_append p g rest (fun w hw => h w (by simp [hw]))]

theorem Groups.lt_of_ne_nil {p b : Nat} {S : List Val} (h : Groups p b S) (hne : S ≠ []) : p < b := by
  cases S with
  | nil => exact absurd rfl hne
  | cons v S =>
    have := (h.row_bounds).2 v (by simp)
    omega

theorem groups_scan {p b : Nat} {S : List Val} (h : Groups p b S) (hne : S ≠ []) :
    Groups (p + 1) b (S.drop (scanRow 1 S)) ∧ ∀ v ∈ S.take (scanRow 1 S), v.row = p := by
  cases h with
  | nil => exact absurd rfl hne
  | @cons _ _ v g rest hv hr hg hrest =>
    have htw : (g ++ rest).takeWhile (fun v => v.rep != 0) = g := by
      rw [takeWhile_all_append _ g rest (fun w hw => by simpa using (hg w hw).2)]
      cases hrest with
      | nil => simp
      | cons hv' hr' _ _ => simp [hr']
    have hsc : scanRow 1 (v :: (g ++ rest)) = g.length + 1 := by
      simp only [scanRow, List.drop_succ_cons, List.drop_zero, htw]; omega
    rw [hsc]
    refine ⟨by simpa using hrest, ?_⟩
    intro w hw
    simp only [List.take_succ_cons, List.take_left', List.mem_cons] at hw
    rcases hw with rfl | hw
    · exact hv
    · exact (hg w hw).1

theorem rowsOf_nil : ∀ (n i : Nat) (a : List Val), (rowsOf n []).1[i]? = some a → a = []
  | 0, i, a, h => by simp [rowsOf] at h
  | n + 1, 0, a, h => by simp [rowsOf] at h; exact h
  | n + 1, i + 1, a, h => by
    simp only [rowsOf, List.drop_nil, List.getElem?_cons_succ] at h
    exact rowsOf_nil n i a h

theorem groups_rowsOf : ∀ (n : Nat) {p b : Nat} {S : List Val}, Groups p b S →
    Groups (p + min n (b - p)) b (rowsOf n S).2 ∧ nrows n S = min n (b - p) ∧
    ∀ i a, (rowsOf n S).1[i]? = some a → ∀ v ∈ a, v.row = p + i
  | 0, p, b, S, h => by simp [rowsOf, nrows]; exact h
  | n + 1, p, b, S, h => by
    by_cases hS : S = []
    · subst hS
      have hpb : p = b := by cases h; rfl
      subst hpb
      have ih := groups_rowsOf n h
      simp only [Nat.sub_self, Nat.min_zero, Nat.add_zero] at ih ⊢
      refine ⟨by simpa [rowsOf] using ih.1, by simp [nrows], ?_⟩
      intro i a ha v hv
      have := rowsOf_nil (n + 1) i a ha
      subst this
      simp at hv
    · have hlt := h.lt_of_ne_nil hS
      obtain ⟨h1, h2⟩ := groups_scan h hS
      have ih := groups_rowsOf n h1
      refine ⟨?_, ?_, ?_⟩
      · simp only [rowsOf]
        have : p + min (n + 1) (b - p) = p + 1 + min n (b - (p + 1)) := by omega
        rw [this]; exact ih.1
      · simp only [nrows, hS, if_false, ih.2.1]; omega
      · intro i a ha v hv
        cases i with
        | zero =>
          simp only [rowsOf, List.getElem?_cons_zero, Option.some.injEq] at ha
          subst ha
          simpa using h2 v hv
        | succ i =>
          simp only [rowsOf, List.getElem?_cons_succ] at ha
          have := ih.2.2 i a ha v hv
          omega

/-- one column standing on row `p` is asked for `n` rows: it ends on row `p + min n (total - p)`,
    has delivered that many rows, and row `j` of what it delivered are values of row `p + j` -/
theorem colLoop_at (pages : List Page) (total B : Nat) (hB : 0 < B) (n i : Nat) (s : Scan) (p : Nat)
    (hE : Einv pages s) (hat : Lands p total (cstream pages s.col)) (s' : Scan) (accs : List (List Val))
    (h : colLoop pages B n i s = .ok s' accs) :
    Lands (p + min n (total - p)) total (cstream pages s'.col) ∧
    s'.rowCount = (if min n (total - p) = 0 then s.rowCount else max s.rowCount (i + min n (total - p))) ∧
    ∀ j a, accs[j]? = some a → ∀ v ∈ a, v.row = p + j := by
  obtain ⟨b, hg, hb, hfl⟩ := hat
  obtain ⟨g1, g2, g3, g4⟩ := colLoop_stream pages B hB n i s hE s' accs h
  obtain ⟨r1, r2, r3⟩ := groups_rowsOf n hg
  have hpb := hg.row_bounds.1
  have hcnt : min n (b - p) = min n (total - p) := by
    by_cases hn : n ≤ b - p
    · omega
    · have := hfl (g4 (by omega)); omega
  rw [r2, hcnt] at g3
  rw [hcnt] at r1
  refine ⟨⟨b, ?_, hb, ?_⟩, g3, ?_⟩
  · rw [g2]; exact r1
  · rw [g2]; exact hfl
  · rw [g1]; exact r3

/-! ### the relation between the two mirrors -/

/-- every column chunk of the file has the same `total` rows in well-formed pages -/
def WfFile (file : List (List Page)) (total : Nat) : Prop := ∀ pages ∈ file, WfPages 0 pages total

def ColsAt (total : Nat) : List (List Page) → List Col → List (Option Nat) → Prop
  | pages :: file, c :: cs, a :: as => ColAt pages total c a ∧ ColsAt total file cs as
  | [], [], [] => True
  | _, _, _ => False

/-- ABSTRACTION: the error field is the same, `r.rowIndex` is the same (the -1 of a new reader is the
    0 of `RowsState.init`), and — also while the error is pending — abstract column `j` stands on row
    `p` only if the stream of concrete column `j` starts with row `p` (`none`, the column whose read
    failed, promises nothing) -/
def Rel (file : List (List Page)) (total : Nat) (st : St) (a : RowsState.St) : Prop :=
  a.err = st.err ∧ -1 ≤ st.rowIndex ∧ a.rowIndex = st.rowIndex.toNat ∧ a.cols.length = file.length ∧
  ColsAt total file st.cols a.cols

def mapOp : Op → RowsState.Op
  | .read n => .read n
  | .seek k => .seek k
  | .reset => .reset

/-- what a call returns: the same kind of result; when rows are returned, as many as the abstract
    reader says, and every value of row `i` of the result is a value of row `q + i` of its column for
    a row `q` the abstract reader took a column from -/
def OutRel : Out → RowsState.Out → Prop
  | .failed, .failed => True
  | .done, .done => True
  | .rows rs _, .rows starts count =>
    rs.length = count ∧ ∀ i r, rs[i]? = some r → ∀ v ∈ r, ∃ q, some q ∈ starts ∧ v.row = q + i
  | _, _ => False

theorem ColsAt.length_eq {total : Nat} : ∀ {file : List (List Page)} {cs : List Col} {as : List (Option Nat)},
    ColsAt total file cs as → cs.length = file.length ∧ as.length = file.length
  | [], [], [], _ => by simp
  | _ :: file, _ :: cs, _ :: as, h => by
    have := ColsAt.length_eq h.2
    simp only [List.length_cons]; omega
  | [], _ :: _, _, h => by simp [ColsAt] at h
  | [], [], _ :: _, h => by simp [ColsAt] at h
  | _ :: _, [], _, h => by simp [ColsAt] at h
  | _ :: _, _ :: _, [], h => by simp [ColsAt] at h

/-- columns that `SeekToRow(k)` / `Reset` / a new reader have just positioned stand on row `k` -/
theorem fresh_at (total k : Nat) (f : List Page → Reader)
    (hf : ∀ pages, WfPages 0 pages total → (f pages).values = none ∧ Lands k total (pstream pages (f pages).cur)) :
    ∀ (file : List (List Page)) (as : List (Option Nat)), WfFile file total → as.length = file.length →
      (∀ a ∈ as, a = some k) →
      ColsAt total file (file.map fun pages => ({ reader := f pages, buf := [] } : Col)) as
  | [], [], _, _, _ => by simp [ColsAt]
  | [], _ :: _, _, hl, _ => by simp at hl
  | _ :: _, [], _, hl, _ => by simp at hl
  | pages :: file, a :: as, hw, hl, ha => by
    have h1 := hf pages (hw pages (by simp))
    have ha0 : a = some k := ha a (by simp)
    subst ha0
    refine ⟨?_, fresh_at total k f hf file as (fun q hq => hw q (by simp [hq])) (by simpa using hl)
      (fun x hx => ha x (by simp [hx]))⟩
    simp only [ColAt, cstream, rstream, h1.1, Option.getD_none, List.nil_append]
    exact h1.2

theorem seekReader_fresh (total k : Nat) (hk : k ≤ total) (pages : List Page) (h : WfPages 0 pages total) :
    (seekReader pages k).values = none ∧ Lands k total (pstream pages (seekReader pages k).cur) :=
  ⟨rfl, seek_lands pages total k h hk⟩

/-! ### the loop over the columns -/

theorem readCols_nofail (count p : Nat) : ∀ (cols : List (Option Nat)) (j : Nat), (∀ c ∈ cols, c = some p) →
    RowsState.readCols (fun _ _ _ => false) count j cols = (cols.map fun _ => some (p + count), false)
  | [], _, _ => by simp [RowsState.readCols]
  | c :: rest, j, h => by
    have hc : c = some p := h c (by simp)
    subst hc
    simp [RowsState.readCols, readCols_nofail count p rest (j + 1) (fun x hx => h x (by simp [hx]))]

theorem colsLoop_at (total B : Nat) (hB : 0 < B) (n p : Nat) :
    ∀ (file : List (List Page)) (cs : List Col) (as : List (Option Nat)) (ec rc : Nat),
      ColsAt total file cs as → (∀ a ∈ as, a = some p) → (colsLoop B n file cs ec rc).failed = false →
      ColsAt total file (colsLoop B n file cs ec rc).cols (as.map fun _ => some (p + min n (total - p))) ∧
      (colsLoop B n file cs ec rc).rowCount =
        (if min n (total - p) = 0 ∨ file = [] then rc else max rc (min n (total - p))) ∧
      ∀ a ∈ (colsLoop B n file cs ec rc).accs, ∀ j x, a[j]? = some x → ∀ v ∈ x, v.row = p + j
  | [], [], [], ec, rc, _, _, _ => by simp [colsLoop, ColsAt]
  | [], _ :: _, _, _, _, h, _, _ => by simp [ColsAt] at h
  | [], [], _ :: _, _, _, h, _, _ => by simp [ColsAt] at h
  | _ :: _, [], _, _, _, h, _, _ => by simp [ColsAt] at h
  | _ :: _, _ :: _, [], _, _, h, _, _ => by simp [ColsAt] at h
  | pages :: file, c :: cs, a :: as, ec, rc, h, ha, hnf => by
    have ha0 : a = some p := ha a (by simp)
    subst ha0
    unfold colsLoop at hnf ⊢
    split
    · rename_i s heq
      rw [heq] at hnf
      simp at hnf
    · rename_i s accs heq
      rw [heq] at hnf
      simp only [] at hnf
      obtain ⟨c1, c2, c3⟩ := colLoop_at pages total B hB n 0
        { col := c, eof := false, eofCount := ec, rowCount := rc } p (fun h => by simp at h) h.1 s accs heq
      obtain ⟨i1, i2, i3⟩ := colsLoop_at total B hB n p file cs as s.eofCount s.rowCount h.2
        (fun x hx => ha x (by simp [hx])) hnf
      simp only []
      refine ⟨⟨c1, i1⟩, ?_, ?_⟩
      · rw [i2, c2]
        simp only [Nat.zero_add, List.cons_ne_nil, or_false]
        by_cases hz : min n (total - p) = 0
        · simp [hz]
        · simp only [hz, if_false, false_or]
          split <;> omega
      · intro x hx
        simp only [List.mem_cons] at hx
        rcases hx with rfl | hx
        · exact c3
        · exact i3 x hx


/-- the loop over the columns when a column read fails: it is the abstract loop whose column `j`
    fails — the columns in front of `j` advanced, column `j` undefined, the columns behind untouched -/
theorem colsLoop_fail (total B : Nat) (hB : 0 < B) (n p : Nat) :
    ∀ (file : List (List Page)) (cs : List Col) (as : List (Option Nat)) (ec rc j0 : Nat),
      ColsAt total file cs as → (∀ a ∈ as, a = some p) → (colsLoop B n file cs ec rc).failed = true →
      ∃ j, j0 ≤ j ∧ (RowsState.readCols (fun col _ _ => col == j) (min n (total - p)) j0 as).2 = true ∧
        ColsAt total file (colsLoop B n file cs ec rc).cols
          (RowsState.readCols (fun col _ _ => col == j) (min n (total - p)) j0 as).1
  | [], [], [], _, _, _, _, _, hf => by simp [colsLoop] at hf
  | [], _ :: _, _, _, _, _, h, _, _ => by simp [ColsAt] at h
  | [], [], _ :: _, _, _, _, h, _, _ => by simp [ColsAt] at h
  | _ :: _, [], _, _, _, _, h, _, _ => by simp [ColsAt] at h
  | _ :: _, _ :: _, [], _, _, _, h, _, _ => by simp [ColsAt] at h
  | pages :: file, c :: cs, a :: as, ec, rc, j0, h, ha, hf => by
    have ha0 : a = some p := ha a (by simp)
    subst ha0
    unfold colsLoop at hf ⊢
    split
    · rename_i s heq
      refine ⟨j0, Nat.le_refl _, ?_, ?_⟩
      · simp [RowsState.readCols]
      · simp only [RowsState.readCols, beq_self_eq_true, if_true]
        exact ⟨trivial, h.2⟩
    · rename_i s accs heq
      rw [heq] at hf
      simp only [] at hf
      obtain ⟨c1, _, _⟩ := colLoop_at pages total B hB n 0
        { col := c, eof := false, eofCount := ec, rowCount := rc } p (fun h => by simp at h) h.1 s accs heq
      obtain ⟨j, hj1, hj2, hj3⟩ := colsLoop_fail total B hB n p file cs as s.eofCount s.rowCount (j0 + 1) h.2
        (fun x hx => ha x (by simp [hx])) hf
      have hne : (j0 == j) = false := by simp; omega
      refine ⟨j, by omega, ?_, ?_⟩
      · simp only [RowsState.readCols, hne, Bool.false_eq_true, if_false]; exact hj2
      · simp only [RowsState.readCols, hne, Bool.false_eq_true, if_false]
        exact ⟨c1, hj3⟩

theorem assemble_rows (rc p : Nat) (accs : List (List (List Val)))
    (h : ∀ a ∈ accs, ∀ j x, a[j]? = some x → ∀ v ∈ x, v.row = p + j) :
    (assemble rc accs).length = rc ∧ ∀ i r, (assemble rc accs)[i]? = some r → ∀ v ∈ r, v.row = p + i := by
  refine ⟨by simp [assemble], ?_⟩
  intro i r hr v hv
  simp only [assemble, List.getElem?_map] at hr
  cases hi : (List.range rc)[i]? with
  | none => simp [hi] at hr
  | some i' =>
    have : i' = i := by
      have := List.getElem?_eq_some_iff.mp hi
      obtain ⟨_, h2⟩ := this
      simpa using h2.symm
    subst this
    simp only [hi, Option.map_some, Option.some.injEq] at hr
    subst hr
    simp only [List.mem_flatten, List.mem_map] at hv
    obtain ⟨l, ⟨a, ha, rfl⟩, hv⟩ := hv
    rw [List.getD_eq_getElem?_getD] at hv
    cases hg : a[i']? with
    | none => simp [hg] at hv
    | some x =>
      simp only [hg, Option.getD_some] at hv
      exact h a ha i' x hg v hv

/-! ### the three operations -/

theorem all_some_of_aligned {a : RowsState.St} (hA : RowsState.Aligned a) (he : a.err = false) :
    ∀ c ∈ a.cols, c = some a.rowIndex := hA he

theorem read_refines (file : List (List Page)) (total B : Nat) (hw : WfFile file total) (hne : file ≠ [])
    (hB : 0 < B) (st : St) (a : RowsState.St) (hR : Rel file total st a) (hA : RowsState.Aligned a) (n : Nat) :
    ∃ fails, Rel file total (read file B st n).1 (RowsState.read fails total a n).1 ∧
      OutRel (read file B st n).2 (RowsState.read fails total a n).2 := by
  obtain ⟨he, hm1, hri, hlen, hcols⟩ := hR
  by_cases hse : st.err = true
  · refine ⟨fun _ _ _ => false, ?_⟩
    have hae : a.err = true := by rw [he, hse]
    simp only [RowsBuf.read, hse, if_true, RowsState.read, hae, OutRel, and_true]
    exact ⟨he, hm1, hri, hlen, hcols⟩
  · have hse' : st.err = false := by simpa using hse
    have hae : a.err = false := by rw [he, hse']
    have hall := all_some_of_aligned hA hae
    -- the reader after `if r.rowIndex < 0 { r.SeekToRow(0) }`
    have h1 : ∃ st1 : St, (if st.rowIndex < 0 then seek file st 0 else st) = st1 ∧ st1.err = false ∧
        0 ≤ st1.rowIndex ∧ a.rowIndex = st1.rowIndex.toNat ∧ ColsAt total file st1.cols a.cols := by
      by_cases hneg : st.rowIndex < 0
      · have h0 : a.rowIndex = 0 := by rw [hri]; omega
        refine ⟨_, rfl, ?_⟩
        have hc : ((0 : Nat) : Int) ≠ st.rowIndex := by omega
        simp only [hneg, if_true, seek, hc, ne_eq, not_false_eq_true, true_or, if_true]
        refine ⟨trivial, by omega, by simpa using h0, ?_⟩
        exact fresh_at total 0 (fun pages => seekReader pages 0) (seekReader_fresh total 0 (by omega)) file a.cols hw
          hlen (fun c hc => by rw [hall c hc, h0])
      · refine ⟨st, by simp [hneg], hse', by omega, hri, hcols⟩
    obtain ⟨st1, hst1, he1, hpos1, hri1, hcols1⟩ := h1
    simp only [RowsBuf.read, hse', Bool.false_eq_true, if_false, hst1]
    by_cases hfl : (colsLoop B n file st1.cols 0 0).failed = true
    · -- column `j` failed: the abstract reader whose column `j` fails
      obtain ⟨j, _, hj2, hj3⟩ := colsLoop_fail total B hB n a.rowIndex file st1.cols a.cols 0 0 0 hcols1 hall hfl
      refine ⟨fun col _ _ => col == j, ?_⟩
      simp only [hfl, if_true, RowsState.read, hae, Bool.false_eq_true, if_false, hj2, OutRel, and_true]
      exact ⟨rfl, by show (-1 : Int) ≤ st1.rowIndex; omega, hri1, (ColsAt.length_eq hj3).2, hj3⟩
    · have hfl' : (colsLoop B n file st1.cols 0 0).failed = false := by simpa using hfl
      refine ⟨fun _ _ _ => false, ?_⟩
      obtain ⟨k1, k2, k3⟩ := colsLoop_at total B hB n a.rowIndex file st1.cols a.cols 0 0 hcols1 hall hfl'
      have hrc : (colsLoop B n file st1.cols 0 0).rowCount = min n (total - a.rowIndex) := by
        rw [k2]; simp only [hne, or_false]; split <;> omega
      obtain ⟨m1, m2⟩ := assemble_rows (colsLoop B n file st1.cols 0 0).rowCount a.rowIndex _ k3
      simp only [hfl', Bool.false_eq_true, if_false, RowsState.read, hae,
        readCols_nofail _ a.rowIndex a.cols 0 hall, OutRel]
      refine ⟨⟨he1 ▸ rfl, by show (-1 : Int) ≤ st1.rowIndex + _; omega, ?_, by simpa using hlen, k1⟩, by rw [m1, hrc], ?_⟩
      · simp only [hrc]; omega
      · intro i r hr v hv
        obtain ⟨c0, hc0⟩ : ∃ c0, c0 ∈ a.cols := by
          cases hac : a.cols with
          | nil =>
            rw [hac] at hlen
            exact absurd (List.length_eq_zero_iff.mp hlen.symm) hne
          | cons c0 rest => exact ⟨c0, by simp⟩
        exact ⟨a.rowIndex, by rw [← hall c0 hc0]; exact hc0, m2 i r hr v hv⟩

theorem seek_refines (file : List (List Page)) (total : Nat) (hw : WfFile file total)
    (st : St) (a : RowsState.St) (hR : Rel file total st a) (hA : RowsState.Aligned a) (k : Nat) (hk : k ≤ total) :
    Rel file total (seek file st k) (RowsState.seek a k) := by
  obtain ⟨he, hm1, hri, hlen, hcols⟩ := hR
  by_cases hc : (k : Int) ≠ st.rowIndex ∨ st.err = true
  · -- the concrete reader repositions every column; the abstract one does, or stands there already
    have habs : (RowsState.seek a k).err = false ∧ (RowsState.seek a k).rowIndex = k ∧
        (RowsState.seek a k).cols.length = file.length ∧ ∀ c ∈ (RowsState.seek a k).cols, c = some k := by
      by_cases hac : k ≠ a.rowIndex ∨ a.err = true
      · simp only [RowsState.seek, hac, if_true, List.length_map, List.mem_map]
        refine ⟨trivial, trivial, hlen, ?_⟩
        rintro c ⟨_, _, rfl⟩; rfl
      · simp only [RowsState.seek, hac, if_false]
        have hk' : k = a.rowIndex := by
          have : ¬ k ≠ a.rowIndex := fun h => hac (Or.inl h)
          omega
        have hae : a.err = false := by
          cases h : a.err with
          | false => rfl
          | true => exact absurd (Or.inr h) hac
        exact ⟨hae, hk'.symm, hlen, fun c hc => by rw [hk']; exact hA hae c hc⟩
    simp only [seek, hc, if_true]
    refine ⟨habs.1, by show (-1 : Int) ≤ (k : Int); omega, by simpa using habs.2.1, habs.2.2.1, ?_⟩
    exact fresh_at total k (fun pages => seekReader pages k) (seekReader_fresh total k hk) file _ hw habs.2.2.1 habs.2.2.2
  · have hk' : (k : Int) = st.rowIndex := by
      have : ¬ (k : Int) ≠ st.rowIndex := fun h => hc (Or.inl h)
      omega
    have hse : st.err = false := by
      cases h : st.err with
      | false => rfl
      | true => exact absurd (Or.inr h) hc
    have hac : ¬ (k ≠ a.rowIndex ∨ a.err = true) := by
      rw [he, hse, hri]
      intro h
      rcases h with h | h
      · omega
      · simp at h
    simp only [seek, hc, if_false, RowsState.seek, hac]
    exact ⟨he, hm1, hri, hlen, hcols⟩

theorem reset_refines (file : List (List Page)) (total : Nat) (hw : WfFile file total)
    (st : St) (a : RowsState.St) (hR : Rel file total st a) :
    Rel file total (reset file st) (RowsState.reset a) := by
  obtain ⟨_, _, _, hlen, _⟩ := hR
  refine ⟨rfl, by simp [reset], by simp [reset, RowsState.reset], by simpa [RowsState.reset] using hlen, ?_⟩
  refine fresh_at total 0 (fun pages => seekReader pages 0) (seekReader_fresh total 0 (by omega)) file _ hw
    (by simpa [RowsState.reset] using hlen) ?_
  intro c hc
  simp only [RowsState.reset, List.mem_map] at hc
  obtain ⟨_, _, rfl⟩ := hc
  rfl

/-- the seeks of a history stay inside the row group (a seek behind the end is `ErrSeekOutOfRange`
    territory: C08) -/
def OpOk (total : Nat) : Op → Prop
  | .seek k => k ≤ total
  | _ => True

theorem step_refines (file : List (List Page)) (total B : Nat) (hw : WfFile file total) (hne : file ≠ [])
    (hB : 0 < B) (st : St) (a : RowsState.St) (hR : Rel file total st a) (hA : RowsState.Aligned a)
    (op : Op) (hop : OpOk total op) :
    ∃ fails, Rel file total (step file B st op).1 (RowsState.step fails total a (mapOp op)).1 ∧
      OutRel (step file B st op).2 (RowsState.step fails total a (mapOp op)).2 := by
  cases op with
  | read n => exact read_refines file total B hw hne hB st a hR hA n
  | seek k => exact ⟨fun _ _ _ => false, seek_refines file total hw st a hR hA k hop, trivial⟩
  | reset => exact ⟨fun _ _ _ => false, reset_refines file total hw st a hR, trivial⟩

theorem init_rel (file : List (List Page)) (total : Nat) (hw : WfFile file total) :
    Rel file total (init file) (RowsState.init file.length) := by
  refine ⟨rfl, by simp [init], by simp [init, RowsState.init], by simp [RowsState.init], ?_⟩
  refine fresh_at total 0 (fun _ => { cur := { next := 0, skip := 0 }, values := none })
    (fun pages h => ⟨rfl, init_lands pages total h⟩) file _ hw (by simp [RowsState.init]) ?_
  intro c hc
  simp only [RowsState.init, List.mem_replicate] at hc
  exact hc.2

/-- after every history the buffer-level reader is related to an ALIGNED state of the abstract one -/
theorem reach_rel (file : List (List Page)) (total B : Nat) (hw : WfFile file total) (hne : file ≠ [])
    (hB : 0 < B) (ops : List Op) (hops : ∀ op ∈ ops, OpOk total op) :
    ∃ a, Rel file total (reach file B ops) a ∧ RowsState.Aligned a := by
  unfold reach
  suffices h : ∀ (ops : List Op) (st : St) (a : RowsState.St), (∀ op ∈ ops, OpOk total op) →
      Rel file total st a → RowsState.Aligned a →
      ∃ a', Rel file total (ops.foldl (fun s op => (step file B s op).1) st) a' ∧ RowsState.Aligned a' from
    h ops _ _ hops (init_rel file total hw) (RowsState.init_aligned _)
  intro ops
  induction ops with
  | nil => intro st a _ hR hA; exact ⟨a, hR, hA⟩
  | cons op ops ih =>
    intro st a ho hR hA
    obtain ⟨fails, h1, _⟩ := step_refines file total B hw hne hB st a hR hA op (ho op (by simp))
    exact ih _ _ (fun o h => ho o (by simp [h])) h1 (RowsState.step_aligned fails total a (mapOp op) hA)

end PqModel.RowsRefine
