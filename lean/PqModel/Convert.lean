import PqModel.Dremel

/-! # Schema conversion (C12)

Named schemas (`PNode`/`PFields`: every field carries its name and its repetition type, as in a
Parquet schema), the SPEC `projN` (projection of a value tree onto a target schema, fields matched
by name) and the MIRROR of `convert.go` (`convN`/`convertRow`): per target leaf column the source
column found by walking the column path through the source schema, the level tables
`repetitionLevels[srcRep] = tgtRep`, `definitionLevels[srcDef] = tgtDef` built along that walk, and
for columns missing from the source the null/zero synthesis from the closest leaf sibling.

Shredding itself is `PqModel.Dremel.shredN` on the name-erased schema (`eraseN`). -/
namespace PqModel.Convert
open PqModel.Dremel

/-- field repetition type -/
inductive Rp where
  | req | opt | rpt
deriving DecidableEq, Repr

mutual
inductive PNode where
  | leaf
  | group (fs : PFields)
inductive PFields where
  | nil
  | cons (name : Nat) (rp : Rp) (n : PNode) (fs : PFields)
end

def wrap : Rp → Node → Node
  | .req, n => n
  | .opt, n => .opt n
  | .rpt, n => .rpt n

mutual
def eraseN : PNode → Node
  | .leaf => .leaf
  | .group fs => .group (eraseF fs)
def eraseF : PFields → Fields
  | .nil => .nil
  | .cons _ rp n fs => .cons (wrap rp (eraseN n)) (eraseF fs)
end

/-- number of leaf columns -/
def leavesP (n : PNode) : Nat := leavesN (eraseN n)

/-- SPEC: the Dremel streams of one row -/
def shred (n : PNode) (v : Val) : Cols := shredN (eraseN n) 0 0 0 v

/-! ## SPEC: projection of a value onto a target schema (written from the property statement) -/

/-- value of a field that the source does not have: null / empty list / the node's zero value -/
def dfltW : Rp → Val → Val
  | .req, v => v
  | .opt, _ => .none
  | .rpt, _ => .list []

mutual
/-- zero value of a node: `prim 0` stands for the zero value of the leaf's type -/
def dfltN : PNode → Val
  | .leaf => .prim 0
  | .group fs => .struct (dfltF fs)
def dfltF : PFields → List Val
  | .nil => []
  | .cons _ rp n fs => dfltW rp (dfltN n) :: dfltF fs
end

/-- the (first) source field named `nm` together with its value -/
def findV (nm : Nat) : PFields → List Val → Option (Rp × PNode × Val)
  | .nil, _ => none
  | .cons nm' rp n fs, vs =>
    match vs with
    | v :: vs' => if nm' = nm then some (rp, n, v) else findV nm fs vs'
    | [] => none

/-- a group and a leaf of the same name are different columns -/
def sameKind : PNode → PNode → Bool
  | .leaf, .leaf => true
  | .group _, .group _ => true
  | _, _ => false

mutual
/-- SPEC `project`: fields are matched by name; source fields the target does not name are dropped,
    target fields the source does not have get null / empty / zero; recursive through groups,
    optional and repeated wrappers. `required → optional` wraps, `optional → required` unwraps
    (null becomes the zero value). Anything else (group vs leaf, repeated vs not) is incompatible
    and yields the default of the target node. -/
def projN : PNode → PNode → Val → Val
  | .leaf, .leaf, v => v
  | .group sfs, .group tfs, .struct vs => .struct (projF sfs vs tfs)
  | _, .leaf, _ => .prim 0
  | _, .group tfs, _ => .struct (dfltF tfs)
def projF (sfs : PFields) (vs : List Val) : PFields → List Val
  | .nil => []
  | .cons nm trp t tfs =>
    (match findV nm sfs vs with
     | some (srp, s, v) =>
       if sameKind s t then
       (match srp, trp, v with
        | .req, .req, v => projN s t v
        | .opt, .opt, .some w => .some (projN s t w)
        | .opt, .opt, _ => .none
        | .rpt, .rpt, .list ws => .list (ws.map (projN s t))
        | .rpt, .rpt, _ => .list []
        | .req, .opt, v => .some (projN s t v)
        | .opt, .req, .some w => projN s t w
        | .opt, .req, _ => dfltN t
        | _, trp, _ => dfltW trp (dfltN t))
       else dfltW trp (dfltN t)
     | none => dfltW trp (dfltN t)) :: projF sfs vs tfs
end

/-! ## MIRROR of `convert.go` -/

/-- The state of the path walk of `Convert` (convert.go:449-475): current target / source
    repetition and definition levels and the two lookup tables (zero-initialised arrays). -/
structure Lv where
  tr : Nat
  td : Nat
  sr : Nat
  sd : Nat
  R : Nat → Nat
  D : Nat → Nat

def upd (f : Nat → Nat) (i v : Nat) : Nat → Nat := fun j => if j = i then v else f j

/-- `applyFieldRepetitionType`: repeated adds one repetition level; optional and repeated add one
    definition level -/
def repOf : Rp → Nat
  | .rpt => 1
  | _ => 0
def defOf : Rp → Nat
  | .req => 0
  | _ => 1

/-- one iteration of the loop convert.go:458-475 (both nodes exist) -/
def Lv.step (lv : Lv) (trp srp : Rp) : Lv :=
  { tr := lv.tr + repOf trp, td := lv.td + defOf trp,
    sr := lv.sr + repOf srp, sd := lv.sd + defOf srp,
    R := upd lv.R (lv.sr + repOf srp) (lv.tr + repOf trp),
    D := upd lv.D (lv.sd + defOf srp) (lv.td + defOf trp) }

/-- path step when the source has no such node: only the target's max levels advance
    (`targetColumn.maxDefinitionLevel` of the leaf column) -/
def Lv.stepT (lv : Lv) (trp : Rp) : Lv :=
  { lv with tr := lv.tr + repOf trp, td := lv.td + defOf trp }

def lv0 : Lv := ⟨0, 0, 0, 0, fun _ => 0, fun _ => 0⟩

/-- Where the walk of a target column path stands in the source schema. Instead of a column index
    into `source.columns` the state carries the block of source columns of the current source node
    (`on`), resp. the values of the closest leaf sibling once the path left the source schema
    (`lost`; `none` = `lookupClosest` found no leaf). `pc` is the closest leaf of the parent group. -/
inductive Src where
  | on (s : PNode) (blk : Cols) (pc : Option (List Triple))
  | lost (c : Option (List Triple))

/-- column_mapping.go:63-74: among the direct children of the group, the leaf with the smallest name -/
def closestLeaf : PFields → Cols → Option (Nat × List Triple) → Option (Nat × List Triple)
  | .nil, _, best => best
  | .cons nm _ n fs, blk, best =>
    match n with
    | .leaf =>
      closestLeaf fs (blk.drop 1)
        (match best with
         | some (bn, bc) => if nm < bn then some (nm, blk.headD []) else some (bn, bc)
         | none => some (nm, blk.headD []))
    | .group gfs => closestLeaf fs (blk.drop (leavesP (.group gfs))) best

/-- the source field named `nm` with its block of columns -/
def findB (nm : Nat) : PFields → Cols → Option (Rp × PNode × Cols)
  | .nil, _ => none
  | .cons nm' rp n fs, blk =>
    if nm' = nm then some (rp, n, blk.take (leavesP n)) else findB nm fs (blk.drop (leavesP n))

/-- one path component: `sourceMapping.lookup` / `lookupClosest` descend by name
    (column_mapping.go:47-79) while the level loop of convert.go:458-475 advances -/
def stepS (nm : Nat) (trp : Rp) (lv : Lv) : Src → Lv × Src
  | .on (.group sfs) blk _ =>
    match findB nm sfs blk with
    | some (srp, sn, b) => (lv.step trp srp, .on sn b ((closestLeaf sfs blk none).map (·.2)))
    | none => (lv.stepT trp, .lost ((closestLeaf sfs blk none).map (·.2)))
  | .on .leaf _ pc => (lv.stepT trp, .lost pc)
  | .lost c => (lv.stepT trp, .lost c)

/-- convert.go:304-314: placeholder when there are no source values -/
def placeholder (isOpt : Bool) : Triple := if isOpt then ⟨none, 0, 0⟩ else ⟨some 0, 0, 0⟩

/-- convert.go:551-558 -/
def isDirect (f : Nat → Nat) (n : Nat) : Bool := (List.range n).all fun i => f i == i

/-- convert.go:198-219 `convertToLevels` (tables truncated to `[:srcRep+1]`, `[:srcDef+1]`) -/
def convLevels (lv : Lv) (c : List Triple) : List Triple :=
  c.map fun t =>
    if t.rep ≥ lv.sr + 1 ∨ t.dfn ≥ lv.sd + 1 then ⟨none, 0, 0⟩ else ⟨t.val, lv.R t.rep, lv.D t.dfn⟩

/-- convert.go:181-196 `convertToNullOptional` -/
def toNullOpt (maxDef : Nat) (c : List Triple) : List Triple :=
  c.map fun t => ⟨none, t.rep, if t.dfn = maxDef then t.dfn - 1 else t.dfn⟩

/-- convert.go:113-175 `convertToZero`: the payload becomes the typed zero, levels untouched -/
def toZero (c : List Triple) : List Triple := c.map fun t => ⟨some 0, t.rep, t.dfn⟩

/-- convert.go:324-333: a null value in a column whose max definition level is 0 becomes `ZeroValue` -/
def fixup (isOpt : Bool) (c : List Triple) : List Triple :=
  c.map fun t => if t.val.isNone && !isOpt then ⟨some 0, 0, 0⟩ else t

/-- One target leaf column: convert.go:429-540 (which conversion functions are installed) followed
    by convert.go:284-334 (applying them to the row). `tOpt` = `targetColumn.node.Optional()`. -/
def leafOut (tOpt : Bool) (lv : Lv) : Src → List Triple
  | .on .leaf blk _ =>
    let src := blk.headD []
    let vals := if src.isEmpty then [placeholder (decide (lv.td > 0))] else src
    let vals := if isDirect lv.R (lv.sr + 1) && isDirect lv.D (lv.sd + 1) then vals else convLevels lv vals
    fixup (decide (lv.td > 0)) vals
  | .on (.group _) _ _ =>
    let vals := [placeholder (decide (lv.td > 0))]
    fixup (decide (lv.td > 0)) (if tOpt then vals else toZero vals)
  | .lost none =>
    let vals := [placeholder (decide (lv.td > 0))]
    fixup (decide (lv.td > 0)) (if tOpt then vals else toZero vals)
  | .lost (some c) =>
    let vals := if c.isEmpty then [placeholder (decide (lv.td > 0))] else c
    fixup (decide (lv.td > 0)) (if tOpt then toNullOpt lv.td vals else toZero vals)

mutual
/-- The loop over the target's leaf columns (convert.go:429), organised along the target schema
    tree: every leaf is reached with exactly the state that the walk of its column path from the
    root computes (the walks of a common path prefix are shared). -/
def convN : PNode → Rp → Lv → Src → Cols
  | .leaf, trp, lv, s => [leafOut (trp == .opt) lv s]
  | .group tfs, _, lv, s => convF tfs lv s
def convF : PFields → Lv → Src → Cols
  | .nil, _, _ => []
  | .cons nm trp tn tfs, lv, s =>
    convN tn trp (stepS nm trp lv s).1 (stepS nm trp lv s).2 ++ convF tfs lv s
end

/-- `conversion.Convert` for one row BEFORE the repair fa179c0 (kept as a regression fact), and the
    first stage of the mirror as it stands: conversion functions, then the zero fix-up of columns
    whose max definition level is 0. -/
def convertRow_before_fix (src tgt : PNode) (cols : Cols) : Cols :=
  convN tgt .req lv0 (.on src cols none)

mutual
/-- `targetColumn.maxDefinitionLevel` of every leaf column of a node entered at definition level `d` -/
def maxDefsN : PNode → Nat → List Nat
  | .leaf, d => [d]
  | .group fs, d => maxDefsF fs d
def maxDefsF : PFields → Nat → List Nat
  | .nil, _ => []
  | .cons _ rp n fs, d => maxDefsN n (d + defOf rp) ++ maxDefsF fs d
end

/-- convert.go `conversionColumn.convert` since repair fa179c0: a null that the level mapping made
    PRESENT (definition level = the column's maximum: optional → required leaf) becomes the typed
    zero of the column (`conv.zeroValue`, `Type.Length()` zero bytes for FIXED_LEN_BYTE_ARRAY:
    `some 0` stands for the typed zero), levels kept. -/
def zeroCol (td : Nat) (c : List Triple) : List Triple :=
  c.map fun t => if t.val.isNone && t.dfn == td then ⟨some 0, t.rep, t.dfn⟩ else t

def zeroAtMax (tds : List Nat) (X : Cols) : Cols := List.zipWith zeroCol tds X

/-- MIRROR of `conversion.Convert` for one row given as per-column streams (as the code stands
    after repair fa179c0): per column `convertValues`, the zero fix-up for max definition level 0
    (`convN`), then the typed zero for nulls at the column's max definition level. In a column
    with max definition level 0 no null is left by the first fix-up, so applying the second to
    every column is what the `else if` of the code does. -/
def convertRow (src tgt : PNode) (cols : Cols) : Cols :=
  zeroAtMax (maxDefsN tgt 0) (convertRow_before_fix src tgt cols)

/-! ## Compatible targets (hypothesis of `convert_shred`) -/

/-- the (first) field named `nm` -/
def getFld (nm : Nat) : PFields → Option (Rp × PNode)
  | .nil => none
  | .cons nm' rp n fs => if nm' = nm then some (rp, n) else getFld nm fs

/-- repetition types the conversion maps exactly: unchanged, or required → optional -/
def rpOk : Rp → Rp → Bool
  | .req, .req => true
  | .opt, .opt => true
  | .rpt, .rpt => true
  | .req, .opt => true
  | _, _ => false

mutual
/-- `subN src tgt`: the target is obtained from the source by deleting fields, permuting fields
    (at any depth) and turning required fields into optional ones. -/
def subN : PNode → PNode → Bool
  | .leaf, .leaf => true
  | .group sfs, .group tfs => subF sfs tfs
  | _, _ => false
def subF (sfs : PFields) : PFields → Bool
  | .nil => true
  | .cons nm trp t tfs =>
    (match getFld nm sfs with
     | some (srp, s) => rpOk srp trp && subN s t
     | none => false) && subF sfs tfs
end

/-! ## Targets that add fields (hypothesis of `convert_shred_added`) -/

/-- static twin of `closestLeaf`: name, column offset within the group's block and repetition type
    of the closest leaf sibling -/
def closestOff : PFields → Nat → Option (Nat × Nat × Rp) → Option (Nat × Nat × Rp)
  | .nil, _, best => best
  | .cons nm rp n fs, off, best =>
    match n with
    | .leaf =>
      closestOff fs (off + 1)
        (match best with
         | some (bn, bo, brp) => if nm < bn then some (nm, off, rp) else some (bn, bo, brp)
         | none => some (nm, off, rp))
    | .group gfs => closestOff fs (off + leavesP (.group gfs)) best

/-- an added field is synthesised correctly in a source group with fields `sfs` at definition
    level `sd`: the closest leaf sibling is required, or there is none and the group sits at level 0 -/
def addOk (sfs : PFields) (sd : Nat) : Bool :=
  match closestOff sfs 0 none with
  | some (_, _, .req) => true
  | some _ => false
  | none => sd == 0

mutual
/-- `addN sd src tgt`: the target is obtained from the source (entered at definition level `sd`)
    by deleting and permuting fields and ADDING fields (any subtree) in groups where `addOk` holds;
    shared fields keep their repetition type. -/
def addN (sd : Nat) : PNode → PNode → Bool
  | .leaf, .leaf => true
  | .group sfs, .group tfs => addF sd sfs tfs
  | _, _ => false
def addF (sd : Nat) (sfs : PFields) : PFields → Bool
  | .nil => true
  | .cons nm trp t tfs =>
    (match getFld nm sfs with
     | some (srp, s) => decide (srp = trp) && addN (sd + defOf srp) s t
     | none => addOk sfs sd) && addF sd sfs tfs
end

end PqModel.Convert
