/-! # `rowGroupRows` at the granularity of value buffers — C13 (round 6)

`RowsState.lean` mirrors the error bookkeeping of the row reader of a row group with the behaviour of
the column readers left open (`fails` is a parameter), which is why it could not be run against the
real reader: WHEN a column read fails depends on how many values the column has buffered. This file
closes that gap. It is a MIRROR, statement by statement, of

* `rowGroupRows.ReadRows` (row_group.go:289-370): the loop over the columns, over the rows asked
  for, and the inner `for` that refills the per-column value buffer `b[c.offset:c.length]`, counts
  the values of the row by their repetition levels, and LOOKS AHEAD into the next refill when the
  buffer ends with the row (so a rejected page is reported by the call that reaches its first row
  minus one, not by the call that needs it);
* `rowGroupRows.SeekToRow` / `Reset` / `clear` (row_group.go:239-288);
* `columnChunkValueReader.ReadValues` / `SeekToRow` / `Reset` / `clear` (column_chunk.go:91-161):
  the current page's value reader, dropped at its end, the next page read then;
* the page reader underneath at the level of what it returns (`FilePages.ReadPage` / `SeekToRow`
  with an offset index, file.go:1190-1300 and 1614-1725): the page the cursor stands on is loaded
  and VERIFIED first (`bad` = the loader rejects it: `PageLoad.load`, C13 `load_detects`), then either
  skipped as a whole (`f.skip >= numRows`) or returned from row `f.skip` on (`Slice(skip, numRows)`).
  The cache of the last page (`serveLastPage`) is not mirrored: it returns the same page without
  loading it again (C08 `SeekMachine`).

A value carries where it comes from (`col`, `row`, `page`) and its repetition level; nothing else
of it matters here. The theorems are in `Props/C13RowsBuf.lean`; `Driver/Ops/C13RowsBuf.lean` runs
histories for the L2 sub-check C13/rowsbuf, which compares every call with the real reader on files
with a corrupted page. -/
namespace PqModel.RowsBuf

structure Val where
  col : Nat
  row : Nat    -- row of the row group the value belongs to
  rep : Nat    -- repetition level: 0 = first value of its row
  page : Nat   -- ordinal of the data page it was decoded from
  deriving DecidableEq, Repr

structure Page where
  bad : Bool        -- the loader rejects the page (checksum mismatch)
  firstRow : Nat    -- OffsetIndex.PageLocations[i].FirstRowIndex
  numRows : Nat
  vals : List Val
  deriving DecidableEq, Repr

/-- `FilePages.index` / `FilePages.skip` -/
structure Cursor where
  next : Nat
  skip : Nat
  deriving DecidableEq, Repr

inductive PageRes where
  | eof
  | fail
  | page (vs : List Val)
  deriving DecidableEq, Repr

/-- MIRROR `FilePages.readPageInSequence` (file.go:1214-1366) on the pages from the cursor on: load
    (and verify) the page; `f.skip >= numRows`: the whole page is skipped and the next one loaded;
    otherwise the rows from `skip` on are returned. -/
def readPageFrom : List Page → Cursor → Cursor × PageRes
  | [], c => (c, .eof)
  | p :: ps, c =>
    if p.bad then (c, .fail)
    else if c.skip < p.numRows then
      ({ next := c.next + 1, skip := 0 }, .page (p.vals.filter fun v => decide (p.firstRow + c.skip ≤ v.row)))
    else readPageFrom ps { next := c.next + 1, skip := c.skip - p.numRows }

def readPage (pages : List Page) (c : Cursor) : Cursor × PageRes := readPageFrom (pages.drop c.next) c

/-- MIRROR `FilePages.SeekToRow` with an offset index (file.go:1655-1666): `target` = the last page
    whose first row is `≤ k`, `skip` = `k - FirstRowIndex`. (No page locations / a negative target:
    `ErrSeekOutOfRange`, C08; the first page of a chunk starts at row 0.) -/
def seekCursor (pages : List Page) (k : Nat) : Cursor :=
  let t := (pages.takeWhile fun p => decide (p.firstRow ≤ k)).length - 1
  { next := t, skip := k - ((pages[t]?).map (·.firstRow)).getD 0 }

/-- `columnChunkValueReader`: `pages` (the cursor) and `values` (what is left of `r.page`) -/
structure Reader where
  cur : Cursor
  values : Option (List Val)
  deriving DecidableEq, Repr

inductive ValRes where
  | eof
  | fail
  | vals (vs : List Val)
  deriving DecidableEq, Repr

/-- MIRROR `columnChunkValueReader.ReadValues` (column_chunk.go:123-150) into a buffer of `bufsize`
    values. `fuel`: every two turns of the `for` consume a page. Out of fuel = `io.ErrNoProgress`. -/
def readValues (pages : List Page) (bufsize : Nat) : Nat → Reader → Reader × ValRes
  | 0, r => (r, .fail)
  | fuel + 1, r =>
    match r.values with
    | none =>
      match readPage pages r.cur with
      | (c, .eof) => ({ r with cur := c }, .eof)
      | (c, .fail) => ({ r with cur := c }, .fail)
      | (c, .page vs) => readValues pages bufsize fuel { cur := c, values := some vs }
    | some vs =>
      if (vs.take bufsize).isEmpty then readValues pages bufsize fuel { r with values := none }   -- r.clear()
      else ({ r with values := some (vs.drop bufsize) }, .vals (vs.take bufsize))

def valuesFuel (pages : List Page) : Nat := 2 * pages.length + 4

/-- MIRROR `columnChunkValueReader.SeekToRow` / `Reset` (column_chunk.go:103-111, 152-161) -/
def seekReader (pages : List Page) (k : Nat) : Reader := { cur := seekCursor pages k, values := none }

/-- `columnChunkRows`: the reader and `b[c.offset:c.length]` -/
structure Col where
  reader : Reader
  buf : List Val
  deriving DecidableEq, Repr

/-- the per-column variables of the loop of `ReadRows` -/
structure Scan where
  col : Col
  eof : Bool
  eofCount : Nat
  rowCount : Nat
  deriving DecidableEq, Repr

inductive RowRes where
  | next (s : Scan) (acc : List Val)      -- `break`: on to the next row
  | nextCol (s : Scan) (acc : List Val)   -- `continue readColumnValues`
  | err (s : Scan)                        -- `r.err = err; return 0, err`
  deriving DecidableEq, Repr

/-- `for numValuesInRow < len(values) && values[numValuesInRow].repetitionLevel != 0` -/
def scanRow (nv : Nat) (values : List Val) : Nat :=
  nv + ((values.drop nv).takeWhile fun v => v.rep != 0).length

inductive Refill where
  | ok (s : Scan)
  | eof (s : Scan)
  | fail (s : Scan)
  deriving DecidableEq, Repr

/-- MIRROR `if c.offset == c.length { n, err := c.reader.ReadValues(b); … }` (row_group.go:322-336) -/
def refill (pages : List Page) (bufsize : Nat) (s : Scan) : Refill :=
  if s.col.buf.isEmpty then
    match readValues pages bufsize (valuesFuel pages) s.col.reader with
    | (rd, .vals vs) => .ok { s with col := { reader := rd, buf := vs } }
    | (rd, .eof) => .eof { s with col := { reader := rd, buf := [] }, eof := true, eofCount := s.eofCount + 1 }
    | (rd, .fail) => .fail { s with col := { reader := rd, buf := [] } }
  else .ok s

/-- MIRROR the inner `for { … }` of `ReadRows` (row_group.go:321-357) for row `rowIndex` of the call:
    `nv` = `numValuesInRow`, `acc` = what has been appended to `rows[rowIndex]` for this column.
    Every turn that loops again has consumed a whole non-empty buffer. -/
def rowLoop (pages : List Page) (bufsize rowIndex : Nat) : Nat → Nat → Scan → List Val → RowRes
  | 0, _, s, _ => .err s
  | fuel + 1, nv, s, acc =>
    match refill pages bufsize s with
    | .eof s => .next s acc
    | .fail s => .err s
    | .ok s =>
      let vs := s.col.buf
      let nv := scanRow nv vs
      if nv == 0 then .next s acc
      else
        let s' := { s with col := { s.col with buf := vs.drop nv }, rowCount := max s.rowCount (rowIndex + 1) }
        if nv != vs.length then .next s' (acc ++ vs.take nv)
        else if s.eof then .nextCol s' (acc ++ vs.take nv)
        else rowLoop pages bufsize rowIndex fuel 0 s' (acc ++ vs.take nv)

def rowFuel (pages : List Page) : Nat := (pages.map fun p => p.vals.length).sum + 2

inductive ColRes where
  | ok (s : Scan) (accs : List (List Val))   -- per row of the call: the values appended for this column
  | err (s : Scan)
  deriving DecidableEq, Repr

/-- MIRROR `for rowIndex := range rows` (row_group.go:313-358) for one column -/
def colLoop (pages : List Page) (bufsize : Nat) : Nat → Nat → Scan → ColRes
  | 0, _, s => .ok s []
  | n + 1, i, s =>
    match rowLoop pages bufsize i (rowFuel pages) 1 s [] with
    | .err s => .err s
    | .nextCol s acc => .ok s [acc]
    | .next s acc =>
      match colLoop pages bufsize n (i + 1) s with
      | .err s => .err s
      | .ok s accs => .ok s (acc :: accs)

structure ColsRes where
  cols : List Col
  failed : Bool
  eofCount : Nat
  rowCount : Nat
  accs : List (List (List Val))   -- per column, per row of the call
  deriving DecidableEq, Repr

/-- MIRROR `for columnIndex := range r.columns` (row_group.go:308-359): the first failure ends the
    call with the columns in front advanced and the ones behind untouched -/
def colsLoop (bufsize n : Nat) : List (List Page) → List Col → Nat → Nat → ColsRes
  | pages :: file, c :: cs, ec, rc =>
    match colLoop pages bufsize n 0 { col := c, eof := false, eofCount := ec, rowCount := rc } with
    | .err s => { cols := s.col :: cs, failed := true, eofCount := s.eofCount, rowCount := s.rowCount, accs := [] }
    | .ok s accs =>
      let r := colsLoop bufsize n file cs s.eofCount s.rowCount
      { r with cols := s.col :: r.cols, accs := accs :: r.accs }
  | _, cs, ec, rc => { cols := cs, failed := false, eofCount := ec, rowCount := rc, accs := [] }

/-- `rows[i]` = the values of row `i` of every column, one column after the other -/
def assemble (rowCount : Nat) (accs : List (List (List Val))) : List (List Val) :=
  (List.range rowCount).map fun i => (accs.map fun a => a.getD i []).flatten

structure St where
  cols : List Col
  rowIndex : Int    -- r.rowIndex, -1 on a new reader
  err : Bool        -- r.err != nil
  deriving DecidableEq, Repr

inductive Op where
  | read (n : Nat)
  | seek (k : Nat)
  | reset
  deriving DecidableEq, Repr

inductive Out where
  | rows (rs : List (List Val)) (eof : Bool)   -- `return rowCount, nil | io.EOF`
  | failed                                     -- `return 0, err`
  | done
  deriving DecidableEq, Repr

/-- `newRowGroupRows` (row_group.go:213-237) -/
def init (file : List (List Page)) : St :=
  { cols := file.map fun _ => { reader := { cur := { next := 0, skip := 0 }, values := none }, buf := [] },
    rowIndex := -1, err := false }

/-- MIRROR `rowGroupRows.SeekToRow` (row_group.go:272-288) -/
def seek (file : List (List Page)) (st : St) (k : Nat) : St :=
  if (k : Int) ≠ st.rowIndex ∨ st.err = true then
    { cols := file.map fun pages => { reader := seekReader pages k, buf := [] }, rowIndex := k, err := false }
  else st

/-- MIRROR `rowGroupRows.Reset` (row_group.go:246-255) -/
def reset (file : List (List Page)) (_ : St) : St :=
  { cols := file.map fun pages => { reader := seekReader pages 0, buf := [] }, rowIndex := 0, err := false }

/-- MIRROR `rowGroupRows.ReadRows` (row_group.go:289-370) -/
def read (file : List (List Page)) (bufsize : Nat) (st : St) (n : Nat) : St × Out :=
  if st.err then (st, .failed)                                  -- if r.err != nil { return 0, r.err }
  else
    let st := if st.rowIndex < 0 then seek file st 0 else st    -- if r.rowIndex < 0 { r.SeekToRow(0) }
    let r := colsLoop bufsize n file st.cols 0 0
    if r.failed then ({ st with cols := r.cols, err := true }, .failed)
    else ({ st with cols := r.cols, rowIndex := st.rowIndex + r.rowCount },
          .rows (assemble r.rowCount r.accs) (decide (r.eofCount > 0)))

def step (file : List (List Page)) (bufsize : Nat) (st : St) : Op → St × Out
  | .read n => read file bufsize st n
  | .seek k => (seek file st k, .done)
  | .reset => (reset file st, .done)

def run (file : List (List Page)) (bufsize : Nat) : St → List Op → List (St × Out)
  | _, [] => []
  | s, op :: ops => step file bufsize s op :: run file bufsize (step file bufsize s op).1 ops

def reach (file : List (List Page)) (bufsize : Nat) (ops : List Op) : St :=
  ops.foldl (fun s op => (step file bufsize s op).1) (init file)

end PqModel.RowsBuf
