/-! # C11 — `copyColumnValues` below the stream level: the batches handed to the column writer

`copyColumnValues` (writer_reencode.go:219-265) reads the values of a source column chunk through
`columnChunkValueReader.ReadValues` (column_chunk.go:123-150) into a buffer of
`reencodeValueBufferSize` = 1024 values and hands them to `ColumnWriter.WriteRowValues`
(writer.go:2415-2433), which may cut a data page at the end of ANY batch it is handed (it flushes
when its buffer exceeds the page buffer size). A data page must start at the beginning of a row, so
for a repeated column the values of the last, possibly unfinished, row of a read are held back and
written with the next batch, and the buffer doubles when one row fills it.

MIRROR: `readValues`, `lastStart`, `copyLoop`. SPEC (parquet format, "a data page starts a new
row": repetition level 0 at its first value): `StartsRow`. The value type is abstract; `isStart v`
is "repetition level of `v` is 0". -/
namespace PqModel.CopyValues

variable {V : Type}

inductive Status where
  | done        -- `io.EOF` from the reader: `return nil`
  | noProgress  -- the reader was offered an empty buffer: `io.ErrNoProgress`
  | fuel        -- the model ran out of fuel (never with `fuel > number of values`, `copy_terminates`)
  deriving DecidableEq, Repr

/-- MIRROR column_chunk.go:123-150 `columnChunkValueReader.ReadValues(values)` with
    `space = len(values)`; the state is the list of pages not yet read, each as the values it still
    holds (an exhausted page answers `0, io.EOF` and the reader moves on to the next one).
    `none` = `0, io.EOF` (no page left); `some ([], _)` = `0, io.ErrNoProgress` (`space = 0`);
    else the first `space` values of the current page. -/
def readValues (space : Nat) : List (List V) → Option (List V × List (List V))
  | [] => none
  | [] :: ps => readValues space ps
  | (v :: p) :: ps => some ((v :: p).take space, (v :: p).drop space :: ps)

/-- the last index at which `p` holds -/
def lastIdx (p : V → Bool) : List V → Option Nat
  | [] => none
  | v :: vs =>
    match lastIdx p vs with
    | some j => some (j + 1)
    | none => if p v then some 0 else none

/-- MIRROR writer_reencode.go:234-241: `end = 0; for i := n-1; i > 0; i-- { if rep(buf[i]) == 0 {
    end = i; break } }` — the last index other than 0 whose value starts a row, 0 when there is none -/
def lastStart (isStart : V → Bool) : List V → Nat
  | [] => 0
  | _ :: vs =>
    match lastIdx isStart vs with
    | some j => j + 1
    | none => 0

/-- MIRROR writer_reencode.go:224-264, the loop of `copyColumnValues`. State: the pages the reader
    has left, `cap = len(buf)`, `pend = buf[:pending]`. Result: the batches handed to
    `dst.WriteRowValues` in order, and how the loop ended. One unit of fuel per iteration. -/
def copyLoop (rep : Bool) (isStart : V → Bool) :
    Nat → List (List V) → Nat → List V → List (List V) × Status
  | 0, _, _, _ => ([], .fuel)
  | fuel + 1, pages, cap, pend =>
    match readValues (cap - pend.length) pages with
    | none => (if pend.isEmpty then [] else [pend], .done)          -- err == io.EOF: end = n
    | some ([], _) => (if pend.isEmpty then [] else [pend], .noProgress) -- err != nil: end = n, return err
    | some (g :: got, pages') =>
      let buf := pend ++ g :: got
      let e := if rep then lastStart isStart buf else buf.length
      let cap' := if rep && e == 0 && buf.length == cap then cap + cap else cap
      let r := copyLoop rep isStart fuel pages' cap' (buf.drop e)
      (if e > 0 then buf.take e :: r.1 else r.1, r.2)

/-- `copyColumnValues(dst, src)`: `buf := make([]Value, 1024)`, `pending := 0` -/
def copyColumnValues (rep : Bool) (isStart : V → Bool) (fuel : Nat) (pages : List (List V)) :
    List (List V) × Status :=
  copyLoop rep isStart fuel pages 1024 []

/-- SPEC: a batch (a page) is not empty and its first value has repetition level 0 -/
def StartsRow (isStart : V → Bool) (b : List V) : Prop :=
  ∃ v, b.head? = some v ∧ isStart v = true

/-! ## lemmas -/

theorem readValues_none {space : Nat} : ∀ {pages : List (List V)},
    readValues space pages = none → pages.flatten = []
  | [], _ => rfl
  | [] :: ps, h => by
    simp only [readValues] at h
    simpa using readValues_none h
  | (_ :: _) :: _, h => by simp [readValues] at h

theorem readValues_some {space : Nat} : ∀ {pages pages' : List (List V)} {got : List V},
    readValues space pages = some (got, pages') → got ++ pages'.flatten = pages.flatten
  | [], _, _, h => by simp [readValues] at h
  | [] :: ps, _, _, h => by
    simp only [readValues] at h
    simpa using readValues_some h
  | (v :: p) :: ps, _, _, h => by
    simp only [readValues, Option.some.injEq, Prod.mk.injEq] at h
    obtain ⟨rfl, rfl⟩ := h
    simp only [List.flatten_cons, ← List.append_assoc, List.take_append_drop]

theorem readValues_length_le {space : Nat} : ∀ {pages pages' : List (List V)} {got : List V},
    readValues space pages = some (got, pages') → got.length ≤ space
  | [], _, _, h => by simp [readValues] at h
  | [] :: ps, _, _, h => by
    simp only [readValues] at h
    exact readValues_length_le h
  | (v :: p) :: ps, _, _, h => by
    simp only [readValues, Option.some.injEq, Prod.mk.injEq] at h
    obtain ⟨rfl, _⟩ := h
    simp only [List.length_take]; omega

/-- offered room, the reader makes progress -/
theorem readValues_progress {space : Nat} (hs : 0 < space) : ∀ {pages pages' : List (List V)} {got : List V},
    readValues space pages = some (got, pages') → got ≠ []
  | [], _, _, h => by simp [readValues] at h
  | [] :: ps, _, _, h => by
    simp only [readValues] at h
    exact readValues_progress hs h
  | (v :: p) :: ps, _, _, h => by
    simp only [readValues, Option.some.injEq, Prod.mk.injEq] at h
    obtain ⟨rfl, _⟩ := h
    cases space with
    | zero => omega
    | succ n => simp

theorem lastIdx_spec (p : V → Bool) : ∀ {l : List V} {j : Nat},
    lastIdx p l = some j → j < l.length ∧ ∃ v, (l.drop j).head? = some v ∧ p v = true
  | [], _, h => by simp [lastIdx] at h
  | v :: vs, j, h => by
    simp only [lastIdx] at h
    split at h
    · next j' hj' =>
      have := lastIdx_spec p hj'
      simp only [Option.some.injEq] at h
      subst h
      simpa using this
    · split at h
      · next hv =>
        simp only [Option.some.injEq] at h
        subst h
        exact ⟨by simp, v, by simp, hv⟩
      · simp at h

/-- where the loop cuts: inside the buffer, at a value that starts a row -/
theorem lastStart_spec (isStart : V → Bool) {buf : List V} (h : 0 < lastStart isStart buf) :
    lastStart isStart buf < buf.length ∧ StartsRow isStart (buf.drop (lastStart isStart buf)) := by
  cases buf with
  | nil => simp [lastStart] at h
  | cons b vs =>
    simp only [lastStart] at h ⊢
    split
    · next j hj =>
      have := lastIdx_spec isStart hj
      simpa [StartsRow] using this
    · next hn => simp [hn] at h

theorem lastStart_lt (isStart : V → Bool) {buf : List V} (h : buf ≠ []) :
    lastStart isStart buf < buf.length := by
  by_cases h0 : 0 < lastStart isStart buf
  · exact (lastStart_spec isStart h0).1
  · cases buf with
    | nil => exact absurd rfl h
    | cons => simp only [List.length_cons]; omega

end PqModel.CopyValues
