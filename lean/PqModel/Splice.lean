import PqModel.Layout

/-! # C11 — the byte splice of the verbatim copy path

MIRROR of `loadCopiedChunk` (writer_copy.go:457-533: byte ranges of the dictionary and data
pages, page locations made relative to the data region, counts and sizes carried over) and of the
`c.copied != nil` branches of `writeRowGroup` (writer.go:1574-1598: dictionary page offset, data
page offset, page locations re-absolutized, bytes streamed; writer.go:1640-1670: bloom filter
section streamed after the chunks), on top of the accounting model of the direct writer
(`PqModel.Layout`: `chunkMeta`, `specLocs`, `layout_wf`, `rowGroupMetas`).

SPEC: `chunkMeta dst ps` / `layout_wf` / `offsets_wf` (what metadata describing pages `ps` laid out
at `dst` looks like) and plain list slicing for the bytes. -/
namespace PqModel.Splice
open PqModel.Layout

/-- page location relative to the data region; Go subtracts in int64, so the offset is an `Int` -/
structure RelLoc where
  offset : Int
  size : Nat
  firstRow : Nat
deriving Repr, DecidableEq

/-- `copiedChunk` (writer_copy.go:42-59), the fields the splice uses -/
structure Copied where
  dictOffset : Nat
  dictLength : Nat
  dataOffset : Nat
  dataLength : Nat
  locs : List RelLoc
  numValues : Nat
  numRows : Nat
  totalCompressed : Nat
  totalUncompressed : Nat
deriving Repr, DecidableEq

/-- writer_copy.go:457-533 `loadCopiedChunk`. `DictionaryPageOffset != 0` is `dictOffset = some _`
    (no page of a Parquet file starts at offset 0: the magic is there). `none` = the
    "invalid source column chunk layout" error. -/
def loadCopied (m : ChunkMeta) : Option Copied :=
  let rel := m.locs.map fun l => (⟨(l.offset : Int) - m.dataOffset, l.size, l.firstRow⟩ : RelLoc)
  match m.dictOffset with
  | none =>
    some { dictOffset := 0, dictLength := 0, dataOffset := m.dataOffset, dataLength := m.totalCompressed,
           locs := rel, numValues := m.numValues, numRows := m.numRows,
           totalCompressed := m.totalCompressed, totalUncompressed := m.totalUncompressed }
  | some d =>
    let dictLength : Int := (m.dataOffset : Int) - d
    if dictLength < 0 ∨ dictLength > m.totalCompressed then none
    else
      some { dictOffset := d, dictLength := dictLength.toNat, dataOffset := m.dataOffset,
             dataLength := m.totalCompressed - dictLength.toNat,
             locs := rel, numValues := m.numValues, numRows := m.numRows,
             totalCompressed := m.totalCompressed, totalUncompressed := m.totalUncompressed }

/-- writer.go:1574-1598: the metadata of a copied chunk written at file offset `off`, and the file
    offset after its bytes -/
def writeCopied (off : Nat) (c : Copied) : ChunkMeta × Nat :=
  let dictOffset := if c.dictLength > 0 then some off else none
  let off1 := if c.dictLength > 0 then off + c.dictLength else off
  let locs := c.locs.map fun l => (⟨((l.offset + off1 : Int)).toNat, l.size, l.firstRow⟩ : PageLoc)
  let off2 := if c.dataLength > 0 then off1 + c.dataLength else off1
  ({ dictOffset := dictOffset, dataOffset := off1, totalCompressed := c.totalCompressed,
     totalUncompressed := c.totalUncompressed, numValues := c.numValues, numRows := c.numRows,
     locs := locs }, off2)

/-- the splice of one chunk: source metadata in, destination metadata out -/
def spliceChunk (src : ChunkMeta) (dstStart : Nat) : Option ChunkMeta :=
  (loadCopied src).map fun c => (writeCopied dstStart c).1

/-- the bytes streamed into the output for one copied chunk (writer.go:1583,1595:
    `io.NewSectionReader(cc.reader, off, len)`) -/
def copiedBytes {β : Type} (file : List β) (c : Copied) : List β :=
  (if c.dictLength > 0 then (file.drop c.dictOffset).take c.dictLength else []) ++
  (if c.dataLength > 0 then (file.drop c.dataOffset).take c.dataLength else [])

/-! ## accounting facts of the direct writer used below -/

theorem foldl_record_dict_le (ps : List PageOp) (a : Acc) (h : a.dictSize ≤ a.totalCompressed) :
    (ps.foldl record a).dictSize ≤ (ps.foldl record a).totalCompressed := by
  induction ps generalizing a with
  | nil => exact h
  | cons p ps ih =>
    simp only [List.foldl_cons]
    apply ih
    by_cases hd : p.isDict = true
    · simp [record, hd]
    · have hd' : p.isDict = false := by simpa using hd
      simp only [record, hd', Bool.false_eq_true, if_false]
      omega

theorem recordAll_dict_le (ps : List PageOp) : (recordAll ps).dictSize ≤ (recordAll ps).totalCompressed :=
  foldl_record_dict_le ps {} (Nat.le_refl _)

/-! ## splice_wf -/

/-- the general form: the splice of what `finishChunk` computes at `srcStart` is what `finishChunk`
    computes at `dstStart`, and the file offset advances by the chunk's compressed size -/
theorem splice_finish (srcStart dstStart : Nat) (a : Acc) (h : a.dictSize ≤ a.totalCompressed) :
    (loadCopied (finishChunk srcStart a)).map (writeCopied dstStart) =
      some (finishChunk dstStart a, dstStart + a.totalCompressed) := by
  by_cases hd : a.dictSize > 0
  · have e : ((srcStart + a.dictSize : Nat) : Int) - (srcStart : Nat) = (a.dictSize : Int) := by omega
    have hcond : ¬((a.dictSize : Int) < 0 ∨ (a.dictSize : Int) > (a.totalCompressed : Int)) := by omega
    simp only [loadCopied, finishChunk, hd, if_true, e, hcond, if_false, Option.map_some, writeCopied,
      Int.toNat_natCast, List.map_map]
    refine congrArg some (Prod.ext ?_ ?_)
    · simp only [ChunkMeta.mk.injEq, true_and]
      apply List.map_congr_left
      intro l _
      simp only [Function.comp]
      congr 1
      omega
    · simp only
      split <;> omega
  · have hd0 : a.dictSize = 0 := by omega
    simp only [loadCopied, finishChunk, if_false, Option.map_some, writeCopied, hd0,
      Nat.lt_irrefl, Nat.add_zero, List.map_map]
    refine congrArg some (Prod.ext ?_ ?_)
    · simp only [ChunkMeta.mk.injEq, true_and]
      apply List.map_congr_left
      intro l _
      simp only [Function.comp]
      congr 1
      omega
    · simp only
      split <;> omega

/-- **splice_wf**: if the source metadata describes pages `ps` laid out at `srcStart`, the spliced
    metadata describes the same pages laid out at `dstStart` — dictionary page offset, data page
    offset and every page location rebased, sizes and counts unchanged — for EVERY page sequence,
    source position and destination position. With `layout_wf` / `offsets_wf` at `dstStart`, every
    offset of the output points at the first byte of the page it names. -/
theorem splice_wf (srcStart dstStart : Nat) (ps : List PageOp) :
    spliceChunk (chunkMeta srcStart ps) dstStart = some (chunkMeta dstStart ps) := by
  have := splice_finish srcStart dstStart (recordAll ps) (recordAll_dict_le ps)
  simp only [spliceChunk, chunkMeta]
  cases h : loadCopied (finishChunk srcStart (recordAll ps)) with
  | none => simp [h] at this
  | some c =>
    simp only [h, Option.map_some, Option.some.injEq] at this ⊢
    rw [this]

/-- the output offset after a spliced chunk is its start plus the chunk's bytes -/
theorem splice_advances (srcStart dstStart : Nat) (ps : List PageOp) :
    (loadCopied (chunkMeta srcStart ps)).map (fun c => (writeCopied dstStart c).2) =
      some (dstStart + totalSize ps) := by
  have := splice_finish srcStart dstStart (recordAll ps) (recordAll_dict_le ps)
  have ht := (layout_wf dstStart ps).2.1
  simp only [chunkMeta, finishChunk] at ht
  simp only [chunkMeta]
  cases h : loadCopied (finishChunk srcStart (recordAll ps)) with
  | none => simp [h] at this
  | some c =>
    simp only [h, Option.map_some, Option.some.injEq] at this ⊢
    rw [this, ht]

/-- the locations of a spliced chunk, spelled out positionally (corollary of `layout_wf`) -/
theorem splice_locs (srcStart dstStart : Nat) (ps : List PageOp) :
    (spliceChunk (chunkMeta srcStart ps) dstStart).map (·.locs) = some (specLocs dstStart 0 ps) := by
  rw [splice_wf, Option.map_some, (layout_wf dstStart ps).1]

/-! ## the bytes -/

theorem take_drop_add {β : Type} (l : List β) (a n m : Nat) :
    (l.drop a).take n ++ (l.drop (a + n)).take m = (l.drop a).take (n + m) := by
  rw [List.take_add, List.drop_drop]

/-- the bytes streamed for a chunk whose metadata describes pages at `srcStart` are exactly the
    `totalSize ps` bytes of the source starting at `srcStart` (dictionary page and data pages are
    adjacent in the source, so the two ranges join up) -/
theorem copied_bytes {β : Type} (file : List β) (srcStart : Nat) (ps : List PageOp) :
    (loadCopied (chunkMeta srcStart ps)).map (copiedBytes file) =
      some ((file.drop srcStart).take (totalSize ps)) := by
  have hle := recordAll_dict_le ps
  have ht : (recordAll ps).totalCompressed = totalSize ps := by
    have := (layout_wf srcStart ps).2.1
    simpa [chunkMeta, finishChunk] using this
  simp only [chunkMeta]
  by_cases hd : (recordAll ps).dictSize > 0
  · have e : ((srcStart + (recordAll ps).dictSize : Nat) : Int) - (srcStart : Nat) = ((recordAll ps).dictSize : Int) := by omega
    have hcond : ¬(((recordAll ps).dictSize : Int) < 0 ∨ ((recordAll ps).dictSize : Int) > ((recordAll ps).totalCompressed : Int)) := by omega
    simp only [loadCopied, finishChunk, hd, if_true, e, hcond, if_false, Option.map_some, copiedBytes,
      Int.toNat_natCast]
    congr 1
    by_cases hz : (recordAll ps).totalCompressed - (recordAll ps).dictSize > 0
    · simp only [hz, if_true]
      rw [take_drop_add]
      congr 1
      omega
    · simp only [hz, if_false, List.append_nil]
      congr 1
      omega
  · have hd0 : (recordAll ps).dictSize = 0 := by omega
    simp only [loadCopied, finishChunk, if_false, Option.map_some, copiedBytes, hd0,
      Nat.lt_irrefl, Nat.add_zero, List.nil_append]
    congr 1
    by_cases hz : (recordAll ps).totalCompressed > 0
    · have hz' : totalSize ps > 0 := by omega
      simp only [ht, hz', if_true]
    · have : totalSize ps = 0 := by omega
      simp [hz, this]

/-- a page (or any byte range) inside the copied segment reads the same bytes at the rebased
    offset of the output as at its offset in the source -/
theorem page_bytes_preserved {β : Type} (file pre post : List β) (srcStart total k z : Nat)
    (hk : k + z ≤ total) (hlen : srcStart + total ≤ file.length) :
    (((pre ++ (file.drop srcStart).take total ++ post).drop (pre.length + k)).take z) =
      ((file.drop (srcStart + k)).take z) := by
  have hseg : ((file.drop srcStart).take total).length = total := by
    simp [List.length_take, List.length_drop]; omega
  rw [List.append_assoc, List.drop_append, List.drop_of_length_le (by omega)]
  simp only [List.nil_append, Nat.add_sub_cancel_left]
  rw [List.drop_append_of_le_length (by omega), List.take_append_of_le_length (by
    simp [List.length_drop, hseg]; omega)]
  rw [List.drop_take, List.drop_drop, List.take_take]
  congr 1
  omega

/-! ## row groups mixing written and spliced chunks -/

/-- a column of an output row group: written from buffered pages, or spliced from a source chunk -/
inductive ChunkIn where
  | written (ps : List PageOp)
  | copied (src : ChunkMeta)

/-- writer.go:1573-1638: the loop over the columns, with the running file offset -/
def rowGroupMetasMixed (start : Nat) : List ChunkIn → Option (List ChunkMeta)
  | [] => some []
  | .written ps :: cs =>
    let m := chunkMeta start ps
    (rowGroupMetasMixed (start + m.totalCompressed) cs).map (m :: ·)
  | .copied src :: cs =>
    match loadCopied src with
    | none => none
    | some c =>
      let r := writeCopied start c
      (rowGroupMetasMixed r.2 cs).map (r.1 :: ·)

/-- the pages a column holds, and where a copied column's pages sit in its source -/
def Describes : ChunkIn → List PageOp → Prop
  | .written ps, qs => ps = qs
  | .copied src, qs => ∃ srcStart, src = chunkMeta srcStart qs

/-- **rowGroup_wf_mixed**: a row group whose columns are partly written and partly spliced gets
    exactly the metadata of the same pages all written directly (`rowGroupMetas`, for which
    `rowGroup_wf` and `layout_wf` say that every offset is positional) -/
theorem rowGroup_wf_mixed (start : Nat) (cs : List ChunkIn) (pss : List (List PageOp))
    (hl : cs.length = pss.length)
    (hd : ∀ i (h : i < cs.length) (h' : i < pss.length), Describes cs[i] pss[i]) :
    rowGroupMetasMixed start cs = some (rowGroupMetas start pss) := by
  induction cs generalizing start pss with
  | nil =>
    cases pss with
    | nil => rfl
    | cons _ _ => simp at hl
  | cons c cs ih =>
    cases pss with
    | nil => simp at hl
    | cons ps pss =>
      have h0 := hd 0 (by simp) (by simp)
      have hl' : cs.length = pss.length := by simpa using hl
      have hd' : ∀ i (h : i < cs.length) (h' : i < pss.length), Describes cs[i] pss[i] := by
        intro i h h'
        have := hd (i + 1) (by simp; omega) (by simp; omega)
        simpa using this
      cases c with
      | written qs =>
        simp only [List.getElem_cons_zero, Describes] at h0
        subst h0
        simp only [rowGroupMetasMixed, rowGroupMetas]
        rw [ih _ pss hl' hd']
        rfl
      | copied src =>
        simp only [List.getElem_cons_zero, Describes] at h0
        obtain ⟨srcStart, rfl⟩ := h0
        have hs := splice_finish srcStart start (recordAll ps) (recordAll_dict_le ps)
        simp only [rowGroupMetasMixed, rowGroupMetas, chunkMeta]
        cases hlc : loadCopied (finishChunk srcStart (recordAll ps)) with
        | none => simp [hlc] at hs
        | some cc =>
          simp only [hlc, Option.map_some, Option.some.injEq] at hs
          simp only [hs]
          have ht : (finishChunk start (recordAll ps)).totalCompressed = (recordAll ps).totalCompressed := rfl
          rw [ih _ pss hl' hd', ht]
          rfl

/-! ## bloom filter sections (writer.go:1640-1712) -/

/-- after the chunks of a row group, the bloom filter sections (copied as raw byte ranges, or
    written) follow back to back; `lens[i] = 0` = column without filter. Returns (offset, length) of
    every column's section and the final file offset. -/
def placeBlooms (off : Nat) : List Nat → List (Option (Nat × Nat)) × Nat
  | [] => ([], off)
  | 0 :: ls => let r := placeBlooms off ls; (none :: r.1, r.2)
  | (n + 1) :: ls => let r := placeBlooms (off + (n + 1)) ls; (some (off, n + 1) :: r.1, r.2)

/-- every recorded bloom filter offset is the file offset at which that section's bytes start:
    the start plus the lengths of the sections before it -/
theorem placeBlooms_wf : ∀ (off : Nat) (lens : List Nat),
    (placeBlooms off lens).2 = off + lens.sum ∧
    ∀ i (h : i < lens.length), ((placeBlooms off lens).1)[i]? =
      some (if lens[i] = 0 then none else some (off + (lens.take i).sum, lens[i]))
  | off, [] => by simp [placeBlooms]
  | off, 0 :: ls => by
    have ih := placeBlooms_wf off ls
    refine ⟨by simp [placeBlooms, ih.1], ?_⟩
    intro i h
    cases i with
    | zero => simp [placeBlooms]
    | succ j =>
      have := ih.2 j (by simpa using h)
      simp [placeBlooms, this]
  | off, (n + 1) :: ls => by
    have ih := placeBlooms_wf (off + (n + 1)) ls
    refine ⟨by simp [placeBlooms, ih.1]; omega, ?_⟩
    intro i h
    cases i with
    | zero => simp [placeBlooms]
    | succ j =>
      have := ih.2 j (by simpa using h)
      simp only [placeBlooms, List.getElem?_cons_succ, this, List.getElem_cons_succ, List.take_succ_cons,
        List.sum_cons]
      congr 1
      split
      · rfl
      · congr 2
        omega

-- a run: dictionary page + two data pages written at 4 in the source, spliced to 1000
example : spliceChunk (chunkMeta 4 [⟨true, 10, 20, 25, 3, 0⟩, ⟨false, 12, 30, 40, 5, 5⟩, ⟨false, 11, 7, 9, 2, 2⟩]) 1000 =
    some { dictOffset := some 1000, dataOffset := 1030, totalCompressed := 90, totalUncompressed := 107,
           numValues := 7, numRows := 7, locs := [⟨1030, 42, 0⟩, ⟨1072, 18, 5⟩] } := by decide

-- malformed source (data page offset before the dictionary page): the Go error
example : loadCopied { dictOffset := some 50, dataOffset := 40, totalCompressed := 90, totalUncompressed := 0,
                       numValues := 0, numRows := 0, locs := [] } = none := by decide

end PqModel.Splice
