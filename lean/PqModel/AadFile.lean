import PqModel.AadSites

/-! # Modular encryption: which modules the reader opens OUTSIDE the page reader, call by call

MIRROR of the reader paths of file.go that open modules from footer metadata, as a state machine
over API calls — every opening goes THROUGH the call-site table `Aad.sites` (the site's module type
and the roles of its ordinal arguments, evaluated at the chunk's position):

* `OpenFile` (file.go:65-333): the footer (site `OpenFile`: the footer envelope, or the signature
  of a plaintext footer), then `decryptAllColumnMetadata` (540-594: every chunk that carries
  `EncryptedColumnMetadata`, row-group-major), then — unless `SkipPageIndex` — `ReadPageIndex`
  (346-538: every column index present, then every offset index present, row-group-major), whose
  results are handed to the chunks (`openColumns`), so that later `ColumnIndex()`/`OffsetIndex()`
  calls open nothing. Bloom filters of encrypted chunks are never read at open (271-273);
* `FileColumnChunk.ColumnIndex()` / `OffsetIndex()` (876-1035): the chunk's own module, once
  (cached in `c.columnIndex` / `c.offsetIndex`), when the file has one for the chunk;
* `FileColumnChunk.BloomFilter()` (922-1098): header module then bitset module, once.

What is a fact of the FILE: which chunks carry sealed column metadata, a column index (chunks
without bounds have none), an offset index, a bloom filter. The reader is assumed to hold every key. -/
namespace PqModel.Aad

structure FChunk where
  sealedMeta : Bool   -- `len(chunk.EncryptedColumnMetadata) > 0`
  hasCI : Bool        -- `ColumnIndexOffset > 0`
  hasOI : Bool        -- `OffsetIndexOffset > 0`
  hasBloom : Bool     -- `MetaData.BloomFilterOffset > 0`
deriving DecidableEq, Repr

/-- row groups × column chunks -/
abbrev FFile := List (List FChunk)

inductive FOp where
  | openFile (skipPageIndex : Bool)
  | columnIndex (rg col : Nat)
  | offsetIndex (rg col : Nat)
  | bloom (rg col : Nat)
deriving DecidableEq, Repr

structure FSt where
  ci : List (Nat × Nat)     -- chunks whose `columnIndex` pointer is set
  oi : List (Nat × Nat)
  bf : List (Nat × Nat)
  log : List Ev
deriving Repr

/-- the opening a call site makes at position `c`: slot and arguments as the TABLE says (no event
    if the table has no such site — `sites_cover_file_reader` shows it has) -/
def evAt (fn : String) (t : ModType) (c : Coord) : List Ev :=
  match sites.find? (fun s => s.fn == fn && s.t == t) with
  | some s => [⟨s.slot c, s.used c⟩]
  | none => []

/-- all chunks with their positions, row-group-major (`forEachColumnChunk`) -/
def chunksOf (f : FFile) : List (Nat × Nat × FChunk) :=
  (f.zipIdx.map (fun (rg, i) => rg.zipIdx.map (fun (ch, j) => (i, j, ch)))).flatten

def chunkAt (f : FFile) (rg col : Nat) : Option FChunk := (f[rg]?).bind (·[col]?)

/-- does the chunk exist and have the thing -/
def hasAt (f : FFile) (rg col : Nat) (p : FChunk → Bool) : Bool :=
  match chunkAt f rg col with
  | some ch => p ch
  | none => false

def fstep (f : FFile) (s : FSt) : FOp → FSt
  | .openFile skip =>
    let all := chunksOf f
    let footer := evAt "file.go:OpenFile" .footer ⟨0, 0, 0⟩
    let metas := (all.filter (fun x => x.2.2.sealedMeta)).flatMap
      (fun x => evAt "file.go:File.decryptAllColumnMetadata" .columnMeta ⟨x.1, x.2.1, 0⟩)
    let withCI := all.filter (fun x => x.2.2.hasCI)
    let withOI := all.filter (fun x => x.2.2.hasOI)
    let cis := withCI.flatMap (fun x => evAt "file.go:File.ReadPageIndex" .columnIndex ⟨x.1, x.2.1, 0⟩)
    let ois := withOI.flatMap (fun x => evAt "file.go:File.ReadPageIndex" .offsetIndex ⟨x.1, x.2.1, 0⟩)
    if skip then { ci := [], oi := [], bf := [], log := s.log ++ footer ++ metas }
    else { ci := withCI.map (fun x => (x.1, x.2.1)), oi := withOI.map (fun x => (x.1, x.2.1)), bf := [],
           log := s.log ++ footer ++ metas ++ cis ++ ois }
  | .columnIndex rg col =>
    if hasAt f rg col (·.hasCI) && !s.ci.contains (rg, col) then
      { s with ci := (rg, col) :: s.ci,
               log := s.log ++ evAt "file.go:FileColumnChunk.readColumnIndexFrom" .columnIndex ⟨rg, col, 0⟩ }
    else s
  | .offsetIndex rg col =>
    if hasAt f rg col (·.hasOI) && !s.oi.contains (rg, col) then
      { s with oi := (rg, col) :: s.oi,
               log := s.log ++ evAt "file.go:FileColumnChunk.readOffsetIndex" .offsetIndex ⟨rg, col, 0⟩ }
    else s
  | .bloom rg col =>
    if hasAt f rg col (·.hasBloom) && !s.bf.contains (rg, col) then
      { s with bf := (rg, col) :: s.bf,
               log := s.log ++ evAt "file.go:FileColumnChunk.readBloomFilter" .bloomHeader ⟨rg, col, 0⟩
                            ++ evAt "file.go:FileColumnChunk.readBloomFilter" .bloomBits ⟨rg, col, 0⟩ }
    else s

def finit : FSt := { ci := [], oi := [], bf := [], log := [] }

/-- a history of calls: final state and, per call, the number of modules opened so far -/
def frunFrom (f : FFile) : FSt → List FOp → List Nat → FSt × List Nat
  | s, [], acc => (s, acc.reverse)
  | s, o :: ops, acc =>
    let s' := fstep f s o
    frunFrom f s' ops (s'.log.length :: acc)

def frun (f : FFile) (ops : List FOp) : FSt × List Nat := frunFrom f finit ops []

/-! ## Every opening is made with the arguments of its slot -/

theorem evAt_good (fn : String) (t : ModType) (c : Coord) : ∀ e ∈ evAt fn t c, e.Good := by
  intro e he
  unfold evAt at he
  split at he
  · next s hs =>
    simp only [List.mem_cons, List.not_mem_nil, or_false] at he
    subst he
    exact site_used_eq_slot_used (List.mem_of_find?_eq_some hs) c
  · simp at he

theorem flatMap_evAt_good {α} (l : List α) (fn : String) (t : ModType) (pos : α → Coord) :
    ∀ e ∈ l.flatMap (fun x => evAt fn t (pos x)), e.Good := by
  intro e he
  obtain ⟨x, _, hx⟩ := List.mem_flatMap.1 he
  exact evAt_good fn t (pos x) e hx

def FGood (s : FSt) : Prop := ∀ e ∈ s.log, e.Good

theorem fstep_good (f : FFile) (s : FSt) (o : FOp) (h : FGood s) : FGood (fstep f s o) := by
  cases o with
  | openFile skip =>
    simp only [fstep]
    split
    · intro e he
      simp only [List.mem_append] at he
      rcases he with (he | he) | he
      · exact h e he
      · exact evAt_good _ _ _ e he
      · exact flatMap_evAt_good _ _ _ (fun (x : Nat × Nat × FChunk) => ⟨x.1, x.2.1, 0⟩) e he
    · intro e he
      simp only [List.mem_append] at he
      rcases he with (((he | he) | he) | he) | he
      · exact h e he
      · exact evAt_good _ _ _ e he
      · exact flatMap_evAt_good _ _ _ (fun (x : Nat × Nat × FChunk) => ⟨x.1, x.2.1, 0⟩) e he
      · exact flatMap_evAt_good _ _ _ (fun (x : Nat × Nat × FChunk) => ⟨x.1, x.2.1, 0⟩) e he
      · exact flatMap_evAt_good _ _ _ (fun (x : Nat × Nat × FChunk) => ⟨x.1, x.2.1, 0⟩) e he
  | columnIndex rg col =>
    simp only [fstep]
    split
    · intro e he
      simp only [List.mem_append] at he
      rcases he with he | he
      · exact h e he
      · exact evAt_good _ _ _ e he
    · exact h
  | offsetIndex rg col =>
    simp only [fstep]
    split
    · intro e he
      simp only [List.mem_append] at he
      rcases he with he | he
      · exact h e he
      · exact evAt_good _ _ _ e he
    · exact h
  | bloom rg col =>
    simp only [fstep]
    split
    · intro e he
      simp only [List.mem_append] at he
      rcases he with (he | he) | he
      · exact h e he
      · exact evAt_good _ _ _ e he
      · exact evAt_good _ _ _ e he
    · exact h

theorem frunFrom_good (f : FFile) (ops : List FOp) : ∀ (s : FSt) (acc : List Nat), FGood s → FGood (frunFrom f s ops acc).1 := by
  induction ops with
  | nil => intro s acc h; exact h
  | cons o ops ih => intro s acc h; exact ih _ _ (fstep_good f s o h)

theorem frun_good (f : FFile) (ops : List FOp) : FGood (frun f ops).1 :=
  frunFrom_good f ops finit [] (fun _ he => by simp [finit] at he)

end PqModel.Aad
