/-! # The error state of the row reader of a row group (`rowGroupRows`, row_group.go) — C13

`rowGroupRows.ReadRows` reads the columns ONE AFTER THE OTHER. When the page load of column `j`
fails (checksum mismatch) the columns in front of `j` have already consumed their batch, column `j`
stands at a place nobody knows (its page reader consumed the rejected page) and the columns behind
it have not moved: the column readers are out of step. The reader therefore stores the error in a
field (`r.err = err`, row_group.go:336) and every later `ReadRows` returns it again
(row_group.go:296-298) until `SeekToRow` (which then repositions EVERY column even when the row
asked for is the current one, row_group.go:276-285) or `Reset` (row_group.go:246-255) brings all
columns back to one row and clears it.

MIRROR of that bookkeeping: `St` holds the row every column reader stands on (`none` = undefined),
`r.rowIndex` and "`r.err != nil`"; `read`, `seek`, `reset` transliterate the three methods. What a
column reader does when it is asked for rows is a PARAMETER (`fails col from count`: the load of a
page needed for those rows is rejected) — the theorems hold for every such behaviour, so nothing about
pages, buffering or read-ahead is assumed. The column readers' own `SeekToRow`/`Reset` are taken to
succeed (out-of-range and I/O failures of a seek are C08/C14).

SPEC (`Aligned`, `rows_are_aligned`, `failure_is_reported`, `error_is_sticky`): whatever the history
of reads, seeks and resets, a `ReadRows` that returns rows has taken them from the SAME rows of every
column — the rows `r.rowIndex ..` — and a `ReadRows` during which a column fails, or that follows
such a call without a seek or Reset in between, returns the error and no rows.

`resetSeeded` is seeded/C13-4b (`Reset` rewinds the columns only when `rowIndex > 0`, but clears the
error regardless): `reset_guarded_by_rowIndex_misaligns` exhibits rows assembled from different row
numbers and no error. The mirror is tied to the source by `FactsCheckC13.reader_error_state_as_mirrored`
(every write / read of `r.err` and every call on a column reader with the conditions around it). -/
namespace PqModel.RowsState

/-- behaviour of the column readers: asked for `count` rows from row `from`, column `col` fails -/
abbrev Fails := Nat → Nat → Nat → Bool

structure St where
  cols : List (Option Nat)   -- the row each column reader stands on; `none`: undefined
  rowIndex : Nat             -- r.rowIndex (the initial -1 only forces the first SeekToRow(0); see `init`)
  err : Bool                 -- r.err != nil
  deriving DecidableEq, Repr

inductive Op where
  | read (n : Nat)
  | seek (k : Nat)
  | reset
  deriving DecidableEq, Repr

inductive Out where
  | rows (starts : List (Option Nat)) (count : Nat)  -- per column: the row its values were taken from
  | failed                                           -- `return 0, err`
  | done                                             -- SeekToRow / Reset
  deriving DecidableEq, Repr

/-- a fresh reader: `rowIndex = -1` makes the first `ReadRows` issue `SeekToRow(0)`, and any
    `SeekToRow(k)`, `k ≥ 0`, differs from -1: the same as every column on row 0 and `rowIndex = 0` -/
def init (ncols : Nat) : St := { cols := List.replicate ncols (some 0), rowIndex := 0, err := false }

/-- MIRROR the loop `for columnIndex := range r.columns` of `ReadRows` (row_group.go:312-367) at row
    granularity: column `j` is asked for `count` rows; the first failure ends the call with the columns
    in front of it advanced, the failing one undefined, the rest untouched. A column whose position is
    undefined delivers something from somewhere (worst case: no error). Returns the new positions and
    whether a column failed. -/
def readCols (fails : Fails) (count : Nat) : Nat → List (Option Nat) → List (Option Nat) × Bool
  | _, [] => ([], false)
  | j, none :: rest =>
    let r := readCols fails count (j + 1) rest
    (none :: r.1, r.2)
  | j, some p :: rest =>
    if fails j p count then (none :: rest, true)
    else
      let r := readCols fails count (j + 1) rest
      (some (p + count) :: r.1, r.2)

/-- MIRROR `rowGroupRows.ReadRows` (row_group.go:292-376); `total` = rows of the row group -/
def read (fails : Fails) (total : Nat) (st : St) (n : Nat) : St × Out :=
  if st.err then (st, .failed)                                   -- if r.err != nil { return 0, r.err }
  else
    let count := min n (total - st.rowIndex)
    let r := readCols fails count 0 st.cols
    if r.2 then ({ st with cols := r.1, err := true }, .failed)  -- r.err = err; return 0, err
    else ({ st with cols := r.1, rowIndex := st.rowIndex + count }, .rows st.cols count)

/-- MIRROR `rowGroupRows.SeekToRow` (row_group.go:272-288) -/
def seek (st : St) (k : Nat) : St :=
  if k ≠ st.rowIndex ∨ st.err = true then
    { cols := st.cols.map (fun _ => some k), rowIndex := k, err := false }
  else st

/-- MIRROR `rowGroupRows.Reset` (row_group.go:246-255) -/
def reset (st : St) : St := { cols := st.cols.map (fun _ => some 0), rowIndex := 0, err := false }

/-- seeded/C13-4b: the columns are rewound only `if r.rowIndex > 0`; `rowIndex = 0; err = nil` always -/
def resetSeeded (st : St) : St :=
  if st.rowIndex > 0 then reset st else { st with rowIndex := 0, err := false }

def stepWith (rst : St → St) (fails : Fails) (total : Nat) (st : St) : Op → St × Out
  | .read n => read fails total st n
  | .seek k => (seek st k, .done)
  | .reset => (rst st, .done)

def step := stepWith reset
def stepSeeded := stepWith resetSeeded

def run (f : St → Op → St × Out) : St → List Op → List Out
  | _, [] => []
  | s, op :: ops => (f s op).2 :: run f (f s op).1 ops

def reach (fails : Fails) (total : Nat) (ncols : Nat) (ops : List Op) : St :=
  ops.foldl (fun s op => (step fails total s op).1) (init ncols)

/-- SPEC invariant: unless an error is pending, every column stands on row `rowIndex` -/
def Aligned (st : St) : Prop := st.err = false → ∀ c ∈ st.cols, c = some st.rowIndex

theorem readCols_aligned (fails : Fails) (count p : Nat) :
    ∀ (cols : List (Option Nat)) (j : Nat), (∀ c ∈ cols, c = some p) →
      (readCols fails count j cols).2 = false → ∀ c ∈ (readCols fails count j cols).1, c = some (p + count)
  | [], _, _, _ => by simp [readCols]
  | c :: rest, j, h, hf => by
    have hc : c = some p := h c (by simp)
    subst hc
    have ih := readCols_aligned fails count p rest (j + 1) (fun x hx => h x (by simp [hx]))
    unfold readCols at hf ⊢
    by_cases hfl : fails j p count = true
    · simp [hfl] at hf
    · simp only [hfl, Bool.false_eq_true, if_false] at hf ⊢
      intro x hx
      simp only [List.mem_cons] at hx
      rcases hx with rfl | hx
      · rfl
      · exact ih hf x hx

theorem init_aligned (n : Nat) : Aligned (init n) := by
  intro _ c hc
  simp [init, List.mem_replicate] at hc
  simp [init, hc.2]

theorem step_aligned (fails : Fails) (total : Nat) (st : St) (op : Op) (h : Aligned st) :
    Aligned (step fails total st op).1 := by
  cases op with
  | read n =>
    simp only [step, stepWith, read]
    by_cases he : st.err = true
    · simp [he]; exact h
    · have he' : st.err = false := by simpa using he
      simp only [he', Bool.false_eq_true, if_false]
      by_cases hf : (readCols fails (min n (total - st.rowIndex)) 0 st.cols).2 = true
      · simp only [hf, if_true]
        intro hx
        simp at hx
      · have hf' : (readCols fails (min n (total - st.rowIndex)) 0 st.cols).2 = false := by simpa using hf
        simp only [hf', Bool.false_eq_true, if_false]
        intro _ c hc
        exact readCols_aligned fails _ st.rowIndex st.cols 0 (h he') hf' c hc
  | seek k =>
    simp only [step, stepWith, seek]
    by_cases hk : k ≠ st.rowIndex ∨ st.err = true
    · simp only [hk, if_true]
      intro _ c hc
      simp only [List.mem_map] at hc
      obtain ⟨_, _, rfl⟩ := hc
      rfl
    · simp only [hk, if_false]
      exact h
  | reset =>
    simp only [step, stepWith, reset]
    intro _ c hc
    simp only [List.mem_map] at hc
    obtain ⟨_, _, rfl⟩ := hc
    rfl

/-- after any history the reader is aligned (or has an error pending) -/
theorem reach_aligned (fails : Fails) (total ncols : Nat) (ops : List Op) :
    Aligned (reach fails total ncols ops) := by
  unfold reach
  suffices h : ∀ (ops : List Op) (s : St), Aligned s →
      Aligned (ops.foldl (fun s op => (step fails total s op).1) s) from h ops _ (init_aligned ncols)
  intro ops
  induction ops with
  | nil => intro s h; exact h
  | cons op ops ih => intro s h; exact ih _ (step_aligned fails total s op h)

/-- **rows_are_aligned**: after ANY history of reads (failed or not), seeks and resets, whatever the
    column readers do, a `ReadRows` that returns rows took them from the rows `rowIndex ..` of EVERY
    column: no row is assembled from different row numbers. -/
theorem rows_are_aligned (fails : Fails) (total ncols : Nat) (ops : List Op) (n : Nat)
    (starts : List (Option Nat)) (count : Nat)
    (h : (read fails total (reach fails total ncols ops) n).2 = .rows starts count) :
    ∀ s ∈ starts, s = some (reach fails total ncols ops).rowIndex := by
  have ha := reach_aligned fails total ncols ops
  generalize reach fails total ncols ops = st at h ha
  unfold read at h
  by_cases he : st.err = true
  · simp [he] at h
  · have he' : st.err = false := by simpa using he
    simp only [he', Bool.false_eq_true, if_false] at h
    split at h
    · simp at h
    · simp only [Out.rows.injEq] at h
      rw [← h.1]
      exact ha he'

/-- **failure_is_reported**: when a column fails during the call, the call returns the error (and
    no rows), and the error is pending afterwards -/
theorem failure_is_reported (fails : Fails) (total : Nat) (st : St) (n : Nat) (he : st.err = false)
    (hf : (readCols fails (min n (total - st.rowIndex)) 0 st.cols).2 = true) :
    (read fails total st n).2 = .failed ∧ (read fails total st n).1.err = true := by
  simp [read, he, hf]

/-- **error_is_sticky**: while the error is pending every `ReadRows` returns it and moves nothing -/
theorem error_is_sticky (fails : Fails) (total : Nat) (st : St) (n : Nat) (he : st.err = true) :
    read fails total st n = (st, .failed) := by
  simp [read, he]

/-- a pending error is cleared by `SeekToRow` and `Reset` only, and both put every column on one row
    (also a seek to the current row: the `|| r.err != nil` of SeekToRow) -/
theorem seek_after_failure_repositions (st : St) (k : Nat) (he : st.err = true) :
    (seek st k).err = false ∧ (seek st k).rowIndex = k ∧ ∀ c ∈ (seek st k).cols, c = some k := by
  simp only [seek, he, or_true, if_true, true_and]
  intro c hc
  simp only [List.mem_map] at hc
  obtain ⟨_, _, rfl⟩ := hc
  rfl

theorem reset_repositions (st : St) :
    (reset st).err = false ∧ (reset st).rowIndex = 0 ∧ ∀ c ∈ (reset st).cols, c = some 0 := by
  simp only [reset, true_and]
  intro c hc
  simp only [List.mem_map] at hc
  obtain ⟨_, _, rfl⟩ := hc
  rfl

/-- column 1 fails when it is asked for rows from row 0 (its first page is corrupted) -/
def firstPageOfColumn1 : Fails := fun col from_ _ => col == 1 && from_ == 0

/-- the hypotheses are satisfiable / the mirror computes: first read fails, Reset, the read fails again;
    a seek behind the page delivers aligned rows -/
example : run (step firstPageOfColumn1 100) (init 2) [.read 50, .read 50, .reset, .read 50, .seek 60, .read 10] =
    [.failed, .failed, .done, .failed, .done, .rows [some 60, some 60] 10] := by decide

/-- **seeded/C13-4b on the mirror**: with `Reset` rewinding the columns only when `rowIndex > 0`, the
    history "first read fails, Reset, read" returns rows whose column 0 comes from row 50 and whose
    column 1 comes from an undefined place — and no error. -/
theorem reset_guarded_by_rowIndex_misaligns :
    run (stepSeeded firstPageOfColumn1 100) (init 2) [.read 50, .reset, .read 50] =
      [.failed, .done, .rows [some 50, none] 50] := by decide

end PqModel.RowsState
