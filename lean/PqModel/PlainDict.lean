import PqModel.Plain
import PqModel.RleDecode

/-! # Go decoders of PLAIN / BYTE_STREAM_SPLIT and the dictionary-encoded column (C04, part "plain")

`PqModel/Plain.lean` holds the SPEC decoders and the MIRRORS of the Go *encoders*. This file adds

* MIRRORS of the Go *decoders* of the fixed-width PLAIN types, of PLAIN FIXED_LEN_BYTE_ARRAY and of
  BYTE_STREAM_SPLIT (the portable code), with the destination buffer as an explicit argument where
  the Go code writes into it by index;
* the index form / stream form of the BYTE_STREAM_SPLIT SPEC decoder proved equal on every input;
* the read path of a dictionary-encoded column: dictionary page (PLAIN), RLE_DICTIONARY index page
  (bit-width byte + hybrid stream, `PqModel/Rle*.lean`), `newIndexedPage` (MIRROR, with the stale
  content of the recycled index buffer as an argument) and the lookup; SPEC reader of the same.

SPEC = written from Encodings.md only; MIRROR = transliteration of the Go code with `file:line`. -/
namespace PqModel.PlainDict
open PqModel.Plain

def ofOption {α : Type} : Option α → GoRes α
  | some a => .ok a
  | none => .err

/-- a Go slice index that may be out of range: the values, or a run-time panic -/
def okOrPanic {α : Type} : Option α → GoRes α
  | some a => .ok a
  | none => .panic

/-! ## chunks, index form -/

theorem chunks_eq_range (k : Nat) : ∀ (n : Nat) (bs : Bytes),
    chunks k n bs = (List.range n).map (fun i => (bs.drop (k * i)).take k)
  | 0, _ => rfl
  | n + 1, bs => by
    rw [chunks, chunks_eq_range k n, List.range_succ_eq_map, List.map_cons, List.map_map]
    congr 1
    apply List.map_congr_left
    intro i _
    simp only [Function.comp, List.drop_drop, Nat.mul_succ]
    congr 2
    omega

theorem chunks_flatten_self (k : Nat) : ∀ (n : Nat) (bs : Bytes), bs.length = k * n →
    (chunks k n bs).flatten = bs
  | 0, bs, h => by
    have : bs = [] := List.eq_nil_of_length_eq_zero (by simpa using h)
    simp [chunks, this]
  | n + 1, bs, h => by
    have hl : (bs.drop k).length = k * n := by simp [h, Nat.mul_succ]
    simp only [chunks, List.flatten_cons, chunks_flatten_self k n _ hl, List.take_append_drop]

/-! ## PLAIN, fixed width: the Go decoders -/

/-- MIRROR of `plain.Encoding.DecodeInt32/Int64/Float/Double` (encoding/plain/plain_le.go:26-52) and
    `DecodeInt96` (plain.go:71-76): `len(src) % k != 0` is an error; otherwise
    `append(dst[:0], unsafecast.Slice[T](src)...)`, i.e. element `i` is the value whose in-memory
    bytes are `src[k*i : k*i+k]` (little-endian machine). The destination is overwritten from
    index 0 by `append`, nothing of its former content can survive. `k` is 4, 8 or 12. -/
def goDecFixed (k : Nat) (src : Bytes) : GoRes (List Nat) :=
  if src.length % k ≠ 0 then .err
  else .ok ((List.range (src.length / k)).map (fun i => leVal ((src.drop (k * i)).take k)))

theorem goDecFixed_eq_spec (k : Nat) (hk : 0 < k) (src : Bytes) :
    goDecFixed k src = ofOption (specDecFixed k src) := by
  unfold goDecFixed specDecFixed specDecFixedBytes
  split
  · rename_i h
    have hk0 : ¬ k = 0 := by omega
    simp [hk0, ofOption]
  · rename_i h
    have hk0 : ¬ k = 0 := by omega
    simp [hk0, ofOption, chunks_eq_range, List.map_map, Function.comp_def]

/-- MIRROR of `plain.Encoding.DecodeFixedLenByteArray` (plain.go:96-104): a negative or too large
    size is an error (not modelled: sizes are naturals below the limit), `len(src) % size` is
    evaluated next — with `size = 0` that is an integer division by zero, a run-time panic — then the
    bytes are copied. The result is the flat buffer (values are its `size`-byte chunks). -/
def goDecFLBA (size : Nat) (src : Bytes) : GoRes Bytes :=
  if size = 0 then .panic
  else if src.length % size ≠ 0 then .err
  else .ok src

theorem goDecFLBA_eq_spec (size : Nat) (hs : 0 < size) (src : Bytes) :
    goDecFLBA size src = ofOption ((specDecFixedBytes size src).map List.flatten) := by
  unfold goDecFLBA specDecFixedBytes
  have hs0 : ¬ size = 0 := by omega
  simp only [hs0, if_false]
  split
  · simp [ofOption]
  · rename_i h
    have h' : src.length % size = 0 := by omega
    have hl : src.length = size * (src.length / size) := by
      have := Nat.div_add_mod src.length size
      omega
    simp [ofOption, chunks_flatten_self size _ src hl]


/-! ## PLAIN BYTE_ARRAY: the Go decoder reads every stream the SPEC decoder reads -/

/-- a stream the SPEC decoder reads is the canonical encoding of the values it returns -/
theorem specDecByteArrayFuel_inv : ∀ (f : Nat) (bs : Bytes) (vs : List Bytes),
    specDecByteArrayFuel f bs = some vs → bs = encByteArray vs ∧ ∀ v ∈ vs, v.length < 2 ^ 32
  | 0, bs, vs, h => by
    rw [specDecByteArrayFuel] at h
    split at h
    · rename_i he
      cases h
      exact ⟨by simpa [encByteArray] using he, by simp⟩
    · cases h
  | f + 1, bs, vs, h => by
    rw [specDecByteArrayFuel] at h
    split at h
    · rename_i he
      cases h
      exact ⟨by simpa [encByteArray] using he, by simp⟩
    · split at h
      · cases h
      · rename_i hne h4
        simp only at h
        split at h
        · cases h
        · rename_i hn
          cases hr : specDecByteArrayFuel f ((bs.drop 4).drop (leVal (bs.take 4))) with
          | none => rw [hr] at h; cases h
          | some tl =>
            rw [hr] at h
            simp only [Option.map_some, Option.some.injEq] at h
            subst h
            obtain ⟨e, hl⟩ := specDecByteArrayFuel_inv f _ tl hr
            have ht4 : (bs.take 4).length = 4 := by simp; omega
            have hlt : leVal (bs.take 4) < 2 ^ 32 := by
              have := leVal_lt (bs.take 4); rw [ht4] at this; exact this
            have hvl : ((bs.drop 4).take (leVal (bs.take 4))).length = leVal (bs.take 4) := by
              simp only [List.length_take, List.length_drop] at hn ⊢; omega
            constructor
            · have e4 : leBytes 4 ((bs.drop 4).take (leVal (bs.take 4))).length = bs.take 4 := by
                rw [hvl]; have := leBytes_leVal (bs.take 4); rw [ht4] at this; exact this
              have : encByteArray ((bs.drop 4).take (leVal (bs.take 4)) :: tl)
                  = leBytes 4 ((bs.drop 4).take (leVal (bs.take 4))).length ++
                    ((bs.drop 4).take (leVal (bs.take 4)) ++ encByteArray tl) := by
                simp [encByteArray]
              rw [this, e4, ← e, List.take_append_drop, List.take_append_drop]
            · intro v hv
              simp only [List.mem_cons] at hv
              rcases hv with rfl | hv
              · rw [hvl]; exact hlt
              · exact hl v hv

/-! ## BYTE_STREAM_SPLIT: index form = stream form -/

theorem transposeN_eq_range : ∀ (n : Nat) (S : List Bytes),
    transposeN n S = (List.range n).map (fun i => S.map (fun l => l.getD i 0))
  | 0, _ => rfl
  | n + 1, S => by
    rw [transposeN, transposeN_eq_range n, List.range_succ_eq_map, List.map_cons, List.map_map]
    congr 1
    · apply List.map_congr_left
      intro l _
      cases l <;> simp
    · apply List.map_congr_left
      intro i _
      simp only [Function.comp, List.map_map]
      apply List.map_congr_left
      intro l _
      cases l <;> simp

/-- the two readings of Encodings.md ("byte `j` of value `i` is at `j*n+i`" / "cut into K streams,
    take byte `i` of each") agree on every input, well formed or not -/
theorem bssSpecDecIdx_eq_bssSpecDec (k : Nat) (bs : Bytes) : bssSpecDecIdx k bs = bssSpecDec k bs := by
  unfold bssSpecDecIdx bssSpecDec
  split
  · rfl
  · split
    · rfl
    · simp only [transposeN_eq_range, chunks_eq_range, List.map_map]
      congr 1
      apply List.map_congr_left
      intro i hi
      have hi : i < bs.length / k := by simpa using hi
      apply List.map_congr_left
      intro j _
      simp only [Function.comp, List.getD_eq_getElem?_getD, List.getElem?_take, hi, if_true,
        List.getElem?_drop]
      congr 2
      rw [Nat.mul_comm]

/-- MIRROR of `bytestreamsplit.Encoding.DecodeFloat/Double/Int32/Int64` (bytestreamsplit.go:35-89)
    with `decodeFloat`/`decodeDouble` (bytestreamsplit_purego.go:48-83): size check, `resize` of the
    destination to `len(src)` bytes, then for every `i < n = len(src)/k` the `k` bytes at `dst[k*i:]`
    are written with `b_0[i] | b_1[i]<<8 | …` (`b_j = src[j*n:(j+1)*n]`; disjoint shifted bytes: the
    little-endian value of `[b_0[i], …, b_{k-1}[i]]`), and the buffer is returned reinterpreted as
    `k`-byte little-endian elements. Every byte of the resized destination is written (`k*n =
    len(src)`), so the former content of `dst` does not appear. -/
def goBssDecFixed (k : Nat) (src : Bytes) : GoRes (List Nat) :=
  if src.length % k ≠ 0 then .err
  else
    let n := src.length / k
    .ok ((List.range n).map (fun i => leVal ((List.range k).map (fun j => src.getD (j * n + i) 0))))

theorem goBssDecFixed_eq_spec (k : Nat) (hk : 0 < k) (src : Bytes) :
    goBssDecFixed k src = ofOption (bssSpecDecFixed k src) := by
  unfold goBssDecFixed bssSpecDecFixed
  rw [← bssSpecDecIdx_eq_bssSpecDec]
  unfold bssSpecDecIdx
  have hk0 : ¬ k = 0 := by omega
  split
  · simp [ofOption]
  · simp [ofOption, List.map_map, Function.comp_def]

/-! ### FIXED_LEN_BYTE_ARRAY: the destination written by index -/

/-- a sequence of `dst[p] = v` assignments, in program order -/
def setAll (dst : Bytes) (ws : List (Nat × UInt8)) : Bytes := ws.foldl (fun d w => d.set w.1 w.2) dst

theorem setAll_length : ∀ (ws : List (Nat × UInt8)) (dst : Bytes), (setAll dst ws).length = dst.length
  | [], _ => rfl
  | w :: ws, dst => by
    have := setAll_length ws (dst.set w.1 w.2)
    simpa [setAll] using this

theorem setAll_untouched : ∀ (ws : List (Nat × UInt8)) (dst : Bytes) (q : Nat),
    (∀ w ∈ ws, w.1 ≠ q) → (setAll dst ws)[q]? = dst[q]?
  | [], _, _, _ => rfl
  | w :: ws, dst, q, h => by
    have ih := setAll_untouched ws (dst.set w.1 w.2) q (fun w' hw' => h w' (by simp [hw']))
    have hne : w.1 ≠ q := h w (by simp)
    simp only [setAll, List.foldl_cons] at ih ⊢
    rw [ih, List.getElem?_set_ne hne]

/-- a position that is written, and only ever with the value `v`, holds `v` afterwards -/
theorem setAll_written : ∀ (ws : List (Nat × UInt8)) (dst : Bytes) (q : Nat) (v : UInt8),
    q < dst.length → (∃ w ∈ ws, w.1 = q) → (∀ w ∈ ws, w.1 = q → w.2 = v) →
    (setAll dst ws)[q]? = some v
  | [], _, _, _, _, hex, _ => by obtain ⟨w, hw, _⟩ := hex; simp at hw
  | w :: ws, dst, q, v, hq, hex, hall => by
    by_cases hlater : ∃ w' ∈ ws, w'.1 = q
    · have := setAll_written ws (dst.set w.1 w.2) q v (by simpa using hq) hlater
        (fun w' hw' => hall w' (by simp [hw']))
      simpa [setAll] using this
    · have hno : ∀ w' ∈ ws, w'.1 ≠ q := fun w' hw' e => hlater ⟨w', hw', e⟩
      have hw : w.1 = q := by
        obtain ⟨w', hw', e⟩ := hex
        simp only [List.mem_cons] at hw'
        rcases hw' with rfl | hw'
        · exact e
        · exact absurd e (hno w' hw')
      have hv : w.2 = v := hall w (by simp) hw
      have := setAll_untouched ws (dst.set w.1 w.2) q hno
      simp only [setAll, List.foldl_cons] at this ⊢
      rw [this, hw, hv, List.getElem?_set_self hq]

/-- the assignments of `decodeFixedLenByteArray` (bytestreamsplit_fixedlen.go:13-21), in program
    order: `for s in range size { stream := src[s*n:(s+1)*n]; for i in range n { dst[i*size+s] =
    stream[i] } }` -/
def bssFLBAWrites (size n : Nat) (src : Bytes) : List (Nat × UInt8) :=
  (List.range size).flatMap (fun s => (List.range n).map (fun i => (i * size + s, src.getD (s * n + i) 0)))

/-- MIRROR of `bytestreamsplit.Encoding.DecodeFixedLenByteArray` (bytestreamsplit.go:105-117) with
    `resize` (:119-126) and `decodeFixedLenByteArray`: `size <= 0` and `len(src) % size != 0` are
    errors; the destination is re-sliced to `len(src)` bytes when its capacity allows (keeping what
    the capacity region holds: `stale`, zero beyond it, which is also what the `make` of the other
    branch gives) and written by index. -/
def goBssDecFLBA (size : Nat) (stale : Bytes) (src : Bytes) : GoRes Bytes :=
  if size = 0 then .err
  else if src.length % size ≠ 0 then .err
  else
    let dst := (List.range src.length).map (fun p => stale.getD p 0)
    .ok (setAll dst (bssFLBAWrites size (src.length / size) src))

theorem mem_bssFLBAWrites (size n : Nat) (src : Bytes) (w : Nat × UInt8) :
    w ∈ bssFLBAWrites size n src ↔
      ∃ s, s < size ∧ ∃ i, i < n ∧ w = (i * size + s, src.getD (s * n + i) 0) := by
  simp only [bssFLBAWrites, List.mem_flatMap, List.mem_range, List.mem_map]
  constructor
  · rintro ⟨s, hs, i, hi, rfl⟩; exact ⟨s, hs, i, hi, rfl⟩
  · rintro ⟨s, hs, i, hi, rfl⟩; exact ⟨s, hs, i, hi, rfl⟩

/-- for EVERY former content of the destination, the Go decoder returns the concatenation of the
    values the SPEC decoder reads, and refuses exactly the streams the SPEC refuses -/
theorem goBssDecFLBA_eq_spec (size : Nat) (stale src : Bytes) :
    goBssDecFLBA size stale src = ofOption ((bssSpecDecIdx size src).map List.flatten) := by
  unfold goBssDecFLBA bssSpecDecIdx
  split
  · simp [ofOption]
  · rename_i hs0
    have hs : 0 < size := by omega
    split
    · simp [ofOption]
    · rename_i h
      have h' : src.length % size = 0 := by omega
      have hl : src.length = (src.length / size) * size := by
        have := Nat.div_add_mod src.length size
        rw [Nat.mul_comm]; omega
      simp only [ofOption, Option.map_some, GoRes.ok.injEq]
      generalize hn : src.length / size = n at hl
      have hall : ∀ l ∈ (List.range n).map (fun i => (List.range size).map (fun j => src.getD (j * n + i) 0)),
          l.length = size := by
        intro l hl'; simp only [List.mem_map] at hl'; obtain ⟨i, _, rfl⟩ := hl'; simp
      have hflen : ((List.range n).map (fun i => (List.range size).map (fun j => src.getD (j * n + i) 0))).flatten.length
          = src.length := by
        rw [flatten_length_const size _ hall]; simp [hl, Nat.mul_comm]
      apply List.ext_getElem?
      intro q
      by_cases hq : q < src.length
      · -- q = i*size + s with s = q % size < size, i = q / size < n
        have hi : q / size < n := by
          rw [Nat.div_lt_iff_lt_mul hs]; omega
        have hsm : q % size < size := Nat.mod_lt _ hs
        have hqe : q = (q / size) * size + q % size := by
          have := Nat.div_add_mod q size
          rw [Nat.mul_comm]; omega
        rw [setAll_written _ _ q (src.getD ((q % size) * n + q / size) 0) (by simpa using hq)]
        · rw [hqe, flatten_getElem?_const size _ (q / size) (q % size) hall hsm]
          rw [← hqe]
          simp [hi, hsm]
        · exact ⟨(q, src.getD ((q % size) * n + q / size) 0),
            (mem_bssFLBAWrites size n src _).2 ⟨q % size, hsm, q / size, hi, by rw [← hqe]⟩, rfl⟩
        · intro w hw hw1
          obtain ⟨s, hs', i, hi', rfl⟩ := (mem_bssFLBAWrites size n src w).1 hw
          simp only at hw1 ⊢
          have e1 : q % size = s := by
            rw [← hw1, Nat.add_comm, Nat.add_mul_mod_self_right, Nat.mod_eq_of_lt hs']
          have e2 : q / size = i := by
            rw [← hw1, Nat.add_comm, Nat.add_mul_div_right _ _ hs, Nat.div_eq_of_lt hs']; omega
          rw [e1, e2]
      · rw [List.getElem?_eq_none (by rw [setAll_length]; simpa using Nat.le_of_not_lt hq),
          List.getElem?_eq_none (by rw [hflen]; omega)]

/-! ## The dictionary-encoded column -/

/-- MIRROR of `newIndexedPage` (dictionary.go:136-163). `values` are the indexes the RLE_DICTIONARY
    decoder produced (its slice length), `stale` is what the rest of the decode buffer's capacity
    holds (capacity = `values.length + stale.length`; the buffer is recycled through a pool), `size`
    is the page's `num_values`. When fewer indexes than `size` were decoded the slice is extended:
    into a fresh zeroed buffer when the capacity is too small, otherwise in place after zeroing
    `values[len:size]`; finally `values[:size]` (which also drops the padding of a last bit-packed
    group). -/
def goNewIndexedPage (values stale : List Nat) (size : Nat) : List Nat :=
  if values.length < size then
    if values.length + stale.length < size then
      (values ++ List.replicate (size - values.length) 0).take size
    else
      (values ++ (List.replicate (size - values.length) 0 ++ stale.drop (size - values.length))).take size
  else values.take size

/-- what the page holds does not depend on the recycled buffer: the decoded indexes, cut or
    extended with zeros to `size` -/
theorem goNewIndexedPage_eq (values stale : List Nat) (size : Nat) :
    goNewIndexedPage values stale size = values.take size ++ List.replicate (size - values.length) 0 := by
  unfold goNewIndexedPage
  split
  · rename_i h
    have ht : values.take size = values := List.take_of_length_le (by omega)
    split
    · rw [ht, List.take_of_length_le (by simp; omega)]
    · rw [ht, List.take_append, List.take_of_length_le (Nat.le_of_lt h)]
      congr 1
      rw [List.take_append]
      simp
  · rename_i h
    have : size - values.length = 0 := by omega
    simp [this]

/-- all entries named by the ids, `none` when an id is outside the dictionary -/
def lookupAll {α : Type} (d : List α) : List Nat → Option (List α)
  | [] => some []
  | i :: is =>
    match d[i]?, lookupAll d is with
    | some v, some vs => some (v :: vs)
    | _, _ => none

theorem lookupAll_of_map {α : Type} (d : List α) : ∀ (idx : List Nat) (xs : List α),
    idx.map (d[·]?) = xs.map some → lookupAll d idx = some xs
  | [], xs, h => by
    cases xs with
    | nil => rfl
    | cons _ _ => simp at h
  | i :: is, xs, h => by
    cases xs with
    | nil => simp at h
    | cons x xs =>
      simp only [List.map_cons, List.cons.injEq] at h
      simp [lookupAll, h.1, lookupAll_of_map d is xs h.2]

/-- SPEC (Encodings.md, "Dictionary Encoding (PLAIN_DICTIONARY = 2 and RLE_DICTIONARY = 8)"): the
    dictionary page holds `numDict` values in PLAIN encoding (`dec` = the PLAIN SPEC decoder of the
    column type); the data page holds the bit width in one byte followed by the RLE/bit-packed
    hybrid stream of `n` entry ids (`Rle.specDecodeDict`); value `i` is the entry with id `i`. An id
    outside the dictionary, a dictionary page with another number of values, or an index stream
    that ends before `n` ids are malformed. -/
def specDictColumn {α : Type} (dec : Bytes → Option (List α)) (numDict : Nat) (dictPage : Bytes) (n : Nat)
    (dataPage : List Nat) : Option (List α) :=
  match dec dictPage with
  | none => none
  | some d =>
    if d.length ≠ numDict then none
    else match Rle.specDecodeDict n dataPage with
      | .error _ => none
      | .ok idx => lookupAll d idx

/-- MIRROR of the read path of a dictionary-encoded column: `Column.decodeDictionary`
    (column.go:970-1000: PLAIN decode `dec` = the Go decoder, `checkPageDataCapacity` refuses fewer
    than `numDict` values, `NewDictionary` keeps the first `numDict`), `decodeDataPage`
    (column.go:852-917: `RLEDictionary.DecodeInt32` into a pooled buffer, `newIndexedPage`), and
    `indexedPageValues.ReadValues` → `Dictionary.Lookup` (dictionary.go:230-243; an index outside the
    dictionary is a run-time panic: slice index out of range). -/
def goDictColumn {α : Type} (dec : Bytes → GoRes (List α)) (numDict : Nat) (dictPage : Bytes) (n : Nat)
    (dataPage : List Nat) (stale : List Nat) : GoRes (List α) :=
  match dec dictPage with
  | .err => .err
  | .panic => .panic
  | .ok d =>
    if d.length < numDict then .err
    else match Rle.goDecodeDict dataPage with
      | .error _ => .err
      | .ok idx =>
        okOrPanic (lookupAll (d.take numDict) (goNewIndexedPage idx stale n))

/-! ### lemmas about `insertAll` used by the column round trip -/

section
variable {α : Type} [DecidableEq α]

theorem insertAll_fst_length_le : ∀ (xs d : List α), (insertAll d xs).1.length ≤ d.length + xs.length
  | [], d => by simp [insertAll]
  | x :: xs, d => by
    have ih := insertAll_fst_length_le xs (dictInsert1 d x).1
    have h1 : (dictInsert1 d x).1.length ≤ d.length + 1 := by
      unfold dictInsert1; split <;> simp
    simp only [insertAll, List.length_cons]
    omega

theorem insertAll_index_lt (xs d : List α) : ∀ i ∈ (insertAll d xs).2, i < (insertAll d xs).1.length := by
  intro i hi
  have hf := insertAll_find xs d
  have hl := insertAll_length xs d
  obtain ⟨p, hp, rfl⟩ := List.getElem_of_mem hi
  have hp' : p < xs.length := by omega
  have e : ((insertAll d xs).2.map some)[p]'(by simpa using hp) =
      (xs.map (dictFind (insertAll d xs).1))[p]'(by simpa using hp') := by simp only [hf]
  simp only [List.getElem_map] at e
  have := dictFind_some _ _ _ e.symm
  exact (List.getElem?_eq_some_iff.1 this).1

theorem lookupAll_insertAll (xs d : List α) : lookupAll (insertAll d xs).1 (insertAll d xs).2 = some xs := by
  apply lookupAll_of_map
  have hf := insertAll_find xs d
  have hl := insertAll_length xs d
  apply List.ext_getElem
  · simp [hl]
  · intro i h1 h2
    simp only [List.length_map] at h1 h2
    have e : ((insertAll d xs).2.map some)[i]'(by simpa using h1) =
        (xs.map (dictFind (insertAll d xs).1))[i]'(by simpa using h2) := by simp only [hf]
    simp only [List.getElem_map] at e ⊢
    exact dictFind_some _ _ _ e.symm

end

end PqModel.PlainDict
