import PqModel.RleDecodeLemmas
import PqModel.DeltaGo

/-! # MIRROR of the portable `bitpack.Unpack` kernels as the DELTA decoders use them, proved equal
to the LSB-first unpacking (`Bits.unpackBits`) that the decoder mirror `goMinis` is written with
(property C04, part delta).

`decodeInt32` / `decodeInt64` (binary_packed.go:327 / 390) call `bitpack.Unpack(out[…:…+n],
miniBlockData, bitWidth)` on a buffer that holds the miniblock followed by at least
`bitpack.PaddingInt32 = 16` / `PaddingInt64 = 32` readable bytes. On the purego build this is
`unpackInt32` / `unpackInt64` of github.com/parquet-go/bitpack@v1.0.3. The INT32 kernel is mirrored
in `PqModel/RleDecode.lean` (`goUnpackInt32`, shared with the RLE decoder) and proved there
(`goUnpackInt32_eq`); the INT64 kernel, which assembles a value from up to THREE 32-bit words, is
mirrored and proved here. The assembly kernels of the default build are tied to the same function
by the L2 comparison `delta.unpack32/64` only.

Reading of the fixed-width operations (as in RleDecode.lean): `(x & (mask << j)) >> j` with a
`w`-bit mask is `(x / 2^j) % 2^w`; `x & (mask >> k)` is `x % 2^(w-k)`; `<< k` on a value that stays
below 2^64 is `* 2^k`; `|` of disjoint bit ranges is `+`. -/
namespace PqModel.Delta
open PqModel.Bits PqModel.Rle

/-- MIRROR bitpack `unpack_int64_purego.go:5-27` `unpackInt64`, value number `n`:
`i, j := off/32, off%32`; `d := (uint64(bits[i]) & (bitMask << j)) >> j`; if `j+w > 32`,
`k := 32-j; d |= (uint64(bits[i+1]) & (bitMask >> k)) << k`; if moreover `j+w > 64`,
`k := 64-j; d |= (uint64(bits[i+2]) & (bitMask >> k)) << k`. -/
def goUnpackInt64Value (w : Nat) (src : List Nat) (n : Nat) : Nat :=
  let i := n * w / 32
  let j := n * w % 32
  let d := (le32At src i / 2 ^ j) % 2 ^ w
  if j + w > 32 then
    let d2 := d + (le32At src (i + 1) % 2 ^ (w - (32 - j))) * 2 ^ (32 - j)
    if j + w > 64 then d2 + (le32At src (i + 2) % 2 ^ (w - (64 - j))) * 2 ^ (64 - j) else d2
  else d

/-- MIRROR `bitpack.Unpack(out, in, w)` for `int64` as called at binary_packed.go:390: `in` is
followed by `bitpack.PaddingInt64 = 32` readable bytes whose content does not matter for the `n`
values read (modelled as zeros). -/
def goUnpackInt64 (w n : Nat) (src : List Nat) : List Nat :=
  (List.range n).map (goUnpackInt64Value w (src ++ List.replicate 32 0))

theorem goUnpackInt64Value_eq (w : Nat) (hw : w ≤ 64) (src : List Nat) (hb : ∀ b ∈ src, b < 256)
    (n : Nat) (hlen : n * w / 32 * 32 + 96 ≤ 8 * src.length) :
    goUnpackInt64Value w src n = fromBits (((bytesToBits src).drop (n * w)).take w) := by
  simp only [goUnpackInt64Value]
  generalize hi : n * w / 32 = i at hlen ⊢
  generalize hj : n * w % 32 = j
  have hnw : n * w = 32 * i + j := by rw [← hi, ← hj]; exact (Nat.div_add_mod (n * w) 32).symm
  have hj32 : j < 32 := by rw [← hj]; exact Nat.mod_lt _ (by omega)
  rw [le32At_eq src hb i, le32At_eq src hb (i + 1), le32At_eq src hb (i + 2)]
  generalize hbits : bytesToBits src = bits
  have hbl : bits.length = 8 * src.length := by rw [← hbits, Rle.bytesToBits_length]
  have hdrop : bits.drop (n * w) = (bits.drop (32 * i)).drop j := by rw [hnw, List.drop_drop]
  rw [hdrop]
  generalize hB : bits.drop (32 * i) = B
  have hBl : 96 ≤ B.length := by rw [← hB, List.length_drop]; omega
  have hB2 : bits.drop (32 * (i + 1)) = B.drop 32 := by
    rw [← hB, List.drop_drop]; congr 1
  have hB3 : bits.drop (32 * (i + 2)) = B.drop 64 := by
    rw [← hB, List.drop_drop]; congr 1
  rw [hB2, hB3]
  have hd : fromBits (B.take 32) / 2 ^ j % 2 ^ w = fromBits (((B.take 32).drop j).take w) := by
    rw [Rle.fromBits_take w, Rle.fromBits_drop j]
  rw [hd]
  have h1l : ((B.take 32).drop j).length = 32 - j := by
    rw [List.length_drop, List.length_take]; omega
  split
  · rename_i hs
    have ht : ((B.take 32).drop j).take w = (B.take 32).drop j := List.take_of_length_le (by omega)
    rw [ht]
    split
    · -- the value spans three words
      rename_i hs3
      have hw1 : fromBits ((B.drop 32).take 32) % 2 ^ (w - (32 - j)) = fromBits ((B.drop 32).take 32) := by
        rw [← Rle.fromBits_take, List.take_take, Nat.min_eq_right (by omega)]
      have hw2 : fromBits ((B.drop 64).take 32) % 2 ^ (w - (64 - j)) = fromBits ((B.drop 64).take (w - (64 - j))) := by
        rw [← Rle.fromBits_take, List.take_take, Nat.min_eq_left (by omega)]
      rw [hw1, hw2]
      have h2l : ((B.drop 32).take 32).length = 32 := by
        rw [List.length_take, List.length_drop]; omega
      have hsplit : (B.drop j).take w =
          (B.take 32).drop j ++ ((B.drop 32).take 32 ++ (B.drop 64).take (w - (64 - j))) := by
        have e1 : (B.drop j).take w = ((B.drop j).take (32 - j)) ++ ((B.drop j).drop (32 - j)).take (w - (32 - j)) := by
          conv => lhs; rw [← List.take_append_drop (32 - j) (B.drop j)]
          rw [List.take_append, List.length_take, List.length_drop,
            List.take_of_length_le (l := List.take (32 - j) (List.drop j B)) (by rw [List.length_take]; omega)]
          congr 2; omega
        have e2 : (B.drop j).take (32 - j) = (B.take 32).drop j := by
          rw [List.drop_take]
        have e3 : (B.drop j).drop (32 - j) = B.drop 32 := by
          rw [List.drop_drop]; congr 1; omega
        have e4 : (B.drop 32).take (w - (32 - j)) = (B.drop 32).take 32 ++ (B.drop 64).take (w - (64 - j)) := by
          conv => lhs; rw [← List.take_append_drop 32 (B.drop 32)]
          rw [List.take_append, h2l, List.take_of_length_le (l := List.take 32 (List.drop 32 B)) (by rw [h2l]; omega),
            List.drop_drop]
          congr 2; omega
        rw [e1, e2, e3, e4]
      rw [hsplit, fromBits_append, fromBits_append, h1l, h2l]
      have hp : 2 ^ (64 - j) = 2 ^ (32 - j) * 2 ^ 32 := by
        rw [← Nat.pow_add]; congr 1; omega
      rw [hp]
      generalize fromBits (List.drop j (List.take 32 B)) = d1
      generalize fromBits (List.take 32 (List.drop 32 B)) = f2
      generalize fromBits (List.take (w - (64 - j)) (List.drop 64 B)) = f3
      generalize 2 ^ (32 - j) = P
      generalize (2 : Nat) ^ 32 = Q
      rw [Nat.mul_add, Nat.add_assoc]
      congr 1
      rw [Nat.mul_comm f2 P]
      congr 1
      rw [Nat.mul_comm f3 (P * Q), Nat.mul_assoc]
    · -- two words
      rename_i hs3
      have hw1 : fromBits ((B.drop 32).take 32) % 2 ^ (w - (32 - j)) = fromBits ((B.drop 32).take (w - (32 - j))) := by
        rw [← Rle.fromBits_take, List.take_take, Nat.min_eq_left (by omega)]
      rw [hw1]
      have hsplit : (B.drop j).take w = (B.take 32).drop j ++ (B.drop 32).take (w - (32 - j)) := by
        conv => lhs; rw [← List.take_append_drop 32 B]
        rw [List.drop_append_of_le_length (by rw [List.length_take]; omega), List.take_append, ht, h1l]
      rw [hsplit, fromBits_append, h1l, Nat.mul_comm]
  · rename_i hs
    rw [take_drop_take B j w 32 (by omega)]

/-- the portable INT64 kernel is LSB-first unpacking, for every width up to 64 -/
theorem goUnpackInt64_eq (w n : Nat) (p : List Nat) (hw : w ≤ 64) (hb : ∀ b ∈ p, b < 256)
    (hn : n * w ≤ 8 * p.length) : goUnpackInt64 w n p = unpackBits w n (bytesToBits p) := by
  rw [← unpackBits_append_pad w n (bytesToBits p) (bytesToBits (List.replicate 32 0))
    (by rw [Rle.bytesToBits_length]; exact hn), ← Rle.bytesToBits_append, unpackBits_eq_map]
  unfold goUnpackInt64
  apply List.map_congr_left
  intro k hk
  have hk' : k < n := by simpa using hk
  have hkw : k * w ≤ n * w := Nat.mul_le_mul_right w (by omega)
  apply goUnpackInt64Value_eq w hw
  · intro b hb'
    rw [List.mem_append] at hb'
    rcases hb' with h | h
    · exact hb b h
    · have := List.eq_of_mem_replicate h; omega
  · rw [List.length_append, List.length_replicate]
    have := Nat.div_mul_le_self (k * w) 32
    omega

/-- what `goMinis` hands to the kernel: the miniblock bytes completed with zeros to
`vpm * w / 8` bytes (`vpm` a multiple of 8) hold `vpm` values of `w` bits, so reading the first
`cnt ≤ vpm` of them stays inside the buffer -/
theorem mini_fits (vpm w cnt : Nat) (data : List Nat) (h8 : vpm % 8 = 0) (hc : cnt ≤ vpm)
    (hl : data.length = vpm * w / 8) : cnt * w ≤ 8 * data.length := by
  obtain ⟨k, hk⟩ : ∃ k, vpm = 8 * k := ⟨vpm / 8, by omega⟩
  subst hk
  have e : 8 * k * w / 8 = k * w := by rw [Nat.mul_assoc, Nat.mul_div_cancel_left _ (by omega : 0 < 8)]
  rw [hl, e, ← Nat.mul_assoc]
  exact Nat.mul_le_mul_right w hc

end PqModel.Delta
