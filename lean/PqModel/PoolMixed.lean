import PqModel.PoolProto
/-! # The row reader's per-chunk `detach` flag over a column chunk that MIXES page kinds

MIRROR of `columnChunkValueReader` (column_chunk.go:84-148) at the level of `PoolProto`: the reader
state that matters for the ownership of the pages' values buffers is ONE flag per column chunk,
`detach` (set once by `newRowGroupRows`, row_group.go:222-229, for BYTE_ARRAY and
FIXED_LEN_BYTE_ARRAY columns), read by `clear()` (column_chunk.go:91-101) every time the reader lets
go of a page. A chunk is a list of pages; a dictionary-encoded chunk whose dictionary outgrew
`DictionaryMaxBytes` continues with PLAIN pages (writer.go:2161-2190, 2773-2806), so the pages of one
chunk differ in where their values point:

* values of a page that has a dictionary point into the dictionary (owned by the pages reader, not
  pooled per page): rows the caller keeps do not touch the page's values buffer (it holds indexes);
* values of a PLAIN page point into the page's values buffer.

`chunkProgs` threads the flag through the pages and gives, per page, the program on that page's
values buffer (`PoolProto.rowReaderProg`: decode/read touches, the release action, the caller's
touches through kept rows). `slip = false` is the code as it is: fetching a page does not write the
flag (column_chunk.go:128-136). `slip = true` is the variant that clears the flag when a
FIXED_LEN_BYTE_ARRAY page has a dictionary ("its buffer only holds indexes") and never sets it again. -/
namespace PqModel.PoolMixed
open PqModel.PoolProto

/-- one data page of a column chunk as the row reader sees it -/
structure PageD where
  hasDict : Bool  -- `p.Dictionary() != nil`
  nRead : Nat     -- ReadValues calls served from the page
  nKept : Nat     -- rows of this page the caller still uses after the reader let go of the page
deriving DecidableEq, Repr

/-- touches of the PAGE's values buffer through the rows the caller kept -/
def PageD.keptTouches (p : PageD) : Nat := if p.hasDict then 0 else p.nKept

/-- MIRROR column_chunk.go:128-136 (`slip = false`: `r.page = p; r.values = p.Values()`, the flag is
    not written); `slip = true`: the variant with
    `if r.detach && p.Dictionary() != nil && p.Type().Kind() == FixedLenByteArray { r.detach = false }` -/
def flagAfterFetch (slip fixedLen detach : Bool) (p : PageD) : Bool :=
  if slip && detach && p.hasDict && fixedLen then false else detach

/-- the programs on the values buffers of the pages of one chunk, in page order; the release of a
    page honours the flag as it stands when `clear()` runs (after the fetch of that page) -/
def chunkProgs (slip fixedLen : Bool) : Bool → List PageD → List (List Op)
  | _, [] => []
  | detach, p :: ps =>
    rowReaderProg true (flagAfterFetch slip fixedLen detach p) p.nRead p.keptTouches ::
      chunkProgs slip fixedLen (flagAfterFetch slip fixedLen detach p) ps

/-- the code as it is: the flag set by `newRowGroupRows` stands for every page of the chunk -/
theorem chunkProgs_mirror (fixedLen : Bool) (ps : List PageD) :
    chunkProgs false fixedLen true ps = ps.map fun p => rowReaderProg true true p.nRead p.keptTouches := by
  induction ps with
  | nil => rfl
  | cons p ps ih => simp [chunkProgs, flagAfterFetch, ih]

/-- a cleared flag stays cleared: nothing sets it again -/
theorem chunkProgs_cleared (slip fixedLen : Bool) (ps : List PageD) :
    chunkProgs slip fixedLen false ps = ps.map fun p => rowReaderProg true false p.nRead p.keptTouches := by
  induction ps with
  | nil => rfl
  | cons p ps ih => simp [chunkProgs, flagAfterFetch, ih]

/-- the variant: after a dictionary page of a fixed-length column the flag is cleared, whatever
    came before -/
theorem chunkProgs_slip_after_dict (detach : Bool) (pre : List PageD) (d : PageD) (hd : d.hasDict = true)
    (rest : List PageD) :
    ∃ front, chunkProgs true true detach (pre ++ d :: rest) = front ++ chunkProgs true true false rest := by
  induction pre generalizing detach with
  | nil =>
    refine ⟨[rowReaderProg true false d.nRead d.keptTouches], ?_⟩
    cases detach <;> simp [chunkProgs, flagAfterFetch, hd]
  | cons p pre ih =>
    obtain ⟨front, h⟩ := ih (flagAfterFetch true true detach p)
    exact ⟨rowReaderProg true (flagAfterFetch true true detach p) p.nRead p.keptTouches :: front, by
      simp [chunkProgs, h]⟩

/-- the variant does not change anything for BYTE_ARRAY columns -/
theorem chunkProgs_slip_byte_array (detach : Bool) (ps : List PageD) :
    chunkProgs true false detach ps = chunkProgs false false detach ps := by
  induction ps generalizing detach with
  | nil => rfl
  | cons p ps ih => simp [chunkProgs, flagAfterFetch, ih]

end PqModel.PoolMixed
