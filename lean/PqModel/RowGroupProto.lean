/-! # The `ConcurrentRowGroupWriter` protocol: BeginRowGroup / fill / Flush / Commit / reuse, with the
row-group ordinal that an encrypting writer puts into the AAD of every page

MIRROR of writer.go at the granularity of calls:

* `BeginRowGroup` (writer.go:737-892): a new set of column writers; on an encrypting writer
  `c.awaitOrdinal = true` (:887) — the row-group ordinal is part of every page AAD and only known at
  Commit, so the column writers keep their values buffered until then.
* `ColumnWriter.Flush` (writer.go:2146-2150): `if c.columnBuffer == nil || c.awaitOrdinal { return nil }`,
  otherwise the buffered values become a page, sealed with `c.rowGroupOrdinal` (makeAAD, :2278,:2288,
  :2597,:2606). Reached from `rg.Flush()` (:964) and from a full page buffer (:2425).
* `writer.writeRowGroup` (writer.go:1517-1566 for the part modelled): nothing happens for an empty row
  group (:1521-1524, before the `defer`); `rowGroupIndex := len(w.rowGroups)` (:1527); every column gets
  `rowGroupOrdinal = rowGroupIndex`, `awaitOrdinal = false` (:1557-1561) and is flushed (:1564); the pages
  are copied to the file and the metadata appended to `w.rowGroups`; the deferred block (:1536-1554)
  resets the row group, sets `rowGroupOrdinal = len(w.rowGroups)` for the next use, **restores
  `awaitOrdinal = (rg != w.currentRowGroup)`** (:1543), and gives the writer's own row group the same
  next ordinal (:1547-1551).
* `Commit` (writer.go:1002-1007) = `rg.writer.flush()` (the writer's own pending rows become a row
  group first, :1279-1282) then `writeRowGroup(rg)`.

The parameter `restore` is line 1543: `true` is the code as it is; `false` is the slip in which the
flag stays `false` after the first Commit (theorem `slip_unreadable`).

SPEC side (`S`, `sstep`): what the documentation promises — row groups may be filled concurrently,
are committed serially, a committed row group writer "will be empty and can be reused", pending rows
of the parent writer are flushed before the committed row group. Its state is the rows written to
each row group writer since its last Commit; page boundaries do not exist in it. The reader side of
the Parquet encryption spec (AAD = prefix ‖ file id ‖ module type ‖ row group ordinal ‖ column ordinal
‖ page ordinal) is `readable`: a page of the j-th row group of the file authenticates only if it was
sealed with ordinal j. -/
namespace PqModel.RowGroupProto

/-- the column writers of one row group (a `ConcurrentRowGroupWriter`, or `w.currentRowGroup`) -/
structure Rg (X : Type) where
  await : Bool                  -- ColumnWriter.awaitOrdinal
  ord : Nat                     -- ColumnWriter.rowGroupOrdinal
  buf : List X                  -- values in the column buffers, not yet in a page
  pages : List (Nat × List X)   -- sealed pages in the page buffer: (ordinal in the AAD, values)
deriving DecidableEq, Repr

abbrev Group (X : Type) := List (Nat × List X)

structure W (X : Type) where
  groups : List (Group X)       -- w.rowGroups (with the pages of each), in file order
  own : Rg X                    -- w.currentRowGroup
  rgs : List (Rg X)             -- the row group writers handed out by BeginRowGroup
deriving DecidableEq, Repr

inductive Ev (X : Type) where
  | begin                       -- w.BeginRowGroup()
  | fill (i : Nat) (x : X)      -- rg_i.WriteRows / ColumnWriter.WriteRowValues: one more row
  | flush (i : Nat)             -- page boundary in rg_i: rg_i.Flush() or a full page buffer
  | commit (i : Nat)            -- rg_i.Commit()
  | write (x : X)               -- w.Write: one more row in the writer's own row group
  | flushOwn                    -- page boundary in the writer's own row group
  | wflush                      -- w.Flush(): the writer's own row group is written
deriving DecidableEq, Repr

variable {X : Type}

def init : W X := { groups := [], own := { await := false, ord := 0, buf := [], pages := [] }, rgs := [] }

/-- writer.go:2146-2150 and the sealing of the page with `c.rowGroupOrdinal` -/
def flushRg (r : Rg X) : Rg X :=
  if r.await || r.buf.isEmpty then r else { r with pages := r.pages ++ [(r.ord, r.buf)], buf := [] }

/-- `totalRowCount() == 0` (writer.go:1521): no buffered value and no sealed page (pages are sealed
    from non-empty buffers only) -/
def isEmpty (r : Rg X) : Bool := r.buf.isEmpty && r.pages.isEmpty

/-- writer.go:1517-1566; `isOwn` is `rg == w.currentRowGroup` -/
def writeRowGroup (restore : Bool) (groups : List (Group X)) (r : Rg X) (isOwn : Bool) :
    List (Group X) × Rg X :=
  if isEmpty r then (groups, r) else
  let r1 := flushRg { r with ord := groups.length, await := false }
  let groups' := groups ++ [r1.pages]
  (groups', { await := if restore then !isOwn else false, ord := groups'.length, buf := [], pages := [] })

def step (restore : Bool) (w : W X) : Ev X → W X
  | .begin => { w with rgs := w.rgs ++ [{ await := true, ord := 0, buf := [], pages := [] }] }
  | .fill i x =>
    match w.rgs[i]? with
    | none => w
    | some r => { w with rgs := w.rgs.set i { r with buf := r.buf ++ [x] } }
  | .flush i =>
    match w.rgs[i]? with
    | none => w
    | some r => { w with rgs := w.rgs.set i (flushRg r) }
  | .commit i =>
    match w.rgs[i]? with
    | none => w
    | some r =>
      let p1 := writeRowGroup restore w.groups w.own true   -- rg.writer.flush()
      let p2 := writeRowGroup restore p1.1 r false
      -- :1547-1551, in the deferred block: only when rg_i was not empty
      let own2 := if isEmpty r then p1.2 else { p1.2 with ord := p2.1.length }
      { groups := p2.1, own := own2, rgs := w.rgs.set i p2.2 }
  | .write x => { w with own := { w.own with buf := w.own.buf ++ [x] } }
  | .flushOwn => { w with own := flushRg w.own }
  | .wflush =>
    let p1 := writeRowGroup restore w.groups w.own true
    { w with groups := p1.1, own := p1.2 }

def run (restore : Bool) (es : List (Ev X)) : W X := es.foldl (step restore) init

/-! ## SPEC -/

structure S (X : Type) where
  out : List (List X)      -- the rows of each row group of the file, in file order
  ownPend : List X         -- rows written through the parent writer, not yet in the file
  pend : List (List X)     -- rows written to each row group writer since its last Commit
deriving DecidableEq, Repr

def emit (out : List (List X)) (p : List X) : List (List X) := if p.isEmpty then out else out ++ [p]

def sstep (s : S X) : Ev X → S X
  | .begin => { s with pend := s.pend ++ [[]] }
  | .fill i x =>
    match s.pend[i]? with
    | none => s
    | some p => { s with pend := s.pend.set i (p ++ [x]) }
  | .flush _ => s
  | .commit i =>
    match s.pend[i]? with
    | none => s
    | some p => { out := emit (emit s.out s.ownPend) p, ownPend := [], pend := s.pend.set i [] }
  | .write x => { s with ownPend := s.ownPend ++ [x] }
  | .flushOwn => s
  | .wflush => { s with out := emit s.out s.ownPend, ownPend := [] }

def srun (es : List (Ev X)) : S X := es.foldl sstep { out := [], ownPend := [], pend := [] }

/-- the rows of a row group of the file: its pages in order -/
def content (g : Group X) : List X := g.flatMap (·.2)

/-- reader side: every page of the j-th row group authenticates with row-group ordinal j -/
def readableFrom : Nat → List (Group X) → Bool
  | _, [] => true
  | j, g :: gs => g.all (fun p => p.1 == j) && readableFrom (j + 1) gs

def readable (gs : List (Group X)) : Bool := readableFrom 0 gs

theorem readableFrom_append (j : Nat) (gs : List (Group X)) (g : Group X) :
    readableFrom j (gs ++ [g]) = (readableFrom j gs && g.all (fun p => p.1 == j + gs.length)) := by
  induction gs generalizing j with
  | nil => simp [readableFrom]
  | cons h t ih =>
    simp only [List.cons_append, readableFrom, ih, List.length_cons, Bool.and_assoc]
    have : j + 1 + t.length = j + (t.length + 1) := by omega
    rw [this]

/-! ## The simulation invariant -/

structure Sim (w : W X) (s : S X) : Prop where
  groups_out : w.groups.map content = s.out
  groups_ok : readable w.groups = true
  own_await : w.own.await = false
  own_ord : w.own.ord = w.groups.length
  own_pages : ∀ p ∈ w.own.pages, p.1 = w.groups.length ∧ p.2 ≠ []
  own_pend : content w.own.pages ++ w.own.buf = s.ownPend
  rgs_buf : w.rgs.map (·.buf) = s.pend
  rgs_wait : ∀ r ∈ w.rgs, r.await = true ∧ r.pages = []

theorem content_append (a b : Group X) : content (a ++ b) = content a ++ content b := by
  simp [content]

theorem content_nil_iff {g : Group X} (h : ∀ p ∈ g, p.2 ≠ []) : content g = [] ↔ g = [] := by
  cases g with
  | nil => simp [content]
  | cons p t =>
    simp only [content, List.flatMap_cons, List.append_eq_nil_iff, reduceCtorEq, iff_false, not_and]
    intro hp
    exact absurd hp (h p (by simp))

theorem set_same {α : Type} {l : List α} {i : Nat} {a : α} (h : l[i]? = some a) : l.set i a = l := by
  obtain ⟨hi, rfl⟩ := List.getElem?_eq_some_iff.mp h
  exact List.set_getElem_self hi

/-- the pages of a row group once `writeRowGroup` has flushed it with its final ordinal -/
theorem commit_pages (r : Rg X) (n : Nat) :
    (flushRg { r with ord := n, await := false }).pages =
      r.pages ++ (if r.buf.isEmpty then [] else [(n, r.buf)]) := by
  simp only [flushRg, Bool.false_or]
  split <;> simp

theorem content_commit_pages (r : Rg X) (n : Nat) :
    content (flushRg { r with ord := n, await := false }).pages = content r.pages ++ r.buf := by
  rw [commit_pages]
  split
  · rename_i h
    have : r.buf = [] := by simpa [List.isEmpty_iff] using h
    simp [this]
  · simp [content]

theorem all_commit_pages (r : Rg X) (n : Nat) (h : ∀ p ∈ r.pages, p.1 = n) :
    (flushRg { r with ord := n, await := false }).pages.all (fun p => p.1 == n) = true := by
  rw [commit_pages, List.all_append]
  have h1 : r.pages.all (fun p => p.1 == n) = true := by
    simp only [List.all_eq_true, beq_iff_eq]; exact h
  rw [h1]
  split <;> simp

theorem writeRowGroup_nonempty (restore : Bool) (groups : List (Group X)) (r : Rg X) (isOwn : Bool)
    (he : isEmpty r = false) :
    writeRowGroup restore groups r isOwn =
      (groups ++ [(flushRg { r with ord := groups.length, await := false }).pages],
       { await := if restore then !isOwn else false, ord := groups.length + 1, buf := [], pages := [] }) := by
  simp [writeRowGroup, he]

theorem writeRowGroup_empty (restore : Bool) (groups : List (Group X)) (r : Rg X) (isOwn : Bool)
    (he : isEmpty r = true) : writeRowGroup restore groups r isOwn = (groups, r) := by
  simp [writeRowGroup, he]

/-- what `writeRowGroup` does to the writer's own row group, in terms of the spec -/
theorem writeOwn {w : W X} {s : S X} (h : Sim w s) :
    let p := writeRowGroup true w.groups w.own true
    p.1.map content = emit s.out s.ownPend ∧ readable p.1 = true ∧
    p.2.await = false ∧ p.2.ord = p.1.length ∧ (∀ q ∈ p.2.pages, q.1 = p.1.length ∧ q.2 ≠ []) ∧
    content p.2.pages ++ p.2.buf = (if s.ownPend.isEmpty then s.ownPend else []) ∧
    (s.ownPend.isEmpty = true → p = (w.groups, w.own)) := by
  obtain ⟨h1, h2, h3, h4, h5, h6, _, _⟩ := h
  intro p
  by_cases he : isEmpty w.own = true
  · -- nothing pending: early return
    have hb : w.own.buf = [] ∧ w.own.pages = [] := by
      simpa [isEmpty, List.isEmpty_iff] using he
    have hs : s.ownPend = [] := by rw [← h6, hb.1, hb.2]; simp [content]
    have hp : p = (w.groups, w.own) := writeRowGroup_empty _ _ _ _ he
    rw [hp]
    refine ⟨?_, h2, h3, h4, ?_, ?_, fun _ => rfl⟩
    · simp [hs, emit, h1]
    · intro q hq; rw [hb.2] at hq; cases hq
    · simp [hs, hb.1, hb.2, content]
  · have he' : isEmpty w.own = false := by simpa using he
    have hne : s.ownPend ≠ [] := by
      intro hs
      rw [← h6] at hs
      have := List.append_eq_nil_iff.mp hs
      have hp := (content_nil_iff (fun p hp => (h5 p hp).2)).mp this.1
      apply he
      simp [isEmpty, this.2, hp]
    have hne' : s.ownPend.isEmpty = false := by simpa [List.isEmpty_iff] using hne
    have hp : p = _ := writeRowGroup_nonempty true w.groups w.own true he'
    rw [hp]
    refine ⟨?_, ?_, rfl, ?_, ?_, ?_, ?_⟩
    · simp only [List.map_append, List.map_cons, List.map_nil, h1, content_commit_pages, h6, emit, hne']
      simp
    · unfold readable at h2 ⊢
      rw [readableFrom_append, h2, Nat.zero_add, Bool.true_and]
      exact all_commit_pages _ _ (fun q hq => (h5 q hq).1)
    · simp
    · intro q hq; cases hq
    · simp [hne', content]
    · intro h; rw [hne'] at h; cases h

/-- what `writeRowGroup` does to a waiting row group writer -/
theorem writeWaiting (groups : List (Group X)) (r : Rg X) (ha : r.await = true) (hp : r.pages = []) :
    let p := writeRowGroup true groups r false
    p.1.map content = emit (groups.map content) r.buf ∧
    (readable groups = true → readable p.1 = true) ∧
    p.2.await = true ∧ p.2.pages = [] ∧ p.2.buf = [] ∧
    (isEmpty r = true → p = (groups, r)) ∧ (isEmpty r = false → p.2.ord = p.1.length) := by
  intro p
  by_cases he : isEmpty r = true
  · have hb : r.buf = [] := by
      have : r.buf = [] ∧ r.pages = [] := by simpa [isEmpty, List.isEmpty_iff] using he
      exact this.1
    have hq : p = (groups, r) := writeRowGroup_empty _ _ _ _ he
    rw [hq]
    refine ⟨?_, fun h => h, ha, hp, hb, fun _ => rfl, ?_⟩
    · simp [emit, hb]
    · intro h; rw [he] at h; cases h
  · have he' : isEmpty r = false := by simpa using he
    have hb : r.buf.isEmpty = false := by
      simpa [isEmpty, hp] using he'
    have hq : p = _ := writeRowGroup_nonempty true groups r false he'
    rw [hq]
    refine ⟨?_, ?_, rfl, rfl, rfl, ?_, ?_⟩
    · simp only [List.map_append, List.map_cons, List.map_nil]
      rw [content_commit_pages, hp]
      simp [emit, hb, content]
    · intro h2
      unfold readable at h2 ⊢
      rw [readableFrom_append, h2, Nat.zero_add, Bool.true_and]
      exact all_commit_pages _ _ (by intro q hq; rw [hp] at hq; cases hq)
    · intro h; rw [he'] at h; cases h
    · intro _; simp

theorem sim_init : Sim (init : W X) { out := [], ownPend := [], pend := [] } := by
  constructor <;> simp [init, readable, readableFrom, content]

theorem getElem?_map_buf {rgs : List (Rg X)} {pend : List (List X)} (h : rgs.map (·.buf) = pend) (i : Nat) :
    pend[i]? = (rgs[i]?).map (·.buf) := by
  rw [← h, List.getElem?_map]

theorem sim_step {w : W X} {s : S X} (h : Sim w s) (e : Ev X) : Sim (step true w e) (sstep s e) := by
  cases e with
  | begin =>
    obtain ⟨h1, h2, h3, h4, h5, h6, h7, h8⟩ := h
    refine ⟨h1, h2, h3, h4, h5, h6, ?_, ?_⟩
    · simp only [step, sstep, List.map_append, h7, List.map_cons, List.map_nil]
    · intro r hr
      simp only [step, List.mem_append, List.mem_singleton] at hr
      rcases hr with hr | hr
      · exact h8 r hr
      · subst hr; exact ⟨rfl, rfl⟩
  | fill i x =>
    have hi := getElem?_map_buf h.rgs_buf i
    obtain ⟨h1, h2, h3, h4, h5, h6, h7, h8⟩ := h
    simp only [step, sstep, hi]
    cases hr : w.rgs[i]? with
    | none => simp only [Option.map_none]; exact ⟨h1, h2, h3, h4, h5, h6, h7, h8⟩
    | some r =>
      simp only [Option.map_some]
      refine ⟨h1, h2, h3, h4, h5, h6, ?_, ?_⟩
      · simp only [List.map_set, ← h7]
      · intro r' hr'
        rcases List.mem_or_eq_of_mem_set hr' with hm | hm
        · exact h8 r' hm
        · subst hm; exact h8 r (List.mem_of_getElem? hr)
  | flush i =>
    obtain ⟨h1, h2, h3, h4, h5, h6, h7, h8⟩ := h
    simp only [step, sstep]
    cases hr : w.rgs[i]? with
    | none => exact ⟨h1, h2, h3, h4, h5, h6, h7, h8⟩
    | some r =>
      have ha := (h8 r (List.mem_of_getElem? hr)).1
      have hf : flushRg r = r := by simp [flushRg, ha]
      have hs : w.rgs.set i (flushRg r) = w.rgs := by
        rw [hf]; exact set_same hr
      simp only [hs]
      exact ⟨h1, h2, h3, h4, h5, h6, h7, h8⟩
  | commit i =>
    have hi := getElem?_map_buf h.rgs_buf i
    have hown := writeOwn h
    obtain ⟨h1, h2, h3, h4, h5, h6, h7, h8⟩ := h
    simp only [step, sstep, hi]
    cases hr : w.rgs[i]? with
    | none => simp only [Option.map_none]; exact ⟨h1, h2, h3, h4, h5, h6, h7, h8⟩
    | some r =>
      simp only [Option.map_some]
      obtain ⟨ha, hp⟩ := h8 r (List.mem_of_getElem? hr)
      obtain ⟨o1, o2, o3, o4, o5, o6, o7⟩ := hown
      have hw := writeWaiting (writeRowGroup true w.groups w.own true).1 r ha hp
      obtain ⟨w1, w2, w3, w4, w5, w6, w7⟩ := hw
      -- after the parent's rows were written there is nothing pending in the own row group
      have own_clear : (writeRowGroup true w.groups w.own true).2.pages = [] ∧
          (writeRowGroup true w.groups w.own true).2.buf = [] := by
        by_cases hs : s.ownPend.isEmpty = true
        · have hsn : s.ownPend = [] := by simpa [List.isEmpty_iff] using hs
          rw [o7 hs]
          simp only
          rw [hsn] at h6
          have h6' := List.append_eq_nil_iff.mp h6
          exact ⟨(content_nil_iff (fun p hp => (h5 p hp).2)).mp h6'.1, h6'.2⟩
        · simp only [hs, Bool.false_eq_true, if_false] at o6
          have h6' := List.append_eq_nil_iff.mp o6
          exact ⟨(content_nil_iff (fun p hp => (o5 p hp).2)).mp h6'.1, h6'.2⟩
      refine ⟨?_, w2 o2, ?_, ?_, ?_, ?_, ?_, ?_⟩
      · rw [w1, o1]
      · split <;> simp [o3]
      · split
        · rename_i he; rw [w6 he]; exact o4
        · simp
      · intro q hq
        have : q ∈ (writeRowGroup true w.groups w.own true).2.pages := by
          split at hq <;> simpa using hq
        rw [own_clear.1] at this; cases this
      · have : ∀ (o : Rg X), o.pages = [] → o.buf = [] → content o.pages ++ o.buf = [] := by
          intro o a b; simp [a, b, content]
        split
        · exact this _ own_clear.1 own_clear.2
        · exact this _ own_clear.1 own_clear.2
      · simp only [List.map_set, w5, ← h7]
      · intro r' hr'
        rcases List.mem_or_eq_of_mem_set hr' with hm | hm
        · exact h8 r' hm
        · subst hm; exact ⟨w3, w4⟩
  | write x =>
    obtain ⟨h1, h2, h3, h4, h5, h6, h7, h8⟩ := h
    refine ⟨h1, h2, h3, h4, h5, ?_, h7, h8⟩
    simp only [step, sstep, ← h6, List.append_assoc]
  | flushOwn =>
    obtain ⟨h1, h2, h3, h4, h5, h6, h7, h8⟩ := h
    by_cases hb : w.own.buf.isEmpty = true
    · have hst : step true w .flushOwn = w := by
        simp [step, flushRg, hb]
      rw [hst]; exact ⟨h1, h2, h3, h4, h5, h6, h7, h8⟩
    · have hst : step true w .flushOwn =
          { w with own := { w.own with pages := w.own.pages ++ [(w.own.ord, w.own.buf)], buf := [] } } := by
        simp [step, flushRg, hb, h3]
      rw [hst]
      refine ⟨h1, h2, h3, h4, ?_, ?_, h7, h8⟩
      · intro p hp
        simp only [List.mem_append, List.mem_singleton] at hp
        rcases hp with hp | hp
        · exact h5 p hp
        · subst hp; exact ⟨h4, by simpa [List.isEmpty_iff] using hb⟩
      · simp only [sstep, content_append, ← h6, List.append_nil]
        simp [content]
  | wflush =>
    have hown := writeOwn h
    obtain ⟨h1, h2, h3, h4, h5, h6, h7, h8⟩ := h
    obtain ⟨o1, o2, o3, o4, o5, o6, o7⟩ := hown
    refine ⟨o1, o2, o3, o4, o5, ?_, h7, h8⟩
    simp only [step, sstep, o6]
    split <;> simp_all [List.isEmpty_iff]

theorem sim_run (es : List (Ev X)) : Sim (run true es) (srun es) := by
  suffices ∀ (w : W X) (s : S X), Sim w s → Sim (es.foldl (step true) w) (es.foldl sstep s) from
    this _ _ sim_init
  induction es with
  | nil => intro w s h; exact h
  | cons e es ih => intro w s h; exact ih _ _ (sim_step h e)

/-! ## The serial schedule

`serialize` turns a history into the schedule a single goroutine would run: the calls of the
coordinating goroutine (BeginRowGroup, Commit, parent Write / Flush) keep their order; the rows of a
row group writer are written in one block immediately before its Commit; page boundaries and rows
that are never committed are dropped. `srun_serialize`: the SPEC gives the same file for both. -/

def serialize : List (List X) → List (Ev X) → List (Ev X)
  | _, [] => []
  | pend, .begin :: es => .begin :: serialize (pend ++ [[]]) es
  | pend, .fill i x :: es =>
    serialize (match pend[i]? with | none => pend | some p => pend.set i (p ++ [x])) es
  | pend, .flush _ :: es => serialize pend es
  | pend, .commit i :: es =>
    match pend[i]? with
    | none => serialize pend es
    | some p => p.map (Ev.fill i) ++ (.commit i :: serialize (pend.set i []) es)
  | pend, .write x :: es => .write x :: serialize pend es
  | pend, .flushOwn :: es => serialize pend es
  | pend, .wflush :: es => .wflush :: serialize pend es

theorem sfills (s : S X) (i : Nat) (q p : List X) (h : s.pend[i]? = some q) :
    (p.map (Ev.fill i)).foldl sstep s = { s with pend := s.pend.set i (q ++ p) } := by
  induction p generalizing s q with
  | nil =>
    simp only [List.map_nil, List.foldl_nil, List.append_nil]
    rw [set_same h]
  | cons x p ih =>
    simp only [List.map_cons, List.foldl_cons, sstep, h]
    rw [ih _ (q ++ [x]) (by simp [(List.getElem?_eq_some_iff.mp h).1])]
    simp [List.set_set]

theorem map_nil_set {l : List (List X)} {i : Nat} {a : List X} (h : l[i]? = some a) (b : List X) :
    (l.set i b).map (fun _ => ([] : List X)) = l.map (fun _ => []) := by
  rw [List.map_set]
  exact set_same (by simp [List.getElem?_map, h])

theorem srun_serialize_aux (es : List (Ev X)) : ∀ (s1 s2 : S X), s2.out = s1.out → s2.ownPend = s1.ownPend →
    s2.pend = s1.pend.map (fun _ => []) →
    ((serialize s1.pend es).foldl sstep s2).out = (es.foldl sstep s1).out := by
  induction es with
  | nil => intro s1 s2 h1 _ _; simpa [serialize] using h1
  | cons e es ih =>
    intro s1 s2 h1 h2 h3
    cases e with
    | begin =>
      simp only [serialize, List.foldl_cons, sstep]
      exact ih { s1 with pend := s1.pend ++ [[]] } { s2 with pend := s2.pend ++ [[]] } h1 h2 (by simp [h3])
    | fill i x =>
      simp only [serialize, List.foldl_cons, sstep]
      cases hp : s1.pend[i]? with
      | none => exact ih s1 s2 h1 h2 h3
      | some p =>
        exact ih { s1 with pend := s1.pend.set i (p ++ [x]) } s2 h1 h2 (by
          simp only; rw [map_nil_set hp]; exact h3)
    | flush i => simp only [serialize, List.foldl_cons, sstep]; exact ih s1 s2 h1 h2 h3
    | commit i =>
      simp only [serialize, List.foldl_cons, sstep]
      cases hp : s1.pend[i]? with
      | none => exact ih s1 s2 h1 h2 h3
      | some p =>
        have h2i : s2.pend[i]? = some [] := by simp [h3, List.getElem?_map, hp]
        simp only [List.foldl_append, List.foldl_cons]
        rw [sfills s2 i [] p h2i]
        have hi : i < s2.pend.length := (List.getElem?_eq_some_iff.mp h2i).1
        simp only [sstep, List.nil_append, List.getElem?_set, hi, if_true, List.set_set]
        exact ih { out := emit (emit s1.out s1.ownPend) p, ownPend := [], pend := s1.pend.set i [] }
          { out := emit (emit s2.out s2.ownPend) p, ownPend := [], pend := s2.pend.set i [] }
          (by simp [h1, h2]) rfl (by simp only; rw [map_nil_set hp, h3]; exact set_same (by simp [List.getElem?_map, hp]))
    | write x =>
      simp only [serialize, List.foldl_cons, sstep]
      exact ih { s1 with ownPend := s1.ownPend ++ [x] } { s2 with ownPend := s2.ownPend ++ [x] } h1 (by simp [h2]) h3
    | flushOwn => simp only [serialize, List.foldl_cons, sstep]; exact ih s1 s2 h1 h2 h3
    | wflush =>
      simp only [serialize, List.foldl_cons, sstep]
      exact ih { s1 with out := emit s1.out s1.ownPend, ownPend := [] }
        { s2 with out := emit s2.out s2.ownPend, ownPend := [] } (by simp [h1, h2]) rfl h3

theorem srun_serialize (es : List (Ev X)) : (srun (serialize [] es)).out = (srun es).out :=
  srun_serialize_aux es _ _ rfl rfl rfl

/-! ## Calls on different row group writers commute

A `WriteRows` on row group writer `i` commutes with every call that is not on writer `i` and is not
`BeginRowGroup`: a fill, page boundary or Commit of another row group writer, and the calls on the
parent writer. So all interleavings of the goroutines that fill different row groups, for fixed
positions of each writer's own calls relative to its Commit, reach the same state (adjacent
transpositions generate every such interleaving). Holds for the code as it is and for the slip. -/

/-- the event is a call on row group writer `i`, or creates a writer -/
def touches (i : Nat) : Ev X → Bool
  | .begin => true
  | .fill j _ => i == j
  | .flush j => i == j
  | .commit j => i == j
  | _ => false

theorem step_fill_comm (restore : Bool) (w : W X) (i : Nat) (x : X) (e : Ev X) (he : touches i e = false) :
    step restore (step restore w (.fill i x)) e = step restore (step restore w e) (.fill i x) := by
  cases e with
  | begin => simp [touches] at he
  | fill j y =>
    have hij : i ≠ j := by simpa [touches] using he
    simp only [step]
    cases hi : w.rgs[i]? <;> cases hj : w.rgs[j]? <;>
      simp [hi, hj, List.getElem?_set_ne hij, List.getElem?_set_ne (Ne.symm hij), List.set_comm _ _ hij]
  | flush j =>
    have hij : i ≠ j := by simpa [touches] using he
    simp only [step]
    cases hi : w.rgs[i]? <;> cases hj : w.rgs[j]? <;>
      simp [hi, hj, List.getElem?_set_ne hij, List.getElem?_set_ne (Ne.symm hij), List.set_comm _ _ hij]
  | commit j =>
    have hij : i ≠ j := by simpa [touches] using he
    simp only [step]
    cases hi : w.rgs[i]? <;> cases hj : w.rgs[j]? <;>
      simp [hi, hj, List.getElem?_set_ne hij, List.getElem?_set_ne (Ne.symm hij), List.set_comm _ _ hij]
  | write y => simp only [step]; cases hi : w.rgs[i]? <;> simp
  | flushOwn => simp only [step]; cases hi : w.rgs[i]? <;> simp
  | wflush => simp only [step]; cases hi : w.rgs[i]? <;> simp

/-! ## The slip: line 1543 without the restore -/

/-- two row group writers, one round, then a second round in which a page boundary falls inside
    the fill: the pages of the second round are sealed with the ordinal each writer guessed at its
    previous Commit (1 and 2) while they are committed as row groups 2 and 3 -/
def slipSchedule : List (Ev Nat) :=
  [.begin, .begin, .fill 0 10, .fill 1 20, .commit 0, .commit 1,
   .fill 0 11, .flush 0, .fill 1 21, .flush 1, .commit 0, .commit 1]

end PqModel.RowGroupProto
