import PqModel.Variant

/-!
# Variant shredding, logical model (property C19, second half)

MIRROR of `variant_shredded_write.go` (`shreddedVariantGroup.write`, `writeList`, `writeObject`,
`variantToParquetValue`) and `variant_shredded_read.go` (`shreddedVariantGroup.read`, `readList`,
`readObject`) at the level of *logical slots*: one `(value, typed_value)` pair per variant group
occurrence. What is abstracted: the Dremel column streams and levels (property C03/C01), and the
byte encoding of the `value` column (`variant.Encode`/`Decode`, covered by `decode_encode`): the
`value` column holds a `Value` here, and results are compared up to `canon`.
-/
namespace PqModel.Variant

/-- the shredded primitive column types accepted by `validateShreddedPrimitiveType`;
    decimals carry (precision, scale) and are tagged by their physical width. -/
inductive PType
  | bool | int8 | int16 | int32 | int64 | float | double | string | binary | date | uuid
  | ts | tsNtz | tsNanos | tsNtzNanos | time
  | dec4 (prec scale : Nat) | dec8 (prec scale : Nat) | dec16 (prec scale : Nat)
  deriving DecidableEq

/-- typed_value schema of one variant group: nothing, a primitive column, a LIST of element
    groups, or an object group with one field group per shredded field. -/
inductive Schema
  | untyped
  | prim (t : PType)
  | list (elem : Schema)
  | obj (fields : List (Key × Schema))

mutual
/-- one `(value, typed_value)` occurrence; `missing` = both null (an absent object field) -/
inductive Slot
  | missing
  | mk (value : Option Value) (typed : Typed)
inductive Typed
  | none
  | prim (p : Prim)
  | list (elems : List Slot)
  | obj (fields : List (Key × Slot))
end

/-- MIRROR variant_shredded_write.go:329-340 / 342-367 `decimal64FitsPrecision`,
    `decimal128FitsPrecision`: |unscaled| < 10^precision (always true once the precision exceeds
    what the width can hold). -/
def fitsPrec (limit prec : Nat) (x : Int) : Bool := prec ≥ limit || x.natAbs < 10 ^ prec

/-- MIRROR variant_shredded_write.go:212-313 `variantToParquetValue`: exact type match only. -/
def matchesP : PType → Prim → Bool
  | .bool, .bool _ => true
  | .int8, .int8 _ => true
  | .int16, .int16 _ => true
  | .int32, .int32 _ => true
  | .int64, .int64 _ => true
  | .float, .float _ => true
  | .double, .double _ => true
  | .string, .string _ => true
  | .binary, .binary _ => true
  | .date, .date _ => true
  | .uuid, .uuid _ => true
  | .ts, .ts _ => true
  | .tsNtz, .tsNtz _ => true
  | .tsNanos, .tsNanos _ => true
  | .tsNtzNanos, .tsNtzNanos _ => true
  | .time, .time _ => true
  | .dec4 p s, .dec4 sc x => s = sc.toNat && fitsPrec 19 p x.toInt
  | .dec8 p s, .dec8 sc x => s = sc.toNat && fitsPrec 19 p x.toInt
  | .dec16 p s, .dec16 sc x => s = sc.toNat && fitsPrec 39 p x.toInt
  | _, _ => false

/-- MIRROR variant_shredded_write.go:188-197 `findVariantField` (first match). -/
def findField (name : Key) : List (Key × Value) → Option Value
  | [] => none
  | (k, v) :: fs => if k = name then some v else findField name fs

def schemaNames (fields : List (Key × Schema)) : List Key := fields.map (·.1)

mutual
/-- MIRROR variant_shredded_write.go:81-129 `shreddedVariantGroup.write` with `present = true`. -/
def shred : Schema → Value → Slot
  | .untyped, v => .mk (some v) .none
  | .prim t, v =>
    match v with
    | .prim p => if matchesP t p then .mk none (.prim p) else .mk (some v) .none
    | _ => .mk (some v) .none
  | .list e, v =>
    match v with
    | .arr es => .mk none (.list (shredList e es))
    | _ => .mk (some v) .none
  | .obj fields, v =>
    match v with
    | .obj fs =>
      let residual := fs.filter fun f => !(schemaNames fields).contains f.1
      .mk (if residual.isEmpty then none else some (.obj residual)) (.obj (shredFields fields fs))
    | _ => .mk (some v) .none
/-- MIRROR variant_shredded_write.go:141-162 `writeList` -/
def shredList : Schema → List Value → List Slot
  | _, [] => []
  | e, x :: xs => shred e x :: shredList e xs
/-- MIRROR variant_shredded_write.go:165-171 `writeObject`, the loop over the schema fields -/
def shredFields : List (Key × Schema) → List (Key × Value) → List (Key × Slot)
  | [], _ => []
  | (name, s) :: rest, fs =>
    (name, match findField name fs with
           | some fv => shred s fv
           | none => .missing) :: shredFields rest fs
end

/-- result of reconstructing one occurrence: the Go triple `(value, present, err)` -/
inductive RRes
  | err
  | missing
  | val (v : Value)

def RRes.orNull : RRes → Option Value
  | .err => none
  | .missing => some (.prim .null)
  | .val v => some v

def valueCol : Option Value → RRes
  | none => .missing
  | some v => .val v

mutual
/-- MIRROR variant_shredded_read.go:250-347 `shreddedVariantGroup.read`. -/
def unshredR : Schema → Slot → RRes
  | _, .missing => .missing
  | .untyped, .mk val _ => valueCol val
  | .prim _, .mk val typed =>
    match typed with
    | .prim p => if val.isSome then .err else .val (.prim p)
    | _ => valueCol val
  | .list e, .mk val typed =>
    match typed with
    | .list slots =>
      match unshredList e slots with
      | none => .err
      | some es => if val.isSome then .err else .val (.arr es)
    | _ => valueCol val
  | .obj fields, .mk val typed =>
    match typed with
    | .obj tfs =>
      match unshredFields fields tfs with
      | none => .err
      | some ofs =>
        match val with
        | none => .val (.obj ofs)
        | some (.obj resid) =>
          .val (.obj (ofs ++ resid.filter fun f => !(schemaNames fields).contains f.1))
        | some _ => .err
    | _ => valueCol val
/-- MIRROR variant_shredded_read.go:352-392 `readList`: missing elements read as variant null -/
def unshredList : Schema → List Slot → Option (List Value)
  | _, [] => some []
  | e, s :: ss =>
    match (unshredR e s).orNull, unshredList e ss with
    | some v, some vs => some (v :: vs)
    | _, _ => none
/-- MIRROR variant_shredded_read.go:397-422 `readObject`: missing fields are omitted -/
def unshredFields : List (Key × Schema) → List (Key × Slot) → Option (List (Key × Value))
  | (name, s) :: rest, (_, sl) :: sls =>
    match unshredR s sl, unshredFields rest sls with
    | .err, _ => none
    | _, none => none
    | .missing, some fs => some fs
    | .val v, some fs => some ((name, v) :: fs)
  | _, _ => some []
end

/-- top level (row_variant.go:307-316): value and typed_value both null reads as variant null -/
def unshred (s : Schema) (sl : Slot) : Option Value := (unshredR s sl).orNull


/-! ### the parquet leaf value of a typed_value column -/

/-- a parquet leaf value, by physical type -/
inductive ColVal
  | bool (b : Bool)
  | i32 (x : BitVec 32)
  | i64 (x : BitVec 64)
  | f32 (x : BitVec 32)
  | f64 (x : BitVec 64)
  | bytes (b : Bytes)
  deriving DecidableEq

/-- MIRROR variant_shredded_write.go:212-313 `variantToParquetValue`: the leaf value written for a
    primitive that matches the column type (`none` = no match, falls back to `value`). int8/int16
    are widened to INT32, decimal16 is turned from little to big endian (315-322). -/
def toCol : PType → Prim → Option ColVal
  | .bool, .bool b => some (.bool b)
  | .int8, .int8 x => some (.i32 (x.signExtend 32))
  | .int16, .int16 x => some (.i32 (x.signExtend 32))
  | .int32, .int32 x => some (.i32 x)
  | .int64, .int64 x => some (.i64 x)
  | .float, .float x => some (.f32 x)
  | .double, .double x => some (.f64 x)
  | .string, .string s => some (.bytes s)
  | .binary, .binary b => some (.bytes b)
  | .date, .date x => some (.i32 x)
  | .uuid, .uuid x => some (.bytes (beN 16 x.toNat))
  | .ts, .ts x => some (.i64 x)
  | .tsNtz, .tsNtz x => some (.i64 x)
  | .tsNanos, .tsNanos x => some (.i64 x)
  | .tsNtzNanos, .tsNtzNanos x => some (.i64 x)
  | .time, .time x => some (.i64 x)
  | .dec4 p s, .dec4 sc x => if s = sc.toNat && fitsPrec 19 p x.toInt then some (.i32 x) else none
  | .dec8 p s, .dec8 sc x => if s = sc.toNat && fitsPrec 19 p x.toInt then some (.i64 x) else none
  | .dec16 p s, .dec16 sc x =>
    if s = sc.toNat && fitsPrec 39 p x.toInt then some (.bytes (beN 16 x.toNat)) else none
  | _, _ => none

/-- MIRROR variant_shredded_read.go:551-562 `bigEndianToLittleEndian16`: a big-endian two's
    complement integer of up to 16 bytes, sign-extended to 16 little-endian bytes. -/
def be16ToNat (b : Bytes) : Nat :=
  let fill : UInt8 := match b with
    | b0 :: _ => if b0 ≥ 0x80 then 0xFF else 0
    | [] => 0
  unLE (b.reverse ++ List.replicate (16 - b.length) fill)

/-- MIRROR variant_shredded_read.go:467-546 `parquetToVariantValue`: the variant primitive a leaf
    value of a typed_value column stands for. -/
def ofCol : PType → ColVal → Option Prim
  | .bool, .bool b => some (.bool b)
  | .int8, .i32 x => some (.int8 (x.setWidth 8))
  | .int16, .i32 x => some (.int16 (x.setWidth 16))
  | .int32, .i32 x => some (.int32 x)
  | .int64, .i64 x => some (.int64 x)
  | .float, .f32 x => some (.float x)
  | .double, .f64 x => some (.double x)
  | .string, .bytes s => some (.string s)
  | .binary, .bytes b => some (.binary b)
  | .date, .i32 x => some (.date x)
  | .uuid, .bytes b => if b.length = 16 then some (.uuid (BitVec.ofNat 128 (unLE b.reverse))) else none
  | .ts, .i64 x => some (.ts x)
  | .tsNtz, .i64 x => some (.tsNtz x)
  | .tsNanos, .i64 x => some (.tsNanos x)
  | .tsNtzNanos, .i64 x => some (.tsNtzNanos x)
  | .time, .i64 x => some (.time x)
  | .dec4 _ s, .i32 x => some (.dec4 (UInt8.ofNat s) x)
  | .dec8 _ s, .i64 x => some (.dec8 (UInt8.ofNat s) x)
  | .dec16 _ s, .bytes b =>
    if b.length ≤ 16 then some (.dec16 (UInt8.ofNat s) (BitVec.ofNat 128 (be16ToNat b))) else none
  | _, _ => none

/-! ### hypotheses of the round-trip theorem -/

mutual
/-- the keys of every object are pairwise distinct -/
def distinctKeys : Value → Bool
  | .prim _ => true
  | .arr es => distinctKeysL es
  | .obj fs => distinctKeysF fs && decide ((keysOf fs).Nodup)
def distinctKeysL : List Value → Bool
  | [] => true
  | e :: es => distinctKeys e && distinctKeysL es
def distinctKeysF : List (Key × Value) → Bool
  | [] => true
  | (_, v) :: fs => distinctKeys v && distinctKeysF fs
end

mutual
/-- a shredding schema is well formed when the field names of every object group are distinct
    (they are the keys of a Go map / the children of one Parquet group) -/
def wfS : Schema → Bool
  | .untyped => true
  | .prim _ => true
  | .list e => wfS e
  | .obj fs => wfSFields fs && decide ((schemaNames fs).Nodup)
def wfSFields : List (Key × Schema) → Bool
  | [] => true
  | (_, s) :: fs => wfS s && wfSFields fs
end

/-- the fields of `fs` that the schema shreds, in schema order -/
def selected (fields : List (Key × Schema)) (fs : List (Key × Value)) : List (Key × Value) :=
  fields.filterMap fun f => (findField f.1 fs).map fun v => (f.1, v)

/-! ### which leaf column holds a value (used by the correspondence check only) -/

mutual
/-- leaf columns below one variant group, in schema order: `value`, then the typed_value leaves -/
def numLeaves : Schema → Nat
  | .untyped => 1
  | .prim _ => 2
  | .list e => 1 + numLeaves e
  | .obj fs => 1 + numLeavesFields fs
def numLeavesFields : List (Key × Schema) → Nat
  | [] => 0
  | (_, s) :: fs => numLeaves s + numLeavesFields fs
end

def addVec : List Nat → List Nat → List Nat
  | a :: as, b :: bs => (a + b) :: addVec as bs
  | _, _ => []

def b2n (b : Bool) : Nat := if b then 1 else 0

mutual
/-- number of non-null values each leaf column receives for one slot -/
def leafCounts : Schema → Slot → List Nat
  | s, .missing => List.replicate (numLeaves s) 0
  | .untyped, .mk v _ => [b2n v.isSome]
  | .prim _, .mk v t => [b2n v.isSome, match t with | .prim _ => 1 | _ => 0]
  | .list e, .mk v t =>
    b2n v.isSome :: (match t with
      | .list slots => leafCountsList e slots
      | _ => List.replicate (numLeaves e) 0)
  | .obj fs, .mk v t =>
    b2n v.isSome :: (match t with
      | .obj tfs => leafCountsFields fs tfs
      | _ => List.replicate (numLeavesFields fs) 0)
def leafCountsList : Schema → List Slot → List Nat
  | e, [] => List.replicate (numLeaves e) 0
  | e, s :: ss => addVec (leafCounts e s) (leafCountsList e ss)
def leafCountsFields : List (Key × Schema) → List (Key × Slot) → List Nat
  | (_, s) :: fs, (_, sl) :: sls => leafCounts s sl ++ leafCountsFields fs sls
  | (_, s) :: fs, [] => List.replicate (numLeaves s) 0 ++ leafCountsFields fs []
  | [], _ => []
end


/-! ### what each leaf column holds (used by the correspondence check only) -/

/-- a non-null leaf value: `value` columns hold the variant encoding of the (residual) value against
    the row dictionary, typed columns hold `toCol` -/
inductive LeafVal
  | enc (b : Bytes)
  | col (c : ColVal)

def appendVec : List (List LeafVal) → List (List LeafVal) → List (List LeafVal)
  | a :: as, b :: bs => (a ++ b) :: appendVec as bs
  | _, _ => []

/-- MIRROR variant_shredded_write.go:131-138 `writeValueFallback` -/
def valCell (d : Dict) : Option Value → List LeafVal
  | none => []
  | some v => [.enc (enc d v)]

mutual
/-- the non-null values one slot contributes to each leaf column, in schema order -/
def leafValues (d : Dict) : Schema → Slot → List (List LeafVal)
  | s, .missing => List.replicate (numLeaves s) []
  | .untyped, .mk v _ => [valCell d v]
  | .prim t, .mk v ty =>
    [valCell d v, match ty with
      | .prim p => (match toCol t p with
        | some c => [.col c]
        | none => [])
      | _ => []]
  | .list e, .mk v ty =>
    valCell d v :: (match ty with
      | .list slots => leafValuesList d e slots
      | _ => List.replicate (numLeaves e) [])
  | .obj fs, .mk v ty =>
    valCell d v :: (match ty with
      | .obj tfs => leafValuesFields d fs tfs
      | _ => List.replicate (numLeavesFields fs) [])
def leafValuesList (d : Dict) : Schema → List Slot → List (List LeafVal)
  | e, [] => List.replicate (numLeaves e) []
  | e, s :: ss => appendVec (leafValues d e s) (leafValuesList d e ss)
def leafValuesFields (d : Dict) : List (Key × Schema) → List (Key × Slot) → List (List LeafVal)
  | (_, s) :: fs, (_, sl) :: sls => leafValues d s sl ++ leafValuesFields d fs sls
  | (_, s) :: fs, [] => List.replicate (numLeaves s) [] ++ leafValuesFields d fs []
  | [], _ => []
end

end PqModel.Variant
