/-! # Source faults under the readers built on top of a file (C14)

Two places where the library decides "this input is finished" while a failing source is behind it.

* `mergedRowReader2.ReadRows` (merge.go:660-770) with `bufferedRowReader.read` (merge.go:1073-1101):
  the two-way merge refills the buffer of an input when it runs empty and drops the input when the
  refill answers io.EOF. MIRROR: `Buf.read`, `refill`, `loop2`, `M2.readRows` (the refill / error
  skeleton and the emission order; the run-detection gallop `emitRun` is replaced by the row-by-row
  loop it is an optimisation of — its output equivalence is C09's `M2` model — and the L2 tie
  compares every `ReadRows` call, so the replacement itself is tested). `seeded = true` is the code
  with the `err != io.EOF` test of the second input removed (seeded change C14-4a).
  SPEC: `Src` — a RowReader over a source that may fail: it delivers its rows in order and, once
  the fault is reached, answers an error (alone, or along with the last rows it could deliver).
* `bloom.CheckSplitBlock` (bloom/filter.go:73-79): one 32-byte `ReadAt` into a pooled block that is
  not cleared. MIRROR: `probe`; `clearEOF = true` is seeded change C14-4b.

Rows are integers (the sort key); the output carries the index of the input a row came from, so
that "nothing missing, nothing altered, order kept" is an equation per input (`proj`). -/
namespace PqModel.IoFault.Rd

inductive Res | nil | eof | err
  deriving DecidableEq, Repr

/-- SPEC: a `RowReader` over a source that may fail. `rows`: not yet delivered. `failIn = some k`:
the source fails once `k` more rows have been delivered (sticky: every later call answers the error
again). `eager`: io.EOF comes along with the last rows instead of on the next call. `errWithRows`:
the error comes along with the last rows that could be delivered. -/
structure Src where
  rows : List Int
  failIn : Option Nat
  eager : Bool
  errWithRows : Bool
  deriving DecidableEq, Repr

def Src.avail (s : Src) : Nat :=
  match s.failIn with
  | none => s.rows.length
  | some k => min k s.rows.length

def Src.after (s : Src) (n : Nat) : Src :=
  { s with rows := s.rows.drop n, failIn := s.failIn.map (· - n) }

/-- the result that goes with `n` rows, `s'` being the source afterwards -/
def Src.res (s s' : Src) (n : Nat) : Res :=
  if s'.failIn = some 0 then (if n = 0 ∨ s.errWithRows = true then .err else .nil)
  else if s'.rows = [] then (if n = 0 ∨ s.eager = true then .eof else .nil)
  else .nil

/-- SPEC: one `ReadRows(buf)` with `len(buf) = cap` -/
def Src.read (s : Src) (cap : Nat) : (List Int × Res) × Src :=
  ((s.rows.take (min cap s.avail), s.res (s.after (min cap s.avail)) (min cap s.avail)),
    s.after (min cap s.avail))

/-- the fault lies before the end of the rows: the source cannot deliver everything -/
def Src.Bites (s : Src) : Prop := ∃ k, s.failIn = some k ∧ k < s.rows.length

/-- MIRROR `bufferedRowReader` (merge.go:1035-1041): `win` = `buf[off:end]`, `size` = `len(buf)`
(0 = nil). -/
structure Buf where
  src : Src
  win : List Int
  size : Nat
  full : Bool
  deriving DecidableEq, Repr

/-- `len(r.buf)` after the allocation / growth at the head of `read` (merge.go:1074-1083) -/
def Buf.nextSize (b : Buf) : Nat :=
  if b.size = 0 then 24
  else if b.full = true ∧ b.win = [] ∧ b.size < 192 then min (2 * b.size) 192 else b.size

/-- the tail of `read` (merge.go:1088-1100) once the source has answered `r` -/
def Buf.readWith (b : Buf) (size : Nat) (r : (List Int × Res) × Src) : Res × Buf :=
  if r.1.1 = [] then
    (if r.1.2 = .nil then .err else r.1.2, { b with src := r.2, size := size })
  else
    (.nil, { src := r.2, win := b.win ++ r.1.1, size := size,
             full := decide (b.win.length + r.1.1.length = size) })

/-- MIRROR `bufferedRowReader.read` (merge.go:1073-1101), called on an empty window only (both call
sites test `empty()`, and an exhausted window has `off = end = 0`). A source that answers
`(0, nil)` a hundred times is `io.ErrNoProgress` (the scripted source does not change when it
delivers nothing). -/
def Buf.read (b : Buf) : Res × Buf :=
  b.readWith b.nextSize (b.src.read (b.nextSize - b.win.length))

/-- MIRROR of the refill at the head of `ReadRows` (merge.go:671-689): `none` = `return 0, err`.
`dropAny` = the `err != io.EOF` test is missing (every error of the refill is the end of the input). -/
def refill (dropAny : Bool) (present : Bool) (b : Buf) : Option (Bool × Buf) :=
  if present = true ∧ b.win = [] then
    match b.read with
    | (.nil, b') => some (true, b')
    | (.eof, b') => some (false, b')
    | (.err, b') => if dropAny then some (false, b') else none
  else some (present, b)

/-- MIRROR of the comparison loop (merge.go:712-767) without the gallop: `fuel` = `len(rows) - n`.
Ties emit the row of input 0, then — if there is room — the row of input 1. -/
def loop2 : Nat → List Int → List Int → List (Bool × Int) × List Int × List Int
  | fuel + 1, x :: w0, y :: w1 =>
    if x < y then
      if w0 = [] then ([(false, x)], [], y :: w1)
      else let r := loop2 fuel w0 (y :: w1); ((false, x) :: r.1, r.2)
    else if y < x then
      if w1 = [] then ([(true, y)], x :: w0, [])
      else let r := loop2 fuel (x :: w0) w1; ((true, y) :: r.1, r.2)
    else
      match fuel with
      | 0 => ([(false, x)], w0, y :: w1)
      | f + 1 =>
        if w0 = [] ∨ w1 = [] then ([(false, x), (true, y)], w0, w1)
        else let r := loop2 f w0 w1; ((false, x) :: (true, y) :: r.1, r.2)
  | _, w0, w1 => ([], w0, w1)

structure M2 where
  b0 : Buf
  b1 : Buf
  r0 : Bool
  r1 : Bool
  initialized : Bool
  deriving DecidableEq, Repr

def Buf.fresh (s : Src) : Buf := ⟨s, [], 0, false⟩
def M2.new (s0 s1 : Src) : M2 := ⟨Buf.fresh s0, Buf.fresh s1, false, false, false⟩

/-- MIRROR `mergedRowReader2.initialize` (merge.go:645-658) -/
def M2.init (m : M2) : Res × M2 :=
  let x0 := m.b0.read
  if x0.1 = .err then (.err, { m with b0 := x0.2, initialized := true })
  else
    let x1 := m.b1.read
    if x1.1 = .err then (.err, { m with b0 := x0.2, b1 := x1.2, r0 := decide (x0.1 = .nil), initialized := true })
    else (.nil, { b0 := x0.2, b1 := x1.2, r0 := decide (x0.1 = .nil), r1 := decide (x1.1 = .nil), initialized := true })

def tag (t : Bool) (l : List Int) : List (Bool × Int) := l.map (fun x => (t, x))

/-- `ReadRows` after the `initialized` block (merge.go:668-770) -/
def M2.body (seeded : Bool) (m : M2) (cap : Nat) : (List (Bool × Int) × Res) × M2 :=
  match refill false m.r0 m.b0 with
  | none => (([], .err), m)
  | some (r0, b0) =>
    match refill seeded m.r1 m.b1 with
    | none => (([], .err), { m with r0 := r0, b0 := b0 })
    | some (r1, b1) =>
      match r0, r1 with
      | false, false => (([], .eof), { m with r0 := false, b0 := b0, r1 := false, b1 := b1 })
      | false, true =>
        ((tag true (b1.win.take cap), .nil),
          { m with r0 := false, b0 := b0, r1 := true, b1 := { b1 with win := b1.win.drop cap } })
      | true, false =>
        ((tag false (b0.win.take cap), .nil),
          { m with r0 := true, b0 := { b0 with win := b0.win.drop cap }, r1 := false, b1 := b1 })
      | true, true =>
        (((loop2 cap b0.win b1.win).1, .nil),
          { m with r0 := true, b0 := { b0 with win := (loop2 cap b0.win b1.win).2.1 }, r1 := true,
                   b1 := { b1 with win := (loop2 cap b0.win b1.win).2.2 } })

/-- MIRROR `mergedRowReader2.ReadRows` (merge.go:660-770), `cap = len(rows)`. -/
def M2.readRows (seeded : Bool) (m : M2) (cap : Nat) : (List (Bool × Int) × Res) × M2 :=
  if m.initialized = true then m.body seeded cap
  else if m.init.1 ≠ .nil then (([], m.init.1), m.init.2)
  else m.init.2.body seeded cap

/-- a consumer: `ReadRows` with the given buffer lengths until a call answers io.EOF or an error -/
def session (seeded : Bool) : List Nat → M2 → List (List (Bool × Int)) × Res × M2
  | [], m => ([], .nil, m)
  | c :: cs, m =>
    let x := m.readRows seeded c
    if x.1.2 ≠ .nil then ([x.1.1], x.1.2, x.2)
    else let r := session seeded cs x.2; (x.1.1 :: r.1, r.2)

/-- the rows of input `t` in the output, in output order -/
def proj (t : Bool) (out : List (Bool × Int)) : List Int := (out.filter (fun p => p.1 == t)).map (·.2)

/-! ## lemmas -/

theorem proj_append (t : Bool) (a b : List (Bool × Int)) : proj t (a ++ b) = proj t a ++ proj t b := by
  simp [proj]

@[simp] theorem proj_nil (t : Bool) : proj t [] = [] := rfl

theorem proj_cons (t u : Bool) (x : Int) (out : List (Bool × Int)) :
    proj t ((u, x) :: out) = if u = t then x :: proj t out else proj t out := by
  by_cases h : u = t <;> simp [proj, h]

theorem proj_tag_same (t : Bool) (l : List Int) : proj t (tag t l) = l := by
  induction l with
  | nil => rfl
  | cons x xs ih => simp_all [proj, tag]

theorem proj_tag_other (t u : Bool) (h : u ≠ t) (l : List Int) : proj t (tag u l) = [] := by
  induction l with
  | nil => rfl
  | cons x xs ih => simp_all [proj, tag]

theorem Src.read_rows (s : Src) (cap : Nat) : (s.read cap).1.1 ++ (s.read cap).2.rows = s.rows := by
  simp [Src.read, Src.after]

theorem Src.read_eof (s : Src) (cap : Nat) (h : (s.read cap).1.2 = .eof) : (s.read cap).2.rows = [] := by
  simp only [Src.read, Src.res] at h ⊢
  by_cases h1 : (s.after (min cap s.avail)).failIn = some 0
  · rw [if_pos h1] at h
    by_cases h2 : min cap s.avail = 0 ∨ s.errWithRows = true
    · rw [if_pos h2] at h; cases h
    · rw [if_neg h2] at h; cases h
  · rw [if_neg h1] at h
    by_cases h3 : (s.after (min cap s.avail)).rows = []
    · exact h3
    · rw [if_neg h3] at h; cases h

theorem Src.read_bites (s : Src) (cap : Nat) (h : s.Bites) : (s.read cap).2.Bites := by
  obtain ⟨k, hk, hlt⟩ := h
  refine ⟨k - min cap (min k s.rows.length), ?_, ?_⟩
  · simp [Src.read, Src.after, Src.avail, hk]
  · simp only [Src.read, Src.after, Src.avail, hk, List.length_drop]; omega

theorem Src.Bites.rows_ne {s : Src} (h : s.Bites) : s.rows ≠ [] := by
  obtain ⟨k, _, hlt⟩ := h
  intro e; rw [e] at hlt; simp at hlt

/-- what `Buf.read` does to the rows: nothing is lost between the window and the source -/
theorem Buf.read_rows (b : Buf) : b.read.2.win ++ b.read.2.src.rows = b.win ++ b.src.rows := by
  have := Src.read_rows b.src (b.nextSize - b.win.length)
  unfold Buf.read Buf.readWith
  generalize b.src.read (b.nextSize - b.win.length) = r at this ⊢
  by_cases he : r.1.1 = []
  · rw [if_pos he]; rw [he] at this; simp only [List.nil_append] at this; simp [this]
  · rw [if_neg he]; simp only [List.append_assoc]; rw [this]

theorem Buf.read_eof (b : Buf) (h : b.read.1 = .eof) : b.read.2.win = b.win ∧ b.read.2.src.rows = [] := by
  have := Src.read_eof b.src (b.nextSize - b.win.length)
  unfold Buf.read Buf.readWith at h ⊢
  generalize b.src.read (b.nextSize - b.win.length) = r at this h ⊢
  by_cases he : r.1.1 = []
  · rw [if_pos he] at h ⊢
    by_cases hn : r.1.2 = .nil
    · simp only [hn, if_true] at h; cases h
    · simp only [hn, if_false] at h; exact ⟨rfl, this h⟩
  · rw [if_neg he] at h; cases h

theorem Buf.read_src (b : Buf) : ∃ c, b.read.2.src = (b.src.read c).2 := by
  refine ⟨b.nextSize - b.win.length, ?_⟩
  unfold Buf.read Buf.readWith
  split <;> rfl

theorem loop2_proj : ∀ (fuel : Nat) (w0 w1 : List Int),
    proj false (loop2 fuel w0 w1).1 ++ (loop2 fuel w0 w1).2.1 = w0 ∧
    proj true (loop2 fuel w0 w1).1 ++ (loop2 fuel w0 w1).2.2 = w1 := by
  intro fuel
  induction fuel using Nat.strongRecOn with
  | _ fuel ih =>
    intro w0 w1
    match fuel, w0, w1 with
    | 0, w0, w1 => simp [loop2]
    | f + 1, [], w1 => simp [loop2]
    | f + 1, x :: w0, [] => simp [loop2]
    | f + 1, x :: w0, y :: w1 =>
      unfold loop2
      split
      · split
        · rename_i h; simp [proj_cons, h]
        · have := ih f (by omega) w0 (y :: w1)
          simp [proj_cons, this.1, this.2]
      · split
        · split
          · rename_i h; simp [proj_cons, h]
          · have := ih f (by omega) (x :: w0) w1
            simp [proj_cons, this.1, this.2]
        · match f with
          | 0 => simp [proj_cons]
          | g + 1 =>
            simp only
            split
            · simp [proj_cons]
            · have := ih g (by omega) w0 w1
              simp [proj_cons, this.1, this.2]

/-- The invariant of a merge over the sources `s0`, `s1` after the output `out`: per input, the rows
already emitted, the buffered ones and the ones still in the source are the rows of the input; an
input that was dropped has nothing buffered and nothing left; a fault that bites still bites. -/
structure Inv (m : M2) (s0 s1 : Src) (out : List (Bool × Int)) : Prop where
  h0 : proj false out ++ (m.b0.win ++ m.b0.src.rows) = s0.rows
  h1 : proj true out ++ (m.b1.win ++ m.b1.src.rows) = s1.rows
  d0 : m.initialized = true → m.r0 = false → m.b0.win = [] ∧ m.b0.src.rows = []
  d1 : m.initialized = true → m.r1 = false → m.b1.win = [] ∧ m.b1.src.rows = []
  f0 : s0.Bites → m.b0.src.Bites
  f1 : s1.Bites → m.b1.src.Bites
  w : m.initialized = false → m.b0.win = [] ∧ m.b1.win = []

theorem Inv.new (s0 s1 : Src) : Inv (M2.new s0 s1) s0 s1 [] :=
  ⟨by simp [M2.new, Buf.fresh], by simp [M2.new, Buf.fresh],
   by simp [M2.new], by simp [M2.new], id, id, by simp [M2.new, Buf.fresh]⟩

theorem Buf.read_bites (b : Buf) (h : b.src.Bites) : b.read.2.src.Bites := by
  obtain ⟨c, hc⟩ := Buf.read_src b
  rw [hc]; exact Src.read_bites _ _ h

/-- what one refill (of the code as it is: `dropAny = false`) preserves -/
theorem refill_ok (present : Bool) (b : Buf) (p : Bool) (b' : Buf) (h : refill false present b = some (p, b')) :
    b'.win ++ b'.src.rows = b.win ++ b.src.rows ∧
    (p = false → present = true → b'.win = [] ∧ b'.src.rows = []) ∧
    (p = false → present = false → b' = b) ∧
    (b.src.Bites → b'.src.Bites) := by
  unfold refill at h
  split at h
  · rename_i hc
    split at h
    · rename_i b2 hr
      cases h
      have e : b.read.2 = b' := by rw [hr]
      refine ⟨by rw [← e]; exact Buf.read_rows b, by simp, by simp, fun hb => by rw [← e]; exact Buf.read_bites b hb⟩
    · rename_i b2 hr
      cases h
      have e : b.read.2 = b' := by rw [hr]
      have e1 : b.read.1 = .eof := by rw [hr]
      have := Buf.read_eof b e1
      refine ⟨by rw [← e]; exact Buf.read_rows b, fun _ _ => ?_, fun _ hp => by simp [hp] at hc,
        fun hb => by rw [← e]; exact Buf.read_bites b hb⟩
      rw [← e]; exact ⟨by rw [this.1]; exact hc.2, this.2⟩
    · simp at h
  · rename_i hc
    cases h
    exact ⟨rfl, fun hp hq => by simp [hp] at hq, fun _ _ => rfl, id⟩

theorem refill_dropped {present : Bool} {b : Buf} {p : Bool} {b' : Buf}
    (h : refill false present b = some (p, b'))
    (hd : present = false → b.win = [] ∧ b.src.rows = []) (hp : p = false) :
    b'.win = [] ∧ b'.src.rows = [] := by
  obtain ⟨_, h2, h3, _⟩ := refill_ok present b p b' h
  cases present with
  | true => exact h2 hp rfl
  | false => rw [h3 hp rfl]; exact hd rfl

theorem M2.init_ok (m : M2) (s0 s1 : Src) (out : List (Bool × Int)) (hinv : Inv m s0 s1 out)
    (hni : m.initialized = false) (h : m.init.1 = .nil) :
    Inv m.init.2 s0 s1 out ∧ m.init.2.initialized = true := by
  obtain ⟨hw0, hw1⟩ := hinv.w hni
  unfold M2.init at h ⊢
  by_cases e0 : m.b0.read.1 = .err
  · simp [e0] at h
  · by_cases e1 : m.b1.read.1 = .err
    · simp [e0, e1] at h
    · simp only [e0, e1, if_false]
      refine ⟨⟨?_, ?_, ?_, ?_, ?_, ?_, by simp⟩, trivial⟩
      · simp only; rw [Buf.read_rows]; exact hinv.h0
      · simp only; rw [Buf.read_rows]; exact hinv.h1
      · intro _ hr
        have : m.b0.read.1 = .eof := by
          simp only [decide_eq_false_iff_not] at hr
          cases hx : m.b0.read.1 <;> simp_all
        have := Buf.read_eof m.b0 this
        exact ⟨by rw [this.1]; exact hw0, this.2⟩
      · intro _ hr
        have : m.b1.read.1 = .eof := by
          simp only [decide_eq_false_iff_not] at hr
          cases hx : m.b1.read.1 <;> simp_all
        have := Buf.read_eof m.b1 this
        exact ⟨by rw [this.1]; exact hw1, this.2⟩
      · exact fun hb => Buf.read_bites _ (hinv.f0 hb)
      · exact fun hb => Buf.read_bites _ (hinv.f1 hb)

theorem M2.body_ok (m : M2) (s0 s1 : Src) (out : List (Bool × Int)) (cap : Nat)
    (hinv : Inv m s0 s1 out) (hi : m.initialized = true) (hne : (m.body false cap).1.2 ≠ .err) :
    Inv (m.body false cap).2 s0 s1 (out ++ (m.body false cap).1.1) ∧
    ((m.body false cap).1.2 = .eof → (m.body false cap).2.r0 = false ∧ (m.body false cap).2.r1 = false) ∧
    (m.body false cap).2.initialized = true := by
  unfold M2.body at hne ⊢
  cases hr0 : refill false m.r0 m.b0 with
  | none => simp [hr0] at hne
  | some p0 =>
    obtain ⟨r0, b0⟩ := p0
    cases hr1 : refill false m.r1 m.b1 with
    | none => simp [hr0, hr1] at hne
    | some p1 =>
      obtain ⟨r1, b1⟩ := p1
      obtain ⟨k0, _, _, g0⟩ := refill_ok _ _ _ _ hr0
      obtain ⟨k1, _, _, g1⟩ := refill_ok _ _ _ _ hr1
      have dd0 := refill_dropped hr0 (hinv.d0 hi)
      have dd1 := refill_dropped hr1 (hinv.d1 hi)
      have H0 : proj false out ++ (b0.win ++ b0.src.rows) = s0.rows := by rw [k0]; exact hinv.h0
      have H1 : proj true out ++ (b1.win ++ b1.src.rows) = s1.rows := by rw [k1]; exact hinv.h1
      cases r0 <;> cases r1 <;> simp only []
      · refine ⟨⟨by simpa using H0, by simpa using H1, fun _ _ => dd0 rfl, fun _ _ => dd1 rfl,
          fun hb => g0 (hinv.f0 hb), fun hb => g1 (hinv.f1 hb), by simp [hi]⟩, fun _ => by simp, hi⟩
      · refine ⟨⟨?_, ?_, fun _ _ => dd0 rfl, by simp, fun hb => g0 (hinv.f0 hb), fun hb => g1 (hinv.f1 hb), by simp [hi]⟩,
          by simp, hi⟩
        · simp only [proj_append, proj_tag_other false true (by decide), List.append_nil]; exact H0
        · simp only [proj_append, proj_tag_same, List.append_assoc]
          rw [← List.append_assoc (List.take cap b1.win), List.take_append_drop]; exact H1
      · refine ⟨⟨?_, ?_, by simp, fun _ _ => dd1 rfl, fun hb => g0 (hinv.f0 hb), fun hb => g1 (hinv.f1 hb), by simp [hi]⟩,
          by simp, hi⟩
        · simp only [proj_append, proj_tag_same, List.append_assoc]
          rw [← List.append_assoc (List.take cap b0.win), List.take_append_drop]; exact H0
        · simp only [proj_append, proj_tag_other true false (by decide), List.append_nil]; exact H1
      · have hl := loop2_proj cap b0.win b1.win
        refine ⟨⟨?_, ?_, by simp, by simp, fun hb => g0 (hinv.f0 hb), fun hb => g1 (hinv.f1 hb), by simp [hi]⟩,
          by simp, hi⟩
        · have e : proj false (loop2 cap b0.win b1.win).1 ++ ((loop2 cap b0.win b1.win).2.1 ++ b0.src.rows)
              = b0.win ++ b0.src.rows := by rw [← List.append_assoc, hl.1]
          simp only [proj_append, List.append_assoc]
          rw [e]; exact H0
        · have e : proj true (loop2 cap b0.win b1.win).1 ++ ((loop2 cap b0.win b1.win).2.2 ++ b1.src.rows)
              = b1.win ++ b1.src.rows := by rw [← List.append_assoc, hl.2]
          simp only [proj_append, List.append_assoc]
          rw [e]; exact H1

/-- one `ReadRows` call of the code as it is keeps the invariant unless it reports an error, and
answers io.EOF only when both inputs have been dropped -/
theorem M2.readRows_ok (m : M2) (s0 s1 : Src) (out : List (Bool × Int)) (cap : Nat)
    (hinv : Inv m s0 s1 out) (hne : (m.readRows false cap).1.2 ≠ .err) :
    Inv (m.readRows false cap).2 s0 s1 (out ++ (m.readRows false cap).1.1) ∧
    ((m.readRows false cap).1.2 = .eof →
      (m.readRows false cap).2.r0 = false ∧ (m.readRows false cap).2.r1 = false) ∧
    (m.readRows false cap).2.initialized = true := by
  unfold M2.readRows at hne ⊢
  by_cases hi : m.initialized = true
  · simp only [hi, if_true] at hne ⊢
    exact M2.body_ok m s0 s1 out cap hinv hi hne
  · have hni : m.initialized = false := by simpa using hi
    simp only [hi] at hne ⊢
    by_cases h1 : m.init.1 = .nil
    · simp only [h1, ne_eq, not_true_eq_false, if_false] at hne ⊢
      obtain ⟨hinv', hi'⟩ := M2.init_ok m s0 s1 out hinv hni h1
      exact M2.body_ok m.init.2 s0 s1 out cap hinv' hi' hne
    · exfalso
      simp only [ne_eq, h1, not_false_eq_true, if_true] at hne
      -- `init` answers nil or err
      unfold M2.init at h1 hne
      by_cases e0 : m.b0.read.1 = .err
      · simp [e0] at hne
      · by_cases e1 : m.b1.read.1 = .err
        · simp [e0, e1] at hne
        · simp [e0, e1] at h1

/-- a session of the code as it is that ends with io.EOF has handed out every row of both inputs,
and no fault that bites was in the way -/
theorem session_eof (caps : List Nat) : ∀ (m : M2) (s0 s1 : Src) (out : List (Bool × Int)),
    Inv m s0 s1 out → (session false caps m).2.1 = .eof →
    proj false (out ++ (session false caps m).1.flatten) = s0.rows ∧
    proj true (out ++ (session false caps m).1.flatten) = s1.rows ∧ ¬ s0.Bites ∧ ¬ s1.Bites := by
  induction caps with
  | nil => intro m s0 s1 out _ h; simp [session] at h
  | cons c cs ih =>
    intro m s0 s1 out hinv h
    simp only [session] at h ⊢
    by_cases hn : (m.readRows false c).1.2 = .nil
    · simp only [hn, ne_eq, not_true_eq_false, if_false] at h ⊢
      obtain ⟨hinv', _, _⟩ := M2.readRows_ok m s0 s1 out c hinv (by rw [hn]; decide)
      have := ih _ s0 s1 _ hinv' h
      simpa [List.flatten_cons, List.append_assoc] using this
    · simp only [ne_eq, hn, not_false_eq_true, if_true] at h ⊢
      obtain ⟨hinv', he, hi'⟩ := M2.readRows_ok m s0 s1 out c hinv (by rw [h]; decide)
      obtain ⟨hr0, hr1⟩ := he h
      obtain ⟨hw0, hs0⟩ := hinv'.d0 hi' hr0
      obtain ⟨hw1, hs1⟩ := hinv'.d1 hi' hr1
      have a0 := hinv'.h0
      have a1 := hinv'.h1
      rw [hw0, hs0] at a0
      rw [hw1, hs1] at a1
      simp only [List.flatten_cons, List.flatten_nil, List.append_nil] at a0 a1 ⊢
      exact ⟨a0, a1, fun hb => (hinv'.f0 hb).rows_ne hs0, fun hb => (hinv'.f1 hb).rows_ne hs1⟩

/-! ## the lazy bloom filter probe -/

/-- MIRROR `bloom.CheckSplitBlock` (bloom/filter.go:73-79): the block comes from a pool and still
holds `stale`; `ReadAt` stores the first `n` bytes of the block `blk` of the filter over it and
answers `r`; the probe is evaluated on whatever the buffer holds and handed out together with `r`.
`clearEOF = true`: io.EOF of the `ReadAt` is cleared without looking at `n` (seeded change C14-4b). -/
def probe (clearEOF : Bool) (chk : List UInt8 → Bool) (stale blk : List UInt8) (n : Nat) (r : Res) :
    Bool × Res :=
  (chk (blk.take n ++ stale.drop n), if clearEOF = true ∧ r = .eof then .nil else r)

theorem probe_nil (chk : List UInt8 → Bool) (stale blk : List UInt8) (n : Nat) (r : Res)
    (hs : stale.length = blk.length) (hconf : n < blk.length → r ≠ .nil)
    (h : (probe false chk stale blk n r).2 = .nil) : (probe false chk stale blk n r).1 = chk blk := by
  simp only [probe, Bool.false_eq_true, false_and, if_false] at h ⊢
  have hn : blk.length ≤ n := Nat.le_of_not_lt fun hlt => hconf hlt h
  rw [List.take_of_length_le hn, List.drop_of_length_le (by omega), List.append_nil]

end PqModel.IoFault.Rd
