import PqModel.PoolMixed
/-! # The observable trace of the per-chunk `detach` flag

What a spy on the real `columnChunkValueReader` can see of `PoolMixed.chunkProgs` (hook
`VerifSpyRowGroupRows`, sub-check `chunkflag`): the flag as it stands after the fetch of every page
(`flagTrace`), and per page the decision `clear()` takes with it (column_chunk.go:91-101:
`releaseAndDetachValues` when the flag is set, `Release` otherwise). `pageObs` reads the decision
off the program `chunkProgs` gives for the page, so the driver op answers from the mirror itself. -/
namespace PqModel.PoolMixed
open PqModel.PoolProto

/-- MIRROR (derived): `r.detach` after the fetch of each page, in page order
    (column_chunk.go:128-136 threaded through the chunk). -/
def flagTrace (slip fixedLen : Bool) : Bool → List PageD → List Bool
  | _, [] => []
  | detach, p :: ps =>
    flagAfterFetch slip fixedLen detach p :: flagTrace slip fixedLen (flagAfterFetch slip fixedLen detach p) ps

/-- the values buffer goes back to the pool by the reader's own release (`Release`, not
    `releaseAndDetachValues`) -/
def hasPut (prog : List Op) : Bool := prog.any fun o => o matches .put

def countUse (prog : List Op) : Nat := prog.countP fun o => o matches .use

theorem chunkProgs_length (slip fixedLen detach : Bool) (ps : List PageD) :
    (chunkProgs slip fixedLen detach ps).length = ps.length := by
  induction ps generalizing detach with
  | nil => rfl
  | cons p ps ih => simp [chunkProgs, ih]

theorem flagTrace_length (slip fixedLen detach : Bool) (ps : List PageD) :
    (flagTrace slip fixedLen detach ps).length = ps.length := by
  induction ps generalizing detach with
  | nil => rfl
  | cons p ps ih => simp [flagTrace, ih]

/-- the programs are the per-page programs under the traced flag -/
theorem chunkProgs_eq_zip (slip fixedLen detach : Bool) (ps : List PageD) :
    chunkProgs slip fixedLen detach ps =
      (ps.zip (flagTrace slip fixedLen detach ps)).map fun x =>
        rowReaderProg true x.2 x.1.nRead x.1.keptTouches := by
  induction ps generalizing detach with
  | nil => rfl
  | cons p ps ih => simp [chunkProgs, flagTrace, ih]

theorem hasPut_replicate_use (n : Nat) : hasPut (List.replicate n .use) = false := by
  induction n with
  | zero => rfl
  | succ n ih => simp [List.replicate_succ, hasPut] at ih ⊢

/-- a byte-array page's buffer is put by the reader exactly when the flag is down -/
theorem hasPut_rowReaderProg (flag : Bool) (nRead nKept : Nat) :
    hasPut (rowReaderProg true flag nRead nKept) = !flag := by
  have h := hasPut_replicate_use
  cases flag <;> simp_all [rowReaderProg, hasPut, List.any_append, List.any_replicate]

/-- the code as it is: the flag never moves -/
theorem flagTrace_mirror (fixedLen detach : Bool) (ps : List PageD) :
    flagTrace false fixedLen detach ps = List.replicate ps.length detach := by
  induction ps generalizing detach with
  | nil => rfl
  | cons p ps ih => simp [flagTrace, flagAfterFetch, ih, List.replicate_succ]

end PqModel.PoolMixed
