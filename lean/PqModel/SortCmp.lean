import PqModel.SortBuf

/-! # C10 model, part 2 — `Buffer` (columns swapped in lock-step), the column-wise `Less` chain and
    the row comparator of `compare.go`.

MIRROR: `nullsGoFirst/Last` (+ the descending variants of the F13 repair), `Col.less`, `lessChain`,
`Buffer.swap`, `cmpDesc`, `cmpNullsFirst/Last`, `cmpRows`. The as-found descending wrapper
(`reversedColumnBuffer` around a nullable column) is kept as `Col.lessF13`. -/
namespace PqModel.SortBuf

/-- the value order of the column type: `lt` is the base column buffer's `Less` on values,
    `cmp` is `Type.Compare`; they are assumed consistent and `cmp` antisymmetric (trusted base). -/
structure VOrd (V : Type) where
  lt : V → V → Bool
  cmp : V → V → Int
  lt_iff : ∀ a b, lt a b = true ↔ cmp a b < 0
  anti : ∀ a b, cmp b a = - cmp a b

/-- transitivity of the value order (needed only to pass from adjacent to pairwise order) -/
def VOrd.Trans {V : Type} (o : VOrd V) : Prop := ∀ a b c, o.cmp a b ≤ 0 → o.cmp b c ≤ 0 → o.cmp a c ≤ 0

/-! ## columns and the buffer -/

inductive Col (V : Type) where
  | req (vals : List V)            -- required leaf: a plain typed column buffer
  | opt (m : Nat) (c : OptCol V)   -- optional leaf (max definition level `m`)

/-- `ColumnBuffer.Swap` -/
def Col.swap {V : Type} : Col V → Nat → Nat → Col V
  | .req vals, i, j => .req (swapL vals i j)
  | .opt m c, i, j => .opt m (c.swap i j)

def Col.view {V : Type} : Col V → List (Cell V)
  | .req vals => vals.map (fun v => (0, some v))
  | .opt _ c => c.view

def Col.CInv {V : Type} : Col V → Prop
  | .req _ => True
  | .opt m c => c.Inv m

/-- the value of row `k` (`none` = null) -/
def Col.val {V : Type} (c : Col V) (k : Nat) : Option V := (c.view[k]?).bind (·.2)

theorem Col.view_swap {V : Type} {c : Col V} (h : c.CInv) (i j : Nat) : (c.swap i j).view = swapL c.view i j := by
  cases c with
  | req vals => simp only [Col.swap, Col.view]; rw [map_swapL]
  | opt m c => exact OptCol.view_swap h i j

theorem Col.CInv.swap {V : Type} {c : Col V} (h : c.CInv) (i j : Nat) : (c.swap i j).CInv := by
  cases c with
  | req vals => trivial
  | opt m c => exact OptCol.Inv.swap h i j

/-- MIRROR `column_buffer.go:115-121` `nullsGoFirst` (`less i j` = `column.Less(i, j)`) -/
def nullsGoFirst (less : Int → Int → Bool) (m d1 d2 : Nat) (i j : Int) : Bool :=
  if d1 ≠ m then d2 == m else (d2 == m && less i j)

/-- MIRROR `column_buffer.go:123-125` `nullsGoLast` -/
def nullsGoLast (less : Int → Int → Bool) (m d1 d2 : Nat) (i j : Int) : Bool :=
  d1 == m && (d2 != m || less i j)

/-- `column.Less(i, j)` of the base column on two base indexes (Go panics out of range) -/
def baseLess {V : Type} (lt : V → V → Bool) (base : List V) (i j : Int) : Bool :=
  match base[i.toNat]?, base[j.toNat]? with
  | some a, some b => lt a b
  | _, _ => false

/-- MIRROR of `optionalColumnBuffer.Less` (`column_buffer_optional.go:134-145`) with the null
    ordering chosen by `Buffer.configure` (`buffer.go:243-280`, repaired): nulls first/last as the
    sorting column declares; for a descending column the *values* are compared the other way round
    (`nullsGoFirstDescending/nullsGoLastDescending` call `column.Less(j, i)`); a required column is
    wrapped in `reversedColumnBuffer` (`column_buffer.go:132-134`). -/
def Col.less {V : Type} (lt : V → V → Bool) (desc nullsFirst : Bool) : Col V → Nat → Nat → Bool
  | .req vals, i, j =>
    match vals[i]?, vals[j]? with
    | some a, some b => if desc then lt b a else lt a b
    | _, _ => false
  | .opt m c, i, j =>
    match c.rows[i]?, c.rows[j]?, c.defs[i]?, c.defs[j]? with
    | some ri, some rj, some di, some dj =>
      let less := fun x y => if desc then baseLess lt c.base y x else baseLess lt c.base x y
      if nullsFirst then nullsGoFirst less m di dj ri rj else nullsGoLast less m di dj ri rj
    | _, _, _, _ => false

/-- MIRROR as found (F13): `reversedColumnBuffer{column}.Less(i, j) = column.Less(j, i)` around the
    whole optional column, null ordering included. -/
def Col.lessF13 {V : Type} (lt : V → V → Bool) (desc nullsFirst : Bool) (c : Col V) (i j : Nat) : Bool :=
  if desc then Col.less lt false nullsFirst c j i else Col.less lt false nullsFirst c i j

structure SortCol where
  col : Nat
  desc : Bool
  nullsFirst : Bool
deriving DecidableEq, Repr

/-- `Buffer`: the leaf columns and the sorting columns (resolved to column indexes) -/
structure Buffer (V : Type) where
  cols : List (Col V)
  sorting : List SortCol

/-- MIRROR `buffer.go:352-363` `Buffer.Less`: the first sorting column that orders the two rows decides -/
def lessChain {V : Type} (cl : SortCol → Col V → Nat → Nat → Bool) (cols : List (Col V)) : List SortCol → Nat → Nat → Bool
  | [], _, _ => false
  | sc :: rest, i, j =>
    match cols[sc.col]? with
    | none => lessChain cl cols rest i j
    | some c => if cl sc c i j then true else if cl sc c j i then false else lessChain cl cols rest i j

def Buffer.less {V : Type} (lt : V → V → Bool) (b : Buffer V) (i j : Nat) : Bool :=
  lessChain (fun sc c => Col.less lt sc.desc sc.nullsFirst c) b.cols b.sorting i j

def Buffer.lessF13 {V : Type} (lt : V → V → Bool) (b : Buffer V) (i j : Nat) : Bool :=
  lessChain (fun sc c => Col.lessF13 lt sc.desc sc.nullsFirst c) b.cols b.sorting i j

/-- MIRROR `buffer.go:366-370` `Buffer.Swap`: every column swaps rows i and j -/
def Buffer.swap {V : Type} (b : Buffer V) (i j : Nat) : Buffer V :=
  { b with cols := b.cols.map (fun c => c.swap i j) }

/-- the value of row `k` in column `col` -/
def Buffer.row {V : Type} (b : Buffer V) (k : Nat) : Nat → Option V :=
  fun col => (b.cols[col]?).bind (fun c => c.val k)

/-- row `k` across all columns, with definition levels (`none` beyond the end) -/
def Buffer.fullRow {V : Type} (b : Buffer V) (k : Nat) : List (Option (Cell V)) :=
  b.cols.map (fun c => c.view[k]?)

/-- the first `n` rows -/
def Buffer.rows {V : Type} (b : Buffer V) (n : Nat) : List (List (Option (Cell V))) :=
  (List.range n).map b.fullRow

/-- all columns satisfy their invariant and hold `n` rows -/
def Buffer.BInv {V : Type} (b : Buffer V) (n : Nat) : Prop :=
  ∀ c ∈ b.cols, c.CInv ∧ c.view.length = n

/-- a history of `Swap` calls (the `Less` calls of `sort.Sort` do not change the state) -/
def Buffer.run {V : Type} (b : Buffer V) (ops : List (Nat × Nat)) : Buffer V :=
  ops.foldl (fun b p => b.swap p.1 p.2) b

/-! ## the row comparator (`compare.go`) -/

/-- MIRROR `compare.go:15-17` `CompareDescending` -/
def cmpDesc {V : Type} (cmp : V → V → Int) : V → V → Int := fun a b => - cmp a b

/-- MIRROR `compare.go:23-38` `CompareNullsFirst` -/
def cmpNullsFirst {V : Type} (cmp : V → V → Int) : Option V → Option V → Int
  | none, none => 0
  | none, some _ => -1
  | some _, none => 1
  | some a, some b => cmp a b

/-- MIRROR `compare.go:44-59` `CompareNullsLast` -/
def cmpNullsLast {V : Type} (cmp : V → V → Int) : Option V → Option V → Int
  | none, none => 0
  | none, some _ => 1
  | some _, none => -1
  | some a, some b => cmp a b

/-- MIRROR `compare.go:430-442`: `Type.Compare`, wrapped by `CompareDescending` if the sorting column
    is descending, then by `CompareNullsFirst/Last`. (For a required column the library omits the
    null wrapper; its values are never null, so the wrapper is the identity there.) -/
def cmpCell {V : Type} (cmp : V → V → Int) (sc : SortCol) : Option V → Option V → Int :=
  let c := if sc.desc then cmpDesc cmp else cmp
  if sc.nullsFirst then cmpNullsFirst c else cmpNullsLast c

/-- MIRROR `compare.go:478-499` for non-repeated columns (one value per row and column): the first
    sorting column whose comparison is non-zero decides -/
def cmpRows {V : Type} (cmp : V → V → Int) : List SortCol → (Nat → Option V) → (Nat → Option V) → Int
  | [], _, _ => 0
  | sc :: rest, r1, r2 =>
    let c := cmpCell cmp sc (r1 sc.col) (r2 sc.col)
    if c ≠ 0 then c else cmpRows cmp rest r1 r2

theorem cmpCell_anti {V : Type} (o : VOrd V) (sc : SortCol) (x y : Option V) :
    cmpCell o.cmp sc y x = - cmpCell o.cmp sc x y := by
  unfold cmpCell
  cases x with
  | none => cases y <;> cases sc.desc <;> cases sc.nullsFirst <;> simp [cmpNullsFirst, cmpNullsLast]
  | some a =>
    cases y with
    | none => cases sc.desc <;> cases sc.nullsFirst <;> simp [cmpNullsFirst, cmpNullsLast]
    | some b =>
      have := o.anti a b
      cases sc.desc <;> cases sc.nullsFirst <;> simp [cmpNullsFirst, cmpNullsLast, cmpDesc] <;> omega

theorem cmpRows_anti {V : Type} (o : VOrd V) : ∀ (s : List SortCol) (r1 r2 : Nat → Option V),
    cmpRows o.cmp s r2 r1 = - cmpRows o.cmp s r1 r2
  | [], _, _ => rfl
  | sc :: rest, r1, r2 => by
    simp only [cmpRows]
    rw [cmpCell_anti o sc (r1 sc.col) (r2 sc.col), cmpRows_anti o rest r1 r2]
    by_cases h : cmpCell o.cmp sc (r1 sc.col) (r2 sc.col) = 0
    · simp [h]
    · have : ¬ (- cmpCell o.cmp sc (r1 sc.col) (r2 sc.col) = 0) := by omega
      simp [h, this]

/-! ## the column-wise `Less` agrees with the comparator -/

theorem OptCol.cell_cases {V : Type} {m : Nat} {c : OptCol V} (h : c.Inv m) {i : Nat} (hi : i < c.rows.length) :
    ∃ ri di, c.rows[i]? = some ri ∧ c.defs[i]? = some di ∧
      ((di ≠ m ∧ (Col.opt m c).val i = none) ∨
       (di = m ∧ ∃ a, c.base[ri.toNat]? = some a ∧ (Col.opt m c).val i = some a)) := by
  have hd : i < c.defs.length := by rw [← h.len]; exact hi
  refine ⟨c.rows[i], c.defs[i], List.getElem?_eq_getElem hi, List.getElem?_eq_getElem hd, ?_⟩
  have hz : (c.rows.zip c.defs)[i]? = some (c.rows[i], c.defs[i]) := by
    rw [List.getElem?_zip_eq_some]; exact ⟨List.getElem?_eq_getElem hi, List.getElem?_eq_getElem hd⟩
  have hmem : (c.rows[i], c.defs[i]) ∈ c.rows.zip c.defs := List.mem_iff_getElem?.mpr ⟨i, hz⟩
  have hl := h.lvl _ hmem
  simp only at hl
  have hval : (Col.opt m c).val i = if 0 ≤ c.rows[i] then c.base[c.rows[i].toNat]? else none := by
    simp only [Col.val, Col.view, OptCol.view, List.getElem?_map, hz, Option.map_some, Option.bind_some, cellOf]
  by_cases h0 : 0 ≤ c.rows[i]
  · right
    have hlt := h.row_lt (List.getElem_mem hi) h0
    refine ⟨hl.mpr h0, c.base[c.rows[i].toNat], List.getElem?_eq_getElem hlt, ?_⟩
    rw [hval, if_pos h0, List.getElem?_eq_getElem hlt]
  · left
    exact ⟨fun e => h0 (hl.mp e), by rw [hval, if_neg h0]⟩

theorem Col.less_agrees {V : Type} (o : VOrd V) {c : Col V} (h : c.CInv) (sc : SortCol) {i j : Nat}
    (hi : i < c.view.length) (hj : j < c.view.length) :
    Col.less o.lt sc.desc sc.nullsFirst c i j = true ↔ cmpCell o.cmp sc (c.val i) (c.val j) < 0 := by
  cases c with
  | req vals =>
    simp only [Col.view, List.length_map] at hi hj
    have vi : (Col.req vals).val i = some vals[i] := by simp [Col.val, Col.view, List.getElem?_eq_getElem hi]
    have vj : (Col.req vals).val j = some vals[j] := by simp [Col.val, Col.view, List.getElem?_eq_getElem hj]
    rw [vi, vj]
    simp only [Col.less, List.getElem?_eq_getElem hi, List.getElem?_eq_getElem hj, cmpCell]
    have h1 := o.lt_iff vals[i] vals[j]
    have h2 := o.lt_iff vals[j] vals[i]
    have h3 := o.anti vals[i] vals[j]
    cases sc.desc <;> cases sc.nullsFirst <;> simp [cmpNullsFirst, cmpNullsLast, cmpDesc, h1, h2] <;> omega
  | opt m c =>
    have hinv : c.Inv m := h
    have hl : (Col.opt m c).view.length = c.rows.length := OptCol.length_view hinv
    rw [hl] at hi hj
    obtain ⟨ri, di, e1, e2, hci⟩ := OptCol.cell_cases hinv hi
    obtain ⟨rj, dj, e3, e4, hcj⟩ := OptCol.cell_cases hinv hj
    simp only [Col.less, e1, e2, e3, e4, cmpCell]
    rcases hci with ⟨hdi, hvi⟩ | ⟨hdi, a, hbi, hvi⟩ <;> rcases hcj with ⟨hdj, hvj⟩ | ⟨hdj, b, hbj, hvj⟩
    · rw [hvi, hvj]
      cases sc.desc <;> cases sc.nullsFirst <;> simp [nullsGoFirst, nullsGoLast, cmpNullsFirst, cmpNullsLast, hdi, hdj]
    · rw [hvi, hvj]
      cases sc.desc <;> cases sc.nullsFirst <;> simp [nullsGoFirst, nullsGoLast, cmpNullsFirst, cmpNullsLast, hdi, hdj]
    · rw [hvi, hvj]
      cases sc.desc <;> cases sc.nullsFirst <;> simp [nullsGoFirst, nullsGoLast, cmpNullsFirst, cmpNullsLast, hdi, hdj]
    · rw [hvi, hvj]
      have h1 := o.lt_iff a b
      have h2 := o.lt_iff b a
      have h3 := o.anti a b
      cases sc.desc <;> cases sc.nullsFirst <;>
        simp [nullsGoFirst, nullsGoLast, cmpNullsFirst, cmpNullsLast, cmpDesc, baseLess, hdi, hdj, hbi, hbj, h1, h2] <;> omega

/-- the chain of column-wise comparisons equals the comparator on whole rows -/
theorem lessChain_agrees {V : Type} (o : VOrd V) (cols : List (Col V)) {n : Nat}
    (hinv : ∀ c ∈ cols, c.CInv ∧ c.view.length = n) {i j : Nat} (hi : i < n) (hj : j < n) :
    ∀ (s : List SortCol), (∀ sc ∈ s, sc.col < cols.length) →
    (lessChain (fun sc c => Col.less o.lt sc.desc sc.nullsFirst c) cols s i j = true ↔
      cmpRows o.cmp s (fun col => (cols[col]?).bind (fun c => c.val i)) (fun col => (cols[col]?).bind (fun c => c.val j)) < 0)
  | [], _ => by simp [lessChain, cmpRows]
  | sc :: rest, hs => by
    have hc : sc.col < cols.length := hs sc (by simp)
    have ih := lessChain_agrees o cols hinv hi hj rest (fun x hx => hs x (by simp [hx]))
    have hmem : cols[sc.col] ∈ cols := List.getElem_mem hc
    obtain ⟨ci, cl⟩ := hinv _ hmem
    have a1 := Col.less_agrees o ci sc (i := i) (j := j) (by omega) (by omega)
    have a2 := Col.less_agrees o ci sc (i := j) (j := i) (by omega) (by omega)
    rw [cmpCell_anti o sc] at a2
    simp only [lessChain, cmpRows, List.getElem?_eq_getElem hc, Option.bind_some]
    generalize cmpCell o.cmp sc (cols[sc.col].val i) (cols[sc.col].val j) = x at a1 a2 ⊢
    by_cases h1 : Col.less o.lt sc.desc sc.nullsFirst cols[sc.col] i j = true
    · have : x < 0 := a1.mp h1
      have hx : x ≠ 0 := by omega
      simp [h1, hx, this]
    · have hx1 : ¬ x < 0 := fun e => h1 (a1.mpr e)
      by_cases h2 : Col.less o.lt sc.desc sc.nullsFirst cols[sc.col] j i = true
      · have : -x < 0 := a2.mp h2
        have hx : x ≠ 0 := by omega
        simp [h1, h2, hx, hx1]
      · have hx2 : ¬ -x < 0 := fun e => h2 (a2.mpr e)
        have hx : x = 0 := by omega
        simp only [h1, h2, hx]
        simpa using ih


/-! ## whole rows move together; sorting -/

theorem Buffer.BInv.swap {V : Type} {b : Buffer V} {n : Nat} (h : b.BInv n) (i j : Nat) : (b.swap i j).BInv n := by
  intro c hc
  simp only [Buffer.swap, List.mem_map] at hc
  obtain ⟨c0, hc0, rfl⟩ := hc
  obtain ⟨h1, h2⟩ := h c0 hc0
  exact ⟨h1.swap i j, by rw [Col.view_swap h1, length_swapL, h2]⟩

theorem Buffer.BInv.run {V : Type} {n : Nat} : ∀ (ops : List (Nat × Nat)) {b : Buffer V}, b.BInv n → (b.run ops).BInv n
  | [], _, h => h
  | p :: ops, b, h => by
    simp only [Buffer.run, List.foldl_cons]
    exact Buffer.BInv.run ops (h.swap p.1 p.2)

theorem Buffer.run_sorting {V : Type} : ∀ (ops : List (Nat × Nat)) (b : Buffer V), (b.run ops).sorting = b.sorting
  | [], _ => rfl
  | p :: ops, b => by
    simp only [Buffer.run, List.foldl_cons]
    exact Buffer.run_sorting ops (b.swap p.1 p.2)

theorem Buffer.run_cols_length {V : Type} : ∀ (ops : List (Nat × Nat)) (b : Buffer V), (b.run ops).cols.length = b.cols.length
  | [], _ => rfl
  | p :: ops, b => by
    simp only [Buffer.run, List.foldl_cons]
    have := Buffer.run_cols_length ops (b.swap p.1 p.2)
    simp only [Buffer.run] at this
    rw [this]
    simp [Buffer.swap]

/-- swapping rows i and j in every column swaps whole rows: row `k` of the new buffer is row
    `tr i j k` of the old one, in all columns at once -/
theorem Buffer.fullRow_swap {V : Type} {b : Buffer V} {n : Nat} (h : b.BInv n) {i j : Nat} (hi : i < n) (hj : j < n) (k : Nat) :
    (b.swap i j).fullRow k = b.fullRow (tr i j k) := by
  simp only [Buffer.fullRow, Buffer.swap, List.map_map]
  apply List.map_congr_left
  intro c hc
  obtain ⟨h1, h2⟩ := h c hc
  simp only [Function.comp]
  rw [Col.view_swap h1, getElem?_swapL (by omega) (by omega)]

theorem Buffer.rows_swap {V : Type} {b : Buffer V} {n : Nat} (h : b.BInv n) (i j : Nat) :
    (b.swap i j).rows n = swapL (b.rows n) i j := by
  by_cases hr : i < n ∧ j < n
  · apply List.ext_getElem?
    intro k
    rw [getElem?_swapL (by simpa [Buffer.rows] using hr.1) (by simpa [Buffer.rows] using hr.2)]
    simp only [Buffer.rows, List.getElem?_map]
    have htr : tr i j k < n ↔ k < n := by unfold tr; split <;> (try split) <;> omega
    by_cases hk : k < n
    · rw [List.getElem?_range hk, List.getElem?_range (htr.mpr hk)]
      simp only [Option.map_some]
      rw [Buffer.fullRow_swap h hr.1 hr.2]
    · rw [List.getElem?_eq_none (by simpa using hk), List.getElem?_eq_none (by simp; omega)]; rfl
  · rw [swapL_oob (by simpa [Buffer.rows] using hr)]
    simp only [Buffer.rows]
    apply List.map_congr_left
    intro k _
    simp only [Buffer.fullRow, Buffer.swap, List.map_map]
    apply List.map_congr_left
    intro c hc
    obtain ⟨h1, h2⟩ := h c hc
    simp only [Function.comp]
    rw [Col.view_swap h1, swapL_oob (by omega)]

theorem Buffer.rows_run_perm {V : Type} {n : Nat} : ∀ (ops : List (Nat × Nat)) {b : Buffer V}, b.BInv n →
    ((b.run ops).rows n).Perm (b.rows n)
  | [], _, _ => List.Perm.refl _
  | p :: ops, b, h => by
    simp only [Buffer.run, List.foldl_cons]
    have ih := Buffer.rows_run_perm ops (h.swap p.1 p.2)
    refine ih.trans ?_
    rw [Buffer.rows_swap h]
    exact swapL_perm _ _ _

theorem Buffer.less_agrees {V : Type} (o : VOrd V) {b : Buffer V} {n : Nat} (h : b.BInv n)
    (hs : ∀ sc ∈ b.sorting, sc.col < b.cols.length) {i j : Nat} (hi : i < n) (hj : j < n) :
    b.less o.lt i j = true ↔ cmpRows o.cmp b.sorting (b.row i) (b.row j) < 0 :=
  lessChain_agrees o b.cols h hi hj b.sorting hs

/-! ### from adjacent to pairwise order (needs a transitive value order) -/

theorem cmpCell_trans {V : Type} (o : VOrd V) (ht : o.Trans) (sc : SortCol) (x y z : Option V) :
    cmpCell o.cmp sc x y ≤ 0 → cmpCell o.cmp sc y z ≤ 0 → cmpCell o.cmp sc x z ≤ 0 := by
  unfold cmpCell
  cases x with
  | none => cases y <;> cases z <;> cases sc.desc <;> cases sc.nullsFirst <;> simp [cmpNullsFirst, cmpNullsLast]
  | some a =>
    cases y with
    | none => cases z <;> cases sc.desc <;> cases sc.nullsFirst <;> simp [cmpNullsFirst, cmpNullsLast]
    | some b =>
      cases z with
      | none => cases sc.desc <;> cases sc.nullsFirst <;> simp [cmpNullsFirst, cmpNullsLast]
      | some c =>
        have t1 := ht a b c
        have t2 := ht c b a
        have a1 := o.anti a b
        have a2 := o.anti b c
        have a3 := o.anti a c
        cases sc.desc <;> cases sc.nullsFirst <;> simp [cmpNullsFirst, cmpNullsLast, cmpDesc] <;> omega

theorem cmpRows_trans {V : Type} (o : VOrd V) (ht : o.Trans) : ∀ (s : List SortCol) (r1 r2 r3 : Nat → Option V),
    cmpRows o.cmp s r1 r2 ≤ 0 → cmpRows o.cmp s r2 r3 ≤ 0 → cmpRows o.cmp s r1 r3 ≤ 0
  | [], _, _, _, _, _ => by simp [cmpRows]
  | sc :: rest, r1, r2, r3, h12, h23 => by
    have ih := cmpRows_trans o ht rest r1 r2 r3
    simp only [cmpRows] at h12 h23 ⊢
    have t1 := cmpCell_trans o ht sc (r1 sc.col) (r2 sc.col) (r3 sc.col)
    have t2 := cmpCell_trans o ht sc (r3 sc.col) (r1 sc.col) (r2 sc.col)
    have t3 := cmpCell_trans o ht sc (r2 sc.col) (r3 sc.col) (r1 sc.col)
    have a1 := cmpCell_anti o sc (r1 sc.col) (r2 sc.col)
    have a2 := cmpCell_anti o sc (r2 sc.col) (r3 sc.col)
    have a3 := cmpCell_anti o sc (r1 sc.col) (r3 sc.col)
    generalize cmpCell o.cmp sc (r1 sc.col) (r2 sc.col) = c12 at *
    generalize cmpCell o.cmp sc (r2 sc.col) (r3 sc.col) = c23 at *
    generalize cmpCell o.cmp sc (r1 sc.col) (r3 sc.col) = c13 at *
    generalize cmpCell o.cmp sc (r2 sc.col) (r1 sc.col) = c21 at *
    generalize cmpCell o.cmp sc (r3 sc.col) (r2 sc.col) = c32 at *
    generalize cmpCell o.cmp sc (r3 sc.col) (r1 sc.col) = c31 at *
    by_cases e12 : c12 = 0 <;> by_cases e23 : c23 = 0 <;> by_cases e13 : c13 = 0 <;>
      simp only [e12, e23, e13, ne_eq, not_true_eq_false, not_false_eq_true, if_true, if_false] at h12 h23 ⊢ <;>
      first | exact ih h12 h23 | omega

theorem sorted_of_adjacent {α : Type} (le : α → α → Prop) (htr : ∀ a b c, le a b → le b c → le a c)
    (f : Nat → α) (n : Nat) (hadj : ∀ i, i + 1 < n → le (f i) (f (i + 1))) :
    ∀ d i, i + d + 1 < n → le (f i) (f (i + d + 1))
  | 0, i, h => hadj i h
  | d + 1, i, h => htr _ _ _ (sorted_of_adjacent le htr f n hadj d i (by omega)) (by
      have := hadj (i + d + 1) (by omega)
      rwa [show i + d + 1 + 1 = i + (d + 1) + 1 by omega] at this)


end PqModel.SortBuf
