import PqModel.Aad

/-! # Modular encryption: the page reader at the level of its API

MIRROR of `FilePages.ReadPage` / `SeekToRow` / `ReadDictionary` (file.go:1180-1366, 1614-1726) on an
encrypted column chunk, as COMPOSITIONS of the steps of `Aad.rstep` (one `readEncryptedPage`, the
cached-page preamble, the out-of-band `readDictionary`, the two kinds of seek), with the two pieces
of state that decide WHICH modules one API call opens and which `rstep` leaves to its caller:

* `skip`       = `f.skip`: rows still to be skipped after a seek — without an offset index a seek
                 rewinds to the first data page and `ReadPage` opens (and drops) every page before
                 the target row;
* `dictLoaded` = `f.dictionary != nil`: a dictionary-encoded data page decoded while no dictionary
                 is loaded makes `readDataPageV1/V2` call `readDictionary` (file.go:1447, 1459) — the
                 out-of-band read of the dictionary modules, which happens exactly when the reader
                 did not meet the dictionary page on the stream (a seek into a later page; any seek
                 on a file opened with `SkipPageIndex`).

What is a fact of the FILE and not of the reader is in `PChunk`: rows per data page, which data
pages are dictionary-encoded (a chunk falls back to PLAIN when the dictionary grows too large), and
whether an offset index is loaded. The result of a call (`PRes`) is what a caller can observe: which
data page it got and how many of its rows were cut off in front. -/
namespace PqModel.Aad

structure PChunk where
  c : Chunk
  rows : List Nat         -- rows of every data page, in order (`c.npages` entries)
  dictEnc : List Bool     -- data page i is dictionary-encoded
  indexed : Bool          -- `f.chunk.offsetIndex.Load() != nil`

structure PSt where
  r : RSt
  skip : Nat
  dictLoaded : Bool
deriving Repr

inductive POp where
  | readPage
  | seek (row : Nat)
  | readDictionary
deriving DecidableEq, Repr

/-- what the caller sees -/
inductive PRes where
  | page (i : Nat) (cut : Nat)   -- data page `i` without its first `cut` rows
  | eof
  | done                           -- SeekToRow / ReadDictionary returned nil
deriving DecidableEq, Repr

def pinit (pc : PChunk) : PSt := { r := rinit pc.c, skip := 0, dictLoaded := false }

/-- the loop of `readPageInSequence` (file.go:1238-1365); `fuel` bounds the iterations (one per
    page of the chunk and one for the dictionary page) -/
def readLoop (pc : PChunk) : Nat → PSt → PSt × PRes
  | 0, s => (s, .eof)
  | fuel + 1, s =>
    match s.r.pos with
    | .dict =>
      -- 1246-1254, 1295-1312: the dictionary page on the stream is opened, decoded unless a
      -- dictionary is loaded already, and the loop continues
      readLoop pc fuel { s with r := rstep pc.c s.r .step, dictLoaded := true }
    | .data i =>
      if i < pc.c.npages then
        let r1 := rstep pc.c s.r .step
        -- 1443-1465: a dictionary-encoded page without a loaded dictionary reads it out of band
        let lazy := pc.dictEnc.getD i false && !s.dictLoaded
        let r2 := if lazy then rstep pc.c r1 .readDict else r1
        let dl := s.dictLoaded || lazy
        if s.skip = 0 then ({ r := r2, skip := 0, dictLoaded := dl }, .page i 0)       -- 1324-1349
        else
          let n := pc.rows.getD i 0
          if n ≤ s.skip then readLoop pc fuel { r := r2, skip := s.skip - n, dictLoaded := dl }  -- 1354-1355, 1363
          else ({ r := r2, skip := 0, dictLoaded := dl }, .page i s.skip)              -- 1356-1361
      else (s, .eof)   -- the length read of the next envelope meets the end of the chunk

/-- `ReadPage` (file.go:1190-1236): the cached-page preamble, then the loop -/
def readPage (pc : PChunk) (s : PSt) : PSt × PRes :=
  match s.r.serve, s.r.last with
  | true, some li =>
    let s1 : PSt := { s with r := rstep pc.c s.r .serveLast }
    let n := pc.rows.getD li 0
    if s.skip < n then ({ s1 with skip := 0 }, .page li s.skip)
    else readLoop pc (pc.c.npages + 2) { s1 with skip := s.skip - n }
  | _, _ => readLoop pc (pc.c.npages + 2) s

/-- first row of data page `i` -/
def firstRow (rows : List Nat) (i : Nat) : Nat := (rows.take i).foldl (· + ·) 0

/-- `sort.Search(len(pages), FirstRowIndex > row) - 1` (file.go:1664-1666) for `npages ≥ 1`: the
    last page whose first row is ≤ row -/
def targetPage (rows : List Nat) (row : Nat) : Nat :=
  ((List.range rows.length).filter (fun i => firstRow rows i ≤ row)).getLast?.getD 0

/-- `SeekToRow` (file.go:1614-1726), on a chunk with at least one data page -/
def seek (pc : PChunk) (s : PSt) (row : Nat) : PSt :=
  if pc.indexed then
    let t := targetPage pc.rows row
    { s with r := rstep pc.c s.r (.seekIndexed t), skip := row - firstRow pc.rows t }
  else
    { s with r := rstep pc.c s.r .seekNoIndex, skip := row }

/-- `ReadDictionary` (file.go:1180-1187) -/
def readDictionary (pc : PChunk) (s : PSt) : PSt :=
  if !s.dictLoaded && pc.c.hasDict then { s with r := rstep pc.c s.r .readDict, dictLoaded := true }
  else s

def pstep (pc : PChunk) (s : PSt) : POp → PSt × PRes
  | .readPage => readPage pc s
  | .seek row => (seek pc s row, .done)
  | .readDictionary => (readDictionary pc s, .done)

/-- a history of API calls: final state, and per call the result with the number of modules the
    reader has opened so far (so that the call that opens a given module can be named) -/
def prunFrom (pc : PChunk) : PSt → List POp → List (PRes × Nat) → PSt × List (PRes × Nat)
  | s, [], acc => (s, acc.reverse)
  | s, o :: ops, acc =>
    let (s', res) := pstep pc s o
    prunFrom pc s' ops ((res, s'.r.log.length) :: acc)

def prun (pc : PChunk) (ops : List POp) : PSt × List (PRes × Nat) := prunFrom pc (pinit pc) ops []

/-! ## Every module an API history opens is opened with the AAD arguments of its slot -/

theorem readLoop_inv (pc : PChunk) (fuel : Nat) : ∀ s : PSt, RInv s.r → RInv (readLoop pc fuel s).1.r := by
  induction fuel with
  | zero => intro s h; exact h
  | succ fuel ih =>
    intro s h
    unfold readLoop
    split
    · exact ih _ (rinv_step pc.c h .step)
    · next i _ =>
      split
      · have h1 := rinv_step pc.c h .step
        have h2 : RInv (if (pc.dictEnc.getD i false && !s.dictLoaded) = true then rstep pc.c (rstep pc.c s.r .step) .readDict
                        else rstep pc.c s.r .step) := by
          split
          · exact rinv_step pc.c h1 .readDict
          · exact h1
        simp only []
        split
        · exact h2
        · split
          · exact ih _ h2
          · exact h2
      · exact h

theorem readPage_inv (pc : PChunk) (s : PSt) (h : RInv s.r) : RInv (readPage pc s).1.r := by
  unfold readPage
  split
  · simp only []
    split
    · exact rinv_step pc.c h .serveLast
    · exact readLoop_inv pc _ _ (rinv_step pc.c h .serveLast)
  · exact readLoop_inv pc _ _ h

theorem pstep_inv (pc : PChunk) (s : PSt) (o : POp) (h : RInv s.r) : RInv (pstep pc s o).1.r := by
  cases o with
  | readPage => exact readPage_inv pc s h
  | seek row =>
    simp only [pstep, seek]
    split
    · exact rinv_step pc.c h (.seekIndexed _)
    · exact rinv_step pc.c h .seekNoIndex
  | readDictionary =>
    simp only [pstep, readDictionary]
    split
    · exact rinv_step pc.c h .readDict
    · exact h

theorem prunFrom_inv (pc : PChunk) (ops : List POp) : ∀ (s : PSt) (acc : List (PRes × Nat)), RInv s.r →
    RInv (prunFrom pc s ops acc).1.r := by
  induction ops with
  | nil => intro s acc h; exact h
  | cons o ops ih =>
    intro s acc h
    simp only [prunFrom]
    exact ih _ _ (pstep_inv pc s o h)

theorem prun_inv (pc : PChunk) (ops : List POp) : RInv (prun pc ops).1.r :=
  prunFrom_inv pc ops _ _ (rinv_init pc.c)

end PqModel.Aad
