/-! # get → use → put under concurrency: `memory.Pool` as used by `compress.Compressor`,
`compress.Decompressor` and `Schema.Reconstruct`

MIRROR of the pool protocol (internal/memory/pool.go:11-25: `Get` = `sync.Pool.Get`, then `newT()` if
it returned nil, else `resetT(v)`; `Put` = `sync.Pool.Put`) and of the three call sites, each as a
*program*: the sequence of touches of the pooled object and of `Put` that one call performs after
its `Get`:

* `Compressor.Encode` (compress/compress.go:58-88) — `encodeProg`
* `Decompressor.Decode` (compress/compress.go:99-156) — `decodeProg`
* `Schema.Reconstruct` (schema.go:370-403, pool at schema.go:422-437) — `reconstructProg`

k goroutines each run one program; all interleavings of their atomic steps. `sync.Pool` is a bag:
`Get` may return ANY pooled object or nothing (per-P caches, GC), the GC may drop pooled objects.
What the Go memory model adds on top (a touch that overlaps a touch by another goroutine is a data
race) is not modelled; the model says who may still touch which object. -/
namespace PqModel.PoolProto

inductive Op where
  | use  -- a read or write of the pooled object's state
  | put  -- Pool.Put(obj)
deriving DecidableEq, Repr

/-- one goroutine -/
inductive GS where
  | start (prog : List Op)                -- before Pool.Get
  | holding (obj : Nat) (rest : List Op)  -- between Get and Put
  | released (obj : Nat) (rest : List Op) -- after Put, still holding the pointer
  | done
deriving DecidableEq, Repr

structure St where
  pool : List Nat     -- the objects inside sync.Pool
  fresh : Nat         -- allocation counter
  gs : List GS
deriving DecidableEq, Repr

def init (progs : List (List Op)) : St := { pool := [], fresh := 0, gs := progs.map .start }

inductive Step : St → St → Prop where
  /-- pool.go:12-14: `sync.Pool.Get` returned nil, `newT()` allocates -/
  | getNew {s} {i : Nat} {p} : s.gs[i]? = some (.start p) →
      Step s { s with gs := s.gs.set i (.holding s.fresh p), fresh := s.fresh + 1 }
  /-- pool.go:12,15-16: `sync.Pool.Get` returned a pooled object (any one); `resetT` is the
      program's first touch -/
  | getPooled {s} {i : Nat} {p o} : s.gs[i]? = some (.start p) → o ∈ s.pool →
      Step s { s with gs := s.gs.set i (.holding o p), pool := s.pool.erase o }
  /-- the owner touches the object -/
  | use {s} {i : Nat} {o r} : s.gs[i]? = some (.holding o (.use :: r)) →
      Step s { s with gs := s.gs.set i (.holding o r) }
  /-- pool.go:21-24 -/
  | put {s} {i : Nat} {o r} : s.gs[i]? = some (.holding o (.put :: r)) →
      Step s { s with gs := s.gs.set i (.released o r), pool := o :: s.pool }
  /-- the call returns without putting the object back (Decode's error paths, compress.go:115-118,
      125-127): the object is garbage -/
  | finishHolding {s} {i : Nat} {o} : s.gs[i]? = some (.holding o []) →
      Step s { s with gs := s.gs.set i .done }
  | finishReleased {s} {i : Nat} {o} : s.gs[i]? = some (.released o []) →
      Step s { s with gs := s.gs.set i .done }
  /-- a touch AFTER the put: what a program with a put before its last use does -/
  | useAfterPut {s} {i : Nat} {o r} : s.gs[i]? = some (.released o (.use :: r)) →
      Step s { s with gs := s.gs.set i (.released o r) }
  /-- a second put of the same object -/
  | putAfterPut {s} {i : Nat} {o r} : s.gs[i]? = some (.released o (.put :: r)) →
      Step s { s with gs := s.gs.set i (.released o r), pool := o :: s.pool }
  /-- the GC empties (part of) the pool -/
  | gc {s o} : o ∈ s.pool → Step s { s with pool := s.pool.erase o }

inductive Reach (progs : List (List Op)) : St → Prop where
  | init : Reach progs (init progs)
  | step {s s'} : Reach progs s → Step s s' → Reach progs s'

/-- the discipline: no touch and no second put after the put -/
def disc : List Op → Bool
  | [] => true
  | .use :: r => disc r
  | .put :: r => r.isEmpty

/-- goroutine state `g` may still touch object `o` -/
def Touches (g : GS) (o : Nat) : Prop :=
  match g with
  | .holding o' _ => o' = o
  | .released o' r => o' = o ∧ Op.use ∈ r
  | _ => False

instance (g : GS) (o : Nat) : Decidable (Touches g o) := by
  unfold Touches; split <;> infer_instance

/-- at most one goroutine may touch an object -/
def Exclusive (s : St) : Prop :=
  ∀ (i j : Nat) gi gj o, i ≠ j → s.gs[i]? = some gi → s.gs[j]? = some gj → Touches gi o → ¬ Touches gj o

/-- an object inside the pool is touched by nobody -/
def PoolQuiet (s : St) : Prop :=
  ∀ (i : Nat) g o, s.gs[i]? = some g → Touches g o → o ∉ s.pool

/-- the put is the last thing the owner does with the object -/
def PutLast (s : St) : Prop :=
  ∀ (i : Nat) o r, s.gs[i]? = some (.released o r) → r = []

/-- the invariant behind `pool_exclusive` -/
structure PInv (s : St) : Prop where
  hold_excl : ∀ (i j : Nat) o r r', i ≠ j → s.gs[i]? = some (.holding o r) → s.gs[j]? = some (.holding o r') → False
  hold_out : ∀ (i : Nat) o r, s.gs[i]? = some (.holding o r) → o ∉ s.pool ∧ o < s.fresh
  pool_nodup : s.pool.Nodup
  pool_lt : ∀ o, o ∈ s.pool → o < s.fresh
  d_start : ∀ (i : Nat) p, s.gs[i]? = some (.start p) → disc p = true
  d_hold : ∀ (i : Nat) o r, s.gs[i]? = some (.holding o r) → disc r = true
  d_rel : ∀ (i : Nat) o r, s.gs[i]? = some (.released o r) → r = []

theorem pinv_init {progs : List (List Op)} (hd : ∀ p ∈ progs, disc p = true) : PInv (init progs) := by
  constructor <;> simp [init, List.getElem?_map]
  intro i p hx
  exact hd p (List.mem_of_getElem? hx)

theorem pinv_step {s s'} (hi : PInv s) (h : Step s s') : PInv s' := by
  obtain ⟨h1, h2, h3, h4, h5, h6, h7⟩ := hi
  cases h
  case getNew i p hs =>
    constructor <;> simp only [List.getElem?_set] <;> grind
  case getPooled i p o hs ho =>
    have hm : ∀ a, a ∈ s.pool.erase o ↔ a ≠ o ∧ a ∈ s.pool := fun a => h3.mem_erase_iff
    have hn := h3.erase o
    constructor <;> simp only [List.getElem?_set] <;> grind
  case use i o r hs =>
    have := h6 i o _ hs
    constructor <;> simp only [List.getElem?_set] <;> grind [disc]
  case put i o r hs =>
    have := h6 i o _ hs
    have := h2 i o _ hs
    constructor <;> simp only [List.getElem?_set] <;> grind [disc, List.nodup_cons, List.isEmpty_iff]
  case finishHolding i o hs =>
    constructor <;> simp only [List.getElem?_set] <;> grind
  case finishReleased i o hs =>
    constructor <;> simp only [List.getElem?_set] <;> grind
  case useAfterPut i o r hs =>
    have := h7 i o _ hs; cases this
  case putAfterPut i o r hs =>
    have := h7 i o _ hs; cases this
  case gc o ho =>
    have hm : ∀ a, a ∈ s.pool.erase o ↔ a ≠ o ∧ a ∈ s.pool := fun a => h3.mem_erase_iff
    have hn := h3.erase o
    constructor <;> grind

theorem pinv_reach {progs s} (hd : ∀ p ∈ progs, disc p = true) (h : Reach progs s) : PInv s := by
  induction h with
  | init => exact pinv_init hd
  | step _ hs ih => exact pinv_step ih hs

theorem pinv_exclusive {s} (hi : PInv s) : Exclusive s ∧ PoolQuiet s ∧ PutLast s := by
  refine ⟨?_, ?_, hi.d_rel⟩
  · intro i j gi gj o hij hgi hgj ti tj
    cases gi <;> simp only [Touches] at ti
    case holding o1 r1 =>
      subst ti
      cases gj <;> simp only [Touches] at tj
      case holding o2 r2 => subst tj; exact hi.hold_excl i j _ _ _ hij hgi hgj
      case released o2 r2 => have := hi.d_rel j _ _ hgj; subst this; simp at tj
    case released o1 r1 => have := hi.d_rel i _ _ hgi; subst this; simp at ti
  · intro i g o hg t
    cases g <;> simp only [Touches] at t
    case holding o1 r1 => subst t; exact (hi.hold_out i _ _ hg).1
    case released o1 r1 => have := hi.d_rel i _ _ hg; subst this; simp at t

/-! ## The three call sites (MIRROR) -/

/-- `Compressor.Encode`, compress/compress.go:58-88: reset closure (:69-72, run by Get on a pooled
    writer), `Write` (:81), `Close` (:84), `output.Bytes()` (:82/85/87), then the deferred closure:
    `w.output = …` (:76), `w.writer.Reset(io.Discard)` (:77), `Put` (:78) -/
def encodeProg : List Op := [.use, .use, .use, .use, .use, .use, .put]

/-- `Decompressor.Decode`, compress/compress.go:99-156: reset closure (:110-113), `n` calls of
    `Read` (:140), then the deferred closure: `input.Reset(nil)` (:121); on success
    `reader.Reset(nil)` (:128) and `Put` (:129); after a decode error (:125-127) or a failed
    constructor/Reset (:115-118) the reader is NOT put back -/
def decodeProg (n : Nat) (ok : Bool) : List Op :=
  .use :: List.replicate n .use ++ (if ok then [.use, .use, .put] else [.use])

/-- `Schema.Reconstruct`, schema.go:388-402: reset closure (:435), `reserve` (:392), filling
    `columns` (:393-398, `n` writes), `funcs.reconstruct` reading `columns` (:400), `release` (:401) -/
def reconstructProg (n : Nat) : List Op :=
  .use :: .use :: List.replicate n .use ++ [.use, .put]

theorem disc_replicate_append (n : Nat) (r : List Op) : disc (List.replicate n .use ++ r) = disc r := by
  induction n with
  | zero => rfl
  | succ n ih => simp [List.replicate_succ, disc, ih]

theorem encodeProg_disc : disc encodeProg = true := by decide

theorem decodeProg_disc (n : Nat) (ok : Bool) : disc (decodeProg n ok) = true := by
  cases ok <;> simp [decodeProg, disc, disc_replicate_append]

theorem reconstructProg_disc (n : Nat) : disc (reconstructProg n) = true := by
  simp [reconstructProg, disc, disc_replicate_append]

/-! ## The two slips (put before the last use) -/

/-- `Encode` with `defer c.writers.Put(w)` registered after the cleanup closure (defers run LIFO):
    the writer is put back first, then `w.output = …` and `w.writer.Reset(io.Discard)` run -/
def encodeSlip : List Op := [.use, .use, .use, .use, .put, .use, .use]

/-- `Reconstruct` with `b.release()` moved in front of `funcs.reconstruct` -/
def reconstructSlip (n : Nat) : List Op :=
  .use :: .use :: List.replicate n .use ++ [.put, .use]

/-! ## The row reader's page buffers (MIRROR of column_chunk.go:84-157, row_group.go:218-231, buffer.go:604-618)

The values buffer of a decoded page comes from the process-wide `buffers` pool. A
`columnChunkValueReader` holds one page at a time; `ReadValues` hands out `Value`s which, for
BYTE_ARRAY / FIXED_LEN_BYTE_ARRAY columns, point INTO that buffer, and the rows built from them
stay with the caller. The reader lets go of the page in `clear()` — reached from `ReadValues` at the
end of the page (:138), `SeekToRow` (:152), `Reset` (:109) and `Close` (:119). For byte-array
columns `newRowGroupRows` sets `detach` (row_group.go:228) and `clear` calls
`releaseAndDetachValues`: the values buffer is NOT put back (left to the GC), so the caller's rows
stay valid "past the page lifetime" (buffer.go:690-704). For the other column kinds the `Value`s are
copies and `clear` puts the buffer back.

As a program on the values buffer of one page: `nRead + 1` touches while the page is decoded and
read, the release action of the path that ends the page, then `nKept` touches by the caller through
the rows it kept (only byte-array columns: the rows of other columns do not reference the buffer).
`honours` says whether the release path honours `detach`. -/
def rowReaderProg (byteArray honours : Bool) (nRead nKept : Nat) : List Op :=
  .use :: List.replicate nRead .use ++
    (if byteArray then
      (if honours then List.replicate nKept .use else .put :: List.replicate nKept .use)
    else [.put])

theorem disc_replicate_use (n : Nat) : disc (List.replicate n .use) = true := by
  induction n with
  | zero => rfl
  | succ n ih => simp [List.replicate_succ, disc, ih]

/-- every release path that honours `detach` respects the discipline, whatever the caller keeps -/
theorem rowReaderProg_disc (byteArray : Bool) (nRead nKept : Nat) :
    disc (rowReaderProg byteArray true nRead nKept) = true := by
  cases byteArray <;> simp [rowReaderProg, disc, disc_replicate_append, disc_replicate_use]

/-- a release path that ignores `detach` does not, as soon as the caller keeps one row -/
theorem rowReaderSlip_disc (nRead nKept : Nat) :
    disc (rowReaderProg true false nRead (nKept + 1)) = false := by
  simp [rowReaderProg, disc, disc_replicate_append, List.replicate_succ]

/-! ## Page wrappers between the row reader and the buffer (MIRROR of convert.go:1117-1190)

A row reader assembled from `ColumnChunks()` of a VIEW of row groups does not hold the decoded page
itself but a wrapper around it: `ConvertRowGroup` installs a `convertedPage` for every column whose
index differs between source and target (it re-numbers the values), and views nest. `clear()` calls
`releaseAndDetachValues` on the outermost wrapper; the values buffer is left to the GC only if EVERY
wrapper on the way passes the request on as `releaseAndDetachValues(p.page)`. A wrapper that answers
with a plain `Release(p.page)` (or has no `ReleaseAndDetachValues` at all: `releaseAndDetachValues`
then does nothing and `Release` would) turns the request into a put. `wrappers` lists, from the
outside in, whether each wrapper forwards the detach. -/
def chainHonours (wrappers : List Bool) : Bool := wrappers.all id

def viewReaderProg (wrappers : List Bool) (byteArray : Bool) (nRead nKept : Nat) : List Op :=
  rowReaderProg byteArray (chainHonours wrappers) nRead nKept

/-- no wrappers: the row reader over the file's own column chunks -/
theorem viewReaderProg_nil (byteArray : Bool) (nRead nKept : Nat) :
    viewReaderProg [] byteArray nRead nKept = rowReaderProg byteArray true nRead nKept := rfl

theorem viewReaderProg_disc (wrappers : List Bool) (h : ∀ w ∈ wrappers, w = true)
    (byteArray : Bool) (nRead nKept : Nat) :
    disc (viewReaderProg wrappers byteArray nRead nKept) = true := by
  have hc : chainHonours wrappers = true := by
    simp only [chainHonours, List.all_eq_true]
    intro w hw; simp [h w hw]
  simp only [viewReaderProg, hc]
  exact rowReaderProg_disc _ _ _

/-- one wrapper anywhere in the chain that does not forward the detach is enough -/
theorem viewReaderSlip_disc (wrappers : List Bool) (h : false ∈ wrappers) (nRead nKept : Nat) :
    disc (viewReaderProg wrappers true nRead (nKept + 1)) = false := by
  have hc : chainHonours wrappers = false := by
    simp only [chainHonours, List.all_eq_false]
    exact ⟨false, h, by simp⟩
  simp only [viewReaderProg, hc]
  exact rowReaderSlip_disc _ _

end PqModel.PoolProto
